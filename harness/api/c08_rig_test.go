//go:build verif

package api

// C08 rig: deterministic universes of CIDs, peer IDs and multiaddresses, the harness's own
// field-by-field printers (Go value -> Gallina term of coq/Model/C08_*.v) and the JSON input forms.
// Injected by overlay into package api; never part of /repo.

import (
	"encoding/hex"
	"fmt"
	"sort"
	"strconv"
	"strings"
	"time"

	cid "github.com/ipfs/go-cid"
	peer "github.com/libp2p/go-libp2p-core/peer"
	multiaddr "github.com/multiformats/go-multiaddr"
	mh "github.com/multiformats/go-multihash"
)

var (
	vc08Cids  []cid.Cid
	vc08Peers []peer.ID
	vc08Addrs []multiaddr.Multiaddr
	// byte strings no parser accepts (used for the "rejected" token class; classification is always
	// re-done with the real parser, these are only the raw material)
	vc08Junk [][]byte
)

func vc08Must(err error) {
	if err != nil {
		panic(err)
	}
}

func vc08Init() {
	if len(vc08Cids) > 0 {
		return
	}
	sum := func(s string, code uint64) mh.Multihash {
		h, err := mh.Sum([]byte(s), code, -1)
		vc08Must(err)
		return h
	}
	// CIDs of both versions, several codecs and hash functions
	vc08Cids = []cid.Cid{
		cid.NewCidV0(sum("c0", mh.SHA2_256)),
		cid.NewCidV0(sum("c1", mh.SHA2_256)),
		cid.NewCidV1(cid.Raw, sum("c2", mh.SHA2_256)),
		cid.NewCidV1(cid.DagProtobuf, sum("c3", mh.SHA2_256)),
		cid.NewCidV1(cid.DagCBOR, sum("c4", mh.SHA2_512)),
		cid.NewCidV1(cid.Raw, sum("c5-identity", mh.IDENTITY)),
		cid.NewCidV1(cid.DagProtobuf, sum("c6", mh.SHA3_256)),
		cid.NewCidV0(sum("c7", mh.SHA2_256)),
	}
	// peer IDs: sha256 multihashes ("Qm...") and identity multihashes of an ed25519 public key ("12D3KooW...")
	for i := 0; i < 4; i++ {
		vc08Peers = append(vc08Peers, peer.ID(sum("peer"+strconv.Itoa(i), mh.SHA2_256)))
	}
	for i := 0; i < 4; i++ {
		key := append([]byte{0x08, 0x01, 0x12, 0x20}, []byte(sum("key"+strconv.Itoa(i), mh.SHA2_256))[2:]...)
		h, err := mh.Sum(key, mh.IDENTITY, -1)
		vc08Must(err)
		vc08Peers = append(vc08Peers, peer.ID(h))
	}
	for _, p := range vc08Peers {
		if _, err := peer.IDFromBytes([]byte(p)); err != nil {
			panic(err)
		}
	}
	mk := func(s string) multiaddr.Multiaddr {
		m, err := multiaddr.NewMultiaddr(s)
		vc08Must(err)
		return m
	}
	vc08Addrs = []multiaddr.Multiaddr{
		mk("/ip4/10.1.2.3/tcp/4001/p2p/" + peer.Encode(vc08Peers[0])),
		mk("/ip6/2001:db8::1/tcp/9096/p2p/" + peer.Encode(vc08Peers[4])),
		mk("/dns4/cluster.example.org/tcp/443/p2p/" + peer.Encode(vc08Peers[1])),
		mk("/ip4/192.168.0.7/udp/4001/quic/p2p/" + peer.Encode(vc08Peers[5])),
		mk("/p2p/" + peer.Encode(vc08Peers[2])),
		mk("/ip4/127.0.0.1/tcp/4001"), // no peer ID: FromQuery refuses it
		mk("/dns6/a.b/tcp/1/ws/p2p/" + peer.Encode(vc08Peers[6])),
		mk("/ip4/1.1.1.1/tcp/65535/p2p/" + peer.Encode(vc08Peers[3]) + "/p2p-circuit/p2p/" + peer.Encode(vc08Peers[7])),
	}
	vc08Junk = [][]byte{
		{0x00},
		{0x01, 0x02, 0x03},
		[]byte("not-bytes-of-anything"),
		append(append([]byte{}, vc08Cids[0].Bytes()...), 0x00), // valid CID + trailing byte
		vc08Cids[2].Bytes()[:10],                               // truncated CID
		{0x12, 0x20, 0x01},                                     // truncated multihash
		{0xff, 0xff, 0xff, 0xff, 0xff, 0xff, 0xff, 0xff, 0xff, 0xff, 0x01},
		[]byte(vc08Peers[0])[:20],
	}
	for _, c := range vc08Cids {
		vc08Intern(c.String())
	}
	for _, p := range vc08Peers {
		vc08Intern(peer.Encode(p))
	}
	for _, a := range vc08Addrs {
		vc08Intern(a.String())
	}
	for _, j := range vc08Junk {
		vc08Intern(hex.EncodeToString(j))
		vc08Intern(peer.Encode(peer.ID(j)))
	}
}

func vc08Clamp(i, n int) int {
	if n <= 0 {
		return 0
	}
	if i < 0 {
		i = -i
	}
	return i % n
}

// ---------------------------------------------------------------- Coq printing
// long universe texts are defined once in the header of a cases file and referred to by name
// (Coq elaborates string literals slowly)
var vc08Names = map[string]string{}
var vc08NameDefs []string

func vc08Intern(s string) {
	if _, ok := vc08Names[s]; ok || len(s) < 8 {
		return
	}
	n := "u" + strconv.Itoa(len(vc08Names))
	vc08NameDefs = append(vc08NameDefs, "Definition "+n+" := "+vc08Str(s)+".")
	vc08Names[s] = n
}

func vc08Header() string {
	return "From V Require Import Base.Common Base.C08_Str Model.C08_Codec Model.C08_Query Model.C08_Status Base.C08_Schema Model.C08_Fmap Model.C08_Equals Model.C08_Wire Model.C08_Reuse Model.C08_AddParams Model.C08_Check.\nOpen Scope string_scope.\nOpen Scope N_scope.\n" +
		strings.Join(vc08NameDefs, "\n")
}

func vc08Str(s string) string {
	if n, ok := vc08Names[s]; ok {
		return n
	}
	plain := true
	for i := 0; i < len(s); i++ {
		if s[i] < 0x20 || s[i] > 0x7e {
			plain = false
			break
		}
	}
	if plain {
		return "\"" + strings.ReplaceAll(s, "\"", "\"\"") + "\""
	}
	bs := make([]string, len(s))
	for i := 0; i < len(s); i++ {
		bs[i] = strconv.Itoa(int(s[i]))
	}
	return "(sb [" + strings.Join(bs, ";") + "])"
}

func vc08Z(i int64) string { return "(" + strconv.FormatInt(i, 10) + ")%Z" }
func vc08N(u uint64) string { return strconv.FormatUint(u, 10) }

// token classes are decided by the real parsers
func vc08TokCid(b []byte) string {
	if len(b) == 0 {
		return "TEmpty"
	}
	if c, err := cid.Cast(b); err == nil {
		return "(TOk " + vc08Str(c.String()) + ")"
	}
	return "(TBad " + vc08Str(hex.EncodeToString(b)) + ")"
}

func vc08TokPeer(b []byte) string {
	if len(b) == 0 {
		return "TEmpty"
	}
	if p, err := peer.IDFromBytes(b); err == nil {
		return "(TOk " + vc08Str(peer.Encode(p)) + ")"
	}
	return "(TBad " + vc08Str(peer.Encode(peer.ID(b))) + ")"
}

func vc08TokAddr(b []byte) string {
	if len(b) == 0 {
		return "TEmpty"
	}
	if m, err := multiaddr.NewMultiaddrBytes(b); err == nil {
		return "(TOk " + vc08Str(m.String()) + ")"
	}
	return "(TBad " + vc08Str(hex.EncodeToString(b)) + ")"
}

func vc08Cid(c cid.Cid) string {
	if !c.Defined() {
		return "None"
	}
	return "(Some " + vc08Str(c.String()) + ")"
}

func vc08Time(t time.Time) string {
	if t.IsZero() {
		return "None"
	}
	return fmt.Sprintf("(Some (%s, %d))", vc08Z(t.Unix()), t.Nanosecond())
}

func vc08Peers2(ps []peer.ID) string {
	out := make([]string, len(ps))
	for i, p := range ps {
		out[i] = vc08TokPeer([]byte(p))
	}
	return cqList(out)
}

func vc08Meta(m map[string]string) string {
	keys := make([]string, 0, len(m))
	for k := range m {
		keys = append(keys, k)
	}
	sort.Strings(keys)
	out := make([]string, len(keys))
	for i, k := range keys {
		out[i] = "(" + vc08Str(k) + ", " + vc08Str(m[k]) + ")"
	}
	return cqList(out)
}

func vc08Origins(os []multiaddr.Multiaddr) string {
	out := make([]string, len(os))
	for i, o := range os {
		if o == nil {
			out[i] = "\"<nil>\""
			continue
		}
		out[i] = vc08Str(o.String())
	}
	return cqList(out)
}

func vc08OptsTerm(o *PinOptions) string {
	return fmt.Sprintf("(mk_opts %s %s %s %s %s %s %s %s %s %s)", vc08Z(int64(o.ReplicationFactorMin)), vc08Z(int64(o.ReplicationFactorMax)),
		vc08Str(o.Name), vc08Z(int64(o.Mode)), vc08N(o.ShardSize), vc08Peers2(o.UserAllocations), vc08Time(o.ExpireAt),
		vc08Meta(o.Metadata), vc08Cid(o.PinUpdate), vc08Origins(o.Origins))
}

func vc08PinTerm(p *Pin) string {
	ref := "None"
	if p.Reference != nil {
		ref = "(Some " + vc08Cid(*p.Reference) + ")"
	}
	return fmt.Sprintf("(mk_pin %s %s %s %s %s %s)", vc08OptsTerm(&p.PinOptions), vc08Cid(p.Cid), vc08N(uint64(p.Type)),
		vc08Peers2(p.Allocations), vc08Z(int64(p.MaxDepth)), ref)
}

// ---------------------------------------------------------------- JSON input forms (sufficient to rebuild the value)
type vc08OptsIn struct {
	Rmin   int64      `json:"rmin"`
	Rmax   int64      `json:"rmax"`
	Name   []byte     `json:"name"`
	Mode   int        `json:"mode"`
	Shard  uint64     `json:"shard"`
	UA     []int      `json:"ua"`     // peer index; negative: -1 empty ID, <= -2 junk bytes
	Exp    []int64    `json:"exp"`    // [] = zero time, [sec, nsec]
	Meta   [][][]byte `json:"meta"`   // list of [key, value]
	Update int        `json:"update"` // cid index, -1 = undefined
	Orig   []int      `json:"orig"`   // address indices
}

type vc08PinIn struct {
	Opts   vc08OptsIn `json:"opts"`
	Cid    int        `json:"cid"`
	Type   uint64     `json:"type"`
	Allocs []int      `json:"allocs"`
	Depth  int64      `json:"depth"`
	Ref    []int      `json:"ref"` // [] = nil pointer, [-1] = pointer to the undefined CID, [i]
}

func vc08PeerOf(i int) peer.ID {
	switch {
	case i >= 0:
		return vc08Peers[vc08Clamp(i, len(vc08Peers))]
	case i == -1:
		return peer.ID("")
	default:
		return peer.ID(vc08Junk[vc08Clamp(-i-2, len(vc08Junk))])
	}
}

func vc08CidOf(i int) cid.Cid {
	if i < 0 {
		return cid.Undef
	}
	return vc08Cids[vc08Clamp(i, len(vc08Cids))]
}

func vc08TimeOf(e []int64) time.Time {
	if len(e) < 2 {
		return time.Time{}
	}
	ns := e[1]
	if ns < 0 {
		ns = -ns
	}
	return time.Unix(e[0], ns%1000000000)
}

func (in *vc08OptsIn) build() PinOptions {
	o := PinOptions{
		ReplicationFactorMin: int(in.Rmin),
		ReplicationFactorMax: int(in.Rmax),
		Name:                 string(in.Name),
		Mode:                 PinMode(in.Mode),
		ShardSize:            in.Shard,
		ExpireAt:             vc08TimeOf(in.Exp),
		PinUpdate:            vc08CidOf(in.Update),
	}
	for _, i := range in.UA {
		o.UserAllocations = append(o.UserAllocations, vc08PeerOf(i))
	}
	if in.Meta != nil {
		o.Metadata = map[string]string{}
		for _, kv := range in.Meta {
			if len(kv) >= 2 {
				o.Metadata[string(kv[0])] = string(kv[1])
			}
		}
	}
	for _, i := range in.Orig {
		o.Origins = append(o.Origins, vc08Addrs[vc08Clamp(i, len(vc08Addrs))])
	}
	return o
}

func (in *vc08PinIn) build() *Pin {
	p := &Pin{
		PinOptions: in.Opts.build(),
		Cid:        vc08CidOf(in.Cid),
		Type:       PinType(in.Type),
		MaxDepth:   PinDepth(in.Depth),
	}
	for _, i := range in.Allocs {
		p.Allocations = append(p.Allocations, vc08PeerOf(i))
	}
	if len(in.Ref) > 0 {
		c := vc08CidOf(in.Ref[0])
		p.Reference = &c
	}
	return p
}

// ---------------------------------------------------------------- generators
var vc08Strings = []string{"", "a", "name", "with space", "k=v&x", "a,b", "ünï", "日本", "\"q\"", "meta-", "100%", "x/y?z#w", "tab\there", "+plus+"}
var vc08BadUTF8 = []string{"\xff", "a\xc0\xaf", "\xed\xa0\x80", "\xf4\x90\x80\x80", "ok\x80"}

func vc08GenStr(r *vRand, badPct int) []byte {
	if r.chance(badPct) {
		return []byte(vc08BadUTF8[r.intn(len(vc08BadUTF8))])
	}
	return []byte(vc08Strings[r.intn(len(vc08Strings))])
}

var vc08Secs = []int64{1, -1, 1790000000, 2, -62135596800, -62135596799, 253402300799, 253402300800, 1 << 40, -(1 << 40), 1<<62 - 1, 86400, 4102444800}

func vc08GenExp(r *vRand) []int64 {
	switch x := r.intn(100); {
	case x < 30:
		return []int64{}
	case x < 38:
		return []int64{0, 0} // unix zero
	case x < 44:
		return []int64{0, int64(r.rng(1, 999999999))}
	case x < 70:
		return []int64{1600000000 + int64(r.intn(400000000)), 0}
	case x < 85:
		return []int64{1600000000 + int64(r.intn(400000000)), int64(r.rng(1, 999999999))}
	default:
		ns := int64(0)
		if r.chance(50) {
			ns = int64(r.rng(0, 999999999))
		}
		return []int64{vc08Secs[r.intn(len(vc08Secs))], ns}
	}
}

func vc08GenPeerIdx(r *vRand, badPct int, max int) []int {
	n := r.intn(max + 1)
	out := []int{}
	for i := 0; i < n; i++ {
		if r.chance(badPct) {
			out = append(out, -1-r.intn(4))
		} else {
			out = append(out, r.intn(len(vc08Peers)))
		}
	}
	return out
}

var vc08Ints = []int64{0, 1, -1, 2, 3, 5, 1<<31 - 1, -(1 << 31), 1 << 31, -(1 << 31) - 1, 1 << 32, 1<<32 + 7, -(1 << 40), 1<<63 - 1, -(1 << 63)}

func vc08GenFactor(r *vRand, wildPct int) int64 {
	if r.chance(wildPct) {
		return vc08Ints[r.intn(len(vc08Ints))]
	}
	return int64(r.rng(-1, 6))
}

func vc08GenOpts(r *vRand, wild bool) vc08OptsIn {
	w := 0
	if wild {
		w = 12
	}
	o := vc08OptsIn{
		Rmin: vc08GenFactor(r, w), Rmax: vc08GenFactor(r, w),
		Name: vc08GenStr(r, w/3), Mode: r.intn(2), Update: -1,
		UA: vc08GenPeerIdx(r, w/2, 3), Exp: vc08GenExp(r), Orig: []int{},
	}
	if wild && r.chance(5) {
		o.Mode = r.rng(-1, 3)
	}
	switch x := r.intn(100); {
	case x < 50:
		o.Shard = 0
	case x < 80:
		o.Shard = uint64(r.intn(1 << 30))
	case x < 90:
		o.Shard = 1<<64 - 1 - uint64(r.intn(3))
	default:
		o.Shard = 1<<63 + uint64(r.intn(3)) - 1
	}
	if r.chance(85) {
		o.Meta = [][][]byte{}
		n := r.intn(4)
		for i := 0; i < n; i++ {
			o.Meta = append(o.Meta, [][]byte{vc08GenStr(r, w/4), vc08GenStr(r, w/4)})
		}
	}
	if r.chance(30) {
		o.Update = r.intn(len(vc08Cids))
	}
	n := 0
	if r.chance(55) {
		n = r.rng(1, 4)
	}
	for i := 0; i < n; i++ {
		o.Orig = append(o.Orig, r.intn(len(vc08Addrs)))
	}
	return o
}

func vc08GenPin(r *vRand, wild bool) vc08PinIn {
	p := vc08PinIn{Opts: vc08GenOpts(r, wild), Cid: r.intn(len(vc08Cids)), Ref: []int{}}
	w := 0
	if wild {
		w = 12
	}
	p.Allocs = vc08GenPeerIdx(r, w/2, 4)
	// pin types and the depths the code base gives them, then off-by-one and arbitrary values
	switch x := r.intn(100); {
	case x < 45:
		p.Type = uint64(DataType)
		p.Depth = vc08ModeDepth(p.Opts.Mode)
	case x < 58:
		p.Type = uint64(MetaType)
		p.Depth = 0
		p.Ref = []int{r.intn(len(vc08Cids))}
	case x < 71:
		p.Type = uint64(ClusterDAGType)
		p.Depth = 0
		p.Ref = []int{r.intn(len(vc08Cids))}
	case x < 86:
		p.Type = uint64(ShardType)
		p.Depth = int64(r.rng(1, 2))
		if r.chance(60) {
			p.Ref = []int{r.intn(len(vc08Cids))}
		}
	case x < 90:
		p.Type = uint64(BadType)
		p.Depth = int64(r.rng(-1, 2))
	default:
		p.Type = uint64(1) << uint(r.intn(64))
		p.Depth = int64(r.rng(-2, 3))
	}
	if wild {
		if r.chance(15) {
			p.Type = []uint64{0, 3, uint64(AllType), 6, 1<<64 - 1, 1<<63 + 1}[r.intn(6)]
		}
		if r.chance(15) {
			p.Depth = vc08Ints[r.intn(len(vc08Ints))]
		}
		if r.chance(8) {
			p.Ref = []int{-1}
		}
		if r.chance(8) {
			p.Cid = -1
		}
	} else if r.chance(20) {
		p.Depth = int64(r.rng(-1, 2))
	}
	return p
}

func vc08ModeDepth(m int) int64 {
	if PinMode(m) == PinModeDirect {
		return 0
	}
	return -1
}
