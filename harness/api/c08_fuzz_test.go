//go:build verif

package api

// C08 malformed-input stream (a test, not a theorem): random bytes and truncated / bit-flipped / spliced valid
// encodings are fed to every decoder; each call must return an error or a value that re-encodes, and must not panic.
// A panic (or a decoded value that cannot be re-encoded by the same codec) is reported as VERIF-DIRECT-VIOLATION.

import (
	"encoding/hex"
	"encoding/json"
	"fmt"
	"net/url"
	"reflect"
	"strings"

	codec "github.com/ugorji/go/codec"
)

type vc08Fuzz struct {
	Dec string `json:"dec"` // decoder: pb | q | st | mp:<Type> | js:<Type>
	Hex string `json:"hex"` // input bytes
}

// run one input through one decoder; returns "err", "ok", or a description of the violation
func vc08FuzzOne(dec string, data []byte) (verdict string, violation string) {
	defer func() {
		if e := recover(); e != nil {
			verdict, violation = "panic", "panic-"+dec+": "+fmt.Sprint(e)
		}
	}()
	switch {
	case dec == "pb":
		p := &Pin{}
		if err := p.ProtoUnmarshal(data); err != nil {
			return "err", ""
		}
		if _, err := p.ProtoMarshal(); err != nil {
			return "ok", "reencode-pb: " + err.Error()
		}
		return "ok", vc08CrossEncode(p)
	case dec == "q":
		vals, _ := url.ParseQuery(string(data)) // keeps what it could parse
		var po PinOptions
		if err := po.FromQuery(vals); err != nil {
			return "err", ""
		}
		if _, err := po.ToQuery(); err != nil {
			return "ok", "reencode-q: " + err.Error()
		}
		if _, err := AddParamsFromQuery(vals); err != nil {
			return "ok", ""
		}
		return "ok", ""
	case dec == "st":
		st := TrackerStatusFromString(string(data))
		_ = st.String()
		_ = PinTypeFromString(string(data)).String()
		_ = PinModeFromString(string(data)).String()
		_ = IPFSPinStatusFromString(string(data)).ToTrackerStatus()
		return "ok", ""
	case strings.HasPrefix(dec, "mp:"):
		ty, ok := vc08Types[dec[3:]]
		if !ok {
			return "err", ""
		}
		dst := reflect.New(ty)
		if err := codec.NewDecoderBytes(data, &codec.MsgpackHandle{}).Decode(dst.Interface()); err != nil {
			return "err", ""
		}
		var buf []byte
		if err := codec.NewEncoderBytes(&buf, &codec.MsgpackHandle{}).Encode(dst.Interface()); err != nil {
			return "ok", "reencode-" + dec + ": " + err.Error()
		}
		if p, ok := dst.Interface().(*Pin); ok {
			return "ok", vc08CrossEncode(p)
		}
		return "ok", ""
	case strings.HasPrefix(dec, "js:"):
		ty, ok := vc08Types[dec[3:]]
		if !ok {
			return "err", ""
		}
		dst := reflect.New(ty)
		if err := json.Unmarshal(data, dst.Interface()); err != nil {
			return "err", ""
		}
		if _, err := json.Marshal(dst.Interface()); err != nil {
			return "ok", "reencode-" + dec + ": " + err.Error()
		}
		if p, ok := dst.Interface().(*Pin); ok {
			return "ok", vc08CrossEncode(p)
		}
		return "ok", ""
	}
	return "err", ""
}

// a pin that one decoder produced is handed to the other encoders (a pin received over RPC is stored as protobuf and
// served as JSON); errors are fine here, panics are not (caught by the caller)
func vc08CrossEncode(p *Pin) string {
	_, _ = p.ProtoMarshal()
	var buf []byte
	_ = codec.NewEncoderBytes(&buf, &codec.MsgpackHandle{}).Encode(p)
	_, _ = json.Marshal(p)
	_, _ = p.ToQuery()
	_ = p.String()
	q := &Pin{}
	*q = *p
	_ = p.Equals(q)
	return ""
}

func vc08FuzzReport(dec string, data []byte, violation string) {
	sig := violation
	if i := strings.Index(sig, ":"); i > 0 {
		sig = sig[:i]
	}
	b, _ := json.Marshal(map[string]interface{}{"signature": sig, "detail": violation,
		"case": map[string]interface{}{"input": vc08Case{Kind: "fuzz", Fuzz: &vc08Fuzz{Dec: dec, Hex: hex.EncodeToString(data)}}}})
	fmt.Printf("VERIF-DIRECT-VIOLATION %s\n", b)
}

func vc08Mutate(r *vRand, seed []byte, other []byte) []byte {
	b := append([]byte{}, seed...)
	switch r.intn(9) {
	case 0: // random bytes
		n := r.intn(64)
		b = make([]byte, n)
		for i := range b {
			b[i] = byte(r.next())
		}
	case 1: // truncate
		if len(b) > 0 {
			b = b[:r.intn(len(b))]
		}
	case 2, 3: // flip bits
		for k := 0; k <= r.intn(3) && len(b) > 0; k++ {
			i := r.intn(len(b))
			b[i] ^= 1 << uint(r.intn(8))
		}
	case 4: // replace a byte
		if len(b) > 0 {
			b[r.intn(len(b))] = byte(r.next())
		}
	case 5: // insert a byte
		i := r.intn(len(b) + 1)
		b = append(b[:i:i], append([]byte{byte(r.next())}, b[i:]...)...)
	case 6: // drop a byte
		if len(b) > 0 {
			i := r.intn(len(b))
			b = append(b[:i:i], b[i+1:]...)
		}
	case 7: // splice two valid encodings
		if len(other) > 0 {
			b = append(b[:r.intn(len(b)+1)], other[r.intn(len(other)):]...)
		}
	default: // interesting bytes at a random place
		if len(b) > 0 {
			pat := [][]byte{{0xc0}, {0xff, 0xff, 0xff, 0xff}, {0xdc, 0xff, 0xff}, {0xdf, 0x7f, 0xff, 0xff, 0xff}, {0x90}, {0x80}, []byte("null"), []byte("[null]"), []byte("{}"), {'"'}, {'%'}, {'&'}, {'='}}[r.intn(13)]
			i := r.intn(len(b))
			b = append(b[:i:i], append(append([]byte{}, pat...), b[i:]...)...)
		}
	}
	return b
}

// valid encodings to start from, per decoder
func vc08FuzzSeeds(r *vRand, dec string, n int) [][]byte {
	var out [][]byte
	for len(out) < n {
		switch {
		case dec == "pb":
			if r.chance(50) {
				pin := vc08GenPin(r, false)
				if b, err := pin.build().ProtoMarshal(); err == nil {
					out = append(out, b)
				}
			} else {
				m := vc08GenMsg(r)
				msg, _ := m.build()
				if b, err := protoMarshalV(msg); err == nil {
					out = append(out, b)
				}
			}
		case dec == "q":
			o := vc08GenOpts(r, false)
			po := o.build()
			if s, err := po.ToQuery(); err == nil {
				out = append(out, []byte(s))
			} else {
				out = append(out, []byte("name=x&replication=2"))
			}
		case dec == "st":
			out = append(out, []byte(TrackerStatus(r.intn(8192)).String()))
		default:
			v, _, ok := vc08BuildValue(dec[3:], nil, r.fork())
			if !ok {
				return out
			}
			var b []byte
			var err error
			func() {
				defer func() {
					if e := recover(); e != nil {
						err = fmt.Errorf("%v", e)
					}
				}()
				if dec[:2] == "mp" {
					err = codec.NewEncoderBytes(&b, &codec.MsgpackHandle{}).Encode(v.Addr().Interface())
				} else {
					b, err = json.Marshal(v.Addr().Interface())
				}
			}()
			if err == nil {
				out = append(out, b)
			} else {
				out = append(out, []byte{})
			}
		}
	}
	return out
}

func vc08FuzzDecoders() []string {
	decs := []string{"pb", "q", "st"}
	for _, t := range vc08TypeList() {
		decs = append(decs, "mp:"+t, "js:"+t)
	}
	return decs
}

// the stream: per inputs for each of the decoder families pb, q, st, and per/7 for each record type of the mp and js families
func vc08FuzzStream(out *vOut, seed uint64, per int) {
	r := newVRand(seed ^ 0xf0220)
	reported := map[string]bool{}
	for _, dec := range vc08FuzzDecoders() {
		seeds := vc08FuzzSeeds(r, dec, 24)
		if len(seeds) == 0 {
			continue
		}
		n := per
		if strings.Contains(dec, ":") {
			n = per / 7
		}
		for i := 0; i < n; i++ {
			data := vc08Mutate(r, seeds[r.intn(len(seeds))], seeds[r.intn(len(seeds))])
			verdict, violation := vc08FuzzOne(dec, data)
			out.count("fuzz:" + verdict)
			if violation != "" {
				sig := violation
				if k := strings.Index(sig, ":"); k > 0 {
					sig = sig[:k]
				}
				if !reported[sig] { // one line per distinct signature
					reported[sig] = true
					vc08FuzzReport(dec, data, violation)
				}
			}
		}
		out.count("fuzz-decoders")
	}
}

// replay of one recorded fuzz input (kind "fuzz"): emits a Coq case that fails iff the violation is still there
func vc08RunFuzzCase(out *vOut, c vc08Case) {
	data, err := hex.DecodeString(c.Fuzz.Hex)
	if err != nil {
		return
	}
	verdict, violation := vc08FuzzOne(c.Fuzz.Dec, data)
	out.count("fuzzcase:" + verdict)
	out.add(fmt.Sprintf("CFuzz %s %s", vc08Str(c.Fuzz.Dec), cqBool(violation == "")), c, map[string]string{"verdict": verdict, "violation": violation}, false)
}
