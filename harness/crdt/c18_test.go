//go:build verif

package crdt

// C18 stress scenario for the CRDT consensus component and its batching queue: LogPin/LogUnpin from many
// goroutines while the state is read, then Shutdown while operations are still being logged.

import (
	"context"
	"time"

	"github.com/ipfs/ipfs-cluster/test"

	cid "github.com/ipfs/go-cid"
	logging "github.com/ipfs/go-log/v2"
)

// case ids of this package start here (one runner evidence table for all packages)
// directory of this package inside the repository (race signatures are made relative to the repository root)
const vC18PkgDir = "consensus/crdt"

const vC18IDBase = 600

var vC18Plan = []vC18Scen{{Name: "crdt-batching", Ms: 900, Workers: 6}}

var vC18Scenarios = map[string]func(x *vC18Ctx){"crdt-batching": vC18Crdt}

var vC18Cids = []cid.Cid{test.Cid1, test.Cid2, test.Cid3, test.Cid4}

func vC18Crdt(x *vC18Ctx) {
	for _, l := range []string{"crdt", "pstoremgr", "dht", "pubsub", "ipfslite", "dht/RtRefreshManager", "swarm2", "basichost"} {
		logging.SetLogLevel(l, "FATAL")
	}
	ctx := context.Background()
	cfg := &Config{}
	cfg.Default()
	cfg.Batching.MaxBatchSize = 7
	cfg.Batching.MaxBatchAge = 30 * time.Millisecond
	cfg.Batching.MaxQueueSize = 64
	cc := testingConsensusWithCfg(x.t, 1, cfg)
	x.deadline = time.Now().Add(time.Duration(x.scen.Ms) * time.Millisecond)
	stopAt := x.deadline.Add(-time.Duration(x.scen.Ms/4) * time.Millisecond)
	for k := 0; k < 2; k++ {
		x.loop("Shutdown", 900+k, func(r *vRand, i int) {
			if time.Now().Before(stopAt) {
				time.Sleep(time.Millisecond)
				return
			}
			if err := cc.Shutdown(ctx); err != nil {
				x.stat(1, 1)
			}
			time.Sleep(3 * time.Millisecond)
		})
	}
	for k := 0; k < x.scen.Workers; k++ {
		x.loop("op", k, func(r *vRand, i int) {
			c := vC18Cids[r.intn(len(vC18Cids))]
			cctx, cancel := context.WithTimeout(ctx, 2*time.Second)
			defer cancel()
			switch r.intn(6) {
			case 0, 1:
				cc.LogPin(cctx, testPin(c))
			case 2:
				cc.LogUnpin(cctx, testPin(c))
			case 3:
				if st, err := cc.State(cctx); err == nil {
					if pins, err := st.List(cctx); err == nil {
						seen := map[cid.Cid]bool{}
						for _, p := range pins {
							if p == nil || !p.Cid.Defined() || seen[p.Cid] {
								x.stat(0, 1)
								continue
							}
							seen[p.Cid] = true
						}
					}
				}
			case 4:
				cc.IsTrustedPeer(cctx, test.PeerID1)
			default:
				if st, err := cc.State(cctx); err == nil {
					st.Has(cctx, c)
				}
			}
			time.Sleep(50 * time.Microsecond)
		})
	}
	x.wait()
	cc.Shutdown(ctx)
}
