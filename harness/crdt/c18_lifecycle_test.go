//go:build verif

package crdt

// C18, "shutting a component down while it is in use", for the CRDT consensus component: life-cycle scripts on the REAL
// Consensus (New on a real libp2p host / pubsub / DHT, as the package's own tests build it), with batching enabled
// (max_batch_size > 0, max_batch_age > 0) and disabled:
//   Shutdown before SetClient (setup() still waits for the RPC client), Shutdown right after SetClient (racing setup()),
//   Shutdown after Ready, Shutdown of a component whose setup() gave up on an error (the pubsub topic is already
//   joined: crdt.NewPubSubBroadcaster fails), each with one Shutdown, two concurrent Shutdowns, a later third one, and
//   with LogPin / LogUnpin callers active meanwhile (before Ready only with batching: without it LogPin needs the state
//   that setup() creates, which is the caller's contract with Ready()).
// Every started call must return and the callers must stop. While that has not happened the goroutine dump decides
// (a verdict from the dump, not from the clock): a goroutine blocked in a channel receive inside (*Consensus).Shutdown
// while neither setup() nor batchWorker() of this component is alive any more can never move again - nobody is left who
// could close that channel - and the other Shutdown callers sit behind it on shutdownLock:
//   VERIF-DIRECT-VIOLATION {"signature":"deadlock:consensus/crdt/consensus.go:Shutdown~batchWorker", ... "script":{...}}

import (
	"context"
	"encoding/json"
	"fmt"
	"regexp"
	"runtime"
	"strings"
	"sync"
	"sync/atomic"
	"time"

	"github.com/ipfs/ipfs-cluster/datastore/inmem"
	"github.com/ipfs/ipfs-cluster/test"

	logging "github.com/ipfs/go-log/v2"
	multihash "github.com/multiformats/go-multihash"
)

func init() {
	vC18Plan = append(vC18Plan, vC18Scen{Name: "crdt-lifecycle", Ms: 6, Workers: 1})
	vC18Scenarios["crdt-lifecycle"] = vC18CrdtLifecycle
}

type vC18LcCase struct {
	Batching bool     `json:"batching"`
	SetupErr bool     `json:"setup_err"` // setup() gives up: the pubsub topic is taken
	Steps    []string `json:"steps"`     // setclient | ready | ops | shutdown | shutdown2 | pause
}

var vc18LcGoroutine = regexp.MustCompile(`(?m)^goroutine (\d+) \[([^\]]*)\]:$`)

func vc18LcDump() string {
	buf := make([]byte, 8<<20)
	return string(buf[:runtime.Stack(buf, true)])
}

// goroutines (not in skip) whose stack mentions every frame; state must contain `state` when given
func vc18LcFind(dump string, skip map[string]bool, state string, frames ...string) []string {
	var out []string
	for _, blk := range strings.Split(dump, "\n\n") {
		m := vc18LcGoroutine.FindStringSubmatch(blk)
		if m == nil || skip[m[1]] || (state != "" && !strings.Contains(m[2], state)) {
			continue
		}
		ok := true
		for _, f := range frames {
			if !strings.Contains(blk, f) {
				ok = false
				break
			}
		}
		if ok {
			out = append(out, blk)
		}
	}
	return out
}

// the first frame of a goroutine block (the function it is blocked in)
func vc18LcTop(blk string) string {
	ls := strings.Split(blk, "\n")
	if len(ls) > 1 {
		return ls[1]
	}
	return ""
}

const (
	vc18LcFShutdown = "crdt.(*Consensus).Shutdown("
	vc18LcFSetup    = "crdt.(*Consensus).setup("
	vc18LcFWorker   = "crdt.(*Consensus).batchWorker("
)

func vC18LcRun(x *vC18Ctx, cs *vC18LcCase, idn int, known map[string]bool, watchdog time.Duration) (sig, detail string) {
	ctx := context.Background()
	cfg := &Config{}
	cfg.Default()
	if cs.Batching {
		cfg.Batching.MaxBatchSize = 3
		cfg.Batching.MaxBatchAge = 20 * time.Millisecond
		cfg.Batching.MaxQueueSize = 64
	} else {
		cfg.Batching.MaxBatchSize = 0
		cfg.Batching.MaxBatchAge = 0
	}
	cfg.DatastoreNamespace = fmt.Sprintf("crdtlc-%d", idn)
	cfg.hostShutdown = true
	h, psub, dht := makeTestingHost(x.t)
	if cs.SetupErr {
		// what setup() will try to join (same computation as setup())
		topic := cfg.ClusterName
		if th, err := multihash.Sum([]byte(cfg.ClusterName), multihash.MD5, -1); err == nil {
			topic = th.B58String()
		}
		if _, err := psub.Join(topic); err != nil {
			h.Close()
			return "", ""
		}
	}
	// goroutines that exist before the component does (hosts of earlier scripts, the rig) are never this component's
	before := map[string]bool{}
	for k := range known {
		before[k] = true
	}
	cc, err := New(h, dht, psub, cfg, inmem.New())
	if err != nil {
		h.Close()
		return "", ""
	}
	var mu sync.Mutex
	var calls []chan string
	var names []string
	call := func(name string, f func()) {
		ch := make(chan string, 1)
		mu.Lock()
		calls = append(calls, ch)
		names = append(names, name)
		mu.Unlock()
		go func() {
			defer func() {
				if e := recover(); e != nil {
					buf := make([]byte, 4096)
					ch <- fmt.Sprintf("%s: %v\n%s", name, e, buf[:runtime.Stack(buf, false)])
					return
				}
				ch <- ""
			}()
			f()
		}()
	}
	var stop int32
	isReady, clientSet, shut := false, false, false
	for _, st := range cs.Steps {
		switch st {
		case "setclient":
			if !clientSet && !shut { // (SetClient after Shutdown sends on the closed rpcReady: not a life cycle anybody runs)
				clientSet = true
				cc.SetClient(test.NewMockRPCClientWithHost(x.t, h))
			}
		case "ready":
			if clientSet && !cs.SetupErr && !shut {
				select {
				case <-cc.Ready(ctx):
					isReady = true
				case <-time.After(10 * time.Second):
					return "stall:consensus/crdt/consensus.go:setup-never-ready", vc18LcDump()
				}
			}
		case "ops":
			if !cs.Batching && !isReady {
				continue // without batching LogPin uses the state setup() creates: callers wait for Ready()
			}
			for k := 0; k < 3; k++ {
				k := k
				call("ops", func() {
					for i := 0; atomic.LoadInt32(&stop) == 0; i++ {
						cctx, cancel := context.WithTimeout(ctx, 2*time.Second)
						if (i+k)%3 == 0 {
							cc.LogUnpin(cctx, testPin(vC18Cids[(i+k)%len(vC18Cids)]))
						} else {
							cc.LogPin(cctx, testPin(vC18Cids[(i+k)%len(vC18Cids)]))
						}
						cancel()
						x.count("lc-op")
						time.Sleep(200 * time.Microsecond)
					}
				})
			}
		case "shutdown":
			shut = true
			call("Shutdown", func() { cc.Shutdown(ctx) })
		case "shutdown2":
			shut = true
			call("Shutdown", func() { cc.Shutdown(ctx) })
			call("Shutdown", func() { cc.Shutdown(ctx) })
		case "pause":
			time.Sleep(5 * time.Millisecond)
		}
	}
	if !shut {
		call("Shutdown", func() { cc.Shutdown(ctx) })
	}
	// every Shutdown must return; then the callers are told to stop and must return too
	pending := map[int]bool{}
	for i := range calls {
		pending[i] = true
	}
	// true when no call named `only` (any call if "") is still running
	sweep := func(only string) bool {
		done := true
		for i := range calls {
			if !pending[i] || (only != "" && names[i] != only) {
				continue
			}
			select {
			case p := <-calls[i]:
				delete(pending, i)
				if p != "" && sig == "" {
					sig, detail = "panic:consensus/crdt/consensus.go:"+names[i], p
				}
			default:
				done = false
			}
		}
		return done
	}
	t0 := time.Now()
	for phase := 0; phase < 2; phase++ {
		only := "Shutdown"
		if phase == 1 {
			atomic.StoreInt32(&stop, 1)
			only = ""
		}
		for !sweep(only) {
			el := time.Since(t0)
			if el > 50*time.Millisecond {
				d := vc18LcDump()
				// a Shutdown of THIS component parked in a channel receive of its own (not in a callee) ...
				var parked []string
				for _, b := range vc18LcFind(d, before, "chan receive", vc18LcFShutdown) {
					if strings.Contains(vc18LcTop(b), vc18LcFShutdown) {
						parked = append(parked, b)
					}
				}
				// ... while nobody who could still close that channel is alive: setup() gone (or never past its start), no worker
				// (a setup() that itself waits for shutdownLock, which the parked Shutdown holds, cannot help either)
				alive := len(vc18LcFind(d, before, "", vc18LcFSetup)) + len(vc18LcFind(d, before, "", vc18LcFWorker)) -
					len(vc18LcFind(d, before, "", vc18LcFSetup, "sync.(*RWMutex).Lock("))
				if len(parked) > 0 && alive == 0 && !sweep(only) {
					behind := vc18LcFind(d, before, "", vc18LcFShutdown, "sync.(*RWMutex).Lock(")
					for _, m := range vc18LcGoroutine.FindAllStringSubmatch(d, -1) {
						known[m[1]] = true
					}
					atomic.StoreInt32(&stop, 1)
					return "deadlock:consensus/crdt/consensus.go:Shutdown~batchWorker",
						fmt.Sprintf("setup() and batchWorker() of this component are not running; Shutdown is parked in a channel receive; %d more Shutdown call(s) wait for shutdownLock\n\n%s",
							len(behind), strings.Join(append(parked, behind...), "\n\n"))
				}
				if el > watchdog {
					for _, m := range vc18LcGoroutine.FindAllStringSubmatch(d, -1) {
						known[m[1]] = true
					}
					atomic.StoreInt32(&stop, 1)
					var stuck []string
					for i := range pending {
						stuck = append(stuck, names[i])
					}
					return "deadlock:consensus/crdt/consensus.go:Shutdown~unknown", fmt.Sprintf("calls that have not returned after %v: %v\n%s", watchdog, stuck, d)
				}
				time.Sleep(20 * time.Millisecond)
				continue
			}
			time.Sleep(500 * time.Microsecond)
		}
	}
	return sig, detail
}

func vC18LcBoundary() []vC18LcCase {
	var out []vC18LcCase
	for _, b := range []bool{true, false} {
		out = append(out,
			// before SetClient: setup() waits for the RPC client
			vC18LcCase{Batching: b, Steps: []string{"shutdown", "pause", "shutdown"}},
			vC18LcCase{Batching: b, Steps: []string{"ops", "pause", "shutdown2"}},
			// right after SetClient: Shutdown races setup()
			vC18LcCase{Batching: b, Steps: []string{"setclient", "shutdown2"}},
			vC18LcCase{Batching: b, Steps: []string{"ops", "setclient", "pause", "shutdown", "shutdown"}},
			// the ordinary life cycle, in use
			vC18LcCase{Batching: b, Steps: []string{"setclient", "ready", "ops", "pause", "shutdown2", "pause", "shutdown"}},
			vC18LcCase{Batching: b, Steps: []string{"setclient", "ready", "shutdown"}},
			// setup() gave up on an error
			vC18LcCase{Batching: b, SetupErr: true, Steps: []string{"setclient", "pause", "ops", "pause", "shutdown2"}},
			vC18LcCase{Batching: b, SetupErr: true, Steps: []string{"setclient", "pause", "pause", "shutdown", "pause", "shutdown"}},
		)
	}
	return out
}

func vC18LcGen(r *vRand) vC18LcCase {
	cs := vC18LcCase{Batching: r.chance(65), SetupErr: r.chance(20)}
	ops := []string{"setclient", "ready", "ops", "shutdown", "shutdown2", "pause", "pause"}
	n := r.rng(1, 6)
	for i := 0; i < n; i++ {
		cs.Steps = append(cs.Steps, ops[r.intn(len(ops))])
	}
	return cs
}

func (cs *vC18LcCase) normalise() {
	if len(cs.Steps) > 10 {
		cs.Steps = cs.Steps[:10]
	}
	nops := 0
	var keep []string
	for _, s := range cs.Steps {
		if s == "ops" {
			nops++
			if nops > 2 {
				continue
			}
		}
		keep = append(keep, s)
	}
	cs.Steps = keep
}

func vC18CrdtLifecycle(x *vC18Ctx) {
	for _, l := range []string{"crdt", "pstoremgr", "dht", "pubsub", "ipfslite", "dht/RtRefreshManager", "swarm2", "basichost", "blockservice", "bitswap", "engine"} {
		logging.SetLogLevel(l, "FATAL")
	}
	watchdog := time.Duration(vEnvInt("VERIF_C18_SD_WATCHDOG_MS", 10000)) * time.Millisecond
	var cases []vC18LcCase
	if len(x.scen.Script) > 0 {
		var cs vC18LcCase
		if json.Unmarshal(x.scen.Script, &cs) != nil {
			return
		}
		cases = []vC18LcCase{cs}
	} else {
		cases = vC18LcBoundary()
		r := newVRand(uint64(x.scen.Seed)*104729 + 18)
		n := x.scen.Ms // for this scenario "ms" is the number of generated scripts (the thorough plan multiplies it)
		if n <= 0 || n > 2000 {
			n = 6
		}
		for i := 0; i < n; i++ {
			cases = append(cases, vC18LcGen(r))
		}
	}
	known := map[string]bool{}
	seen := map[string]int{}
	for i := range cases {
		cs := &cases[i]
		cs.normalise()
		sig, detail := vC18LcRun(x, cs, i, known, watchdog)
		key := "lc/plain"
		if cs.Batching {
			key = "lc/batching"
		}
		if cs.SetupErr {
			key += "/setup-error"
		}
		x.count(key)
		for _, s := range cs.Steps {
			x.count("lc-step/" + s)
		}
		if sig != "" {
			x.count("lc-violations")
			seen[sig]++
			if seen[sig] == 1 {
				x.direct(sig, detail, cs)
			}
			if x.obs.Ops["lc-violations"] >= 12 || seen["deadlock:consensus/crdt/consensus.go:Shutdown~unknown"] >= 2 {
				break
			}
		}
	}
}
