//go:build verif

package crdt

// C02 / H1: one real Consensus over a fault-injecting datastore; scripts of pin/unpin with batching
// off / size-triggered / age-triggered / both / queue smaller than the burst. The observed trace of
// submissions and worker calls, the final pinset and the tracker calls are written as Coq cases.

import (
	"context"
	"encoding/json"
	"errors"
	"fmt"
	"sort"
	"strings"
	"sync"
	"testing"
	"time"

	"github.com/ipfs/ipfs-cluster/api"
)

type vC02Step struct {
	T string `json:"t"` // pin | unpin | hold | release | age | restart (Shutdown, one pin of C/V after it, new Consensus on the same datastore)
	C int    `json:"c,omitempty"`
	V int    `json:"v,omitempty"`
	// Bad (pin only): the pin cannot be serialised (its name is not valid UTF-8, which the REST API lets through as
	// ?name=%FF): api.Pin.ProtoMarshal fails, so dsstate.Add can never store it
	Bad bool `json:"bad,omitempty"`
}

type vC02BCase struct {
	Size  int        `json:"size"`   // MaxBatchSize; 0 = batching disabled
	AgeMs int        `json:"age_ms"` // MaxBatchAge in ms (>= 3600000: never fires during the case)
	Qcap  int        `json:"qcap"`
	Fail  []int      `json:"fail"` // 1-based indices of the counted datastore commits that fail
	Steps []vC02Step `json:"steps"`
	// trickle mode (GapMs > 0): the i-th pin/unpin step is submitted at i*GapMs after the start, nothing is waited for in
	// between; step.C is the index of one of 64 dedicated CIDs; for every accepted operation the time it was accepted and
	// the time its effect showed in State() are recorded, and an age-limit commit may be late by at most SlackMs
	// The timetable is given by K (number of operations) and UnpinAt (positions at which an earlier pin, by then in effect,
	// is unpinned instead of a new CID being pinned), not by Steps: the input stays small and the runner's shrinker (which
	// deletes list elements) cannot turn a clear delay into a marginal one by dropping operations.
	GapMs   int   `json:"gap_ms,omitempty"`
	SlackMs int   `json:"slack_ms,omitempty"`
	K       int   `json:"k,omitempty"`
	UnpinAt []int `json:"unpin_at,omitempty"`
	// 1-based indices of the element queries of the crdt set (issued by set.Rmv, i.e. by the worker's Rm) that fail: that
	// Rm returns an error (TAdd false in the trace). Batching cases only.
	FailQuery []int `json:"fail_query,omitempty"`
}

const vc02TakeTimeout = 6 * time.Second // positive expectation: the worker takes an accepted item (normally microseconds)

// last[c] = variant of the last pin of CID c generated so far in this case (-1: none): a pin repeats it with a fair
// probability, so that "already stored as given", "unpin then the identical pin" and "pin, unpin, identical pin" occur
// inside one batch and across batches
func vc02GenOpsL(r *vRand, n int, hot int, last []int) []vC02Step {
	var out []vC02Step
	for i := 0; i < n; i++ {
		c := r.intn(vc02NCids)
		if r.chance(55) {
			c = hot
		}
		switch {
		case last[c] >= 0 && r.chance(22): // unpin immediately followed by the identical pin
			out = append(out, vC02Step{T: "unpin", C: c}, vC02Step{T: "pin", C: c, V: last[c]})
			i++
		case r.chance(7): // a pin that cannot be serialised
			out = append(out, vC02Step{T: "pin", C: c, V: r.intn(vc02NVariants), Bad: true})
		case r.chance(65):
			v := r.intn(vc02NVariants)
			if last[c] >= 0 && r.chance(35) {
				v = last[c]
			}
			last[c] = v
			out = append(out, vC02Step{T: "pin", C: c, V: v})
		default:
			out = append(out, vC02Step{T: "unpin", C: c})
		}
	}
	return out
}

func vc02NewLast() []int {
	l := make([]int, vc02NCids)
	for i := range l {
		l[i] = -1
	}
	return l
}

// a trickle: k operations, one every gap, gap < MaxBatchAge, MaxBatchSize out of reach (or, one time in four, small
// enough to interleave size commits); k is chosen so that a worker that measured the batch age from the newest operation
// would keep the first one waiting for at least 4 x (age + slack)
func vC02BTrickle(r *vRand) vC02BCase {
	age := []int{150, 200, 250}[r.intn(3)]
	gap := r.rng(age/4, age/2)
	slack := 2 * age
	if slack < 400 {
		slack = 400
	}
	k := (4*(age+slack)-age+gap-1)/gap + 1
	if k > vc02NTCids {
		k = vc02NTCids
	}
	c := vC02BCase{Size: 1000, AgeMs: age, Qcap: 200, GapMs: gap, SlackMs: slack, K: k}
	if r.chance(25) {
		c.Size = r.rng(5, 9)
	}
	back := (age+slack)/gap + 3
	for i := back; i < k; i++ {
		if r.chance(15) {
			c.UnpinAt = append(c.UnpinAt, i)
		}
	}
	return c
}

// the steps of a trickle case: position i pins CID i, or (i in UnpinAt) unpins a CID pinned at least age+slack earlier
func (c *vC02BCase) trickleSteps() []vC02Step {
	back := (c.AgeMs+c.SlackMs)/c.GapMs + 3
	un := map[int]bool{}
	for _, i := range c.UnpinAt {
		un[i] = true
	}
	var out []vC02Step
	for i := 0; i < c.K; i++ {
		if un[i] && i >= back {
			out = append(out, vC02Step{T: "unpin", C: (i * 7) % (i - back + 1)})
		} else {
			out = append(out, vC02Step{T: "pin", C: i})
		}
	}
	return out
}

func vc02GenFails(r *vRand, max int) []int {
	var f []int
	if r.chance(55) {
		n := r.rng(1, 3)
		for i := 0; i < n; i++ {
			f = append(f, r.rng(1, max))
		}
		sort.Ints(f)
	}
	return f
}

func vC02BGen(r *vRand) (vC02BCase, string) {
	hot := r.intn(vc02NCids)
	last := vc02NewLast()
	vc02GenOps := func(r *vRand, n int, hot int) []vC02Step { return vc02GenOpsL(r, n, hot, last) }
	switch x := r.intn(100); {
	case x < 12: // batching disabled
		c := vC02BCase{Size: 0, AgeMs: 0, Qcap: 10, Fail: vc02GenFails(r, 8)}
		if r.chance(50) {
			c.Size, c.AgeMs = r.rng(1, 3), 0 // a size without an age also disables batching
		}
		c.Steps = vc02GenOps(r, r.rng(2, 10), hot)
		return c, "direct"
	case x < 34: // size-triggered only
		c := vC02BCase{Size: r.rng(1, 4), AgeMs: 3600000, Qcap: 10, Fail: vc02GenFails(r, 8)}
		n := c.Size * r.rng(1, 3)
		if r.chance(40) {
			n += r.rng(-1, 1) // off by one around the size limit
		}
		if n < 1 {
			n = 1
		}
		c.Steps = vc02GenOps(r, n, hot)
		return c, "size"
	case x < 52: // age-triggered only
		c := vC02BCase{Size: 1000, AgeMs: r.rng(20, 45), Qcap: 10, Fail: vc02GenFails(r, 5)}
		for b := r.rng(1, 3); b > 0; b-- {
			c.Steps = append(c.Steps, vc02GenOps(r, r.rng(1, 4), hot)...)
			c.Steps = append(c.Steps, vC02Step{T: "age"})
		}
		if len(c.Fail) > 0 {
			c.Steps = append(c.Steps, vC02Step{T: "age"}, vC02Step{T: "age"})
		}
		if r.chance(25) {
			c.FailQuery = []int{r.rng(1, 2)}
			if r.chance(60) { // the very first Rm fails: the age timer runs for a batch that holds nothing
				c.FailQuery = []int{1}
				c.Steps = append([]vC02Step{{T: "unpin", C: hot}, {T: "age"}}, c.Steps...)
			}
		}
		return c, "age"
	case x < 82: // both limits: batches closed by size and by age, failures at either
		c := vC02BCase{Size: r.rng(2, 4), AgeMs: r.rng(20, 45), Qcap: 10, Fail: vc02GenFails(r, 6)}
		for b := r.rng(2, 4); b > 0; b-- {
			c.Steps = append(c.Steps, vc02GenOps(r, r.rng(1, c.Size), hot)...)
			if r.chance(60) {
				c.Steps = append(c.Steps, vC02Step{T: "age"})
			}
		}
		if r.chance(20) { // a query of the crdt set (set.Rmv, reached by the worker's Rm) fails: the Rm returns an error
			c.FailQuery = []int{r.rng(1, 3)}
		}
		fin := vC02Step{T: "pin", C: hot, V: r.intn(vc02NVariants)}
		if last[hot] >= 0 && r.chance(50) { // the CID is committed with this very pin: unpin + identical pin in one batch
			c.Steps = append(c.Steps, vC02Step{T: "age"}, vC02Step{T: "pin", C: hot, V: last[hot]}, vC02Step{T: "age"}, vC02Step{T: "unpin", C: hot})
			fin.V = last[hot]
		}
		c.Steps = append(c.Steps, vC02Step{T: "age"}, fin, vC02Step{T: "age"})
		return c, "both"
	case x < 90: // restart: Shutdown with operations in the open batch and in the queue, a new Consensus on the same datastore
		c := vC02BCase{Size: r.rng(2, 5), AgeMs: 3600000, Qcap: r.rng(3, 6)}
		if r.chance(40) {
			c.AgeMs = r.rng(20, 45)
		}
		if r.chance(15) {
			c.Size, c.AgeMs = 0, 0 // no batching: every write is committed before LogPin returns
		}
		for n := r.rng(1, 2); n > 0; n-- {
			c.Steps = append(c.Steps, vc02GenOps(r, r.rng(0, 3), hot)...)
			if r.chance(50) {
				c.Steps = append(c.Steps, vC02Step{T: "hold"})
				c.Steps = append(c.Steps, vc02GenOps(r, r.rng(1, c.Qcap), hot)...)
			}
			c.Steps = append(c.Steps, vC02Step{T: "restart", C: r.intn(vc02NCids), V: r.intn(vc02NVariants)})
		}
		c.Steps = append(c.Steps, vc02GenOps(r, r.rng(0, 3), hot)...)
		if c.AgeMs > 0 && c.AgeMs < 1000 {
			c.Steps = append(c.Steps, vC02Step{T: "age"})
		}
		return c, "restart"
	default: // queue smaller than the burst: the worker is held inside Add/Rm while a burst arrives
		c := vC02BCase{Size: r.rng(1, 4), AgeMs: 3600000, Qcap: r.rng(1, 3), Fail: vc02GenFails(r, 6)}
		if r.chance(30) {
			c.AgeMs = r.rng(20, 45)
		}
		c.Steps = append(c.Steps, vc02GenOps(r, r.rng(0, 2), hot)...)
		c.Steps = append(c.Steps, vC02Step{T: "hold"})
		c.Steps = append(c.Steps, vc02GenOps(r, 1+c.Qcap+r.rng(-1, 2), hot)...)
		c.Steps = append(c.Steps, vC02Step{T: "release"})
		c.Steps = append(c.Steps, vc02GenOps(r, r.rng(0, 3), hot)...)
		if c.AgeMs < 1000 {
			c.Steps = append(c.Steps, vC02Step{T: "age"})
		}
		return c, "smallqueue"
	}
}

// boundary / malformed stream, cycled
func vC02BBoundary(i int) (vC02BCase, string) {
	pin := func(c, v int) vC02Step { return vC02Step{T: "pin", C: c, V: v} }
	unpin := func(c int) vC02Step { return vC02Step{T: "unpin", C: c} }
	bad := func(c, v int) vC02Step { return vC02Step{T: "pin", C: c, V: v, Bad: true} }
	restart := func(c, v int) vC02Step { return vC02Step{T: "restart", C: c, V: v} }
	age := vC02Step{T: "age"}
	cases := []vC02BCase{
		// age-limit commit fails, batch then reaches the size limit, one more operation (S2 shape)
		{Size: 3, AgeMs: 30, Qcap: 10, Fail: []int{1}, Steps: []vC02Step{pin(0, 1), age, pin(1, 2), pin(2, 3), pin(0, 4), age}},
		{Size: 2, AgeMs: 30, Qcap: 10, Fail: []int{1}, Steps: []vC02Step{pin(0, 1), age, unpin(0), pin(1, 5), age, pin(2, 0), age}},
		// size commit fails, the age commit retries
		{Size: 2, AgeMs: 30, Qcap: 10, Fail: []int{1}, Steps: []vC02Step{pin(0, 1), pin(0, 2), age}},
		// both fail in turn
		{Size: 2, AgeMs: 30, Qcap: 10, Fail: []int{1, 2}, Steps: []vC02Step{pin(0, 1), pin(1, 2), age, age, pin(2, 3), age}},
		// pin and unpin of one CID inside a batch, both orders
		{Size: 4, AgeMs: 3600000, Qcap: 10, Steps: []vC02Step{pin(0, 1), unpin(0), pin(1, 2), pin(2, 3)}},
		{Size: 2, AgeMs: 3600000, Qcap: 10, Steps: []vC02Step{pin(0, 1), pin(1, 1), unpin(0), pin(0, 2)}},
		{Size: 3, AgeMs: 3600000, Qcap: 10, Steps: []vC02Step{pin(0, 3), pin(0, 1), pin(0, 2)}},
		// heads commit fails: the same delta is published twice
		{Size: 2, AgeMs: 3600000, Qcap: 10, Fail: []int{3}, Steps: []vC02Step{pin(1, 1), pin(1, 2), pin(0, 9), pin(0, 1), pin(2, 1), pin(2, 2)}},
		{Size: 2, AgeMs: 30, Qcap: 10, Fail: []int{3}, Steps: []vC02Step{pin(1, 1), pin(1, 2), pin(0, 9), pin(0, 1), age}},
		// tombstone commit fails, element commit fails
		{Size: 2, AgeMs: 30, Qcap: 10, Fail: []int{2}, Steps: []vC02Step{pin(0, 1), pin(1, 2), unpin(0), pin(0, 3), age, age}},
		{Size: 2, AgeMs: 30, Qcap: 10, Fail: []int{4}, Steps: []vC02Step{pin(0, 1), pin(1, 2), unpin(0), pin(0, 3), age, age}},
		// size 1, queue 1
		{Size: 1, AgeMs: 3600000, Qcap: 1, Steps: []vC02Step{pin(0, 1), {T: "hold"}, pin(1, 1), pin(2, 1), pin(0, 2), {T: "release"}, unpin(1)}},
		{Size: 1, AgeMs: 3600000, Qcap: 1, Steps: []vC02Step{{T: "hold"}, pin(1, 1), pin(2, 1), {T: "release"}}},
		// burst of exactly the capacity and capacity + 1
		{Size: 3, AgeMs: 3600000, Qcap: 2, Steps: []vC02Step{{T: "hold"}, pin(0, 1), pin(1, 1), pin(2, 1), {T: "release"}}},
		{Size: 3, AgeMs: 3600000, Qcap: 2, Steps: []vC02Step{{T: "hold"}, pin(0, 1), pin(1, 1), pin(2, 1), unpin(0), {T: "release"}, pin(0, 2), pin(1, 2)}},
		// malformed: unpin of something never pinned, twice; nothing at all; release without hold; age on an empty batch
		{Size: 2, AgeMs: 30, Qcap: 10, Steps: []vC02Step{unpin(0), unpin(0), age, unpin(1), age}},
		{Size: 0, AgeMs: 0, Qcap: 10, Steps: []vC02Step{unpin(0), pin(0, 1), unpin(0), unpin(0), pin(0, 1), pin(0, 1)}},
		{Size: 2, AgeMs: 30, Qcap: 10, Steps: []vC02Step{}},
		{Size: 2, AgeMs: 30, Qcap: 10, Steps: []vC02Step{{T: "release"}, age, pin(0, 1), {T: "release"}, age}},
		// a CID committed with a pin, then unpin + the identical pin inside one batch (closed by age, by size), and
		// pin / unpin / identical pin; the identical pin alone; another pin then the stored one again
		{Size: 10, AgeMs: 30, Qcap: 10, Steps: []vC02Step{pin(0, 1), age, unpin(0), pin(0, 1), age}},
		{Size: 2, AgeMs: 3600000, Qcap: 10, Steps: []vC02Step{pin(0, 1), pin(1, 1), unpin(0), pin(0, 1)}},
		{Size: 3, AgeMs: 3600000, Qcap: 10, Steps: []vC02Step{pin(0, 6), pin(1, 2), pin(2, 3), pin(0, 6), unpin(0), pin(0, 6)}},
		{Size: 10, AgeMs: 30, Qcap: 10, Steps: []vC02Step{pin(0, 1), unpin(0), pin(0, 1), age, unpin(0), pin(0, 1), unpin(1), age}},
		{Size: 10, AgeMs: 30, Qcap: 10, Steps: []vC02Step{pin(0, 1), age, pin(0, 2), pin(0, 1), age}},
		{Size: 10, AgeMs: 30, Qcap: 10, Steps: []vC02Step{pin(0, 1), pin(1, 3), age, pin(1, 3), pin(0, 1), pin(2, 1), age}},
		{Size: 0, AgeMs: 0, Qcap: 10, Steps: []vC02Step{pin(0, 1), unpin(0), pin(0, 1), pin(0, 1)}},
		// a pin that cannot be serialised: alone in a batch, first in a batch, in the middle of a batch (closed by age and
		// by size), twice in a row, without batching
		{Size: 10, AgeMs: 30, Qcap: 10, Steps: []vC02Step{bad(0, 1), age, pin(1, 2), age}},
		{Size: 10, AgeMs: 30, Qcap: 10, Steps: []vC02Step{bad(0, 1), pin(1, 2), unpin(2), age, pin(0, 3), age}},
		{Size: 10, AgeMs: 30, Qcap: 10, Steps: []vC02Step{pin(0, 1), bad(0, 2), pin(1, 2), age, unpin(0), age}},
		{Size: 2, AgeMs: 3600000, Qcap: 10, Steps: []vC02Step{pin(0, 1), bad(1, 2), pin(1, 3), bad(2, 1), pin(2, 2), pin(0, 4)}},
		{Size: 3, AgeMs: 30, Qcap: 10, Steps: []vC02Step{bad(0, 1), bad(1, 1), age, age, pin(2, 1), age}},
		{Size: 0, AgeMs: 0, Qcap: 10, Steps: []vC02Step{pin(0, 1), bad(0, 2), bad(1, 2), pin(1, 3), unpin(0)}},
		// the first Rm of a batch fails (datastore query error): the age timer is armed for an empty batch
		{Size: 10, AgeMs: 30, Qcap: 10, FailQuery: []int{1}, Steps: []vC02Step{unpin(0), age, pin(1, 1), age}},
		{Size: 10, AgeMs: 30, Qcap: 10, FailQuery: []int{2}, Steps: []vC02Step{pin(0, 1), unpin(0), age, unpin(0), age, age}},
		// Shutdown with an open batch; with operations still in the queue too (the worker is held while they arrive); with
		// nothing pending; right after a size commit; twice; without batching
		{Size: 10, AgeMs: 3600000, Qcap: 10, Steps: []vC02Step{pin(0, 1), pin(1, 2), restart(2, 3), pin(2, 4)}},
		{Size: 10, AgeMs: 3600000, Qcap: 10, Steps: []vC02Step{pin(0, 1), {T: "hold"}, pin(2, 3), pin(1, 2), unpin(0), restart(0, 5), pin(0, 6)}},
		{Size: 3, AgeMs: 30, Qcap: 10, Steps: []vC02Step{pin(0, 1), age, restart(1, 1), pin(1, 2), age}},
		{Size: 2, AgeMs: 3600000, Qcap: 10, Steps: []vC02Step{pin(0, 1), pin(1, 2), restart(2, 3), pin(2, 4), restart(2, 5), pin(0, 7), pin(1, 8)}},
		{Size: 0, AgeMs: 0, Qcap: 10, Steps: []vC02Step{pin(0, 1), unpin(0), pin(1, 2), restart(2, 3), pin(2, 4)}},
		// direct writes with failing commits
		{Size: 0, AgeMs: 0, Qcap: 10, Fail: []int{1, 3}, Steps: []vC02Step{pin(0, 1), pin(0, 2), pin(1, 1), unpin(0), unpin(0)}},
		{Size: 0, AgeMs: 0, Qcap: 10, Fail: []int{2, 4}, Steps: []vC02Step{pin(0, 1), pin(0, 2), pin(1, 1), unpin(0), unpin(0), unpin(1)}},
	}
	return cases[i%len(cases)], "boundary"
}

type vC02BObs struct {
	Trace  []*vc02Ev `json:"trace"`
	Final  [][2]int  `json:"final"` // (cid index, value rank)
	Calls  []string  `json:"calls"`
	Commit []string  `json:"ds_commits"`
	Err    string    `json:"err,omitempty"`
	// trickle mode: per accepted operation (accepted at, in effect at) in microseconds since the start of the case;
	// vc02Never when the effect never showed; how many times the case was measured
	Lat      [][2]int64 `json:"lat,omitempty"`
	Measured int        `json:"measured,omitempty"`
	Panics   []string   `json:"panics,omitempty"`
}

const vc02Never = int64(1) << 50

func (c *vC02BCase) sanitize() {
	if c.Qcap < 1 {
		c.Qcap = 1
	}
	if c.Size < 0 {
		c.Size = 0
	}
	if c.AgeMs < 0 {
		c.AgeMs = 0
	}
	if c.AgeMs > 0 && c.AgeMs < 10 {
		c.AgeMs = 10
	}
	for _, st := range c.Steps {
		if st.T == "restart" { // a restart case has no injected datastore failure: whatever is missing afterwards was lost by Shutdown
			c.Fail, c.FailQuery = nil, nil
		}
	}
	if c.Size == 0 || c.AgeMs == 0 {
		c.FailQuery = nil // without batching a failed query is an error returned by LogUnpin: not a case of this stream
	}
	if c.GapMs < 0 {
		c.GapMs = 0
	}
	if c.GapMs > 0 && (c.Size == 0 || c.AgeMs == 0 || c.AgeMs >= 60000) {
		c.GapMs = 0 // a trickle needs batching with an age limit that can be reached
	}
	if c.GapMs > 0 {
		if c.SlackMs < 1 {
			c.SlackMs = 1
		}
		c.Fail = nil
		if c.K > vc02NTCids {
			c.K = vc02NTCids
		}
		if c.K < 0 {
			c.K = 0
		}
		c.Steps = c.trickleSteps()
	} else {
		c.SlackMs = 0
	}
}

func (c *vC02BCase) trickle() bool { return c.GapMs > 0 }

// the worst (in effect - accepted) of a trickle observation exceeds age + slack
func (c *vC02BCase) late(obs vC02BObs) bool {
	lim := int64(c.AgeMs+c.SlackMs) * 1000
	for _, l := range obs.Lat {
		if l[1]-l[0] > lim {
			return true
		}
	}
	return false
}

// a wall-clock clause counts only when it fails three times in a row (DESIGN 1.7)
func vC02BRunMeasured(t *testing.T, c vC02BCase) (obs vC02BObs, ranks *vc02Ranks) {
	c.sanitize()
	for i := 1; ; i++ {
		obs, ranks = vC02BRun(t, c)
		obs.Measured = i
		if !c.trickle() || obs.Err != "" || len(obs.Panics) > 0 || !c.late(obs) || i >= 3 {
			return
		}
	}
}

func vC02BRun(t *testing.T, c vC02BCase) (obs vC02BObs, ranks *vc02Ranks) {
	c.sanitize()
	mkPin := func(s vC02Step) (*api.Pin, int) { // the pin of a step and its key in the Coq term
		if c.trickle() {
			k := vc02TKeyBase + ((s.C%vc02NTCids)+vc02NTCids)%vc02NTCids
			p := api.PinCid(vc02KeyCid(k))
			p.ReplicationFactorMin, p.ReplicationFactorMax = -1, -1
			return p, k
		}
		pn := vc02Pin(s.C, s.V)
		if s.Bad {
			pn.Name = "bad \xff\xfe name"
		}
		return pn, s.C
	}
	var vals [][]byte
	for _, s := range c.Steps {
		if s.T == "restart" && !c.trickle() {
			vals = append(vals, vc02PinBytes(vc02Pin(s.C, s.V)))
		}
		if s.T == "pin" && !(s.Bad && !c.trickle()) {
			pn, _ := mkPin(s)
			vals = append(vals, vc02PinBytes(pn))
		}
	}
	ranks = newVC02Ranks(vals)
	age := time.Duration(c.AgeMs) * time.Millisecond
	p := newVC02Peer(t, c.Size, age, c.Qcap, c.Fail, true, nil)
	defer p.shutdown()
	if len(c.FailQuery) > 0 {
		p.fds.mu.Lock()
		p.fds.failQ = map[int]bool{}
		for _, i := range c.FailQuery {
			p.fds.failQ[i] = true
		}
		p.fds.mu.Unlock()
	}
	batching := p.g != nil
	ctx := context.Background()
	t0 := time.Now()
	if batching {
		p.g.t0 = t0 // nothing has been submitted yet: the worker has not touched the gate
	}
	since := func() int64 { return int64(time.Since(t0) / time.Microsecond) }
	if c.trickle() && batching {
		vC02BTrickleRun(c, p, ranks, since, &obs)
		return
	}
	var trace []*vc02Ev // direct mode only; with batching the gate owns the trace
	nAccepted := 0
	stuck := false
	id := 0

	settle := func() bool { // every accepted item taken, its Add/Rm returned, and the commit it triggers finished
		g := p.g
		return vc02WaitFor(vc02TakeTimeout, func() bool {
			g.mu.Lock()
			defer g.mu.Unlock()
			return g.nAddDone == nAccepted && !g.expect && !g.inCall
		})
	}
	markStuck := func() {
		p.g.mu.Lock()
		p.g.trace = append(p.g.trace, &vc02Ev{Kind: "stuck", At: since(), done: true})
		p.g.mu.Unlock()
		stuck = true
	}

	for _, s := range c.Steps {
		if stuck {
			break
		}
		switch s.T {
		case "pin", "unpin":
			op := &vc02Op{Pin: s.T == "pin", C: s.C, V: s.V}
			pin, _ := mkPin(s)
			bad := op.Pin && s.Bad
			if bad {
				op.R = 0 // no bytes: the value 0 of the Coq term marks an operation that cannot be stored
			} else if op.Pin {
				op.R = ranks.of(vc02PinBytes(pin))
			} else {
				pin = api.PinCid(vc02Cid(s.C))
			}
			octx := context.WithValue(ctx, vc02CtxKey{}, id)
			if !batching {
				p.fds.resetLastFail()
				at := since()
				err := vc02Guard(&obs, "LogPin/LogUnpin (direct)", func() error {
					if op.Pin {
						return p.cc.LogPin(octx, pin)
					}
					return p.cc.LogUnpin(octx, pin)
				})
				kind := p.fds.takeLastFail()
				if err != nil && kind == "" && bad {
					// refused with an error, no datastore fault involved: the pin cannot be serialised
					trace = append(trace, &vc02Ev{Kind: "reject", ID: id, Op: op, At: at, done: true})
					id++
					continue
				}
				if err != nil && kind == "" {
					kind = "other:" + err.Error()
				}
				trace = append(trace, &vc02Ev{Kind: "direct", ID: id, Op: op, Ok: err == nil, Pres: kind, At: at, done: true})
				id++
				continue
			}
			g := p.g
			ev := &vc02Ev{Kind: "enq", ID: id, Op: op, At: since()}
			g.mu.Lock()
			g.trace = append(g.trace, ev) // before the send: the worker's Add/Rm of this item is recorded after it
			held := g.holding
			armed := g.holdNext
			g.mu.Unlock()
			var err error
			if op.Pin {
				err = p.cc.LogPin(octx, pin)
			} else {
				err = p.cc.LogUnpin(octx, pin)
			}
			g.mu.Lock()
			ev.Ok = err == nil
			ev.done = true
			if err != nil && !errors.Is(err, ErrMaxQueueSizeReached) {
				if bad {
					ev.Kind = "reject" // LogPin refused the pin up front: it cannot be serialised
				} else {
					ev.Pres = "other:" + err.Error()
				}
			}
			g.mu.Unlock()
			id++
			if err == nil {
				nAccepted++
			}
			switch {
			case held: // the worker is inside Add/Rm of an earlier item: nothing to wait for
			case armed && err == nil:
				if !vc02WaitFor(vc02TakeTimeout, func() bool { g.mu.Lock(); defer g.mu.Unlock(); return g.holding }) {
					markStuck()
				}
			case err == nil:
				if !settle() {
					markStuck()
				}
			}
		case "hold":
			if batching {
				p.g.mu.Lock()
				if !p.g.holding {
					p.g.holdNext = true
				}
				p.g.mu.Unlock()
			}
		case "release":
			if batching {
				g := p.g
				g.mu.Lock()
				g.holdNext = false
				if g.holding {
					g.holding = false
					close(g.release)
				}
				g.mu.Unlock()
				if !settle() {
					markStuck()
				}
			}
		case "restart":
			var late *vc02Ev
			lateID := id
			p.restart(t, func(old *Consensus) {
				if !batching {
					return
				}
				// an operation logged after Shutdown must be refused: nobody will ever take it from the queue
				pn := vc02Pin(s.C, s.V)
				op := &vc02Op{Pin: true, C: s.C, V: s.V, R: ranks.of(vc02PinBytes(pn))}
				late = &vc02Ev{Kind: "enq", ID: lateID, Op: op, At: since(), done: true}
				err := vc02Guard(&obs, "LogPin after Shutdown", func() error {
					return old.LogPin(context.WithValue(ctx, vc02CtxKey{}, lateID), pn)
				})
				switch {
				case err == nil:
					late.Ok = true
				case errors.Is(err, ErrMaxQueueSizeReached):
				default:
					late.Kind = "shutref"
				}
			})
			if batching {
				g := p.g
				g.mu.Lock()
				if late != nil {
					g.trace = append(g.trace, late)
					id++
				}
				g.trace = append(g.trace, &vc02Ev{Kind: "restart", At: since(), done: true})
				nAccepted = g.nAddDone // the new worker knows nothing of what the old one left behind
				g.mu.Unlock()
			} else {
				trace = append(trace, &vc02Ev{Kind: "restart", At: since(), done: true})
			}
		case "wait": // not generated (given inputs only): let the age timer of an empty batch expire; bounded
			if batching && age < time.Minute {
				d := 3 * age
				if d > 500*time.Millisecond {
					d = 500 * time.Millisecond
				}
				time.Sleep(d)
			}
		case "age":
			if batching && age < time.Minute {
				g := p.g
				g.mu.Lock()
				cur, n0 := g.cur, g.nCommit
				g.mu.Unlock()
				if cur == 0 {
					// nothing to commit. If an Add/Rm failed since the last commit the age timer is armed all the same:
					// negative expectation (no commit of an empty batch), short bounded wait
					g.mu.Lock()
					armedEmpty := g.failedSinceCommit
					g.failedSinceCommit = false
					g.mu.Unlock()
					if armedEmpty {
						d := 3 * age
						if d > 500*time.Millisecond {
							d = 500 * time.Millisecond
						}
						time.Sleep(d)
					}
					continue
				}
				// positive expectation with a margin of 4 x the age plus a generous constant for a loaded machine
				ok := vc02WaitFor(4*age+1500*time.Millisecond, func() bool {
					g.mu.Lock()
					defer g.mu.Unlock()
					return g.nCommit > n0 && !g.inCall
				})
				if !ok {
					g.mu.Lock()
					g.trace = append(g.trace, &vc02Ev{Kind: "noage", At: since(), done: true})
					g.mu.Unlock()
				}
			}
		}
	}
	if batching {
		g := p.g
		g.mu.Lock()
		if g.holding { // a script that ends while holding: let the worker go
			g.holding = false
			close(g.release)
		}
		g.holdNext = false
		g.mu.Unlock()
		if !stuck && !settle() {
			markStuck()
		}
		g.mu.Lock()
		trace = append([]*vc02Ev{}, g.trace...)
		g.mu.Unlock()
	}
	obs.Trace = trace
	vC02BFinish(p, ranks, &obs)
	return
}

// vc02Guard runs a call of the code under test made by the harness goroutine; a panic is recorded, not propagated
func vc02Guard(obs *vC02BObs, what string, f func() error) (err error) {
	if vc02NoRecover {
		return f()
	}
	defer func() {
		if r := recover(); r != nil {
			obs.Panics = append(obs.Panics, fmt.Sprintf("%s: %v", what, r))
			err = errVC02Panic
		}
	}()
	return f()
}

// vC02BTrickleRun: the operations are submitted on a fixed timetable; a poller watches State() for the effect of each
func vC02BTrickleRun(c vC02BCase, p *vc02Peer, ranks *vc02Ranks, since func() int64, obs *vC02BObs) {
	ctx := context.Background()
	g := p.g
	age := time.Duration(c.AgeMs) * time.Millisecond
	slack := time.Duration(c.SlackMs) * time.Millisecond
	st, err := p.cc.State(ctx)
	if err != nil {
		obs.Err = "state: " + err.Error()
		return
	}
	type watch struct {
		key  int
		pin  bool
		acc  int64
		seen int64
	}
	var mu sync.Mutex
	var ws []*watch
	inEffect := map[int]bool{} // key -> its pin has been seen in State()
	stop := make(chan struct{})
	pollDone := make(chan struct{})
	pollOnce := func() (pending int) {
		mu.Lock()
		cur := append([]*watch{}, ws...)
		mu.Unlock()
		for _, w := range cur {
			if w.seen != 0 {
				continue
			}
			has, err := st.Has(ctx, vc02KeyCid(w.key))
			if err == nil && has == w.pin {
				now := since()
				mu.Lock()
				w.seen = now
				if w.pin {
					inEffect[w.key] = true
				} else {
					delete(inEffect, w.key)
				}
				mu.Unlock()
			} else {
				pending++
			}
		}
		return
	}
	go func() {
		defer close(pollDone)
		for {
			select {
			case <-stop:
				return
			default:
			}
			pollOnce()
			time.Sleep(time.Millisecond)
		}
	}()
	start := time.Now()
	nAccepted := 0
	id := 0
	pinned := map[int]bool{}
	for i, s := range c.Steps {
		if s.T != "pin" && s.T != "unpin" {
			continue
		}
		if d := time.Until(start.Add(time.Duration(i*c.GapMs) * time.Millisecond)); d > 0 {
			time.Sleep(d) // pacing of the input, not a wait for an effect
		}
		k := vc02TKeyBase + ((s.C%vc02NTCids)+vc02NTCids)%vc02NTCids
		mu.Lock()
		eff := inEffect[k]
		mu.Unlock()
		if s.T == "pin" && pinned[k] {
			continue // one pin per CID: its effect is then unambiguous
		}
		if s.T == "unpin" && !eff {
			continue // only a pin that is already in effect is unpinned
		}
		pn := api.PinCid(vc02KeyCid(k))
		pn.ReplicationFactorMin, pn.ReplicationFactorMax = -1, -1
		op := &vc02Op{Pin: s.T == "pin", C: k}
		if op.Pin {
			op.R = ranks.of(vc02PinBytes(pn))
			pinned[k] = true
		}
		octx := context.WithValue(ctx, vc02CtxKey{}, id)
		ev := &vc02Ev{Kind: "enq", ID: id, Op: op, At: since()}
		g.mu.Lock()
		g.trace = append(g.trace, ev)
		g.mu.Unlock()
		if op.Pin {
			err = p.cc.LogPin(octx, pn)
		} else {
			err = p.cc.LogUnpin(octx, pn)
		}
		acc := since()
		g.mu.Lock()
		ev.Ok = err == nil
		ev.done = true
		g.mu.Unlock()
		id++
		if err == nil {
			nAccepted++
			mu.Lock()
			ws = append(ws, &watch{key: k, pin: op.Pin, acc: acc})
			mu.Unlock()
		}
	}
	// positive expectation: every accepted operation comes into effect (long timeout; the bound itself is checked on the
	// recorded times, not by this wait)
	vc02WaitFor(4*(age+slack)+3*time.Second, func() bool {
		mu.Lock()
		defer mu.Unlock()
		for _, w := range ws {
			if w.seen == 0 {
				return false
			}
		}
		return true
	})
	close(stop)
	<-pollDone
	// the worker has taken everything and a last batch, if any, gets its age commit
	settled := vc02WaitFor(vc02TakeTimeout, func() bool {
		g.mu.Lock()
		defer g.mu.Unlock()
		return g.nAddDone == nAccepted && !g.expect && !g.inCall
	})
	if !settled {
		g.mu.Lock()
		g.trace = append(g.trace, &vc02Ev{Kind: "stuck", At: since(), done: true})
		g.mu.Unlock()
	} else {
		g.mu.Lock()
		cur, n0 := g.cur, g.nCommit
		g.mu.Unlock()
		if cur > 0 && !vc02WaitFor(4*age+1500*time.Millisecond, func() bool {
			g.mu.Lock()
			defer g.mu.Unlock()
			return g.nCommit > n0 && !g.inCall
		}) {
			g.mu.Lock()
			g.trace = append(g.trace, &vc02Ev{Kind: "noage", At: since(), done: true})
			g.mu.Unlock()
		}
	}
	pollOnce()
	for _, w := range ws {
		seen := w.seen
		if seen == 0 {
			seen = vc02Never
		}
		obs.Lat = append(obs.Lat, [2]int64{w.acc, seen})
	}
	g.mu.Lock()
	obs.Trace = append([]*vc02Ev{}, g.trace...)
	g.mu.Unlock()
	vC02BFinish(p, ranks, obs)
}

// final pinset, tracker calls, datastore commit log
func vC02BFinish(p *vc02Peer, ranks *vc02Ranks, obsp *vC02BObs) {
	ctx := context.Background()
	p.fds.mu.Lock()
	p.fds.failQ = nil // the script is over: reading the final state is not part of it
	p.fds.mu.Unlock()
	obs := *obsp
	defer func() { *obsp = obs }()
	trace := obs.Trace
	if p.g != nil {
		p.g.mu.Lock()
		obs.Panics = append(obs.Panics, p.g.panics...)
		p.g.mu.Unlock()
	}
	for _, e := range trace {
		if strings.HasPrefix(e.Pres, "other:") {
			obs.Err = "unexpected error: " + e.Pres
		}
		if e.Kind == "add" && e.ID < 0 {
			obs.Err = "worker item without id"
		}
	}
	st, err := p.cc.State(ctx)
	if err != nil {
		obs.Err = "state: " + err.Error()
		return
	}
	pins, err := st.List(ctx)
	if err != nil {
		obs.Err = "list: " + err.Error()
		return
	}
	for _, pn := range pins {
		obs.Final = append(obs.Final, [2]int{vc02CidIndex(pn.Cid), ranks.of(vc02PinBytes(pn))})
	}
	sort.Slice(obs.Final, func(i, j int) bool { return obs.Final[i][0] < obs.Final[j][0] })
	for _, cl := range p.tr.snapshot() {
		if cl.Track {
			obs.Calls = append(obs.Calls, fmt.Sprintf("Track %d %d", vc02CidIndex(cl.Pin.Cid), ranks.of(vc02PinBytes(cl.Pin))))
		} else {
			obs.Calls = append(obs.Calls, fmt.Sprintf("Untrack %d", vc02CidIndex(cl.Pin.Cid)))
		}
	}
	p.fds.mu.Lock()
	obs.Commit = append([]string{}, p.fds.log...)
	p.fds.mu.Unlock()
	return
}

func vc02CoqKey(c int) int {
	if c >= vc02TKeyBase {
		return c
	}
	return c % vc02NCids
}
func vc02CoqOp(o *vc02Op) string {
	if o.Pin {
		return fmt.Sprintf("(WPin %d %d)", vc02CoqKey(o.C), o.R)
	}
	return fmt.Sprintf("(WUnpin %d)", vc02CoqKey(o.C))
}
func vc02CoqPres(s string) string {
	switch s {
	case "tombs":
		return "PFailTombs"
	case "elems":
		return "PFailElems"
	case "heads":
		return "PFailHeads"
	}
	return "POk"
}

func vC02BTerm(c vC02BCase, obs vC02BObs) string {
	c.sanitize()
	var evs []string
	for _, e := range obs.Trace {
		at := e.At
		if at < 0 {
			at = 0
		}
		var ev string
		switch e.Kind {
		case "enq":
			ev = fmt.Sprintf("TEnq %d %s %s", e.ID, vc02CoqOp(e.Op), cqBool(e.Ok))
		case "reject":
			ev = fmt.Sprintf("TReject %d %s", e.ID, vc02CoqOp(e.Op))
		case "shutref":
			ev = fmt.Sprintf("TShutRefused %d %s", e.ID, vc02CoqOp(e.Op))
		case "stopcommit":
			ev = "TStopCommit " + vc02CoqPres(e.Pres)
		case "restart":
			ev = "TRestart"
		case "add":
			ev = fmt.Sprintf("TAdd %d %s", e.ID, cqBool(e.Ok))
		case "commit":
			ev = "TCommit " + vc02CoqPres(e.Pres)
		case "direct":
			ev = fmt.Sprintf("TDirect %d %s %s %s", e.ID, vc02CoqOp(e.Op), vc02CoqPres(e.Pres), cqBool(e.Ok))
		case "noage":
			ev = "TNoAge"
		case "stuck":
			ev = "TStuck"
		default:
			continue
		}
		evs = append(evs, fmt.Sprintf("(%d, %s)", at, ev))
	}
	var fin []string
	for _, f := range obs.Final {
		fin = append(fin, fmt.Sprintf("(%d, %d)", f[0], f[1]))
	}
	batching := c.Size > 0 && c.AgeMs > 0
	nofire := c.AgeMs >= 60000
	var lat []string
	for _, l := range obs.Lat {
		lat = append(lat, fmt.Sprintf("(%d, %d)", l[0], l[1]))
	}
	return fmt.Sprintf("(mk_h1 %s %s %d %d %d %d %s %s %s %s)", cqBool(batching), cqBool(nofire), c.Qcap, c.Size,
		int64(c.AgeMs)*1000, int64(c.SlackMs)*1000, cqList(evs), cqList(lat), cqList(fin), cqList(obs.Calls))
}

func vC02BNontrivial(c vC02BCase, obs vC02BObs) bool {
	// a batch (or direct history) with a pin and an unpin, or two pins, of one CID
	perCid := map[int]int{}
	for _, s := range c.Steps {
		if s.T == "pin" || s.T == "unpin" {
			if c.GapMs > 0 {
				perCid[s.C%vc02NTCids]++
			} else {
				perCid[s.C%vc02NCids]++
			}
		}
	}
	if c.GapMs > 0 && len(obs.Lat) >= 8 {
		return true
	}
	for _, n := range perCid {
		if n >= 2 {
			return true
		}
	}
	return false
}

func TestVerifC02Batch(t *testing.T) {
	seed := uint64(vEnvInt("VERIF_SEED", 1))
	n := vEnvInt("VERIF_N", 60)
	out := newVOut("C02b", "From V Require Import Base.Common Model.C02_Batch Model.C02_Set Model.C02_Check.\nOpen Scope N_scope.",
		"bcase", "Definition R := Eval vm_compute in failing_batch cases.\nPrint R.")
	defer out.close()
	var cases []vC02BCase
	var kinds []string
	if raw := vCasesIn(); raw != nil {
		for _, b := range raw {
			var c vC02BCase
			if err := json.Unmarshal(b, &c); err != nil {
				t.Fatal(err)
			}
			cases = append(cases, c)
			kinds = append(kinds, "given")
		}
	} else {
		r := newVRand(seed)
		for i := 0; i < n; i++ {
			var c vC02BCase
			var k string
			switch {
			case i%24 == 5 && i/24 < 48: // at most 48 per run: each takes 2-3 s of wall clock
				c, k = vC02BTrickle(r), "trickle"
			case i%4 == 3:
				c, k = vC02BBoundary(i/4 + int(seed))
			default:
				c, k = vC02BGen(r)
			}
			cases = append(cases, c)
			kinds = append(kinds, k)
		}
	}
	par := vEnvInt("VERIF_C02_PAR", 4)
	type res struct {
		obs vC02BObs
	}
	results := make([]res, len(cases))
	var wg sync.WaitGroup
	sem := make(chan struct{}, par)
	for i := range cases {
		wg.Add(1)
		sem <- struct{}{}
		go func(i int) {
			defer wg.Done()
			defer func() { <-sem }()
			// several cases are in flight at once: each leaves its own marker, so that a crash of the process (a panic on
			// a goroutine of the code under test that the harness cannot recover) names the candidates
			key := fmt.Sprintf("b%d", i)
			vCaseStartKey(key, cases[i])
			obs, _ := vC02BRunMeasured(t, cases[i])
			vCaseDoneKey(key)
			results[i] = res{obs}
		}(i)
	}
	wg.Wait()
	// at most two panic reports: those of the shortest scripts
	nPanic, panicLimit := 0, 1<<30
	{
		var lens []int
		for i := range cases {
			if len(results[i].obs.Panics) > 0 {
				lens = append(lens, len(cases[i].Steps))
			}
		}
		sort.Ints(lens)
		if len(lens) > 2 {
			panicLimit = lens[1]
		}
	}
	for i, c := range cases {
		obs := results[i].obs
		if len(obs.Panics) > 0 && (len(c.Steps) > panicLimit || nPanic >= 2) {
			out.count("panic")
			continue
		}
		if len(obs.Panics) > 0 {
			nPanic++
			// cannot go through Coq: the code under test panicked while this case ran
			b, _ := json.Marshal(map[string]interface{}{"signature": "panic-in-code-under-test", "detail": obs.Panics,
				"harness": "TestVerifC02Batch", "case": map[string]interface{}{"input": c},
				"meaning": "LogPin/LogUnpin/batchWorker panicked (recovered by the harness; in the deployed binary the process dies)"})
			fmt.Printf("VERIF-DIRECT-VIOLATION %s\n", b)
			out.count("panic")
			continue
		}
		if obs.Err != "" {
			t.Fatalf("case %d: %s (input %+v)", i, obs.Err, c)
		}
		if c.GapMs > 0 {
			out.count(fmt.Sprintf("trickle_measured_%d", obs.Measured))
		}
		out.count("kind_" + kinds[i])
		for _, e := range obs.Trace {
			switch {
			case e.Kind == "commit" && !e.Ok:
				out.count("commit_fail_" + e.Pres)
			case e.Kind == "commit":
				out.count("commit_ok")
			case e.Kind == "enq" && !e.Ok:
				out.count("refused")
			case e.Kind == "reject":
				out.count("rejected_unserialisable")
			case e.Kind == "restart":
				out.count("restart")
			case e.Kind == "stopcommit":
				out.count("commit_on_shutdown")
			case e.Kind == "shutref":
				out.count("refused_after_shutdown")
			case e.Kind == "enq" && e.Op != nil && e.Op.Pin && e.Op.R == 0:
				out.count("accepted_unserialisable")
			case e.Kind == "add" && !e.Ok:
				out.count("add_failed")
			case e.Kind == "direct" && !e.Ok:
				out.count("direct_fail_" + e.Pres)
			case e.Kind == "stuck" || e.Kind == "noage":
				out.count(e.Kind)
			}
		}
		out.add(vC02BTerm(c, obs), c, obs, vC02BNontrivial(c, obs))
	}
}
