//go:build verif

package crdt

// C02 / H1: one real Consensus over a fault-injecting datastore; scripts of pin/unpin with batching
// off / size-triggered / age-triggered / both / queue smaller than the burst. The observed trace of
// submissions and worker calls, the final pinset and the tracker calls are written as Coq cases.

import (
	"context"
	"encoding/json"
	"errors"
	"fmt"
	"sort"
	"strings"
	"sync"
	"testing"
	"time"

	"github.com/ipfs/ipfs-cluster/api"
)

type vC02Step struct {
	T string `json:"t"` // pin | unpin | hold | release | age
	C int    `json:"c,omitempty"`
	V int    `json:"v,omitempty"`
}

type vC02BCase struct {
	Size  int        `json:"size"`   // MaxBatchSize; 0 = batching disabled
	AgeMs int        `json:"age_ms"` // MaxBatchAge in ms (>= 3600000: never fires during the case)
	Qcap  int        `json:"qcap"`
	Fail  []int      `json:"fail"` // 1-based indices of the counted datastore commits that fail
	Steps []vC02Step `json:"steps"`
}

const vc02TakeTimeout = 6 * time.Second // positive expectation: the worker takes an accepted item (normally microseconds)

func vc02GenOps(r *vRand, n int, hot int) []vC02Step {
	var out []vC02Step
	for i := 0; i < n; i++ {
		c := r.intn(vc02NCids)
		if r.chance(55) {
			c = hot
		}
		if r.chance(65) {
			out = append(out, vC02Step{T: "pin", C: c, V: r.intn(vc02NVariants)})
		} else {
			out = append(out, vC02Step{T: "unpin", C: c})
		}
	}
	return out
}

func vc02GenFails(r *vRand, max int) []int {
	var f []int
	if r.chance(55) {
		n := r.rng(1, 3)
		for i := 0; i < n; i++ {
			f = append(f, r.rng(1, max))
		}
		sort.Ints(f)
	}
	return f
}

func vC02BGen(r *vRand) (vC02BCase, string) {
	hot := r.intn(vc02NCids)
	switch x := r.intn(100); {
	case x < 12: // batching disabled
		c := vC02BCase{Size: 0, AgeMs: 0, Qcap: 10, Fail: vc02GenFails(r, 8)}
		if r.chance(50) {
			c.Size, c.AgeMs = r.rng(1, 3), 0 // a size without an age also disables batching
		}
		c.Steps = vc02GenOps(r, r.rng(2, 10), hot)
		return c, "direct"
	case x < 34: // size-triggered only
		c := vC02BCase{Size: r.rng(1, 4), AgeMs: 3600000, Qcap: 10, Fail: vc02GenFails(r, 8)}
		n := c.Size * r.rng(1, 3)
		if r.chance(40) {
			n += r.rng(-1, 1) // off by one around the size limit
		}
		if n < 1 {
			n = 1
		}
		c.Steps = vc02GenOps(r, n, hot)
		return c, "size"
	case x < 52: // age-triggered only
		c := vC02BCase{Size: 1000, AgeMs: r.rng(20, 45), Qcap: 10, Fail: vc02GenFails(r, 5)}
		for b := r.rng(1, 3); b > 0; b-- {
			c.Steps = append(c.Steps, vc02GenOps(r, r.rng(1, 4), hot)...)
			c.Steps = append(c.Steps, vC02Step{T: "age"})
		}
		if len(c.Fail) > 0 {
			c.Steps = append(c.Steps, vC02Step{T: "age"}, vC02Step{T: "age"})
		}
		return c, "age"
	case x < 82: // both limits: batches closed by size and by age, failures at either
		c := vC02BCase{Size: r.rng(2, 4), AgeMs: r.rng(20, 45), Qcap: 10, Fail: vc02GenFails(r, 6)}
		for b := r.rng(2, 4); b > 0; b-- {
			c.Steps = append(c.Steps, vc02GenOps(r, r.rng(1, c.Size), hot)...)
			if r.chance(60) {
				c.Steps = append(c.Steps, vC02Step{T: "age"})
			}
		}
		c.Steps = append(c.Steps, vC02Step{T: "age"}, vC02Step{T: "pin", C: hot, V: r.intn(vc02NVariants)}, vC02Step{T: "age"})
		return c, "both"
	default: // queue smaller than the burst: the worker is held inside Add/Rm while a burst arrives
		c := vC02BCase{Size: r.rng(1, 4), AgeMs: 3600000, Qcap: r.rng(1, 3), Fail: vc02GenFails(r, 6)}
		if r.chance(30) {
			c.AgeMs = r.rng(20, 45)
		}
		c.Steps = append(c.Steps, vc02GenOps(r, r.rng(0, 2), hot)...)
		c.Steps = append(c.Steps, vC02Step{T: "hold"})
		c.Steps = append(c.Steps, vc02GenOps(r, 1+c.Qcap+r.rng(-1, 2), hot)...)
		c.Steps = append(c.Steps, vC02Step{T: "release"})
		c.Steps = append(c.Steps, vc02GenOps(r, r.rng(0, 3), hot)...)
		if c.AgeMs < 1000 {
			c.Steps = append(c.Steps, vC02Step{T: "age"})
		}
		return c, "smallqueue"
	}
}

// boundary / malformed stream, cycled
func vC02BBoundary(i int) (vC02BCase, string) {
	pin := func(c, v int) vC02Step { return vC02Step{T: "pin", C: c, V: v} }
	unpin := func(c int) vC02Step { return vC02Step{T: "unpin", C: c} }
	age := vC02Step{T: "age"}
	cases := []vC02BCase{
		// age-limit commit fails, batch then reaches the size limit, one more operation (S2 shape)
		{Size: 3, AgeMs: 30, Qcap: 10, Fail: []int{1}, Steps: []vC02Step{pin(0, 1), age, pin(1, 2), pin(2, 3), pin(0, 4), age}},
		{Size: 2, AgeMs: 30, Qcap: 10, Fail: []int{1}, Steps: []vC02Step{pin(0, 1), age, unpin(0), pin(1, 5), age, pin(2, 0), age}},
		// size commit fails, the age commit retries
		{Size: 2, AgeMs: 30, Qcap: 10, Fail: []int{1}, Steps: []vC02Step{pin(0, 1), pin(0, 2), age}},
		// both fail in turn
		{Size: 2, AgeMs: 30, Qcap: 10, Fail: []int{1, 2}, Steps: []vC02Step{pin(0, 1), pin(1, 2), age, age, pin(2, 3), age}},
		// pin and unpin of one CID inside a batch, both orders
		{Size: 4, AgeMs: 3600000, Qcap: 10, Steps: []vC02Step{pin(0, 1), unpin(0), pin(1, 2), pin(2, 3)}},
		{Size: 2, AgeMs: 3600000, Qcap: 10, Steps: []vC02Step{pin(0, 1), pin(1, 1), unpin(0), pin(0, 2)}},
		{Size: 3, AgeMs: 3600000, Qcap: 10, Steps: []vC02Step{pin(0, 3), pin(0, 1), pin(0, 2)}},
		// heads commit fails: the same delta is published twice
		{Size: 2, AgeMs: 3600000, Qcap: 10, Fail: []int{3}, Steps: []vC02Step{pin(1, 1), pin(1, 2), pin(0, 9), pin(0, 1), pin(2, 1), pin(2, 2)}},
		{Size: 2, AgeMs: 30, Qcap: 10, Fail: []int{3}, Steps: []vC02Step{pin(1, 1), pin(1, 2), pin(0, 9), pin(0, 1), age}},
		// tombstone commit fails, element commit fails
		{Size: 2, AgeMs: 30, Qcap: 10, Fail: []int{2}, Steps: []vC02Step{pin(0, 1), pin(1, 2), unpin(0), pin(0, 3), age, age}},
		{Size: 2, AgeMs: 30, Qcap: 10, Fail: []int{4}, Steps: []vC02Step{pin(0, 1), pin(1, 2), unpin(0), pin(0, 3), age, age}},
		// size 1, queue 1
		{Size: 1, AgeMs: 3600000, Qcap: 1, Steps: []vC02Step{pin(0, 1), {T: "hold"}, pin(1, 1), pin(2, 1), pin(0, 2), {T: "release"}, unpin(1)}},
		{Size: 1, AgeMs: 3600000, Qcap: 1, Steps: []vC02Step{{T: "hold"}, pin(1, 1), pin(2, 1), {T: "release"}}},
		// burst of exactly the capacity and capacity + 1
		{Size: 3, AgeMs: 3600000, Qcap: 2, Steps: []vC02Step{{T: "hold"}, pin(0, 1), pin(1, 1), pin(2, 1), {T: "release"}}},
		{Size: 3, AgeMs: 3600000, Qcap: 2, Steps: []vC02Step{{T: "hold"}, pin(0, 1), pin(1, 1), pin(2, 1), unpin(0), {T: "release"}, pin(0, 2), pin(1, 2)}},
		// malformed: unpin of something never pinned, twice; nothing at all; release without hold; age on an empty batch
		{Size: 2, AgeMs: 30, Qcap: 10, Steps: []vC02Step{unpin(0), unpin(0), age, unpin(1), age}},
		{Size: 0, AgeMs: 0, Qcap: 10, Steps: []vC02Step{unpin(0), pin(0, 1), unpin(0), unpin(0), pin(0, 1), pin(0, 1)}},
		{Size: 2, AgeMs: 30, Qcap: 10, Steps: []vC02Step{}},
		{Size: 2, AgeMs: 30, Qcap: 10, Steps: []vC02Step{{T: "release"}, age, pin(0, 1), {T: "release"}, age}},
		// direct writes with failing commits
		{Size: 0, AgeMs: 0, Qcap: 10, Fail: []int{1, 3}, Steps: []vC02Step{pin(0, 1), pin(0, 2), pin(1, 1), unpin(0), unpin(0)}},
		{Size: 0, AgeMs: 0, Qcap: 10, Fail: []int{2, 4}, Steps: []vC02Step{pin(0, 1), pin(0, 2), pin(1, 1), unpin(0), unpin(0), unpin(1)}},
	}
	return cases[i%len(cases)], "boundary"
}

type vC02BObs struct {
	Trace  []*vc02Ev `json:"trace"`
	Final  [][2]int  `json:"final"` // (cid index, value rank)
	Calls  []string  `json:"calls"`
	Commit []string  `json:"ds_commits"`
	Err    string    `json:"err,omitempty"`
}

func (c *vC02BCase) sanitize() {
	if c.Qcap < 1 {
		c.Qcap = 1
	}
	if c.Size < 0 {
		c.Size = 0
	}
	if c.AgeMs < 0 {
		c.AgeMs = 0
	}
	if c.AgeMs > 0 && c.AgeMs < 10 {
		c.AgeMs = 10
	}
}

func vC02BRun(t *testing.T, c vC02BCase) (obs vC02BObs, ranks *vc02Ranks) {
	c.sanitize()
	var vals [][]byte
	for _, s := range c.Steps {
		if s.T == "pin" {
			vals = append(vals, vc02PinBytes(vc02Pin(s.C, s.V)))
		}
	}
	ranks = newVC02Ranks(vals)
	age := time.Duration(c.AgeMs) * time.Millisecond
	p := newVC02Peer(t, c.Size, age, c.Qcap, c.Fail, true, nil)
	defer p.shutdown()
	batching := p.g != nil
	ctx := context.Background()
	var trace []*vc02Ev // direct mode only; with batching the gate owns the trace
	nAccepted := 0
	stuck := false
	id := 0

	settle := func() bool { // every accepted item taken, its Add/Rm returned, and the commit it triggers finished
		g := p.g
		return vc02WaitFor(vc02TakeTimeout, func() bool {
			g.mu.Lock()
			defer g.mu.Unlock()
			return g.nAddDone == nAccepted && !g.expect && !g.inCall
		})
	}
	markStuck := func() {
		p.g.mu.Lock()
		p.g.trace = append(p.g.trace, &vc02Ev{Kind: "stuck", done: true})
		p.g.mu.Unlock()
		stuck = true
	}

	for _, s := range c.Steps {
		if stuck {
			break
		}
		switch s.T {
		case "pin", "unpin":
			op := &vc02Op{Pin: s.T == "pin", C: s.C, V: s.V}
			pin := vc02Pin(s.C, s.V)
			if op.Pin {
				op.R = ranks.of(vc02PinBytes(pin))
			} else {
				pin = api.PinCid(vc02Cid(s.C))
			}
			octx := context.WithValue(ctx, vc02CtxKey{}, id)
			if !batching {
				p.fds.resetLastFail()
				var err error
				if op.Pin {
					err = p.cc.LogPin(octx, pin)
				} else {
					err = p.cc.LogUnpin(octx, pin)
				}
				kind := p.fds.takeLastFail()
				if err != nil && kind == "" {
					kind = "other:" + err.Error()
				}
				trace = append(trace, &vc02Ev{Kind: "direct", ID: id, Op: op, Ok: err == nil, Pres: kind, done: true})
				id++
				continue
			}
			g := p.g
			ev := &vc02Ev{Kind: "enq", ID: id, Op: op}
			g.mu.Lock()
			g.trace = append(g.trace, ev) // before the send: the worker's Add/Rm of this item is recorded after it
			held := g.holding
			armed := g.holdNext
			g.mu.Unlock()
			var err error
			if op.Pin {
				err = p.cc.LogPin(octx, pin)
			} else {
				err = p.cc.LogUnpin(octx, pin)
			}
			g.mu.Lock()
			ev.Ok = err == nil
			ev.done = true
			if err != nil && !errors.Is(err, ErrMaxQueueSizeReached) {
				ev.Pres = "other:" + err.Error()
			}
			g.mu.Unlock()
			id++
			if err == nil {
				nAccepted++
			}
			switch {
			case held: // the worker is inside Add/Rm of an earlier item: nothing to wait for
			case armed && err == nil:
				if !vc02WaitFor(vc02TakeTimeout, func() bool { g.mu.Lock(); defer g.mu.Unlock(); return g.holding }) {
					markStuck()
				}
			case err == nil:
				if !settle() {
					markStuck()
				}
			}
		case "hold":
			if batching {
				p.g.mu.Lock()
				if !p.g.holding {
					p.g.holdNext = true
				}
				p.g.mu.Unlock()
			}
		case "release":
			if batching {
				g := p.g
				g.mu.Lock()
				g.holdNext = false
				if g.holding {
					g.holding = false
					close(g.release)
				}
				g.mu.Unlock()
				if !settle() {
					markStuck()
				}
			}
		case "age":
			if batching && age < time.Minute {
				g := p.g
				g.mu.Lock()
				cur, n0 := g.cur, g.nCommit
				g.mu.Unlock()
				if cur == 0 {
					continue
				}
				// positive expectation with a margin of 4 x the age plus a generous constant for a loaded machine
				ok := vc02WaitFor(4*age+1500*time.Millisecond, func() bool {
					g.mu.Lock()
					defer g.mu.Unlock()
					return g.nCommit > n0 && !g.inCall
				})
				if !ok {
					g.mu.Lock()
					g.trace = append(g.trace, &vc02Ev{Kind: "noage", done: true})
					g.mu.Unlock()
				}
			}
		}
	}
	if batching {
		g := p.g
		g.mu.Lock()
		if g.holding { // a script that ends while holding: let the worker go
			g.holding = false
			close(g.release)
		}
		g.holdNext = false
		g.mu.Unlock()
		if !stuck && !settle() {
			markStuck()
		}
		g.mu.Lock()
		trace = append([]*vc02Ev{}, g.trace...)
		g.mu.Unlock()
	}
	obs.Trace = trace
	for _, e := range trace {
		if strings.HasPrefix(e.Pres, "other:") {
			obs.Err = "unexpected error: " + e.Pres
		}
		if e.Kind == "add" && e.ID < 0 {
			obs.Err = "worker item without id"
		}
	}
	st, err := p.cc.State(ctx)
	if err != nil {
		obs.Err = "state: " + err.Error()
		return
	}
	pins, err := st.List(ctx)
	if err != nil {
		obs.Err = "list: " + err.Error()
		return
	}
	for _, pn := range pins {
		obs.Final = append(obs.Final, [2]int{vc02CidIndex(pn.Cid), ranks.of(vc02PinBytes(pn))})
	}
	sort.Slice(obs.Final, func(i, j int) bool { return obs.Final[i][0] < obs.Final[j][0] })
	for _, cl := range p.tr.snapshot() {
		if cl.Track {
			obs.Calls = append(obs.Calls, fmt.Sprintf("Track %d %d", vc02CidIndex(cl.Pin.Cid), ranks.of(vc02PinBytes(cl.Pin))))
		} else {
			obs.Calls = append(obs.Calls, fmt.Sprintf("Untrack %d", vc02CidIndex(cl.Pin.Cid)))
		}
	}
	p.fds.mu.Lock()
	obs.Commit = append([]string{}, p.fds.log...)
	p.fds.mu.Unlock()
	return
}

func vc02CoqOp(o *vc02Op) string {
	if o.Pin {
		return fmt.Sprintf("(WPin %d %d)", o.C%vc02NCids, o.R)
	}
	return fmt.Sprintf("(WUnpin %d)", o.C%vc02NCids)
}
func vc02CoqPres(s string) string {
	switch s {
	case "tombs":
		return "PFailTombs"
	case "elems":
		return "PFailElems"
	case "heads":
		return "PFailHeads"
	}
	return "POk"
}

func vC02BTerm(c vC02BCase, obs vC02BObs) string {
	c.sanitize()
	var evs []string
	for _, e := range obs.Trace {
		switch e.Kind {
		case "enq":
			evs = append(evs, fmt.Sprintf("TEnq %d %s %s", e.ID, vc02CoqOp(e.Op), cqBool(e.Ok)))
		case "add":
			evs = append(evs, fmt.Sprintf("TAdd %d %s", e.ID, cqBool(e.Ok)))
		case "commit":
			evs = append(evs, "TCommit "+vc02CoqPres(e.Pres))
		case "direct":
			evs = append(evs, fmt.Sprintf("TDirect %d %s %s %s", e.ID, vc02CoqOp(e.Op), vc02CoqPres(e.Pres), cqBool(e.Ok)))
		case "noage":
			evs = append(evs, "TNoAge")
		case "stuck":
			evs = append(evs, "TStuck")
		}
	}
	var fin []string
	for _, f := range obs.Final {
		fin = append(fin, fmt.Sprintf("(%d, %d)", f[0], f[1]))
	}
	batching := c.Size > 0 && c.AgeMs > 0
	nofire := c.AgeMs >= 60000
	return fmt.Sprintf("(mk_h1 %s %s %d %d %s %s %s)", cqBool(batching), cqBool(nofire), c.Qcap, c.Size, cqList(evs), cqList(fin), cqList(obs.Calls))
}

func vC02BNontrivial(c vC02BCase, obs vC02BObs) bool {
	// a batch (or direct history) with a pin and an unpin, or two pins, of one CID
	perCid := map[int]int{}
	for _, s := range c.Steps {
		if s.T == "pin" || s.T == "unpin" {
			perCid[s.C%vc02NCids]++
		}
	}
	for _, n := range perCid {
		if n >= 2 {
			return true
		}
	}
	return false
}

func TestVerifC02Batch(t *testing.T) {
	seed := uint64(vEnvInt("VERIF_SEED", 1))
	n := vEnvInt("VERIF_N", 60)
	out := newVOut("C02b", "From V Require Import Base.Common Model.C02_Batch Model.C02_Set Model.C02_Check.\nOpen Scope N_scope.",
		"bcase", "Definition R := Eval vm_compute in failing_batch cases.\nPrint R.")
	defer out.close()
	var cases []vC02BCase
	var kinds []string
	if raw := vCasesIn(); raw != nil {
		for _, b := range raw {
			var c vC02BCase
			if err := json.Unmarshal(b, &c); err != nil {
				t.Fatal(err)
			}
			cases = append(cases, c)
			kinds = append(kinds, "given")
		}
	} else {
		r := newVRand(seed)
		for i := 0; i < n; i++ {
			var c vC02BCase
			var k string
			if i%4 == 3 {
				c, k = vC02BBoundary(i/4 + int(seed))
			} else {
				c, k = vC02BGen(r)
			}
			cases = append(cases, c)
			kinds = append(kinds, k)
		}
	}
	par := vEnvInt("VERIF_C02_PAR", 4)
	type res struct {
		obs vC02BObs
	}
	results := make([]res, len(cases))
	var wg sync.WaitGroup
	sem := make(chan struct{}, par)
	for i := range cases {
		wg.Add(1)
		sem <- struct{}{}
		go func(i int) {
			defer wg.Done()
			defer func() { <-sem }()
			obs, _ := vC02BRun(t, cases[i])
			results[i] = res{obs}
		}(i)
	}
	wg.Wait()
	for i, c := range cases {
		obs := results[i].obs
		if obs.Err != "" {
			t.Fatalf("case %d: %s (input %+v)", i, obs.Err, c)
		}
		out.count("kind_" + kinds[i])
		for _, e := range obs.Trace {
			switch {
			case e.Kind == "commit" && !e.Ok:
				out.count("commit_fail_" + e.Pres)
			case e.Kind == "commit":
				out.count("commit_ok")
			case e.Kind == "enq" && !e.Ok:
				out.count("refused")
			case e.Kind == "direct" && !e.Ok:
				out.count("direct_fail_" + e.Pres)
			case e.Kind == "stuck" || e.Kind == "noage":
				out.count(e.Kind)
			}
		}
		out.add(vC02BTerm(c, obs), c, obs, vC02BNontrivial(c, obs))
	}
}
