//go:build verif

package crdt

// C07 correspondence, package crdt: (a) IsTrustedPeer of the real component after histories of
// Trust/Distrust on configurations loaded from their JSON form, (b) two real components X and U,
// U publishes a pin, does it reach X's state — against the topic validator = trust of the signer.

import (
	"context"
	"encoding/json"
	"fmt"
	"sync"
	"testing"
	"time"

	"github.com/ipfs/ipfs-cluster/api"
	"github.com/ipfs/ipfs-cluster/datastore/inmem"

	cid "github.com/ipfs/go-cid"
	libp2p "github.com/libp2p/go-libp2p"
	"github.com/libp2p/go-libp2p-core/control"
	crypto "github.com/libp2p/go-libp2p-core/crypto"
	host "github.com/libp2p/go-libp2p-core/host"
	"github.com/libp2p/go-libp2p-core/network"
	peer "github.com/libp2p/go-libp2p-core/peer"
	peerstore "github.com/libp2p/go-libp2p-core/peerstore"
	rpc "github.com/libp2p/go-libp2p-gorpc"
	dual "github.com/libp2p/go-libp2p-kad-dht/dual"
	pubsub "github.com/libp2p/go-libp2p-pubsub"
	ma "github.com/multiformats/go-multiaddr"
	mh "github.com/multiformats/go-multihash"
)

// peers are indices: 0 = the component under observation (X), 1 = the publisher U in "deliver" cases, 2.. = others
const vC07NPeers = 6

type vC07Op struct {
	Trust bool `json:"trust"`
	Peer  int  `json:"peer"`
}

type vC07Case struct {
	Kind string   `json:"kind"` // trust | deliver | relay
	Star bool     `json:"star"`
	List []int    `json:"list"`
	Hist []vC07Op `json:"hist"`
	// relay (line A--B--C, A refuses connections with C): does the relay B trust the publisher C
	RelayTrusts bool `json:"relay_trusts,omitempty"`
	// kind trustj: the trusted_peers value of the configuration section as written in the file: TP in file order
	// (-1 = "*"), Form "" (key present) | "absent" | "null"; Env: ApplyEnvVars (nothing set) after LoadJSON, as
	// the configuration Manager does
	TP   []int  `json:"tp,omitempty"`
	Form string `json:"form,omitempty"`
	Env  bool   `json:"env,omitempty"`
}

func (c *vC07Case) norm() {
	clamp := func(i int) int {
		if i < 0 {
			return 0
		}
		if i >= vC07NPeers {
			return vC07NPeers - 1
		}
		return i
	}
	if c.List == nil {
		c.List = []int{}
	}
	for i := range c.List {
		c.List[i] = clamp(c.List[i])
	}
	for i := range c.Hist {
		c.Hist[i].Peer = clamp(c.Hist[i].Peer)
	}
	if c.Kind != "deliver" && c.Kind != "relay" && c.Kind != "trustj" {
		c.Kind = "trust"
	}
	for i := range c.TP {
		if c.TP[i] < 0 {
			c.TP[i] = -1
		} else {
			c.TP[i] = clamp(c.TP[i])
		}
	}
	if c.Form != "absent" && c.Form != "null" {
		c.Form = ""
	}
}

// the Gallina rendering of the trusted_peers value: option (list tentry)
func vC07CoqTP(c *vC07Case) string {
	if c.Form != "" {
		return "None"
	}
	xs := make([]string, len(c.TP))
	for i, p := range c.TP {
		if p < 0 {
			xs[i] = "TStar"
		} else {
			xs[i] = fmt.Sprintf("TPeer %d", p)
		}
	}
	return "(Some " + cqList(xs) + ")"
}

func vC07CoqHist(h []vC07Op) string {
	xs := make([]string, len(h))
	for i, o := range h {
		if o.Trust {
			xs[i] = fmt.Sprintf("TTrust %d", o.Peer)
		} else {
			xs[i] = fmt.Sprintf("TDistrust %d", o.Peer)
		}
	}
	return cqList(xs)
}

type vC07DetReader struct{ r *vRand }

func (d vC07DetReader) Read(p []byte) (int, error) {
	for i := range p {
		p[i] = byte(d.r.next())
	}
	return len(p), nil
}

func vC07FakeID(i int) peer.ID {
	_, pub, err := crypto.GenerateEd25519Key(vC07DetReader{newVRand(uint64(9100 + i))})
	if err != nil {
		panic(err)
	}
	id, err := peer.IDFromPublicKey(pub)
	if err != nil {
		panic(err)
	}
	return id
}

type vC07Node struct {
	h   host.Host
	ps  *pubsub.PubSub
	d   *dual.DHT
	cc  *Consensus
	ids []peer.ID
	// optional, set before start: real ids for some indices; heads rebroadcast interval (default 200ms)
	known       map[int]peer.ID
	rebroadcast string
	// optional, set before start: the trusted_peers value as written (kind trustj); overrides star/list
	jcase *vC07Case
}

// refuses every connection with one peer, in both directions
type vC07Gater struct{ deny peer.ID }

func (g *vC07Gater) InterceptPeerDial(p peer.ID) bool                 { return p != g.deny }
func (g *vC07Gater) InterceptAddrDial(p peer.ID, _ ma.Multiaddr) bool { return p != g.deny }
func (g *vC07Gater) InterceptAccept(network.ConnMultiaddrs) bool      { return true }
func (g *vC07Gater) InterceptSecured(_ network.Direction, p peer.ID, _ network.ConnMultiaddrs) bool {
	return p != g.deny
}
func (g *vC07Gater) InterceptUpgraded(network.Conn) (bool, control.DisconnectReason) { return true, 0 }

func vC07NewHost(opts ...libp2p.Option) (*vC07Node, error) {
	ctx := context.Background()
	h, err := libp2p.New(ctx, append([]libp2p.Option{libp2p.ListenAddrStrings("/ip4/127.0.0.1/tcp/0")}, opts...)...)
	if err != nil {
		return nil, err
	}
	ps, err := pubsub.NewGossipSub(ctx, h, pubsub.WithMessageSigning(true), pubsub.WithStrictSignatureVerification(true))
	if err != nil {
		return nil, err
	}
	d, err := dual.New(ctx, h)
	if err != nil {
		return nil, err
	}
	return &vC07Node{h: h, ps: ps, d: d}, nil
}

// a real component on the node's host, configured through the JSON form of its configuration;
// peer1 is the id that index 1 stands for
func (n *vC07Node) start(star bool, list []int, peer1 peer.ID) error {
	n.ids = []peer.ID{n.h.ID(), peer1}
	for i := 2; i < vC07NPeers; i++ {
		n.ids = append(n.ids, vC07FakeID(i))
	}
	for i, id := range n.known {
		n.ids[i] = id
	}
	if n.rebroadcast == "" {
		n.rebroadcast = "200ms"
	}
	cfg := &Config{}
	cfg.Default()
	tp := []string{}
	for _, i := range list {
		tp = append(tp, peer.Encode(n.ids[i]))
	}
	if star {
		tp = append(tp, "*")
	}
	sec := map[string]interface{}{"cluster_name": "vc07", "trusted_peers": tp, "rebroadcast_interval": n.rebroadcast}
	if jc := n.jcase; jc != nil {
		switch jc.Form {
		case "absent":
			delete(sec, "trusted_peers")
		case "null":
			sec["trusted_peers"] = nil
		default:
			tp = []string{}
			for _, i := range jc.TP {
				if i < 0 {
					tp = append(tp, "*")
				} else {
					tp = append(tp, peer.Encode(n.ids[i]))
				}
			}
			sec["trusted_peers"] = tp
		}
	}
	raw, _ := json.Marshal(sec)
	if err := cfg.LoadJSON(raw); err != nil {
		return err
	}
	if n.jcase != nil && n.jcase.Env {
		if err := cfg.ApplyEnvVars(); err != nil {
			return err
		}
	}
	cfg.DatastoreNamespace = "vc07"
	cc, err := New(n.h, n.d, n.ps, cfg, inmem.New())
	if err != nil {
		return err
	}
	s := rpc.NewServer(n.h, "vc07mock")
	if err := s.RegisterName("PinTracker", &vC07Tracker{}); err != nil {
		return err
	}
	cc.SetClient(rpc.NewClientWithServer(n.h, "vc07mock", s))
	select {
	case <-cc.Ready(context.Background()):
	case <-time.After(60 * time.Second):
		return fmt.Errorf("crdt consensus not ready")
	}
	n.cc = cc
	return nil
}

// the only RPCs the component issues while it is used here (PutHook / DeleteHook)
type vC07Tracker struct{}

func (*vC07Tracker) Track(ctx context.Context, in *api.Pin, out *struct{}) error   { return nil }
func (*vC07Tracker) Untrack(ctx context.Context, in *api.Pin, out *struct{}) error { return nil }

func vC07NewNode(t testing.TB, star bool, list []int) *vC07Node {
	n, err := vC07NewHost()
	if err == nil {
		err = n.start(star, list, vC07FakeID(1))
	}
	if err != nil {
		t.Fatal(err)
	}
	return n
}

func (n *vC07Node) close() {
	if n.cc != nil {
		n.cc.Shutdown(context.Background())
	}
	n.h.Close()
}

func (n *vC07Node) apply(ops []vC07Op) {
	ctx := context.Background()
	for _, o := range ops {
		if o.Trust {
			n.cc.Trust(ctx, n.ids[o.Peer])
		} else {
			n.cc.Distrust(ctx, n.ids[o.Peer])
		}
	}
}

func vC07Has(cc *Consensus, c cid.Cid) bool {
	st, err := cc.State(context.Background())
	if err != nil {
		return false
	}
	ok, err := st.Has(context.Background(), c)
	return err == nil && ok
}

func vC07Cid(i int) cid.Cid {
	h, _ := mh.Sum([]byte(fmt.Sprintf("vc07-%d", i)), mh.SHA2_256, -1)
	return cid.NewCidV1(cid.Raw, h)
}

func vC07Pin(c cid.Cid) *api.Pin {
	p := api.PinCid(c)
	p.ReplicationFactorMin, p.ReplicationFactorMax = -1, -1
	return p
}

// poll a positive expectation
func vC07Wait(d time.Duration, f func() bool) bool {
	dl := time.Now().Add(d)
	for {
		if f() {
			return true
		}
		if time.Now().After(dl) {
			return false
		}
		time.Sleep(20 * time.Millisecond)
	}
}

// deliver: X (trust state = configuration + history) and a publisher U. Returns arrived, and an
// infrastructure error when the two components never got to exchange a message at all.
func vC07Deliver(c vC07Case, k int) (bool, error) {
	u, err := vC07NewHost()
	if err != nil {
		return false, err
	}
	defer u.close()
	x, err := vC07NewHost()
	if err != nil {
		return false, err
	}
	defer x.close()
	if err := x.start(c.Star, c.List, u.h.ID()); err != nil {
		return false, err
	}
	// U is a peer like any other (whom it trusts is irrelevant here)
	if err := u.start(true, nil, x.h.ID()); err != nil {
		return false, err
	}
	x.apply(c.Hist)
	ctx := context.Background()
	x.h.Peerstore().AddAddrs(u.h.ID(), u.h.Addrs(), peerstore.PermanentAddrTTL)
	if _, err := x.h.Network().DialPeer(ctx, u.h.ID()); err != nil {
		return false, err
	}
	// both sides see the other one subscribed to the topic
	meshed := func(a, b *vC07Node) bool {
		for _, tp := range a.ps.GetTopics() {
			for _, p := range a.ps.ListPeers(tp) {
				if p == b.h.ID() {
					return true
				}
			}
		}
		return false
	}
	if !vC07Wait(30*time.Second, func() bool { return meshed(u, x) && meshed(x, u) }) {
		return false, fmt.Errorf("pubsub peers never saw each other on the topic")
	}
	expect := c.Star || x.cc.IsTrustedPeer(ctx, u.h.ID()) // only chooses how long to wait
	c1 := vC07Cid(2 * k)
	if err := u.cc.LogPin(ctx, vC07Pin(c1)); err != nil {
		return false, err
	}
	wait := 2500 * time.Millisecond // negative expectation: bounded (heads are rebroadcast every 200 ms)
	if expect {
		wait = 60 * time.Second
	}
	arrived := vC07Wait(wait, func() bool { return vC07Has(x.cc, c1) })
	if !arrived {
		// positive control: once X trusts U, what U publishes next does arrive (the link worked all along)
		x.cc.Trust(ctx, u.h.ID())
		c2 := vC07Cid(2*k + 1)
		if err := u.cc.LogPin(ctx, vC07Pin(c2)); err != nil {
			return false, err
		}
		if !vC07Wait(60*time.Second, func() bool { return vC07Has(x.cc, c2) }) {
			if x.cc.config.TrustAll || expect {
				return false, nil // a trusted publisher's update never arrived: reported through the case
			}
			return false, fmt.Errorf("control publication did not arrive after Trust")
		}
	}
	return arrived, nil
}

// relay: a line A--B--C. A (trust state = configuration + history; index 1 = B, index 2 = C) refuses every connection
// with C, so what C publishes can reach A only through B's forwarding. B trusts A, and C if RelayTrusts. B never
// rebroadcasts heads by itself during the run (its own broadcasts are signed by B and would carry C's delta on:
// that is the code's design and not what is observed here). Returns (arrived at A, arrived at B).
func vC07Relay(c vC07Case, k int) (bool, bool, error) {
	ctx := context.Background()
	cn, err := vC07NewHost()
	if err != nil {
		return false, false, err
	}
	defer cn.close()
	bn, err := vC07NewHost()
	if err != nil {
		return false, false, err
	}
	defer bn.close()
	an, err := vC07NewHost(libp2p.ConnectionGater(&vC07Gater{deny: cn.h.ID()}))
	if err != nil {
		return false, false, err
	}
	defer an.close()
	an.known = map[int]peer.ID{2: cn.h.ID()}
	if err := an.start(c.Star, c.List, bn.h.ID()); err != nil {
		return false, false, err
	}
	an.apply(c.Hist)
	bn.known = map[int]peer.ID{2: cn.h.ID()}
	bn.rebroadcast = "1h"
	bl := []int{1}
	if c.RelayTrusts {
		bl = []int{1, 2}
	}
	if err := bn.start(false, bl, an.h.ID()); err != nil { // for B: index 1 = A, 2 = C
		return false, false, err
	}
	if err := cn.start(true, nil, bn.h.ID()); err != nil {
		return false, false, err
	}
	for _, pr := range [][2]*vC07Node{{an, bn}, {cn, bn}} {
		pr[0].h.Peerstore().AddAddrs(pr[1].h.ID(), pr[1].h.Addrs(), peerstore.PermanentAddrTTL)
		if _, err := pr[0].h.Network().DialPeer(ctx, pr[1].h.ID()); err != nil {
			return false, false, err
		}
	}
	apart := func() bool { return an.h.Network().Connectedness(cn.h.ID()) != network.Connected }
	sees := func(a, b *vC07Node) bool {
		for _, tp := range a.ps.GetTopics() {
			for _, p := range a.ps.ListPeers(tp) {
				if p == b.h.ID() {
					return true
				}
			}
		}
		return false
	}
	if !vC07Wait(30*time.Second, func() bool { return sees(an, bn) && sees(bn, an) && sees(bn, cn) && sees(cn, bn) }) {
		return false, false, fmt.Errorf("pubsub peers never saw each other on the topic")
	}
	time.Sleep(400 * time.Millisecond) // a few gossipsub heartbeats: the meshes B-A and B-C are grafted
	// positive control first: a pin published by B reaches C, and A when A trusts B. B does not rebroadcast, so a
	// publication lost while the links settle is repeated with a new pin (bounded).
	aTrustsB := an.cc.IsTrustedPeer(ctx, bn.h.ID())
	okCtl := false
	for try := 0; try < 8 && !okCtl; try++ {
		cb := vC07Cid(40*k + 1000 + try)
		if err := bn.cc.LogPin(ctx, vC07Pin(cb)); err != nil {
			return false, false, err
		}
		okCtl = vC07Wait(4*time.Second, func() bool { return vC07Has(cn.cc, cb) && (!aTrustsB || vC07Has(an.cc, cb)) })
	}
	if !okCtl {
		return false, false, fmt.Errorf("control: B's pins never reached C (and A, which trusts B: %v)", aTrustsB)
	}
	// C publishes
	cc1 := vC07Cid(40*k + 1039)
	if err := cn.cc.LogPin(ctx, vC07Pin(cc1)); err != nil {
		return false, false, err
	}
	atB := vC07Wait(map[bool]time.Duration{true: 60 * time.Second, false: 2500 * time.Millisecond}[c.RelayTrusts], func() bool { return vC07Has(bn.cc, cc1) })
	expect := c.RelayTrusts && an.cc.IsTrustedPeer(ctx, cn.h.ID()) // only chooses how long to wait
	wait := 3 * time.Second
	if expect {
		wait = 60 * time.Second
	}
	atA := vC07Wait(wait, func() bool { return vC07Has(an.cc, cc1) })
	if c.RelayTrusts && !atB {
		return false, false, fmt.Errorf("C's pin never reached the relay B although B trusts C")
	}
	if !apart() {
		return false, false, fmt.Errorf("A and C got connected in spite of the gater")
	}
	return atA, atB, nil
}

func vC07Gen(seed uint64, n int) []vC07Case {
	r := newVRand(seed)
	var out []vC07Case
	// trust histories: fixed configurations + generated ones, every prefix of a long history is a case
	type cf struct {
		star bool
		list []int
	}
	cfgs := []cf{{false, []int{}}, {false, []int{1}}, {true, []int{}}, {true, []int{2}}, {false, []int{0, 1, 2, 3, 4, 5}}}
	for k := 0; k < n; k++ {
		c := cf{star: r.chance(10), list: []int{}}
		for p := 0; p < vC07NPeers; p++ {
			if r.chance(35) {
				c.list = append(c.list, p)
			}
		}
		if r.chance(20) && len(c.list) > 0 {
			c.list = append(c.list, c.list[0]) // listed twice
		}
		cfgs = append(cfgs, c)
	}
	for _, c := range cfgs {
		var h []vC07Op
		L := r.rng(6, 14)
		for i := 0; i <= L; i++ {
			out = append(out, vC07Case{Kind: "trust", Star: c.star, List: c.list, Hist: append([]vC07Op{}, h...)})
			o := vC07Op{Trust: r.chance(50), Peer: r.intn(vC07NPeers)}
			if len(h) > 0 && r.chance(25) { // the same peer again: Trust;Distrust, Distrust;Trust, twice the same
				o.Peer = h[len(h)-1].Peer
			}
			h = append(h, o)
		}
	}
	// the configuration section as written in the file: key absent / null / list with "*" at any position, then
	// (half of them) the environment pass the Manager applies after loading
	fixedJ := []vC07Case{
		{Kind: "trustj", Form: "absent"}, {Kind: "trustj", Form: "null"}, {Kind: "trustj", Form: "absent", Env: true},
		{Kind: "trustj", Form: "null", Env: true}, {Kind: "trustj", TP: []int{}}, {Kind: "trustj", TP: []int{}, Env: true},
		{Kind: "trustj", TP: []int{-1}, Env: true}, {Kind: "trustj", TP: []int{2, -1, 3}}, {Kind: "trustj", TP: []int{-1, 2}, Env: true},
		{Kind: "trustj", TP: []int{1, 2}, Env: true}, {Kind: "trustj", Form: "absent", Hist: []vC07Op{{true, 2}}},
	}
	out = append(out, fixedJ...)
	for k := 0; k < n/2; k++ {
		c := vC07Case{Kind: "trustj", Env: r.chance(50)}
		switch {
		case r.chance(15):
			c.Form = "absent"
		case r.chance(15):
			c.Form = "null"
		default:
			c.TP = []int{}
			for p := 0; p < vC07NPeers; p++ {
				if r.chance(30) {
					c.TP = append(c.TP, p)
				}
			}
			if r.chance(20) {
				at := r.intn(len(c.TP) + 1)
				c.TP = append(c.TP[:at], append([]int{-1}, c.TP[at:]...)...)
			}
		}
		for i, m := 0, r.rng(0, 3); i < m; i++ {
			c.Hist = append(c.Hist, vC07Op{Trust: r.chance(50), Peer: r.intn(vC07NPeers)})
		}
		out = append(out, c)
	}
	// deliveries
	out = append(out,
		vC07Case{Kind: "deliver", List: []int{1}},
		vC07Case{Kind: "deliver", List: []int{}},
		vC07Case{Kind: "deliver", List: []int{2, 3}},
		vC07Case{Kind: "deliver", Star: true},
		vC07Case{Kind: "deliver", List: []int{1}, Hist: []vC07Op{{false, 1}}},
		vC07Case{Kind: "deliver", List: []int{}, Hist: []vC07Op{{true, 1}}},
		vC07Case{Kind: "deliver", Star: true, List: []int{}, Hist: []vC07Op{{false, 1}}},
		vC07Case{Kind: "deliver", List: []int{}, Hist: []vC07Op{{true, 1}, {false, 1}}},
	)
	// relay line A--B--C: A trusts only B (C's update must not get in through B); A trusts B and C (it does get in: the path works)
	out = append(out,
		vC07Case{Kind: "relay", List: []int{1}, RelayTrusts: true},
		vC07Case{Kind: "relay", List: []int{1, 2}, RelayTrusts: true})
	for k := 0; k < n/8; k++ {
		c := vC07Case{Kind: "relay", Star: r.chance(10), List: []int{1}, RelayTrusts: !r.chance(25)}
		if r.chance(40) {
			c.List = append(c.List, 2)
		}
		if r.chance(30) {
			c.List = append(c.List, 3)
		}
		for i, m := 0, r.rng(0, 3); i < m; i++ {
			c.Hist = append(c.Hist, vC07Op{Trust: r.chance(50), Peer: r.rng(2, 3)}) // B stays trusted: it is the positive control
		}
		out = append(out, c)
	}
	for k := 0; k < n/4; k++ {
		c := vC07Case{Kind: "deliver", Star: r.chance(10), List: []int{}}
		for p := 0; p < 4; p++ {
			if r.chance(35) {
				c.List = append(c.List, p)
			}
		}
		for i, m := 0, r.rng(0, 4); i < m; i++ {
			c.Hist = append(c.Hist, vC07Op{Trust: r.chance(50), Peer: r.rng(0, 2)})
		}
		out = append(out, c)
	}
	return out
}

func vC07SameCfg(a, b *vC07Case) bool {
	ja, _ := json.Marshal([]interface{}{a.Star, a.List})
	jb, _ := json.Marshal([]interface{}{b.Star, b.List})
	return string(ja) == string(jb)
}

func vC07IsPrefix(a, b []vC07Op) bool {
	if len(a) > len(b) {
		return false
	}
	for i := range a {
		if a[i] != b[i] {
			return false
		}
	}
	return true
}

func TestVerifCrdtC07(t *testing.T) {
	seed := uint64(vEnvInt("VERIF_SEED", 1))
	n := vEnvInt("VERIF_N", 8)
	pubsub.GossipSubHeartbeatInterval = 100 * time.Millisecond
	out := newVOut("C07", "From Coq Require Import String.\nFrom V Require Import Base.Common Base.Rpc Model.C07_Auth Model.C07_Check.\nOpen Scope string_scope.\nOpen Scope N_scope.",
		"(N * c07case)", "Definition R := Eval vm_compute in failing cases.\nPrint R.")
	out.idBase += 500000 // the root-package harness of C07 numbers its cases from 0
	defer out.close()
	var cases []vC07Case
	if raw := vCasesIn(); raw != nil {
		for _, b := range raw {
			var c vC07Case
			if err := json.Unmarshal(b, &c); err != nil {
				t.Fatal(err)
			}
			cases = append(cases, c)
		}
	} else {
		cases = vC07Gen(seed, n)
	}
	// deliveries run concurrently (each has its own two hosts); results are emitted in case order
	type dres struct {
		arrived bool
		atRelay bool
		err     error
	}
	dr := make([]dres, len(cases))
	var wg sync.WaitGroup
	sem := make(chan struct{}, 4)
	for i := range cases {
		cases[i].norm()
		if cases[i].Kind != "deliver" && cases[i].Kind != "relay" {
			continue
		}
		wg.Add(1)
		go func(i int) {
			defer wg.Done()
			sem <- struct{}{}
			defer func() { <-sem }()
			if cases[i].Kind == "relay" {
				a, b, err := vC07Relay(cases[i], i)
				dr[i] = dres{a, b, err}
				return
			}
			a, err := vC07Deliver(cases[i], i)
			dr[i] = dres{a, true, err}
		}(i)
	}
	var node *vC07Node
	var prev *vC07Case
	obsTrust := make([][]bool, len(cases))
	for i := range cases {
		c := cases[i]
		if c.Kind != "trust" {
			continue
		}
		if node == nil || !vC07SameCfg(prev, &c) || !vC07IsPrefix(prev.Hist, c.Hist) {
			if node != nil {
				node.close()
			}
			node = vC07NewNode(t, c.Star, c.List)
			node.apply(c.Hist)
			out.count("trust-instances")
		} else {
			node.apply(c.Hist[len(prev.Hist):])
		}
		prev = &cases[i]
		for p := 0; p < vC07NPeers; p++ {
			obsTrust[i] = append(obsTrust[i], node.cc.IsTrustedPeer(context.Background(), node.ids[p]))
		}
	}
	if node != nil {
		node.close()
	}
	for i := range cases {
		c := cases[i]
		if c.Kind != "trustj" {
			continue
		}
		jn, err := vC07NewHost()
		if err == nil {
			jn.jcase = &cases[i]
			err = jn.start(false, nil, vC07FakeID(1))
		}
		if err != nil {
			t.Fatalf("trustj case %d: infrastructure: %v", i, err)
		}
		jn.apply(c.Hist)
		for p := 0; p < vC07NPeers; p++ {
			obsTrust[i] = append(obsTrust[i], jn.cc.IsTrustedPeer(context.Background(), jn.ids[p]))
		}
		jn.close()
		out.count("trustj-instances")
	}
	wg.Wait()
	for i, c := range cases {
		switch c.Kind {
		case "trust":
			xs := make([]string, len(obsTrust[i]))
			nt := 0
			for j, b := range obsTrust[i] {
				xs[j] = cqBool(b)
				if b {
					nt++
				}
			}
			out.count(fmt.Sprintf("trust/hist%02d", len(c.Hist)))
			out.add(fmt.Sprintf("CTrust %s %s %s %s", cqBool(c.Star), cqListN(c.List), vC07CoqHist(c.Hist), cqList(xs)),
				c, obsTrust[i], len(c.Hist) > 0)
		case "trustj":
			xs := make([]string, len(obsTrust[i]))
			for j, b := range obsTrust[i] {
				xs[j] = cqBool(b)
			}
			out.count("trustj/form=" + c.Form + fmt.Sprintf("/env=%v", c.Env))
			out.add(fmt.Sprintf("CTrustJ %s %s %s %s", vC07CoqTP(&c), cqBool(c.Env), vC07CoqHist(c.Hist), cqList(xs)),
				c, obsTrust[i], true)
		case "deliver":
			if dr[i].err != nil {
				t.Fatalf("deliver case %d: infrastructure: %v", i, dr[i].err)
			}
			out.count(fmt.Sprintf("deliver/arrived=%v", dr[i].arrived))
			out.add(fmt.Sprintf("CDeliver %s %s %s 1 1 true %s", cqBool(c.Star), cqListN(c.List), vC07CoqHist(c.Hist), cqBool(dr[i].arrived)),
				c, map[string]interface{}{"signer": 1, "forwarder": 1, "arrived": dr[i].arrived}, true)
		case "relay":
			if dr[i].err != nil {
				t.Fatalf("relay case %d: infrastructure: %v", i, dr[i].err)
			}
			out.count(fmt.Sprintf("relay/relay_trusts=%v/arrived=%v", c.RelayTrusts, dr[i].arrived))
			out.add(fmt.Sprintf("CDeliver %s %s %s 2 1 %s %s", cqBool(c.Star), cqListN(c.List), vC07CoqHist(c.Hist), cqBool(c.RelayTrusts), cqBool(dr[i].arrived)),
				c, map[string]interface{}{"signer": 2, "forwarder": 1, "relay_accepted": dr[i].atRelay, "arrived": dr[i].arrived}, true)
		}
	}
}
