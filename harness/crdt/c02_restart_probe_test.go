//go:build verif

package crdt

// C02 probe (not part of the regular run; `-test.run TestVerifC02RestartProbe` on the harness binary): what a clean
// Shutdown does with operations that were accepted but not committed yet. One Consensus with batching (size 10, age 1 h so
// that nothing commits by itself): pin A is accepted and taken into the open batch, pin B is accepted while the worker is
// held (it stays in the queue); Shutdown; a new Consensus on the same datastore. Prints what State() lists afterwards.

import (
	"context"
	"fmt"
	"testing"
	"time"

	"github.com/ipfs/ipfs-cluster/api"
)

func TestVerifC02RestartProbe(t *testing.T) {
	ctx := context.Background()
	p := newVC02Peer(t, 10, time.Hour, 10, nil, true, nil)
	pinA, pinB, pinC := vc02Pin(0, 1), vc02Pin(1, 2), vc02Pin(2, 3)
	// C is committed (a batch of its own, closed by hand through the size limit is not available: use direct commit)
	errA := p.cc.LogPin(context.WithValue(ctx, vc02CtxKey{}, 0), pinA)
	ok := vc02WaitFor(vc02TakeTimeout, func() bool { p.g.mu.Lock(); defer p.g.mu.Unlock(); return p.g.nAddDone == 1 && !p.g.inCall })
	p.g.mu.Lock()
	p.g.holdNext = true
	p.g.mu.Unlock()
	errC := p.cc.LogPin(context.WithValue(ctx, vc02CtxKey{}, 1), pinC) // taken, the worker is now held inside Add
	vc02WaitFor(vc02TakeTimeout, func() bool { p.g.mu.Lock(); defer p.g.mu.Unlock(); return p.g.holding })
	errB := p.cc.LogPin(context.WithValue(ctx, vc02CtxKey{}, 2), pinB) // stays in batchItemCh
	fmt.Printf("VERIF-PROBE accepted: A err=%v (taken=%v) C err=%v (held in Add) B err=%v (queued)\n", errA, ok, errC, errB)
	p.g.mu.Lock()
	if p.g.holding {
		p.g.holding = false
		close(p.g.release)
	}
	p.g.mu.Unlock()
	time.Sleep(50 * time.Millisecond)
	fds := p.fds
	ns := p.cc.config.DatastoreNamespace
	p.shutdown()
	// restart on the same datastore and namespace
	h, psub, dht := makeTestingHost(t)
	cfg := &Config{}
	cfg.Default()
	cfg.DatastoreNamespace = ns
	cfg.hostShutdown = true
	cfg.Batching.MaxBatchSize = 10
	cfg.Batching.MaxBatchAge = time.Hour
	cfg.TrustAll = true
	cc, err := New(h, dht, psub, cfg, fds)
	if err != nil {
		t.Fatal(err)
	}
	cc.SetClient(vc02RPCClient(&vc02Tracker{}))
	select {
	case <-cc.Ready(ctx):
	case <-time.After(60 * time.Second):
		t.Fatal("not ready after restart")
	}
	st, err := cc.State(ctx)
	if err != nil {
		t.Fatal(err)
	}
	pins, err := st.List(ctx)
	if err != nil {
		t.Fatal(err)
	}
	var got []string
	for _, pn := range pins {
		got = append(got, fmt.Sprintf("cid%d", vc02CidIndex(pn.Cid)))
	}
	fmt.Printf("VERIF-PROBE after Shutdown + restart on the same datastore: %d pins %v (accepted before Shutdown: cid0 cid2 cid1)\n", len(pins), got)
	cc.Shutdown(ctx)
	_ = api.Pin{}
}
