//go:build verif

package crdt

// C02 / H3: real Consensus peers over in-process libp2p (pubsub + bitswap as deployed). Scripts write on
// several peers, partition the network (a connection gater refuses every dial and accept), heal it, and wait
// until all trusted peers hold the same Merkle-DAG heads; the pinsets are then compared. One scenario has a
// peer nobody trusts: its updates must not reach anybody.

import (
	"context"
	"encoding/json"
	"fmt"
	"sort"
	"strings"
	"sync"
	"sync/atomic"
	"testing"
	"time"

	"github.com/ipfs/ipfs-cluster/api"

	cid "github.com/ipfs/go-cid"
	ds "github.com/ipfs/go-datastore"
	query "github.com/ipfs/go-datastore/query"
	pb "github.com/ipfs/go-ds-crdt/pb"
	dshelp "github.com/ipfs/go-ipfs-ds-help"
	ipns "github.com/ipfs/go-ipns"
	dag "github.com/ipfs/go-merkledag"
	libp2p "github.com/libp2p/go-libp2p"
	"github.com/libp2p/go-libp2p-core/control"
	host "github.com/libp2p/go-libp2p-core/host"
	"github.com/libp2p/go-libp2p-core/network"
	peer "github.com/libp2p/go-libp2p-core/peer"
	dht "github.com/libp2p/go-libp2p-kad-dht"
	dual "github.com/libp2p/go-libp2p-kad-dht/dual"
	pubsub "github.com/libp2p/go-libp2p-pubsub"
	record "github.com/libp2p/go-libp2p-record"
	routedhost "github.com/libp2p/go-libp2p/p2p/host/routed"
	ma "github.com/multiformats/go-multiaddr"
	multihash "github.com/multiformats/go-multihash"
	"google.golang.org/protobuf/proto"
)

// blocked: refuses everything (partition). deny: refuses every connection with the listed peers, in both directions
// (line topology: the two ends never get connected), as harness/crdt/c07_test.go does for its relay case.
type vc02Gater struct {
	blocked int32
	mu      sync.Mutex
	deny    map[peer.ID]bool
}

func (g *vc02Gater) open() bool { return atomic.LoadInt32(&g.blocked) == 0 }
func (g *vc02Gater) ok(p peer.ID) bool {
	g.mu.Lock()
	defer g.mu.Unlock()
	return !g.deny[p]
}
func (g *vc02Gater) setDeny(p peer.ID) {
	g.mu.Lock()
	if g.deny == nil {
		g.deny = map[peer.ID]bool{}
	}
	g.deny[p] = true
	g.mu.Unlock()
}
func (g *vc02Gater) InterceptPeerDial(p peer.ID) bool                 { return g.open() && g.ok(p) }
func (g *vc02Gater) InterceptAddrDial(p peer.ID, _ ma.Multiaddr) bool { return g.open() && g.ok(p) }
func (g *vc02Gater) InterceptAccept(network.ConnMultiaddrs) bool      { return g.open() }
func (g *vc02Gater) InterceptSecured(_ network.Direction, p peer.ID, _ network.ConnMultiaddrs) bool {
	return g.open() && g.ok(p)
}
func (g *vc02Gater) InterceptUpgraded(network.Conn) (bool, control.DisconnectReason) {
	return g.open(), 0
}

// as makeTestingHost of the package's own tests, plus the gater
func vc02MakeHost(t *testing.T, g *vc02Gater) (host.Host, *pubsub.PubSub, *dual.DHT) {
	ctx := context.Background()
	h, err := libp2p.New(ctx, libp2p.ListenAddrStrings("/ip4/127.0.0.1/tcp/0"), libp2p.ConnectionGater(g))
	if err != nil {
		t.Fatal(err)
	}
	psub, err := pubsub.NewGossipSub(ctx, h, pubsub.WithMessageSigning(true), pubsub.WithStrictSignatureVerification(true))
	if err != nil {
		h.Close()
		t.Fatal(err)
	}
	idht, err := dual.New(ctx, h,
		dual.DHTOption(dht.NamespacedValidator("pk", record.PublicKeyValidator{})),
		dual.DHTOption(dht.NamespacedValidator("ipns", ipns.Validator{KeyBook: h.Peerstore()})),
		dual.DHTOption(dht.Concurrency(10)),
		dual.DHTOption(dht.RoutingTableRefreshPeriod(200*time.Millisecond)),
		dual.DHTOption(dht.RoutingTableRefreshQueryTimeout(100*time.Millisecond)),
	)
	if err != nil {
		h.Close()
		t.Fatal(err)
	}
	return routedhost.Wrap(h, idht), psub, idht
}

type vC02NStep struct {
	T   string `json:"t"` // op | partition | heal | sync
	R   int    `json:"r,omitempty"`
	Pin bool   `json:"pin,omitempty"`
	C   int    `json:"c,omitempty"`
	V   int    `json:"v,omitempty"`
}

type vC02NCase struct {
	N         int         `json:"n"`         // peers that trust each other
	Untrusted bool        `json:"untrusted"` // one more peer that nobody trusts (it trusts the others)
	// Line: three peers A(0) -- B(1) -- C(2). A and C list each other (and nobody else) in trusted_peers and refuse every
	// connection with each other; B trusts everybody and is trusted by nobody. Operations are issued at A and C only
	// (step.R even: A, odd: C); whatever one of them publishes can reach the other only through B's forwarding.
	Line  bool        `json:"line,omitempty"`
	// RelayDistrusts (line only): B lists only A in trusted_peers, so B's validator rejects what C signs and gossipsub does
	// not forward it: C's updates never reach A (A's do reach C)
	RelayDistrusts bool        `json:"relay_distrusts,omitempty"`
	Steps          []vC02NStep `json:"steps"`
}

type vc02NOp struct {
	Pin  bool `json:"pin"`
	C    int  `json:"c"`
	R    int  `json:"r"`    // value rank
	Made int  `json:"made"` // id of the block this operation published in the delta table; 0: nothing / not in the table
	sid  string
}

type vC02NObs struct {
	Deltas []vc02DeltaObs `json:"deltas"`
	Finals [][][2]int     `json:"finals"` // per compared peer
	Peers  []int          `json:"peers"`  // index of every compared peer
	Trust  [][]int        `json:"trust"`  // its trusted_peers as indices; [-1] = trust all
	Writers []int         `json:"writers"` // peers that issued an operation
	Leak   []int          `json:"leak"`   // CIDs pinned only by the untrusted peer that appeared at a trusted peer
	Heads  []int          `json:"nheads"`
	NoSync bool           `json:"nosync,omitempty"` // the compared peers did not reach the same heads within the (long) timeout
	Issuers  [][]int     `json:"issuers"`   // per delta: the peers that published exactly this block (normally one)
	Parents  [][]int     `json:"parents"`   // per delta (same order as Deltas): ids of the blocks it links to
	AllTrust [][]int     `json:"all_trust"` // trusted_peers of every peer of the case ([-1] = trust all)
	Links    [][2]int    `json:"links"`
	Merged   [][]int     `json:"merged"`    // per compared peer: the deltas it merged, in the order of its datastore write batches
	Ops      [][]vc02NOp `json:"ops"`       // per compared peer: its own operations
	Calls    [][]string  `json:"calls"`     // per compared peer: what its PinTracker received
	Err    string         `json:"err,omitempty"`
}

const vc02SyncTimeout = 25 * time.Second // positive expectation; normally about one RebroadcastInterval (400 ms)

var vc02NetSeq int64

type vc02NetPeer struct {
	p *vc02Peer
	h host.Host
	g *vc02Gater
}

func vc02Topic(name string) string {
	th, err := multihash.Sum([]byte(name), multihash.MD5, -1)
	if err != nil {
		return name
	}
	return th.B58String()
}

func (np *vc02NetPeer) heads(t *testing.T) []string {
	ns := ds.NewKey(np.p.cc.config.DatastoreNamespace).ChildString("h").String()
	res, err := np.p.fds.Query(query.Query{Prefix: ns, KeysOnly: true})
	if err != nil {
		return nil
	}
	defer res.Close()
	var out []string
	for r := range res.Next() {
		if r.Error != nil {
			return nil
		}
		out = append(out, strings.TrimPrefix(r.Key, ns))
	}
	sort.Strings(out)
	return out
}

func vC02NRun(t *testing.T, c vC02NCase) (obs vC02NObs) {
	ctx := context.Background()
	if c.N < 2 {
		c.N = 2
	}
	if c.N > 3 {
		c.N = 3
	}
	total := c.N
	if c.Untrusted {
		total++
	}
	if c.Line {
		c.N, c.Untrusted, total = 3, false, 3
	}
	name := fmt.Sprintf("vc02net-%d-%d", time.Now().UnixNano(), atomic.AddInt64(&vc02NetSeq, 1))
	var hosts []host.Host
	var psubs []*pubsub.PubSub
	var dhts []*dual.DHT
	var gaters []*vc02Gater
	for i := 0; i < total; i++ {
		g := &vc02Gater{}
		h, ps, d := vc02MakeHost(t, g)
		hosts, psubs, dhts, gaters = append(hosts, h), append(psubs, ps), append(dhts, d), append(gaters, g)
	}
	// who trusts whom (indices), which links exist, which peers are compared
	trustIdx := make([][]int, total) // nil + trustAll[i] = everybody
	trustAll := make([]bool, total)
	var edges [][2]int
	var group []int
	if c.Line {
		trustIdx[0], trustIdx[2], trustAll[1] = []int{2}, []int{0}, true
		if c.RelayDistrusts {
			trustIdx[1], trustAll[1] = []int{0}, false
		}
		edges = [][2]int{{0, 1}, {1, 2}}
		group = []int{0, 2}
		gaters[0].setDeny(hosts[2].ID())
		gaters[2].setDeny(hosts[0].ID())
	} else {
		for i := 0; i < total; i++ {
			for j := 0; j < c.N; j++ {
				trustIdx[i] = append(trustIdx[i], j)
			}
			for j := i + 1; j < total; j++ {
				edges = append(edges, [2]int{i, j})
			}
		}
		for i := 0; i < c.N; i++ {
			group = append(group, i)
		}
	}
	degree := make([]int, total)
	for _, e := range edges {
		degree[e[0]]++
		degree[e[1]]++
	}
	var peers []*vc02NetPeer
	for i := 0; i < total; i++ {
		var trusted []peer.ID
		for _, j := range trustIdx[i] {
			trusted = append(trusted, hosts[j].ID())
		}
		p := newVC02PeerOn(t, hosts[i], psubs[i], dhts[i], 0, 0, 10, nil, trustAll[i], trusted, name, 400*time.Millisecond)
		peers = append(peers, &vc02NetPeer{p: p, h: hosts[i], g: gaters[i]})
	}
	defer func() {
		for _, np := range peers {
			np.p.shutdown()
		}
	}()
	topic := vc02Topic(name)
	dial := func() {
		for _, e := range edges {
			hosts[e[0]].Connect(ctx, peer.AddrInfo{ID: hosts[e[1]].ID(), Addrs: hosts[e[1]].Addrs()})
		}
	}
	connectAll := func() bool {
		dial()
		return vc02WaitFor(60*time.Second, func() bool {
			for i := 0; i < total; i++ {
				if len(psubs[i].ListPeers(topic)) < degree[i] {
					dial()
					return false
				}
			}
			return true
		})
	}
	if !connectAll() {
		obs.Err = "pubsub mesh not formed"
		return
	}
	if c.Line {
		time.Sleep(400 * time.Millisecond) // a few gossipsub heartbeats: the meshes A-B and B-C are grafted (as C07's relay case)
	}
	var vals [][]byte
	for _, s := range c.Steps {
		if s.T == "op" && s.Pin {
			vals = append(vals, vc02PinBytes(vc02Pin(s.C, s.V)))
		}
	}
	ranks := newVC02Ranks(vals)
	headsEqual := func() bool {
		h0 := strings.Join(peers[group[0]].heads(t), ",")
		for _, i := range group[1:] {
			if strings.Join(peers[i].heads(t), ",") != h0 {
				return false
			}
		}
		return true
	}
	issuers := map[string][]int{}   // block (set id) -> every peer whose operation published exactly this block
	made := map[string]int{}        // block (set id) -> the peer whose operation published it first
	lastMade := map[int]string{}    // peer -> the last block it published
	peerOps := make([][]vc02NOp, total)
	processed := func(i int, sid string) bool { // the block is in i's block store (go-ds-crdt stores a block, then merges it)
		bc, err := dshelp.DsKeyToCidV1(ds.NewKey(sid), cid.DagProtobuf)
		if err != nil {
			return false
		}
		ok, err := peers[i].p.cc.ipfs.HasBlock(bc)
		return err == nil && ok
	}
	syncAll := func() bool { // positive expectation: every compared peer ends with the same heads, 25 polls in a row
		if c.Line && c.RelayDistrusts {
			// A and C cannot reach the same heads here. Positive expectation: what A published is merged by C (B forwards
			// it); negative, bounded: what C published does not show at A.
			ok := true
			if sid := lastMade[0]; sid != "" {
				ok = vc02WaitFor(vc02SyncTimeout, func() bool { return processed(2, sid) })
			}
			time.Sleep(1500 * time.Millisecond)
			return ok
		}
		stable := 0
		to := vc02SyncTimeout
		if obs.NoSync { // already failed once in this case: the verdict is settled, do not wait that long again
			to = 3 * time.Second
		}
		return vc02WaitFor(to, func() bool {
			if headsEqual() {
				stable++
			} else {
				stable = 0
			}
			time.Sleep(20 * time.Millisecond)
			return stable >= 25
		})
	}
	onlyUntrusted := map[int]bool{}
	_ = onlyUntrusted
	writers := map[int]bool{}
	byTrusted := map[int]bool{}
	trustedVals := map[int]map[int]bool{} // cid -> value ranks written by trusted peers
	trustedUnpinned := map[int]bool{}
	for _, s := range c.Steps {
		if obs.Err != "" {
			break
		}
		switch s.T {
		case "op":
			r := ((s.R % total) + total) % total
			if c.Line {
				r = []int{0, 2}[((s.R%2)+2)%2]
			}
			writers[r] = true
			ci := ((s.C % vc02NCids) + vc02NCids) % vc02NCids
			headsBefore := map[string]bool{}
			for _, hk := range peers[r].heads(t) {
				headsBefore[hk] = true
			}
			defer0 := func() { // a local write replaces the heads by its block: the new head nobody else made is it
				op := vc02NOp{Pin: s.Pin, C: ci}
				if s.Pin {
					op.R = ranks.of(vc02PinBytes(vc02Pin(ci, s.V)))
				}
				for _, hk := range peers[r].heads(t) {
					if _, other := made[hk]; !other && !headsBefore[hk] {
						if op.sid != "" {
							obs.Err = "two new heads after one local write"
						}
						op.sid = hk
					}
				}
				if op.sid == "" && s.Pin {
					// the very block another peer already published (same pin, same parents, same height): one block, two issuers
					for _, hk := range peers[r].heads(t) {
						if !headsBefore[hk] {
							op.sid = hk
						}
					}
					if op.sid != "" {
						lastMade[r] = op.sid
						issuers[op.sid] = append(issuers[op.sid], r)
					}
				} else if op.sid != "" {
					made[op.sid] = r
					lastMade[r] = op.sid
					issuers[op.sid] = append(issuers[op.sid], r)
				}
				peerOps[r] = append(peerOps[r], op)
			}
			var err error
			if s.Pin {
				err = peers[r].p.cc.LogPin(ctx, vc02Pin(ci, s.V))
				if r >= c.N {
					onlyUntrusted[ci] = true
				} else {
					byTrusted[ci] = true
					if trustedVals[ci] == nil {
						trustedVals[ci] = map[int]bool{}
					}
					trustedVals[ci][ranks.of(vc02PinBytes(vc02Pin(ci, s.V)))] = true
				}
			} else {
				err = peers[r].p.cc.LogUnpin(ctx, api.PinCid(vc02Cid(ci)))
				if r < c.N {
					trustedUnpinned[ci] = true
				}
			}
			if err != nil {
				obs.Err = "write failed: " + err.Error()
			} else {
				defer0()
			}
		case "partition":
			for i := range peers {
				atomic.StoreInt32(&gaters[i].blocked, 1)
			}
			for i := range peers {
				for _, cn := range hosts[i].Network().Conns() {
					cn.Close()
				}
			}
			if !vc02WaitFor(30*time.Second, func() bool {
				for i := range peers {
					if len(hosts[i].Network().Conns()) > 0 {
						for _, cn := range hosts[i].Network().Conns() {
							cn.Close()
						}
						return false
					}
				}
				return true
			}) {
				obs.Err = "partition failed"
			}
		case "heal":
			for i := range peers {
				atomic.StoreInt32(&gaters[i].blocked, 0)
			}
			if !connectAll() {
				obs.Err = "pubsub mesh not formed after heal"
			}
		case "sync":
			if !syncAll() {
				obs.NoSync = true // not an infrastructure error: the pinsets are compared as they are
			}
		}
	}
	if obs.Err != "" {
		return
	}
	for i := range peers {
		atomic.StoreInt32(&gaters[i].blocked, 0)
	}
	if !connectAll() {
		obs.Err = "pubsub mesh not formed at the end"
		return
	}
	if !syncAll() {
		obs.NoSync = true
	}
	if c.Line && hosts[0].Network().Connectedness(hosts[2].ID()) == network.Connected {
		obs.Err = "A and C got connected in spite of the gater"
		return
	}
	// negative expectation, bounded: nothing of the untrusted peer arrives later
	if c.Untrusted {
		time.Sleep(1500 * time.Millisecond)
	}
	// delta table from the Merkle-DAG below the heads of every trusted peer
	idOf := map[string]int{}
	keyIdx := map[string]int{}
	for i := 0; i < vc02NCids; i++ {
		keyIdx[vc02KeyOf(vc02Cids[i])] = i
	}
	var blocks []cid.Cid
	seen := map[string]bool{}
	var walk func(np *vc02NetPeer, c cid.Cid) error
	type dnode struct {
		d       pb.Delta
		id      string
		parents []string
	}
	nodes := map[string]*dnode{}
	walk = func(np *vc02NetPeer, c cid.Cid) error {
		sid := dshelp.MultihashToDsKey(c.Hash()).String()
		if seen[sid] {
			return nil
		}
		seen[sid] = true
		cctx, cancel := context.WithTimeout(ctx, 20*time.Second)
		defer cancel()
		n, err := np.p.cc.ipfs.Get(cctx, c)
		if err != nil {
			return err
		}
		pn, ok := n.(*dag.ProtoNode)
		if !ok {
			return fmt.Errorf("not a ProtoNode")
		}
		dn := &dnode{id: sid}
		if err := proto.Unmarshal(pn.Data(), &dn.d); err != nil {
			return err
		}
		nodes[sid] = dn
		blocks = append(blocks, c)
		for _, l := range n.Links() {
			dn.parents = append(dn.parents, dshelp.MultihashToDsKey(l.Cid.Hash()).String())
			if err := walk(np, l.Cid); err != nil {
				return err
			}
		}
		return nil
	}
	for _, i := range group {
		hs := peers[i].heads(t)
		obs.Heads = append(obs.Heads, len(hs))
		for _, hk := range hs {
			hc, err := dshelp.DsKeyToCidV1(ds.NewKey(hk), cid.DagProtobuf)
			if err != nil {
				obs.Err = "head key: " + err.Error()
				return
			}
			if err := walk(peers[i], hc); err != nil {
				obs.Err = "dag walk: " + err.Error()
				return
			}
		}
	}
	sids := make([]string, 0, len(nodes))
	for sid := range nodes {
		sids = append(sids, sid)
	}
	sort.Slice(sids, func(i, j int) bool {
		a, b := nodes[sids[i]], nodes[sids[j]]
		if a.d.GetPriority() != b.d.GetPriority() {
			return a.d.GetPriority() < b.d.GetPriority()
		}
		return sids[i] < sids[j]
	})
	for i, sid := range sids {
		idOf[sid] = i + 1
	}
	for _, sid := range sids {
		dn := nodes[sid]
		e := vc02DeltaObs{ID: idOf[sid], Prio: dn.d.GetPriority(), Adds: [][2]int{}, Rms: [][2]int{}}
		for _, el := range dn.d.GetElements() {
			k, ok := keyIdx[el.GetKey()]
			if !ok {
				k = 99
			}
			e.Adds = append(e.Adds, [2]int{k, ranks.of(el.GetValue())})
		}
		for _, el := range dn.d.GetTombstones() {
			k, ok := keyIdx[el.GetKey()]
			if !ok {
				k = 99
			}
			e.Rms = append(e.Rms, [2]int{k, idOf[ds.NewKey(el.GetId()).String()]})
		}
		if by, ok := made[sid]; ok {
			e.By = by
		} else {
			e.By = 99
		}
		obs.Deltas = append(obs.Deltas, e)
		obs.Issuers = append(obs.Issuers, append([]int{}, issuers[sid]...))
		ps := []int{}
		for _, p := range dn.parents {
			ps = append(ps, idOf[p])
		}
		obs.Parents = append(obs.Parents, ps)
	}
	for i := 0; i < total; i++ {
		if trustAll[i] {
			obs.AllTrust = append(obs.AllTrust, []int{-1})
		} else {
			obs.AllTrust = append(obs.AllTrust, append([]int{}, trustIdx[i]...))
		}
	}
	obs.Links = append(obs.Links, edges...)
	// merge order of a peer from the write batches of its datastore: an element batch names its block in its keys; a
	// tombstone-only batch is the first not yet merged delta without elements that has exactly these tombstones
	type tk struct{ k, id int }
	tombsOfDelta := func(d vc02DeltaObs) map[tk]bool {
		m := map[tk]bool{}
		for _, r := range d.Rms {
			m[tk{r[0], r[1]}] = true
		}
		return m
	}
	sameTk := func(a, b map[tk]bool) bool {
		if len(a) != len(b) {
			return false
		}
		for k := range a {
			if !b[k] {
				return false
			}
		}
		return true
	}
	mergeOrder := func(np *vc02NetPeer, self int) []int {
		np.p.fds.mu.Lock()
		bs := append([]vc02BatchRec{}, np.p.fds.batches...)
		np.p.fds.mu.Unlock()
		out := []int{}
		done := map[int]bool{}
		for i := 0; i < len(bs); i++ {
			b := bs[i]
			if b.kind == "elems" {
				id := 0
				for _, k := range b.keys {
					parts := strings.Split(k, "/") // "", ns, s, s, <key>, <block>
					if len(parts) >= 6 && parts[2] == "s" && parts[3] == "s" {
						id = idOf["/"+parts[len(parts)-1]]
					}
				}
				if id == 0 {
					obs.Err = "elements batch of a block that is not in the delta table"
					return out
				}
				if !done[id] {
					out = append(out, id)
					done[id] = true
				}
				continue
			}
			ts := map[tk]bool{}
			for _, k := range b.keys {
				parts := strings.Split(k, "/") // "", ns, s, t, <key>, <block>
				if len(parts) >= 6 {
					ki, ok := keyIdx["/"+parts[4]]
					if !ok {
						ki = 99
					}
					ts[tk{ki, idOf["/"+parts[5]]}] = true
				}
			}
			// (H3 writes without batching: a delta has elements or tombstones, never both)
			// several deltas may carry the same tombstones (two peers unpin at once): the peer's own one was merged first
			// (had the other arrived before, its own unpin would have found nothing left to tombstone)
			found := 0
			for pass := 0; pass < 2 && found == 0; pass++ {
				for _, d := range obs.Deltas {
					if len(d.Adds) == 0 && !done[d.ID] && sameTk(tombsOfDelta(d), ts) && (pass == 1 || d.By == self) {
						found = d.ID
						break
					}
				}
			}
			if found == 0 {
				obs.Err = "tombstone batch that matches no delta"
				return out
			}
			out = append(out, found)
			done[found] = true
		}
		return out
	}
	for w := range writers {
		obs.Writers = append(obs.Writers, w)
	}
	sort.Ints(obs.Writers)
	for _, i := range group {
		obs.Peers = append(obs.Peers, i)
		if trustAll[i] {
			obs.Trust = append(obs.Trust, []int{-1})
		} else {
			obs.Trust = append(obs.Trust, append([]int{}, trustIdx[i]...))
		}
		st, err := peers[i].p.cc.State(ctx)
		if err != nil {
			obs.Err = "state: " + err.Error()
			return
		}
		pins, err := st.List(ctx)
		if err != nil {
			obs.Err = "list: " + err.Error()
			return
		}
		fin := [][2]int{}
		have := map[int]bool{}
		for _, pn := range pins {
			ci := vc02CidIndex(pn.Cid)
			rk := ranks.of(vc02PinBytes(pn))
			fin = append(fin, [2]int{ci, rk})
			have[ci] = true
			if c.Untrusted && !trustedVals[ci][rk] { // a CID or a pin that only the untrusted peer wrote
				obs.Leak = append(obs.Leak, ci)
			}
		}
		if c.Untrusted {
			for ci := range byTrusted { // a removal that only the untrusted peer issued
				if !trustedUnpinned[ci] && !have[ci] {
					obs.Leak = append(obs.Leak, ci)
				}
			}
		}
		sort.Slice(fin, func(a, b int) bool { return fin[a][0] < fin[b][0] })
		obs.Finals = append(obs.Finals, fin)
		obs.Merged = append(obs.Merged, mergeOrder(peers[i], i))
		if obs.Err != "" {
			return
		}
		ops := []vc02NOp{}
		for _, o := range peerOps[i] {
			o.Made = idOf[o.sid]
			ops = append(ops, o)
		}
		obs.Ops = append(obs.Ops, ops)
		calls := []string{}
		for _, cl := range peers[i].p.tr.snapshot() {
			if cl.Track {
				calls = append(calls, fmt.Sprintf("Track %d %d", vc02CidIndex(cl.Pin.Cid), ranks.of(vc02PinBytes(cl.Pin))))
			} else {
				calls = append(calls, fmt.Sprintf("Untrack %d", vc02CidIndex(cl.Pin.Cid)))
			}
		}
		obs.Calls = append(obs.Calls, calls)
	}
	return
}

func vC02NTerm(obs vC02NObs) string {
	var dl, by, par []string
	for i, d := range obs.Deltas {
		dl = append(dl, fmt.Sprintf("mk_delta %d %d %s %s", d.ID, d.Prio, vc02CoqPairs(d.Adds), vc02CoqPairs(d.Rms)))
		for _, p := range obs.Issuers[i] {
			by = append(by, fmt.Sprintf("(%d, %d)", d.ID, p))
		}
		par = append(par, fmt.Sprintf("(%d, %s)", d.ID, cqListN(obs.Parents[i])))
	}
	trust := func(l []int) (bool, []int) {
		all, tl := false, []int{}
		for _, j := range l {
			if j < 0 {
				all = true
			} else {
				tl = append(tl, j)
			}
		}
		return all, tl
	}
	var at, lk []string
	for i, l := range obs.AllTrust {
		all, tl := trust(l)
		at = append(at, fmt.Sprintf("(%d, (%s, %s))", i, cqBool(all), cqListN(tl)))
	}
	for _, e := range obs.Links {
		lk = append(lk, fmt.Sprintf("(%d, %d)", e[0], e[1]))
	}
	var fl []string
	for k, f := range obs.Finals {
		all, tl := trust(obs.Trust[k])
		var ops []string
		for _, o := range obs.Ops[k] {
			if o.Pin {
				ops = append(ops, fmt.Sprintf("(WPin %d %d, %d)", o.C, o.R, o.Made))
			} else {
				ops = append(ops, fmt.Sprintf("(WUnpin %d, %d)", o.C, o.Made))
			}
		}
		fl = append(fl, fmt.Sprintf("mk_npeer %d %s %s %s %s %s %s", obs.Peers[k], cqBool(all), cqListN(tl), vc02CoqPairs(f),
			cqListN(obs.Merged[k]), cqList(ops), cqList(obs.Calls[k])))
	}
	return fmt.Sprintf("(mk_h3 %s %s %s %s %s %s %s %s)", cqList(dl), cqList(by), cqList(par), cqList(at), cqList(lk), cqList(fl),
		cqListN(obs.Writers), cqListN(obs.Leak))
}

func vC02NGen(r *vRand, i int) vC02NCase {
	op := func(p, c, v int) vC02NStep { return vC02NStep{T: "op", R: p, Pin: true, C: c, V: v} }
	un := func(p, c int) vC02NStep { return vC02NStep{T: "op", R: p, C: c} }
	if i%3 == 1 { // the line A -- B -- C: A and C trust each other only and are connected only through B
		c := vC02NCase{N: 3, Line: true, RelayDistrusts: r.chance(35)}
		hot := r.intn(vc02NCids)
		rnd := func(n int) {
			for k := 0; k < n; k++ {
				ci := r.intn(vc02NCids)
				if r.chance(50) {
					ci = hot
				}
				if r.chance(70) {
					c.Steps = append(c.Steps, op(r.intn(2), ci, r.intn(vc02NVariants)))
				} else {
					c.Steps = append(c.Steps, un(r.intn(2), ci))
				}
			}
		}
		c.Steps = append(c.Steps, op(1, hot, r.intn(vc02NVariants))) // C writes first: it must reach A through B
		rnd(r.rng(1, 3))
		c.Steps = append(c.Steps, vC02NStep{T: "sync"})
		rnd(r.rng(1, 3))
		return c
	}
	if i%3 == 2 { // a peer nobody trusts
		c := vC02NCase{N: 2, Untrusted: true}
		c.Steps = []vC02NStep{op(0, 0, r.intn(vc02NVariants)), {T: "sync"}, op(2, 1, r.intn(vc02NVariants)), op(2, 0, r.intn(vc02NVariants)),
			un(2, 0), op(1, 2, r.intn(vc02NVariants)), {T: "sync"}}
		return c
	}
	c := vC02NCase{N: r.rng(2, 3)}
	hot := r.intn(vc02NCids)
	rnd := func(n int) {
		for k := 0; k < n; k++ {
			ci := r.intn(vc02NCids)
			if r.chance(60) {
				ci = hot
			}
			if r.chance(70) {
				c.Steps = append(c.Steps, op(r.intn(c.N), ci, r.intn(vc02NVariants)))
			} else {
				c.Steps = append(c.Steps, un(r.intn(c.N), ci))
			}
		}
	}
	rnd(r.rng(1, 3))
	c.Steps = append(c.Steps, vC02NStep{T: "sync"}, vC02NStep{T: "partition"})
	rnd(r.rng(2, 6))
	c.Steps = append(c.Steps, vC02NStep{T: "heal"}, vC02NStep{T: "sync"})
	rnd(r.rng(0, 2))
	return c
}

func TestVerifC02Net(t *testing.T) {
	seed := uint64(vEnvInt("VERIF_SEED", 1))
	n := vEnvInt("VERIF_N", 3)
	out := newVOut("C02n", "From V Require Import Base.Common Model.C02_Set Model.C02_CheckSet.\nOpen Scope N_scope.",
		"ncase", "Definition R := Eval vm_compute in failing_net cases.\nPrint R.")
	out.idBase += 400000
	defer out.close()
	var cases []vC02NCase
	if raw := vCasesIn(); raw != nil {
		for _, b := range raw {
			var c vC02NCase
			if err := json.Unmarshal(b, &c); err != nil {
				t.Fatal(err)
			}
			cases = append(cases, c)
		}
	} else {
		r := newVRand(seed ^ 0xbeef)
		for i := 0; i < n; i++ {
			cases = append(cases, vC02NGen(r, i))
		}
	}
	// generated cases run one after the other; the candidates of a shrink round (several given inputs) run side by side:
	// every case has its own hosts and its own topic
	results := make([]vC02NObs, len(cases))
	par := 1
	if vCasesIn() != nil && len(cases) > 1 {
		par = 6
	}
	var wg sync.WaitGroup
	sem := make(chan struct{}, par)
	for i := range cases {
		wg.Add(1)
		sem <- struct{}{}
		go func(i int) {
			defer wg.Done()
			defer func() { <-sem }()
			results[i] = vC02NRun(t, cases[i])
		}(i)
	}
	wg.Wait()
	for i, c := range cases {
		obs := results[i]
		if obs.Err != "" {
			b, _ := json.Marshal(c)
			t.Fatalf("case %d: %s (input %s)", i, obs.Err, b)
		}
		if obs.NoSync {
			out.count("nosync")
		}
		if c.Line && c.RelayDistrusts {
			out.count("line_relay_distrusts_signer")
		} else if c.Line {
			out.count("line_relay")
		} else if c.Untrusted {
			out.count("untrusted")
		} else {
			out.count(fmt.Sprintf("partition_%d_peers", len(obs.Finals)))
		}
		out.add(vC02NTerm(obs), c, obs, len(obs.Deltas) >= 3)
	}
}
