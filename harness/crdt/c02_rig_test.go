//go:build verif

package crdt

// C02 rig: fault-injecting ds.Batching wrapper, a gate around css.batchingState that makes the
// batch worker's schedule observable and controllable, a recording PinTracker RPC service and a
// table of rich pins. Injected with `go test -overlay`; never part of /repo.

import (
	"context"
	"errors"
	"fmt"
	"os"
	"sort"
	"strings"
	"sync"
	"testing"
	"time"

	"github.com/ipfs/ipfs-cluster/api"
	"github.com/ipfs/ipfs-cluster/datastore/inmem"
	"github.com/ipfs/ipfs-cluster/state"
	"github.com/ipfs/ipfs-cluster/test"

	cid "github.com/ipfs/go-cid"
	ds "github.com/ipfs/go-datastore"
	query "github.com/ipfs/go-datastore/query"
	host "github.com/libp2p/go-libp2p-core/host"
	peer "github.com/libp2p/go-libp2p-core/peer"
	dual "github.com/libp2p/go-libp2p-kad-dht/dual"
	pubsub "github.com/libp2p/go-libp2p-pubsub"
	rpc "github.com/libp2p/go-libp2p-gorpc"
	multiaddr "github.com/multiformats/go-multiaddr"
	multihash "github.com/multiformats/go-multihash"
)

// ---------------------------------------------------------------- fault-injecting datastore

var errVC02Injected = errors.New("verif: injected datastore commit failure")

// vc02FaultDS wraps a ds.Batching. Every Batch().Commit() whose keys belong to the crdt set
// (tombstones / elements+values) or to the heads of namespace ns is counted; the commits whose
// 1-based index is in failAt return an error and write nothing.
type vc02FaultDS struct {
	inner ds.Batching
	ns    string // "/<namespace>"

	mu       sync.Mutex
	failAt   map[int]bool
	failQ    map[int]bool // 1-based indices of the element queries (set.Rmv / InSet) that return an error
	nQuery   int
	nCounted int
	lastFail string   // kind of the last failed commit ("tombs" | "elems" | "heads"), reset by the caller
	log      []string // kinds of counted commits, "!" appended when failed
	batches  []vc02BatchRec // successful tombs / elems commits with their keys, in commit order
}

type vc02BatchRec struct {
	kind string
	keys []string
}

func newVC02FaultDS(ns string, failAt []int) *vc02FaultDS {
	d := &vc02FaultDS{inner: inmem.New().(ds.Batching), ns: ds.NewKey(ns).String(), failAt: map[int]bool{}}
	for _, i := range failAt {
		d.failAt[i] = true
	}
	return d
}

func (d *vc02FaultDS) Get(k ds.Key) ([]byte, error)              { return d.inner.Get(k) }
func (d *vc02FaultDS) Has(k ds.Key) (bool, error)                { return d.inner.Has(k) }
func (d *vc02FaultDS) GetSize(k ds.Key) (int, error)             { return d.inner.GetSize(k) }
func (d *vc02FaultDS) Query(q query.Query) (query.Results, error) {
	if len(d.failQ) > 0 && strings.HasPrefix(q.Prefix, d.ns+"/s/s/") {
		d.mu.Lock()
		d.nQuery++
		fail := d.failQ[d.nQuery]
		d.mu.Unlock()
		if fail {
			return nil, errVC02Injected
		}
	}
	return d.inner.Query(q)
}
func (d *vc02FaultDS) Put(k ds.Key, v []byte) error              { return d.inner.Put(k, v) }
func (d *vc02FaultDS) Delete(k ds.Key) error                     { return d.inner.Delete(k) }
func (d *vc02FaultDS) Sync(k ds.Key) error                       { return d.inner.Sync(k) }
func (d *vc02FaultDS) Close() error                              { return d.inner.Close() }
func (d *vc02FaultDS) Batch() (ds.Batch, error) {
	b, err := d.inner.Batch()
	if err != nil {
		return nil, err
	}
	return &vc02FaultBatch{d: d, b: b}, nil
}

type vc02FaultBatch struct {
	d    *vc02FaultDS
	b    ds.Batch
	kind string
	keys []string
}

func (b *vc02FaultBatch) note(k ds.Key) {
	s := k.String()
	b.keys = append(b.keys, s)
	switch {
	case strings.HasPrefix(s, b.d.ns+"/s/t/"):
		b.kind = "tombs"
	case strings.HasPrefix(s, b.d.ns+"/s/s/"), strings.HasPrefix(s, b.d.ns+"/s/k/"):
		b.kind = "elems"
	case strings.HasPrefix(s, b.d.ns+"/h/"):
		b.kind = "heads"
	}
}
func (b *vc02FaultBatch) Put(k ds.Key, v []byte) error { b.note(k); return b.b.Put(k, v) }
func (b *vc02FaultBatch) Delete(k ds.Key) error        { b.note(k); return b.b.Delete(k) }
func (b *vc02FaultBatch) Commit() error {
	if b.kind != "" {
		b.d.mu.Lock()
		b.d.nCounted++
		fail := b.d.failAt[b.d.nCounted]
		if fail {
			b.d.lastFail = b.kind
			b.d.log = append(b.d.log, b.kind+"!")
		} else {
			b.d.log = append(b.d.log, b.kind)
			if b.kind != "heads" {
				b.d.batches = append(b.d.batches, vc02BatchRec{b.kind, b.keys})
			}
		}
		b.d.mu.Unlock()
		if fail {
			return errVC02Injected
		}
	}
	return b.b.Commit()
}
func (d *vc02FaultDS) resetLastFail() { d.mu.Lock(); d.lastFail = ""; d.mu.Unlock() }
func (d *vc02FaultDS) takeLastFail() string {
	d.mu.Lock()
	defer d.mu.Unlock()
	s := d.lastFail
	d.lastFail = ""
	return s
}

// ---------------------------------------------------------------- trace events

type vc02Ev struct {
	Kind string `json:"k"` // enq | add | commit | direct | noage | stuck
	ID   int    `json:"id,omitempty"`
	Op   *vc02Op `json:"op,omitempty"`
	Ok   bool   `json:"ok"`
	Pres string `json:"pres,omitempty"` // "" (ok) | tombs | elems | heads
	At   int64  `json:"at"`             // microseconds since the case started, when the event was recorded
	Panic string `json:"panic,omitempty"` // the call panicked (recovered by the harness)
	done bool
}

type vc02Op struct {
	Pin bool `json:"pin"`
	C   int  `json:"c"`
	V   int  `json:"v"`   // variant (input)
	R   int  `json:"r"`   // rank of the value bytes within the case (filled when printing)
}

var errVC02Panic = errors.New("verif: the call panicked (recovered by the harness)")

// VERIF_C02_NORECOVER=1: let a panic of the code under test kill the test process (exercises the runner's crash path:
// the per-case markers of vCaseStartKey name the cases that were in flight)
var vc02NoRecover = os.Getenv("VERIF_C02_NORECOVER") != ""

// ---------------------------------------------------------------- gate around css.batchingState

// vc02Gate forwards every call to the real BatchingState; it records the worker's calls in one
// linear trace together with the submissions of the script, can hold the worker inside its next
// Add/Rm, and keeps a copy of the worker's batch counter that is used only to know what to wait for.
type vc02Gate struct {
	state.BatchingState
	fds  *vc02FaultDS
	size int

	t0        time.Time // start of the case: origin of the event clock
	mu        sync.Mutex
	trace     []*vc02Ev
	panics    []string
	holdNext  bool
	holding   bool
	release   chan struct{}
	nAddDone  int
	nCommit   int // commits finished
	inCall    bool
	cur       int
	expect    bool // size limit reached, commit must follow
	failedSinceCommit bool // an Add/Rm returned an error since the last commit call
	stopping  bool // Shutdown has been called: the worker's commits are recorded as "stopcommit"
}

type vc02CtxKey struct{}

func vc02CtxID(ctx context.Context) int {
	if v, ok := ctx.Value(vc02CtxKey{}).(int); ok {
		return v
	}
	return -1
}

// enter: the worker has dequeued the item (identified by the id carried in its context) and calls Add/Rm
func (g *vc02Gate) enter(ctx context.Context) *vc02Ev {
	g.mu.Lock()
	ev := &vc02Ev{Kind: "add", ID: vc02CtxID(ctx), At: g.since()}
	g.trace = append(g.trace, ev)
	g.inCall = true
	var rel chan struct{}
	if g.holdNext {
		g.holdNext = false
		g.holding = true
		g.release = make(chan struct{})
		rel = g.release
	}
	g.mu.Unlock()
	if rel != nil {
		<-rel
	}
	return ev
}
func (g *vc02Gate) exit(ev *vc02Ev, err error) {
	g.mu.Lock()
	ev.Ok = err == nil
	ev.done = true
	g.nAddDone++
	g.inCall = false
	if err == nil {
		g.cur++
		if g.cur >= g.size {
			g.expect = true
		}
	} else {
		g.failedSinceCommit = true
	}
	g.mu.Unlock()
}

func (g *vc02Gate) since() int64 { return int64(time.Since(g.t0) / time.Microsecond) }

// a panic inside the code under test on the worker goroutine would kill the whole test process; it is recovered here,
// recorded (the case is then reported as a direct violation) and turned into an error so that the worker goes on
func (g *vc02Gate) guarded(ev *vc02Ev, what string, f func() error) (err error) {
	if vc02NoRecover {
		return f()
	}
	defer func() {
		if r := recover(); r != nil {
			msg := fmt.Sprintf("%s: %v", what, r)
			g.mu.Lock()
			ev.Panic = msg
			g.panics = append(g.panics, msg)
			g.mu.Unlock()
			err = errVC02Panic
		}
	}()
	return f()
}

func (g *vc02Gate) Add(ctx context.Context, pin *api.Pin) error {
	ev := g.enter(ctx)
	err := g.guarded(ev, "batchingState.Add", func() error { return g.BatchingState.Add(ctx, pin) })
	g.exit(ev, err)
	return err
}

func (g *vc02Gate) Rm(ctx context.Context, c cid.Cid) error {
	ev := g.enter(ctx)
	err := g.guarded(ev, "batchingState.Rm", func() error { return g.BatchingState.Rm(ctx, c) })
	g.exit(ev, err)
	return err
}

func (g *vc02Gate) Commit(ctx context.Context) error {
	g.mu.Lock()
	ev := &vc02Ev{Kind: "commit", At: g.since()}
	if g.stopping {
		ev.Kind = "stopcommit"
	}
	g.trace = append(g.trace, ev)
	g.inCall = true
	g.expect = false
	g.failedSinceCommit = false
	g.mu.Unlock()
	g.fds.resetLastFail()
	err := g.guarded(ev, "batchingState.Commit", func() error { return g.BatchingState.Commit(ctx) })
	kind := g.fds.takeLastFail()
	g.mu.Lock()
	ev.Ok = err == nil
	if err != nil {
		ev.Pres = kind
		if kind == "" {
			ev.Pres = "other:" + err.Error()
		}
	}
	ev.done = true
	g.nCommit++
	g.inCall = false
	if err == nil {
		g.cur = 0
	}
	g.mu.Unlock()
	return err
}

// ---------------------------------------------------------------- recording PinTracker

type vc02Call struct {
	Track bool
	Pin   *api.Pin
}
type vc02Tracker struct {
	mu    sync.Mutex
	calls []vc02Call
}

func (t *vc02Tracker) Track(ctx context.Context, in *api.Pin, out *struct{}) error {
	t.mu.Lock()
	t.calls = append(t.calls, vc02Call{true, in})
	t.mu.Unlock()
	return nil
}
func (t *vc02Tracker) Untrack(ctx context.Context, in *api.Pin, out *struct{}) error {
	t.mu.Lock()
	t.calls = append(t.calls, vc02Call{false, in})
	t.mu.Unlock()
	return nil
}
func (t *vc02Tracker) snapshot() []vc02Call {
	t.mu.Lock()
	defer t.mu.Unlock()
	return append([]vc02Call{}, t.calls...)
}

func vc02RPCClient(tr *vc02Tracker) *rpc.Client {
	s := rpc.NewServer(nil, "vc02")
	c := rpc.NewClientWithServer(nil, "vc02", s)
	if err := s.RegisterName("PinTracker", tr); err != nil {
		panic(err)
	}
	return c
}

// ---------------------------------------------------------------- pins

var vc02Cids = []cid.Cid{test.Cid1, test.Cid2, test.Cid3, test.Cid4, test.Cid5}

const vc02NCids = 3
const vc02NVariants = 12

// trickle cases use their own CIDs, one per operation: keys 100 .. 100+vc02NTCids-1
const vc02NTCids = 64
const vc02TKeyBase = 100

var vc02TCids = func() []cid.Cid {
	out := make([]cid.Cid, vc02NTCids)
	for i := range out {
		h, err := multihash.Sum([]byte(fmt.Sprintf("vc02-trickle-%d", i)), multihash.SHA2_256, -1)
		if err != nil {
			panic(err)
		}
		out[i] = cid.NewCidV1(cid.Raw, h)
	}
	return out
}()

// vc02KeyCid: the CID of a key of the Coq term (0..2 the shared CIDs, 100.. the trickle CIDs)
func vc02KeyCid(k int) cid.Cid {
	if k >= vc02TKeyBase {
		return vc02TCids[(k-vc02TKeyBase)%vc02NTCids]
	}
	return vc02Cid(k)
}

func vc02Cid(i int) cid.Cid {
	if i < 0 {
		i = -i
	}
	return vc02Cids[i%vc02NCids]
}

// vc02Pin builds the v-th rich pin for CID index c: every pin type, both modes, allocations, name,
// metadata (at most one entry, so that the protobuf bytes are deterministic), expiry, update source, origins.
func vc02Pin(c, v int) *api.Pin {
	if v < 0 {
		v = -v
	}
	v = v % vc02NVariants
	p := api.PinCid(vc02Cid(c))
	p.Name = fmt.Sprintf("n%d", v)
	p.ReplicationFactorMin = -1
	p.ReplicationFactorMax = -1
	peers := []peer.ID{test.PeerID1, test.PeerID2, test.PeerID3}
	switch v {
	case 0:
		p.Name = ""
	case 1:
		p.ReplicationFactorMin, p.ReplicationFactorMax = 1, 2
		p.Allocations = peers[:2]
	case 2:
		p.Type = api.MetaType
		r := test.Cid4
		p.Reference = &r
		p.MaxDepth = 0
	case 3:
		p.Type = api.ShardType
		p.MaxDepth = 1
		r := test.Cid5
		p.Reference = &r
		p.Allocations = peers[1:2]
		p.ReplicationFactorMin, p.ReplicationFactorMax = 1, 1
	case 4:
		p.Type = api.ClusterDAGType
		p.MaxDepth = 0
		r := test.Cid4
		p.Reference = &r
	case 5:
		p.Mode = api.PinModeDirect
		p.MaxDepth = 0
	case 6:
		p.ExpireAt = time.Unix(1900000000, 0)
		p.Metadata = map[string]string{"k": "v"}
	case 7:
		p.PinUpdate = test.Cid5
		ma, _ := multiaddr.NewMultiaddr("/ip4/127.0.0.1/tcp/4001/p2p/" + test.PeerID1.Pretty())
		p.Origins = []multiaddr.Multiaddr{ma}
	case 8:
		p.ShardSize = 1 << 20
		p.ReplicationFactorMin, p.ReplicationFactorMax = 2, 3
		p.Allocations = peers
	case 9:
		p.Name = "a longer name with spaces, unicode é and a / slash"
		p.Metadata = map[string]string{"": ""}
	case 10:
		p.ReplicationFactorMin, p.ReplicationFactorMax = 0, 0
		p.ExpireAt = time.Unix(1, 0)
	case 11:
		p.Name = "n1" // same name as variant 1, other fields differ
		p.Allocations = peers[2:]
		p.ReplicationFactorMin, p.ReplicationFactorMax = 1, 1
	}
	return p
}

// vc02Ranks maps value bytes to their 1-based rank in bytes.Compare order among the given values.
type vc02Ranks struct {
	rank map[string]int
}

func newVC02Ranks(vals [][]byte) *vc02Ranks {
	set := map[string]bool{}
	for _, v := range vals {
		set[string(v)] = true
	}
	keys := make([]string, 0, len(set))
	for k := range set {
		keys = append(keys, k)
	}
	sort.Strings(keys) // byte-wise, as bytes.Compare
	r := &vc02Ranks{rank: map[string]int{}}
	for i, k := range keys {
		r.rank[k] = i + 1
	}
	return r
}
func (r *vc02Ranks) of(b []byte) int { return r.rank[string(b)] } // 0 = a value that is not in the case

func vc02PinBytes(p *api.Pin) []byte {
	b, err := p.ProtoMarshal()
	if err != nil {
		panic(err)
	}
	return b
}
func vc02CidIndex(c cid.Cid) int {
	for i := 0; i < vc02NCids; i++ {
		if vc02Cids[i].Equals(c) {
			return i
		}
	}
	for i := range vc02TCids {
		if vc02TCids[i].Equals(c) {
			return vc02TKeyBase + i
		}
	}
	return 99
}

// ---------------------------------------------------------------- one real Consensus

type vc02Peer struct {
	cc  *Consensus
	fds *vc02FaultDS
	tr  *vc02Tracker
	g   *vc02Gate
}

var vc02PeerSeq int
var vc02PeerSeqMu sync.Mutex

func newVC02Peer(t *testing.T, size int, age time.Duration, qcap int, failAt []int, trustAll bool, trusted []peer.ID) *vc02Peer {
	h, psub, dht := makeTestingHost(t)
	return newVC02PeerOn(t, h, psub, dht, size, age, qcap, failAt, trustAll, trusted, "", 0)
}

func newVC02PeerOn(t *testing.T, h host.Host, psub *pubsub.PubSub, dht *dual.DHT, size int, age time.Duration, qcap int, failAt []int,
	trustAll bool, trusted []peer.ID, clusterName string, rebroadcast time.Duration) *vc02Peer {
	vc02PeerSeqMu.Lock()
	vc02PeerSeq++
	idn := vc02PeerSeq
	vc02PeerSeqMu.Unlock()
	cfg := &Config{}
	cfg.Default()
	cfg.DatastoreNamespace = fmt.Sprintf("vc02-%d", idn)
	cfg.hostShutdown = true
	cfg.Batching.MaxBatchSize = size
	cfg.Batching.MaxBatchAge = age
	cfg.Batching.MaxQueueSize = qcap
	cfg.TrustAll = trustAll
	cfg.TrustedPeers = trusted
	if clusterName != "" {
		cfg.ClusterName = clusterName
	}
	if rebroadcast > 0 {
		cfg.RebroadcastInterval = rebroadcast
	}
	p := &vc02Peer{tr: &vc02Tracker{}}
	p.fds = newVC02FaultDS(cfg.DatastoreNamespace, failAt)
	cc, err := New(h, dht, psub, cfg, p.fds)
	if err != nil {
		t.Fatal("cannot create Consensus:", err)
	}
	cc.SetClient(vc02RPCClient(p.tr))
	select {
	case <-cc.Ready(context.Background()):
	case <-time.After(60 * time.Second):
		t.Fatal("consensus not ready")
	}
	p.cc = cc
	if cfg.batchingEnabled() {
		p.g = &vc02Gate{BatchingState: cc.batchingState, fds: p.fds, size: size, t0: time.Now()}
		cc.batchingState = p.g // before any item is submitted: the worker reads the field after receiving from the channel
	}
	return p
}

// restart: Shutdown, then a new Consensus on the same datastore and namespace (a new libp2p host: the old one is closed by
// Shutdown). The gate, its trace and the tracker go on. `between` runs after Shutdown returned and before the new start.
func (p *vc02Peer) restart(t *testing.T, between func(old *Consensus)) {
	old := p.cc
	oldCfg := old.config
	if p.g != nil {
		p.g.mu.Lock()
		p.g.stopping = true
		p.g.holdNext = false
		if p.g.holding { // Shutdown waits for the worker: it must not stay held inside Add/Rm
			p.g.holding = false
			close(p.g.release)
		}
		p.g.mu.Unlock()
	}
	p.shutdown()
	if between != nil {
		between(old)
	}
	h, psub, dht := makeTestingHost(t)
	cfg := &Config{}
	cfg.Default()
	cfg.DatastoreNamespace = oldCfg.DatastoreNamespace
	cfg.hostShutdown = true
	cfg.Batching = oldCfg.Batching
	cfg.TrustAll = oldCfg.TrustAll
	cfg.TrustedPeers = oldCfg.TrustedPeers
	cfg.ClusterName = oldCfg.ClusterName
	cfg.RebroadcastInterval = oldCfg.RebroadcastInterval
	cc, err := New(h, dht, psub, cfg, p.fds)
	if err != nil {
		t.Fatal("cannot create Consensus again:", err)
	}
	cc.SetClient(vc02RPCClient(p.tr))
	select {
	case <-cc.Ready(context.Background()):
	case <-time.After(60 * time.Second):
		t.Fatal("consensus not ready after restart")
	}
	p.cc = cc
	if p.g != nil {
		p.g.mu.Lock()
		p.g.BatchingState = cc.batchingState
		p.g.stopping, p.g.cur, p.g.expect, p.g.inCall, p.g.failedSinceCommit = false, 0, false, false, false
		p.g.mu.Unlock()
		cc.batchingState = p.g
	}
}

func (p *vc02Peer) shutdown() {
	p.cc.Shutdown(context.Background())
	if d, ok := p.cc.dht.(interface{ Close() error }); ok {
		d.Close()
	}
}

func vc02WaitFor(timeout time.Duration, pred func() bool) bool {
	start := time.Now()
	n := 0
	for !pred() {
		if time.Since(start) > timeout {
			return false
		}
		n++
		if n < 200 {
			time.Sleep(50 * time.Microsecond)
		} else {
			time.Sleep(time.Millisecond)
		}
	}
	return true
}
