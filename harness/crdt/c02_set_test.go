//go:build verif

package crdt

// C02 / H2: the go-ds-crdt set logic under controlled delivery. Real crdt.Datastore replicas over a
// harness Broadcaster (manual inbox) and DAGSyncer (per-replica block map, fallback fetch from the
// network of all blocks), dsstate on top. The script chooses who writes what (directly or as one batch)
// and which broadcast is delivered to whom and when; the order in which each replica merges the deltas
// is observed through its datastore.

import (
	"context"
	"encoding/json"
	"fmt"
	"sort"
	"strings"
	"sync"
	"sync/atomic"
	"testing"
	"time"

	"github.com/ipfs/ipfs-cluster/api"
	"github.com/ipfs/ipfs-cluster/state/dsstate"

	cid "github.com/ipfs/go-cid"
	ds "github.com/ipfs/go-datastore"
	crdt "github.com/ipfs/go-ds-crdt"
	pb "github.com/ipfs/go-ds-crdt/pb"
	dshelp "github.com/ipfs/go-ipfs-ds-help"
	ipld "github.com/ipfs/go-ipld-format"
	dag "github.com/ipfs/go-merkledag"
	"google.golang.org/protobuf/proto"
)

// ---------------------------------------------------------------- network of blocks

type vc02Net struct {
	mu    sync.Mutex
	all   map[cid.Cid]ipld.Node
	order []cid.Cid // creation order
	maker map[cid.Cid]int
}

type vc02Syncer struct {
	net   *vc02Net
	self  int
	mu    sync.Mutex
	local map[cid.Cid]ipld.Node
	added []cid.Cid // every block this replica published, in order (two replicas can publish the same block)
	fetched []cid.Cid // blocks obtained from the network
	nFetched int
}

func (s *vc02Syncer) Add(ctx context.Context, n ipld.Node) error {
	s.mu.Lock()
	s.local[n.Cid()] = n
	s.added = append(s.added, n.Cid())
	s.mu.Unlock()
	s.net.mu.Lock()
	if _, ok := s.net.all[n.Cid()]; !ok {
		s.net.all[n.Cid()] = n
		s.net.order = append(s.net.order, n.Cid())
		s.net.maker[n.Cid()] = s.self
	}
	s.net.mu.Unlock()
	return nil
}
func (s *vc02Syncer) AddMany(ctx context.Context, ns []ipld.Node) error {
	for _, n := range ns {
		s.Add(ctx, n)
	}
	return nil
}
func (s *vc02Syncer) Get(ctx context.Context, c cid.Cid) (ipld.Node, error) {
	s.mu.Lock()
	n, ok := s.local[c]
	s.mu.Unlock()
	if ok {
		return n, nil
	}
	s.net.mu.Lock()
	n, ok = s.net.all[c]
	s.net.mu.Unlock()
	if !ok {
		return nil, ipld.ErrNotFound
	}
	s.mu.Lock()
	s.local[c] = n // a fetched block is stored locally, as a blockservice does
	s.fetched = append(s.fetched, c)
	s.mu.Unlock()
	return n, nil
}
func (s *vc02Syncer) GetMany(ctx context.Context, cs []cid.Cid) <-chan *ipld.NodeOption {
	out := make(chan *ipld.NodeOption, len(cs))
	for _, c := range cs {
		n, err := s.Get(ctx, c)
		out <- &ipld.NodeOption{Node: n, Err: err}
	}
	close(out)
	return out
}
func (s *vc02Syncer) Remove(ctx context.Context, c cid.Cid) error {
	s.mu.Lock()
	delete(s.local, c)
	s.mu.Unlock()
	return nil
}
func (s *vc02Syncer) RemoveMany(ctx context.Context, cs []cid.Cid) error {
	for _, c := range cs {
		s.Remove(ctx, c)
	}
	return nil
}
func (s *vc02Syncer) HasBlock(c cid.Cid) (bool, error) {
	s.mu.Lock()
	_, ok := s.local[c]
	s.mu.Unlock()
	return ok, nil
}

type vc02Bcast struct {
	mu    sync.Mutex
	out   [][]byte
	inbox chan []byte
	nNext int32
}

func (b *vc02Bcast) Broadcast(p []byte) error {
	b.mu.Lock()
	b.out = append(b.out, append([]byte{}, p...))
	b.mu.Unlock()
	return nil
}
func (b *vc02Bcast) Next() ([]byte, error) {
	atomic.AddInt32(&b.nNext, 1)
	p, ok := <-b.inbox
	if !ok {
		return nil, crdt.ErrNoMoreBroadcast
	}
	return p, nil
}

// ---------------------------------------------------------------- one replica

type vc02Hook struct {
	Put bool
	K   string
	V   []byte
}

type vc02Replica struct {
	idx    int
	fds    *vc02FaultDS
	sync   *vc02Syncer
	bc     *vc02Bcast
	store  *crdt.Datastore
	st     *dsstate.State
	bst    *dsstate.BatchingState
	hmu    sync.Mutex
	hooks  []vc02Hook
	nBatch int // batches of fds already consumed
	nHooks int
}

func newVC02Replica(t *testing.T, net *vc02Net, idx int) *vc02Replica {
	r := &vc02Replica{idx: idx}
	r.fds = newVC02FaultDS("/r", nil)
	r.sync = &vc02Syncer{net: net, self: idx, local: map[cid.Cid]ipld.Node{}}
	r.bc = &vc02Bcast{inbox: make(chan []byte)}
	opts := crdt.DefaultOptions()
	opts.Logger = logger
	opts.RebroadcastInterval = time.Hour
	opts.NumWorkers = 1
	opts.PutHook = func(k ds.Key, v []byte) {
		r.hmu.Lock()
		r.hooks = append(r.hooks, vc02Hook{true, k.String(), append([]byte{}, v...)})
		r.hmu.Unlock()
	}
	opts.DeleteHook = func(k ds.Key) {
		r.hmu.Lock()
		r.hooks = append(r.hooks, vc02Hook{false, k.String(), nil})
		r.hmu.Unlock()
	}
	store, err := crdt.New(r.fds, ds.NewKey("/r"), r.sync, r.bc, opts)
	if err != nil {
		t.Fatal(err)
	}
	r.store = store
	r.st, _ = dsstate.New(store, "", dsstate.DefaultHandle())
	r.bst, _ = dsstate.NewBatching(store, "", dsstate.DefaultHandle())
	if !vc02WaitFor(10*time.Second, func() bool { return atomic.LoadInt32(&r.bc.nNext) >= 1 }) {
		t.Fatal("replica did not start listening")
	}
	return r
}

func (r *vc02Replica) close() {
	close(r.bc.inbox)
	r.store.Close()
}

// deliver one broadcast payload and wait until the replica has processed it (it asks for the next one)
func (r *vc02Replica) deliver(p []byte) bool {
	n0 := atomic.LoadInt32(&r.bc.nNext)
	r.bc.inbox <- p
	return vc02WaitFor(30*time.Second, func() bool { return atomic.LoadInt32(&r.bc.nNext) > n0 })
}

// ---------------------------------------------------------------- case

type vC02SStep struct {
	T     string    `json:"t"` // op | deliver
	R     int       `json:"r,omitempty"`
	Batch bool      `json:"batch,omitempty"`
	Ops   []vc02Op  `json:"ops,omitempty"`
	From  int       `json:"from,omitempty"`
	To    int       `json:"to,omitempty"`
	I     int       `json:"i,omitempty"` // which broadcast of `from`: counted from the latest (0 = latest)
}

type vC02SCase struct {
	N     int         `json:"n"`
	Steps []vC02SStep `json:"steps"`
}

type vc02DeltaObs struct {
	ID   int      `json:"id"`
	Prio uint64   `json:"prio"`
	Adds [][2]int `json:"adds"` // key, value rank
	Rms  [][2]int `json:"rms"`  // key, block id
	By   int      `json:"by"`
}

type vc02SStepObs struct {
	Kind   string   `json:"kind"` // local | recv
	Batch  bool     `json:"batch,omitempty"`
	Ops    []vc02Op `json:"ops,omitempty"`
	Deltas []int    `json:"deltas"` // created (local) or merged in this order (recv)
	Hooks  []string `json:"hooks"`
	After  [][2]int `json:"after"`
}

type vC02SObs struct {
	Deltas []vc02DeltaObs   `json:"deltas"`
	Reps   [][]vc02SStepObs `json:"reps"`
	Err    string           `json:"err,omitempty"`
	Panic  string           `json:"panic,omitempty"`
}

func vc02KeyOf(c cid.Cid) string {
	return ds.NewKey("").Child(dshelp.NewKeyFromBinary(c.Bytes())).String()
}

func vC02SRun(t *testing.T, c vC02SCase) (obs vC02SObs) {
	if c.N < 1 {
		c.N = 1
	}
	if c.N > 4 {
		c.N = 4
	}
	ctx := context.Background()
	var vals [][]byte
	for _, s := range c.Steps {
		for _, o := range s.Ops {
			if o.Pin {
				vals = append(vals, vc02PinBytes(vc02Pin(o.C, o.V)))
			}
		}
	}
	ranks := newVC02Ranks(vals)
	keyIdx := map[string]int{}
	for i := 0; i < vc02NCids; i++ {
		keyIdx[vc02KeyOf(vc02Cids[i])] = i
	}
	net := &vc02Net{all: map[cid.Cid]ipld.Node{}, maker: map[cid.Cid]int{}}
	var reps []*vc02Replica
	for i := 0; i < c.N; i++ {
		reps = append(reps, newVC02Replica(t, net, i))
	}
	defer func() {
		for _, r := range reps {
			r.close()
		}
	}()
	obs.Reps = make([][]vc02SStepObs, c.N)

	// delta table, filled lazily from the network of blocks
	idOfBlock := map[string]int{} // set id ("/CIQ...") -> index
	var table []vc02DeltaObs
	type dkey struct{ k, id int }
	tombSet := map[int]map[dkey]bool{}
	refresh := func() {
		net.mu.Lock()
		order := append([]cid.Cid{}, net.order...)
		net.mu.Unlock()
		for _, bc := range order {
			sid := dshelp.MultihashToDsKey(bc.Hash()).String()
			if _, ok := idOfBlock[sid]; ok {
				continue
			}
			idOfBlock[sid] = len(table) + 1
			table = append(table, vc02DeltaObs{ID: len(table) + 1})
		}
		// contents (tombstones may refer to any block id, so decode after all ids are known)
		for i, bc := range order {
			if table[i].Adds != nil || table[i].Rms != nil || table[i].Prio != 0 {
				continue
			}
			net.mu.Lock()
			n := net.all[bc]
			by := net.maker[bc]
			net.mu.Unlock()
			pn, ok := n.(*dag.ProtoNode)
			if !ok {
				obs.Err = "block is not a ProtoNode"
				return
			}
			var d pb.Delta
			if err := proto.Unmarshal(pn.Data(), &d); err != nil {
				obs.Err = "delta decode: " + err.Error()
				return
			}
			e := &table[i]
			e.By = by
			e.Prio = d.GetPriority()
			e.Adds = [][2]int{}
			e.Rms = [][2]int{}
			for _, el := range d.GetElements() {
				k, ok := keyIdx[el.GetKey()]
				if !ok {
					k = 99
				}
				e.Adds = append(e.Adds, [2]int{k, ranks.of(el.GetValue())})
			}
			tombSet[e.ID] = map[dkey]bool{}
			for _, el := range d.GetTombstones() {
				k, ok := keyIdx[el.GetKey()]
				if !ok {
					k = 99
				}
				id := idOfBlock[ds.NewKey(el.GetId()).String()]
				e.Rms = append(e.Rms, [2]int{k, id})
				tombSet[e.ID][dkey{k, id}] = true
			}
		}
	}
	merged := make([]map[int]bool, c.N)
	for i := range merged {
		merged[i] = map[int]bool{}
	}

	snapshot := func(r *vc02Replica) [][2]int {
		pins, err := r.st.List(ctx)
		if err != nil {
			obs.Err = "list: " + err.Error()
		}
		out := [][2]int{}
		for _, p := range pins {
			out = append(out, [2]int{vc02CidIndex(p.Cid), ranks.of(vc02PinBytes(p))})
		}
		sort.Slice(out, func(i, j int) bool { return out[i][0] < out[j][0] })
		return out
	}
	takeHooks := func(r *vc02Replica) []string {
		r.hmu.Lock()
		hs := r.hooks[r.nHooks:]
		r.nHooks = len(r.hooks)
		r.hmu.Unlock()
		out := []string{}
		for _, h := range hs {
			k, ok := keyIdx[h.K]
			if !ok {
				k = 99
			}
			if h.Put {
				out = append(out, fmt.Sprintf("HPut %d %d", k, ranks.of(h.V)))
			} else {
				out = append(out, fmt.Sprintf("HDel %d", k))
			}
		}
		return out
	}
	// the deltas merged by r since the last call, in order, from the write batches of its datastore
	takeMerges := func(r *vc02Replica) []int {
		refresh()
		r.fds.mu.Lock()
		bs := append([]vc02BatchRec{}, r.fds.batches[r.nBatch:]...)
		r.nBatch = len(r.fds.batches)
		r.fds.mu.Unlock()
		out := []int{}
		elemsID := func(b vc02BatchRec) int {
			for _, k := range b.keys {
				if strings.HasPrefix(k, "/r/s/s/") {
					parts := strings.Split(k, "/")
					return idOfBlock["/"+parts[len(parts)-1]]
				}
			}
			return 0
		}
		tombsOf := func(b vc02BatchRec) map[dkey]bool {
			m := map[dkey]bool{}
			for _, k := range b.keys {
				parts := strings.Split(k, "/") // "", r, s, t, <key>, <id>
				if len(parts) >= 6 {
					ki, ok := keyIdx["/"+parts[4]]
					if !ok {
						ki = 99
					}
					m[dkey{ki, idOfBlock["/"+parts[5]]}] = true
				}
			}
			return m
		}
		same := func(a, b map[dkey]bool) bool {
			if len(a) != len(b) {
				return false
			}
			for k := range a {
				if !b[k] {
					return false
				}
			}
			return true
		}
		for i := 0; i < len(bs); i++ {
			b := bs[i]
			if b.kind == "elems" {
				id := elemsID(b)
				if id == 0 {
					obs.Err = "elements batch of an unknown block"
					return out
				}
				out = append(out, id)
				merged[r.idx][id] = true
				continue
			}
			ts := tombsOf(b)
			if i+1 < len(bs) && bs[i+1].kind == "elems" {
				id := elemsID(bs[i+1])
				if id != 0 && same(tombSet[id], ts) {
					out = append(out, id)
					merged[r.idx][id] = true
					i++
					continue
				}
			}
			found := 0
			for _, d := range table {
				if len(d.Adds) == 0 && !merged[r.idx][d.ID] && same(tombSet[d.ID], ts) {
					found = d.ID
					break
				}
			}
			if found == 0 { // a tombstone-only delta merged a second time, or one whose element write follows later
				for _, d := range table {
					if len(d.Adds) == 0 && same(tombSet[d.ID], ts) {
						found = d.ID
						break
					}
				}
			}
			if found == 0 {
				obs.Err = "tombstone batch that matches no delta"
				return out
			}
			out = append(out, found)
			merged[r.idx][found] = true
		}
		// deltas without elements and tombstones write nothing: they are known from the blocks fetched in this step
		r.sync.mu.Lock()
		fetched := append([]cid.Cid{}, r.sync.fetched[r.sync.nFetched:]...)
		r.sync.nFetched = len(r.sync.fetched)
		r.sync.mu.Unlock()
		for _, bc := range fetched {
			id := idOfBlock[dshelp.MultihashToDsKey(bc.Hash()).String()]
			if id > 0 && len(table[id-1].Adds) == 0 && len(table[id-1].Rms) == 0 {
				out = append(out, id)
				merged[r.idx][id] = true
			}
		}
		return out
	}
	created := func(r *vc02Replica, before int) []int {
		refresh()
		out := []int{}
		r.sync.mu.Lock()
		order := append([]cid.Cid{}, r.sync.added[before:]...)
		r.sync.mu.Unlock()
		for _, bc := range order {
			out = append(out, idOfBlock[dshelp.MultihashToDsKey(bc.Hash()).String()])
		}
		return out
	}

	doOp := func(s vC02SStep) {
		r := reps[((s.R%c.N)+c.N)%c.N]
		if len(s.Ops) == 0 {
			return
		}
		r.sync.mu.Lock()
		before := len(r.sync.added)
		r.sync.mu.Unlock()
		var ops []vc02Op
		for _, o := range s.Ops {
			o.C = ((o.C % vc02NCids) + vc02NCids) % vc02NCids
			pin := vc02Pin(o.C, o.V)
			o.R = 0
			var err error
			switch {
			case o.Pin && s.Batch:
				o.R = ranks.of(vc02PinBytes(pin))
				err = r.bst.Add(ctx, pin)
			case o.Pin:
				o.R = ranks.of(vc02PinBytes(pin))
				err = r.st.Add(ctx, pin)
			case s.Batch:
				err = r.bst.Rm(ctx, vc02Cid(o.C))
			default:
				err = r.st.Rm(ctx, vc02Cid(o.C))
			}
			if err != nil {
				obs.Err = "write failed: " + err.Error()
			}
			ops = append(ops, o)
		}
		if s.Batch {
			if err := r.bst.Commit(ctx); err != nil {
				obs.Err = "commit failed: " + err.Error()
			}
		}
		ids := created(r, before)
		takeMerges(r) // the local merges are known from the created blocks
		for _, id := range ids {
			merged[r.idx][id] = true
		}
		obs.Reps[r.idx] = append(obs.Reps[r.idx], vc02SStepObs{Kind: "local", Batch: s.Batch, Ops: ops, Deltas: ids,
			Hooks: takeHooks(r), After: snapshot(r)})
	}
	doDeliver := func(from, to, back int) {
		from = ((from % c.N) + c.N) % c.N
		to = ((to % c.N) + c.N) % c.N
		if from == to {
			return
		}
		src := reps[from]
		src.bc.mu.Lock()
		n := len(src.bc.out)
		var p []byte
		if n > 0 {
			if back < 0 {
				back = -back
			}
			i := n - 1 - back%n
			p = src.bc.out[i]
		}
		src.bc.mu.Unlock()
		if p == nil {
			return
		}
		r := reps[to]
		if !r.deliver(p) {
			obs.Err = "delivery not processed"
			return
		}
		ids := takeMerges(r)
		obs.Reps[to] = append(obs.Reps[to], vc02SStepObs{Kind: "recv", Deltas: ids, Hooks: takeHooks(r), After: snapshot(r)})
	}

	for _, s := range c.Steps {
		if obs.Err != "" {
			break
		}
		switch s.T {
		case "op":
			doOp(s)
		case "deliver":
			doDeliver(s.From, s.To, s.I)
		}
	}
	// exchange everything: every replica receives the latest broadcast of every other one
	for round := 0; round < 2 && obs.Err == ""; round++ {
		for from := 0; from < c.N; from++ {
			for to := 0; to < c.N; to++ {
				doDeliver(from, to, 0)
			}
		}
	}
	refresh()
	obs.Deltas = table
	// exchanged all updates: every non-empty delta merged everywhere
	for _, d := range table {
		if len(d.Adds) == 0 && len(d.Rms) == 0 {
			continue
		}
		for i := 0; i < c.N; i++ {
			if !merged[i][d.ID] && obs.Err == "" {
				obs.Err = fmt.Sprintf("replica %d never merged delta %d", i, d.ID)
			}
		}
	}
	return
}

func vc02CoqPairs(ps [][2]int) string {
	s := make([]string, len(ps))
	for i, p := range ps {
		s[i] = fmt.Sprintf("(%d, %d)", p[0], p[1])
	}
	return cqList(s)
}

func vC02STerm(obs vC02SObs) string {
	var ds []string
	for _, d := range obs.Deltas {
		ds = append(ds, fmt.Sprintf("mk_delta %d %d %s %s", d.ID, d.Prio, vc02CoqPairs(d.Adds), vc02CoqPairs(d.Rms)))
	}
	var reps []string
	for _, steps := range obs.Reps {
		var ss []string
		for _, s := range steps {
			ev := ""
			if s.Kind == "local" {
				var ops []string
				for _, o := range s.Ops {
					oo := o
					ops = append(ops, vc02CoqOp(&oo))
				}
				ev = fmt.Sprintf("SLocal %s %s %s", cqBool(s.Batch), cqList(ops), cqListN(s.Deltas))
			} else {
				ev = fmt.Sprintf("SRecv %s", cqListN(s.Deltas))
			}
			ss = append(ss, fmt.Sprintf("mk_sstep (%s) %s %s", ev, cqList(s.Hooks), vc02CoqPairs(s.After)))
		}
		reps = append(reps, cqList(ss))
	}
	return fmt.Sprintf("(mk_h2 %s %s)", cqList(ds), cqList(reps))
}

// ---------------------------------------------------------------- generators

func vc02GenWOps(r *vRand, n int, hot int) []vc02Op {
	var out []vc02Op
	for i := 0; i < n; i++ {
		c := r.intn(vc02NCids)
		if r.chance(65) {
			c = hot
		}
		out = append(out, vc02Op{Pin: r.chance(62), C: c, V: r.intn(vc02NVariants)})
	}
	return out
}

func vC02SGen(r *vRand) vC02SCase {
	c := vC02SCase{N: r.rng(2, 3)}
	if r.chance(8) {
		c.N = 1
	}
	hot := r.intn(vc02NCids)
	n := r.rng(3, 14)
	pDeliver := r.rng(15, 60)
	for i := 0; i < n; i++ {
		if r.chance(pDeliver) {
			c.Steps = append(c.Steps, vC02SStep{T: "deliver", From: r.intn(c.N), To: r.intn(c.N), I: r.intn(3) * r.intn(2)})
			continue
		}
		s := vC02SStep{T: "op", R: r.intn(c.N), Batch: r.chance(45)}
		if s.Batch {
			s.Ops = vc02GenWOps(r, r.rng(1, 4), hot)
		} else {
			s.Ops = vc02GenWOps(r, r.rng(1, 2), hot)
		}
		c.Steps = append(c.Steps, s)
	}
	return c
}

func vC02SBoundary(i int) vC02SCase {
	op := func(r int, batch bool, ops ...vc02Op) vC02SStep { return vC02SStep{T: "op", R: r, Batch: batch, Ops: ops} }
	pin := func(c, v int) vc02Op { return vc02Op{Pin: true, C: c, V: v} }
	unpin := func(c int) vc02Op { return vc02Op{C: c} }
	dl := func(from, to int) vC02SStep { return vC02SStep{T: "deliver", From: from, To: to} }
	cases := []vC02SCase{
		// S3: A adds K at height 5 and removes it; B adds K concurrently at height 1..3
		{N: 2, Steps: []vC02SStep{op(0, false, pin(1, 0)), op(0, false, pin(1, 1)), op(0, false, pin(2, 0)), op(0, false, pin(2, 1)),
			op(0, false, pin(0, 1)), op(1, false, pin(1, 3)), op(1, false, pin(2, 3)), op(1, false, pin(0, 2)), op(0, false, unpin(0)),
			dl(1, 0), dl(0, 1)}},
		{N: 2, Steps: []vC02SStep{op(0, false, pin(1, 0)), op(0, false, pin(0, 1)), op(1, false, pin(0, 2)), op(0, false, unpin(0)), dl(0, 1), dl(1, 0)}},
		// equal heights, byte-order tie-break, both delivery orders
		{N: 2, Steps: []vC02SStep{op(0, false, pin(0, 1)), op(1, false, pin(0, 2)), dl(0, 1), dl(1, 0)}},
		{N: 3, Steps: []vC02SStep{op(0, false, pin(0, 1)), op(1, false, pin(0, 2)), op(2, false, pin(0, 3)), dl(0, 1), dl(1, 2), dl(2, 0)}},
		// concurrent add and remove: add wins
		{N: 2, Steps: []vC02SStep{op(0, false, pin(0, 1)), dl(0, 1), op(0, false, pin(0, 2)), op(1, false, unpin(0)), dl(1, 0), dl(0, 1)}},
		// a batch with pin/unpin/pin of one CID against a concurrent pin
		{N: 2, Steps: []vC02SStep{op(0, true, pin(0, 1), unpin(0), pin(0, 2)), op(1, false, pin(0, 3)), dl(0, 1), dl(1, 0)}},
		{N: 2, Steps: []vC02SStep{op(0, true, pin(0, 1), pin(0, 2)), op(1, false, pin(0, 3)), dl(0, 1), dl(1, 0)}},
		{N: 2, Steps: []vC02SStep{op(0, true, pin(0, 2), pin(0, 1)), op(1, false, pin(0, 3)), dl(1, 0), dl(0, 1)}},
		// remove of something never added, remove twice, old broadcast delivered after a newer one
		{N: 2, Steps: []vC02SStep{op(0, false, unpin(0)), op(0, true, unpin(0), unpin(1)), op(0, false, pin(0, 1)), op(0, false, unpin(0)), op(0, false, unpin(0)),
			{T: "deliver", From: 0, To: 1, I: 0}, {T: "deliver", From: 0, To: 1, I: 1}, {T: "deliver", From: 0, To: 1, I: 2}}},
		// head delivered before its ancestors are known: the walker merges newest first
		{N: 2, Steps: []vC02SStep{op(0, false, pin(0, 1)), op(0, false, unpin(0)), op(0, false, pin(0, 2)), op(0, false, unpin(0)), op(0, false, pin(0, 3)), dl(0, 1)}},
		{N: 3, Steps: []vC02SStep{op(0, false, pin(0, 1)), op(1, false, pin(0, 2)), dl(0, 2), dl(1, 2), op(2, false, unpin(0)), op(0, false, pin(0, 3)), dl(2, 0), dl(2, 1), dl(0, 1)}},
	}
	return cases[i%len(cases)]
}

func vC02SNontrivial(c vC02SCase) bool {
	// at least two replicas writing to one CID
	w := map[int]map[int]bool{}
	for _, s := range c.Steps {
		if s.T != "op" {
			continue
		}
		for _, o := range s.Ops {
			k := ((o.C % vc02NCids) + vc02NCids) % vc02NCids
			if w[k] == nil {
				w[k] = map[int]bool{}
			}
			w[k][s.R] = true
		}
	}
	for _, m := range w {
		if len(m) >= 2 {
			return true
		}
	}
	return false
}

func TestVerifC02Set(t *testing.T) {
	seed := uint64(vEnvInt("VERIF_SEED", 1))
	n := vEnvInt("VERIF_N", 200)
	out := newVOut("C02s", "From V Require Import Base.Common Model.C02_Set Model.C02_CheckSet.\nOpen Scope N_scope.",
		"scase", "Definition R := Eval vm_compute in failing_set cases.\nPrint R.")
	out.idBase += 200000 // the runner keys cases by id across the harness entries of one property
	defer out.close()
	var cases []vC02SCase
	if raw := vCasesIn(); raw != nil {
		for _, b := range raw {
			var c vC02SCase
			if err := json.Unmarshal(b, &c); err != nil {
				t.Fatal(err)
			}
			cases = append(cases, c)
		}
	} else {
		r := newVRand(seed ^ 0x5e7)
		for i := 0; i < n; i++ {
			if i%8 == 7 {
				cases = append(cases, vC02SBoundary(i/8+int(seed)))
			} else {
				cases = append(cases, vC02SGen(r))
			}
		}
	}
	par := vEnvInt("VERIF_C02_PAR", 4)
	results := make([]vC02SObs, len(cases))
	var wg sync.WaitGroup
	sem := make(chan struct{}, par)
	for i := range cases {
		wg.Add(1)
		sem <- struct{}{}
		go func(i int) {
			defer wg.Done()
			defer func() { <-sem }()
			key := fmt.Sprintf("s%d", i)
			vCaseStartKey(key, cases[i])
			defer vCaseDoneKey(key)
			defer func() { // a panic of the code under test on this goroutine: reported with the case, the others go on
				if vc02NoRecover {
					return
				}
				if r := recover(); r != nil {
					results[i] = vC02SObs{Panic: fmt.Sprint(r)}
				}
			}()
			results[i] = vC02SRun(t, cases[i])
		}(i)
	}
	wg.Wait()
	nPanic := 0
	for i, c := range cases {
		obs := results[i]
		if obs.Panic != "" {
			out.count("panic")
			if nPanic++; nPanic <= 2 {
				b, _ := json.Marshal(map[string]interface{}{"signature": "panic-in-code-under-test", "detail": obs.Panic,
					"harness": "TestVerifC02Set", "case": map[string]interface{}{"input": c},
					"meaning": "dsstate / go-ds-crdt panicked while this case ran (recovered by the harness)"})
				fmt.Printf("VERIF-DIRECT-VIOLATION %s\n", b)
			}
			continue
		}
		if obs.Err != "" {
			b, _ := json.Marshal(c)
			t.Fatalf("case %d: %s (input %s)", i, obs.Err, b)
		}
		out.count(fmt.Sprintf("replicas_%d", len(obs.Reps)))
		out.count(fmt.Sprintf("deltas_%d", len(obs.Deltas)/4*4))
		out.add(vC02STerm(obs), c, obs, vC02SNontrivial(c))
	}
	_ = api.Pin{}
}
