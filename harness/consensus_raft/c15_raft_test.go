//go:build verif

package raft

import (
	"reflect"
	"testing"
)

func TestVerifC15Raft(t *testing.T) {
	vc15Main(t, &vc15Section{
		Name: "raft", Index: 2, EnvPrefix: "CLUSTER_RAFT",
		New:      func() vc15Config { return &Config{} },
		JSONType: reflect.TypeOf(jsonConfig{}),
		Hints: map[string]string{
			"data_folder": "str", "init_peerset": "peer", "wait_for_leader_timeout": "dur", "network_timeout": "dur",
			"commit_retry_delay": "dur", "datastore_namespace": "str", "heartbeat_timeout": "dur", "election_timeout": "dur",
			"commit_timeout": "dur", "snapshot_interval": "dur", "leader_lease_timeout": "dur",
		},
		Direct: func(c vc15Config) map[string]string {
			cfg := c.(*Config)
			return map[string]string{"datastore_namespace": vc15VS(cfg.DatastoreNamespace), "data_folder": vc15VS(cfg.DataFolder)}
		},
		Extra: map[string][]interface{}{"datastore_namespace": {"/r", "/raft", "/x"}, "max_append_entries": {1024, 1025}},
	})
}
