//go:build verif

package stateless

import (
	"reflect"
	"testing"
)

func TestVerifC15Stateless(t *testing.T) {
	vc15Main(t, &vc15Section{
		Name: "stateless", Index: 7, EnvPrefix: "CLUSTER_STATELESS",
		New:      func() vc15Config { return &Config{} },
		JSONType: reflect.TypeOf(jsonConfig{}),
		Hints:    map[string]string{},
		Direct: func(c vc15Config) map[string]string {
			cfg := c.(*Config)
			return map[string]string{"max_pin_queue_size": vc15VZ(int64(cfg.MaxPinQueueSize))}
		},
	})
}
