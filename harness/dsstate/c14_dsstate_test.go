//go:build verif

package dsstate

// C14 correspondence harness, package dsstate: the real State.Marshal / State.Unmarshal onto an EMPTY store
// (what Unmarshal does onto a non-empty store is C01's S1).

import (
	"bytes"
	"context"
	"encoding/json"
	"fmt"
	"testing"

	"github.com/ipfs/ipfs-cluster/datastore/inmem"
)

const vc14DsIDBase = 400000

type vC14DsCase struct {
	Kind string        `json:"kind"` // "marshal"
	Pins []VC14PinSpec `json:"pins"`
	NS   string        `json:"ns,omitempty"` // datastore namespace of both states
}

func vc14DsRun(c vC14DsCase) (before []VC14Entry, after []VC14Entry, nbytes int, errs string) {
	ctx := context.Background()
	in := NewVC14Interner()
	st, err := New(inmem.New(), c.NS, DefaultHandle())
	if err != nil {
		return nil, nil, 0, err.Error()
	}
	for _, s := range c.Pins {
		if err := st.Add(ctx, VC14MakePin(s)); err != nil {
			return nil, nil, 0, "add: " + err.Error()
		}
	}
	before, err = VC14Entries(st, in)
	if err != nil {
		return nil, nil, 0, "list: " + err.Error()
	}
	var buf bytes.Buffer
	if err := st.Marshal(&buf); err != nil {
		return before, nil, 0, "marshal: " + err.Error()
	}
	nbytes = buf.Len()
	st2, err := New(inmem.New(), c.NS, DefaultHandle())
	if err != nil {
		return before, nil, nbytes, err.Error()
	}
	if err := st2.Unmarshal(&buf); err != nil {
		return before, nil, nbytes, "unmarshal: " + err.Error()
	}
	after, err = VC14Entries(st2, in)
	if err != nil {
		return before, nil, nbytes, "list2: " + err.Error()
	}
	return before, after, nbytes, ""
}

func TestVerifC14Dsstate(t *testing.T) {
	seed := uint64(vEnvInt("VERIF_SEED", 1))
	n := vEnvInt("VERIF_N", 200)
	out := newVOut("C14", "From V Require Import Base.Common Model.C14_Backup Model.C14_Peerstore Model.C14_State Model.C14_Check.\nOpen Scope N_scope.",
		"case", "Definition R := Eval vm_compute in failing cases.\nPrint R.")
	out.idBase += vc14DsIDBase
	defer out.close()
	var cases []vC14DsCase
	if raw := vCasesIn(); raw != nil {
		for _, b := range raw {
			var c vC14DsCase
			if err := json.Unmarshal(b, &c); err != nil {
				t.Fatal(err)
			}
			cases = append(cases, c)
		}
	} else {
		r := newVRand(seed)
		nss := []string{"", "/", "/pins", "/c/state", "x"}
		for i := 0; i < n; i++ {
			max := 6
			if i%10 == 0 {
				max = VC14NCids
			}
			c := vC14DsCase{Kind: "marshal", Pins: VC14GenPinset(r.intn, max, 30)}
			if r.chance(40) {
				c.NS = nss[r.intn(len(nss))]
			}
			cases = append(cases, c)
		}
	}
	for _, c := range cases {
		before, after, nbytes, errs := vc14DsRun(c)
		obs := "None"
		if errs == "" {
			obs = "(Some " + VC14CoqEntries(after) + ")"
		} else {
			out.count("marshal.error")
		}
		out.count(fmt.Sprintf("marshal.pins%d", len(before)))
		if c.NS != "" {
			out.count("marshal.namespaced")
		}
		term := fmt.Sprintf("PMarshal %s %s", VC14CoqEntries(before), obs)
		out.add(term, c, map[string]interface{}{"before": before, "after": after, "bytes": nbytes, "error": errs}, len(before) >= 2)
	}
}
