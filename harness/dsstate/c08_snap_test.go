//go:build verif

package dsstate

// C08, snapshot boundary: the loop of State.Unmarshal (`for { var entry serialEntry; dec.Decode(&entry); Put(key, entry.Value) }`)
// on the real code. A case is a pinset of 2..7 pins with pairwise different CIDs and different contents; it is stored in a
// state, written with the real State.Marshal, read with the real State.Unmarshal into a second state over the in-memory
// (map) datastore - which keeps the byte slices it is handed, by reference - and every pin is read back with Get.
// The stored values must be pairwise independent: each pin reads back as its own stored form.

import (
	"bytes"
	"context"
	"encoding/json"
	"fmt"
	"testing"

	"github.com/ipfs/ipfs-cluster/datastore/inmem"

	logging "github.com/ipfs/go-log/v2"
)

type vC08SCase struct {
	Kind string       `json:"kind"` // "snap"
	Pins []vC08LPinIn `json:"pins"`
}

func vC08SGen(r *vRand) vC08SCase {
	c := vC08SCase{Kind: "snap"}
	n := r.rng(2, 7)
	perm := []int{}
	for i := range vC08LCids {
		perm = append(perm, i)
	}
	for i := len(perm) - 1; i > 0; i-- {
		j := r.intn(i + 1)
		perm[i], perm[j] = perm[j], perm[i]
	}
	for i := 0; i < n; i++ {
		p := vC08LGenPin(r, r.chance(60), false)
		p.Cid = perm[i]
		if r.chance(4) {
			p.Name = []byte("bad\xffutf8") // cannot be stored: absent from the snapshot
		}
		c.Pins = append(c.Pins, p)
	}
	return c
}

func vC08SRun(out *vOut, c vC08SCase) {
	ctx := context.Background()
	st1, err := New(inmem.New(), "/vc08s", DefaultHandle())
	if err != nil {
		panic(err)
	}
	st2, err := New(inmem.New(), "/vc08s", DefaultHandle())
	if err != nil {
		panic(err)
	}
	seen := map[string]bool{}
	var terms, obs []string
	var cids []int
	stored := 0
	for i := range c.Pins {
		in := &c.Pins[i]
		pin := in.build()
		if !pin.Cid.Defined() || seen[string(pin.Cid.Hash())] {
			continue // one entry per datastore key
		}
		seen[string(pin.Cid.Hash())] = true
		terms = append(terms, vC08LPinTerm(pin))
		cids = append(cids, i)
		if err := st1.Add(ctx, pin); err == nil {
			stored++
		}
	}
	var buf bytes.Buffer
	if err := st1.Marshal(&buf); err != nil {
		panic(err)
	}
	if err := st2.Unmarshal(bytes.NewReader(buf.Bytes())); err != nil {
		b, _ := json.Marshal(map[string]interface{}{"signature": "snapshot-unmarshal-error", "detail": err.Error(), "case": map[string]interface{}{"input": c}})
		fmt.Printf("VERIF-DIRECT-VIOLATION %s\n", b)
		return
	}
	for _, i := range cids {
		pin := c.Pins[i].build()
		_, err1 := st1.Get(ctx, pin.Cid)
		got, err2 := st2.Get(ctx, pin.Cid)
		switch {
		case err1 != nil && err2 != nil:
			obs = append(obs, "ObsEncErr") // never stored
		case err2 != nil:
			obs = append(obs, "ObsDecErr")
		default:
			obs = append(obs, "(ObsPin "+vC08LPinTerm(got)+")")
		}
	}
	out.count(fmt.Sprintf("snap:pins%d", len(terms)))
	out.add(fmt.Sprintf("CStream 0 %s %s", cqList(terms), cqList(obs)), c, obs, stored >= 2)
}

func TestVerifC08Snap(t *testing.T) {
	vC08LInit()
	logging.SetAllLoggers(logging.LevelFatal)
	seed := uint64(vEnvInt("VERIF_SEED", 1))
	n := vEnvInt("VERIF_N", 60)
	out := newVOut("C08S", vC08LHeader(), "case", "Definition R := Eval vm_compute in failing cases.\nPrint R.")
	out.idBase += 700000
	defer out.close()
	var cases []vC08SCase
	if raw := vCasesIn(); raw != nil {
		for _, b := range raw {
			var c vC08SCase
			if err := json.Unmarshal(b, &c); err != nil || c.Kind != "snap" {
				continue
			}
			cases = append(cases, c)
		}
	} else {
		r := newVRand(seed*104729 + 5)
		for i := 0; i < n; i++ {
			cases = append(cases, vC08SGen(r))
		}
	}
	for _, c := range cases {
		vCaseStart(c)
		func() {
			defer func() {
				if e := recover(); e != nil {
					b, _ := json.Marshal(map[string]interface{}{"signature": "panic-snap", "detail": fmt.Sprint(e), "case": map[string]interface{}{"input": c}})
					fmt.Printf("VERIF-DIRECT-VIOLATION %s\n", b)
				}
			}()
			vC08SRun(out, c)
		}()
	}
	vCaseDone()
}
