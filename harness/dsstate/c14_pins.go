//go:build verif

package dsstate

// C14 verification helper (injected with `go test -overlay` under the build tag `verif`; never part of /repo).
// A non-test file so that the harnesses in packages dsstate, raft and cmdutils share one pin generator,
// one pin printer and one way of listing a state.

import (
	"context"
	"fmt"
	"sort"
	"strings"
	"time"

	"github.com/ipfs/ipfs-cluster/api"
	"github.com/ipfs/ipfs-cluster/state"

	cid "github.com/ipfs/go-cid"
	peer "github.com/libp2p/go-libp2p-core/peer"
	ma "github.com/multiformats/go-multiaddr"
	mh "github.com/multiformats/go-multihash"
)

// VC14PinSpec is the JSON description of one pin (indices into small universes).
type VC14PinSpec struct {
	C  int         `json:"c"`            // cid index
	T  int         `json:"t"`            // 0 data, 1 meta, 2 clusterdag, 3 shard
	A  []int       `json:"a,omitempty"`  // allocations (peer indices)
	D  int         `json:"d"`            // max depth
	R  int         `json:"r,omitempty"`  // reference cid index + 1 (0: none)
	Rn int         `json:"rn"`           // replication factor min
	Rx int         `json:"rx"`           // replication factor max
	N  string      `json:"n,omitempty"`  // name
	S  uint64      `json:"s,omitempty"`  // shard size
	UA []int       `json:"ua,omitempty"` // user allocations
	E  int64       `json:"e,omitempty"`  // expire at (unix seconds, 0: never)
	En int64       `json:"en,omitempty"` // expire at, nanoseconds part
	M  [][2]string `json:"m,omitempty"`  // metadata
	U  int         `json:"u,omitempty"`  // pin update cid index + 1
	O  []int       `json:"o,omitempty"`  // origins (address indices)
}

const VC14NCids = 16

var vc14Cids []cid.Cid
var vc14Peers []peer.ID
var vc14Origins []ma.Multiaddr

func init() {
	for i := 0; i < VC14NCids; i++ {
		h, err := mh.Sum([]byte(fmt.Sprintf("c14-cid-%d", i)), mh.SHA2_256, -1)
		if err != nil {
			panic(err)
		}
		if i%2 == 1 {
			vc14Cids = append(vc14Cids, cid.NewCidV0(h))
		} else if i%4 == 0 {
			vc14Cids = append(vc14Cids, cid.NewCidV1(cid.Raw, h))
		} else {
			vc14Cids = append(vc14Cids, cid.NewCidV1(cid.DagProtobuf, h))
		}
	}
	for _, s := range []string{"QmXZrtE5jQwXNqCJMfHUTQkvhQ4ZAnqMnmzFMJfLewuabc", "QmUZ13osndQ5uL4tPWHXe3iBgBgq9gfewcBMSCAuMBsDJ6",
		"QmPGDFvBkgWhvzEK9qaTWrWurSwqXNmhnK3hgELPdZZNPa", "QmZ8naDy5mEz4GLuQwjWt9MPYqHTBbsm8tQBrNSjiq6zBc",
		"QmZVAo3wd8s5eTTy2kPYs34J9PvfxpKPuYsePPYGjgRRjg", "QmR8Vu6kZk7JvAN2rWVWgiduHatgBq2bb15Yyq8RRhYSbx"} {
		p, err := peer.Decode(s)
		if err != nil {
			panic(err)
		}
		vc14Peers = append(vc14Peers, p)
	}
	for _, s := range []string{"/ip4/1.2.3.4/tcp/4001/p2p/QmXZrtE5jQwXNqCJMfHUTQkvhQ4ZAnqMnmzFMJfLewuabc", "/dns4/origin.example.org/tcp/4001",
		"/ip6/::1/udp/4001/quic"} {
		a, err := ma.NewMultiaddr(s)
		if err != nil {
			panic(err)
		}
		vc14Origins = append(vc14Origins, a)
	}
}

func vc14Mod(i, n int) int {
	i %= n
	if i < 0 {
		i += n
	}
	return i
}

// VC14Cid returns the i-th CID of the universe (any integer is folded into it).
func VC14Cid(i int) cid.Cid { return vc14Cids[vc14Mod(i, VC14NCids)] }

// VC14CidIndex is the inverse of VC14Cid (-1 if unknown).
func VC14CidIndex(c cid.Cid) int {
	for i, x := range vc14Cids {
		if x.Equals(c) {
			return i
		}
	}
	return -1
}

// VC14MakePin builds the pin a spec describes.
func VC14MakePin(s VC14PinSpec) *api.Pin {
	p := &api.Pin{Cid: VC14Cid(s.C)}
	switch vc14Mod(s.T, 4) {
	case 0:
		p.Type = api.DataType
	case 1:
		p.Type = api.MetaType
	case 2:
		p.Type = api.ClusterDAGType
	default:
		p.Type = api.ShardType
	}
	for _, a := range s.A {
		p.Allocations = append(p.Allocations, vc14Peers[vc14Mod(a, len(vc14Peers))])
	}
	p.MaxDepth = api.PinDepth(s.D)
	p.Mode = p.MaxDepth.ToPinMode()
	if s.R > 0 {
		c := VC14Cid(s.R - 1)
		p.Reference = &c
	}
	p.ReplicationFactorMin = s.Rn
	p.ReplicationFactorMax = s.Rx
	p.Name = s.N
	p.ShardSize = s.S
	for _, a := range s.UA {
		p.UserAllocations = append(p.UserAllocations, vc14Peers[vc14Mod(a, len(vc14Peers))])
	}
	if s.E != 0 || s.En != 0 {
		p.ExpireAt = time.Unix(s.E, s.En)
	}
	if len(s.M) > 0 {
		p.Metadata = map[string]string{}
		for _, kv := range s.M {
			p.Metadata[kv[0]] = kv[1]
		}
	}
	if s.U > 0 {
		p.PinUpdate = VC14Cid(s.U - 1)
	}
	for _, o := range s.O {
		p.Origins = append(p.Origins, vc14Origins[vc14Mod(o, len(vc14Origins))])
	}
	return p
}

// VC14GenPinset draws a pinset: distinct CIDs, every type, depth, option. intn(n) is the caller's PRNG.
// originsPct is the chance (in %) that the pinset contains pins with origins at all.
func VC14GenPinset(intn func(int) int, maxPins int, originsPct int) []VC14PinSpec {
	n := 1 + intn(maxPins)
	if intn(10) == 0 {
		n = 0
	}
	withOrigins := intn(100) < originsPct
	perm := make([]int, VC14NCids)
	for i := range perm {
		perm[i] = i
	}
	for i := len(perm) - 1; i > 0; i-- {
		j := intn(i + 1)
		perm[i], perm[j] = perm[j], perm[i]
	}
	if n > VC14NCids {
		n = VC14NCids
	}
	names := []string{"", "a", "my pin", "ünïcode ✓", "with \"quotes\" and \\ slash", "x/y", strings.Repeat("n", 100)}
	var out []VC14PinSpec
	for k := 0; k < n; k++ {
		s := VC14PinSpec{C: perm[k]}
		s.T = 0
		if intn(100) < 40 {
			s.T = intn(4)
		}
		switch s.T {
		case 0:
			s.D = []int{-1, -1, -1, 0, 1, 2}[intn(6)]
		case 1:
			s.D = 0
			s.R = 1 + intn(VC14NCids)
		case 2:
			s.D = 0
			s.R = 1 + intn(VC14NCids)
		default:
			s.D = 1 + intn(2)
			if intn(2) == 0 {
				s.R = 1 + intn(VC14NCids)
			}
		}
		switch x := intn(100); {
		case x < 30:
			s.Rn, s.Rx = -1, -1
		case x < 40:
			s.Rn, s.Rx = 0, 0
		default:
			s.Rn = 1 + intn(3)
			s.Rx = s.Rn + intn(3)
		}
		na := intn(4)
		ap := []int{0, 1, 2, 3, 4, 5}
		for i := len(ap) - 1; i > 0; i-- {
			j := intn(i + 1)
			ap[i], ap[j] = ap[j], ap[i]
		}
		s.A = append([]int{}, ap[:na]...)
		s.N = names[intn(len(names))]
		if intn(100) < 20 {
			s.S = uint64(1+intn(1000)) * 1024
		}
		if intn(100) < 15 {
			s.UA = append([]int{}, ap[:1+intn(2)]...)
		}
		switch x := intn(100); {
		case x < 60:
		case x < 80:
			s.E = 1900000000 + int64(intn(100000))
		case x < 90:
			s.E = 1900000000 + int64(intn(100000))
			s.En = int64(1 + intn(999999999))
		case x < 95:
			s.E = 1 // long past
		default:
			s.E = 32503680000 // year 3000
		}
		nm := 0
		if intn(100) < 35 {
			nm = 1 + intn(3)
		}
		mk := []string{"k", "key two", "", "ключ", "a=b"}
		mv := []string{"", "v", "value with spaces", "\"q\"", "🙂"}
		for i := 0; i < nm; i++ {
			s.M = append(s.M, [2]string{mk[(i+intn(2))%len(mk)], mv[intn(len(mv))]})
		}
		if intn(100) < 10 {
			s.U = 1 + intn(VC14NCids)
		}
		if withOrigins && intn(100) < 40 {
			no := 1 + intn(2)
			for i := 0; i < no; i++ {
				s.O = append(s.O, intn(len(vc14Origins)))
			}
		}
		out = append(out, s)
	}
	return out
}

// VC14Canon renders every field of a pin except its CID, nil and empty identified, maps sorted.
func VC14Canon(p *api.Pin) string {
	var b strings.Builder
	fmt.Fprintf(&b, "type=%d;", uint64(p.Type))
	b.WriteString("allocs=")
	for _, a := range p.Allocations {
		b.WriteString(peer.Encode(a) + ",")
	}
	fmt.Fprintf(&b, ";depth=%d;", int(p.MaxDepth))
	if p.Reference != nil {
		fmt.Fprintf(&b, "ref=%s;", p.Reference.String())
	} else {
		b.WriteString("ref=;")
	}
	fmt.Fprintf(&b, "rmin=%d;rmax=%d;name=%q;mode=%d;shard=%d;", p.ReplicationFactorMin, p.ReplicationFactorMax, p.Name, int(p.Mode), p.ShardSize)
	b.WriteString("ualloc=")
	for _, a := range p.UserAllocations {
		b.WriteString(peer.Encode(a) + ",")
	}
	if p.ExpireAt.IsZero() {
		b.WriteString(";exp=never;")
	} else {
		fmt.Fprintf(&b, ";exp=%d.%09d;", p.ExpireAt.Unix(), p.ExpireAt.Nanosecond())
	}
	keys := []string{}
	for k := range p.Metadata {
		keys = append(keys, k)
	}
	sort.Strings(keys)
	b.WriteString("meta=")
	for _, k := range keys {
		fmt.Fprintf(&b, "%q:%q,", k, p.Metadata[k])
	}
	if p.PinUpdate.Defined() {
		fmt.Fprintf(&b, ";upd=%s;", p.PinUpdate.String())
	} else {
		b.WriteString(";upd=;")
	}
	b.WriteString("origins=")
	for _, o := range p.Origins {
		if o == nil {
			b.WriteString("<nil>,")
		} else {
			b.WriteString(o.String() + ",")
		}
	}
	return b.String()
}

// VC14Interner numbers canonical pin renderings (content ids) within one case.
type VC14Interner struct{ ids map[string]int }

func NewVC14Interner() *VC14Interner { return &VC14Interner{ids: map[string]int{}} }
func (in *VC14Interner) ID(s string) int {
	if i, ok := in.ids[s]; ok {
		return i
	}
	in.ids[s] = len(in.ids) + 1
	return in.ids[s]
}

// VC14Entry is one pin as the Coq side sees it.
type VC14Entry struct {
	Cid     int    `json:"cid"`     // index in the universe (1000+ for foreign CIDs)
	Content int    `json:"content"` // interned canonical rendering
	Origins int    `json:"origins"` // number of origins
	Canon   string `json:"canon"`
}

// VC14Entries lists a state, sorted by CID index.
func VC14Entries(st state.ReadOnly, in *VC14Interner) ([]VC14Entry, error) {
	pins, err := st.List(context.Background())
	if err != nil {
		return nil, err
	}
	return VC14EntriesOf(pins, in), nil
}

func VC14EntriesOf(pins []*api.Pin, in *VC14Interner) []VC14Entry {
	out := []VC14Entry{}
	foreign := 1000
	for _, p := range pins {
		ci := VC14CidIndex(p.Cid)
		if ci < 0 {
			ci = foreign
			foreign++
		}
		c := VC14Canon(p)
		out = append(out, VC14Entry{Cid: ci, Content: in.ID(c), Origins: len(p.Origins), Canon: c})
	}
	sort.SliceStable(out, func(i, j int) bool { return out[i].Cid < out[j].Cid })
	return out
}

// VC14CoqEntries prints entries as a Gallina list of (cid, (content, origins)).
func VC14CoqEntries(es []VC14Entry) string {
	xs := make([]string, len(es))
	for i, e := range es {
		xs[i] = fmt.Sprintf("(%d, (%d, %d))", e.Cid, e.Content, e.Origins)
	}
	return "[" + strings.Join(xs, "; ") + "]"
}
