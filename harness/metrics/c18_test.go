//go:build verif

package metrics

// C18 stress scenarios for monitor/metrics: "logging metrics while reading them".

import (
	"context"
	"strconv"
	"time"

	"github.com/ipfs/ipfs-cluster/api"
	"github.com/ipfs/ipfs-cluster/test"
	peer "github.com/libp2p/go-libp2p-core/peer"
)

// case ids of this package start here (one runner evidence table for all packages)
// directory of this package inside the repository (race signatures are made relative to the repository root)
const vC18PkgDir = "monitor/metrics"

const vC18IDBase = 300

var vC18Plan = []vC18Scen{
	{Name: "window", Ms: 700, Workers: 6},
	{Name: "window-small", Ms: 500, Workers: 6},
	{Name: "store", Ms: 700, Workers: 8},
	{Name: "checker", Ms: 600, Workers: 6},
}

var vC18Scenarios = map[string]func(x *vC18Ctx){
	"window":       func(x *vC18Ctx) { vC18Window(x, DefaultWindowCap) },
	"window-small": func(x *vC18Ctx) { vC18Window(x, 2) },
	"store":        vC18Store,
	"checker":      vC18Checker,
}

var vC18Peers = []peer.ID{test.PeerID1, test.PeerID2, test.PeerID3, test.PeerID4}

func vC18Metric(name string, p peer.ID, id int, ttl time.Duration) *api.Metric {
	m := &api.Metric{Name: name, Peer: p, Value: strconv.Itoa(id), Valid: true}
	m.SetTTL(ttl)
	return m
}

func vC18ID(m *api.Metric) int {
	if m == nil {
		return 0
	}
	n, err := strconv.Atoi(m.Value)
	if err != nil || n < 0 {
		return 0
	}
	return n
}

func vC18IDs(ms []*api.Metric) []int {
	ids := make([]int, len(ms))
	for i, m := range ms {
		ids[i] = vC18ID(m)
	}
	return ids
}

// one writer hands out ids 1,2,3,... to Add; readers call Latest (never goes back in time, never a foreign
// value), All (youngest first: consecutive descending ids, at most cap of them) and Distribution
func vC18Window(x *vC18Ctx, wcap int) {
	x.deadline = time.Now().Add(time.Duration(x.scen.Ms) * time.Millisecond)
	x.obs.Cap = wcap
	w := NewWindow(wcap)
	x.loop("Add", 0, func(r *vRand, i int) {
		w.Add(vC18Metric("m", test.PeerID1, i+1, time.Hour))
	})
	for k := 1; k < x.scen.Workers; k++ {
		switch k % 3 {
		case 1:
			last := 0
			x.loop("Latest", k, func(r *vRand, i int) {
				m, err := w.Latest()
				if err != nil {
					if last != 0 {
						x.stat(0, 1) // "no metrics" after a metric had been seen
					}
					return
				}
				id := vC18ID(m)
				if id == 0 || id < last {
					x.stat(0, 1)
				}
				last = id
			})
		case 2:
			x.loop("All", k, func(r *vRand, i int) { x.view(vC18IDs(w.All())) })
		default:
			x.loop("Distribution", k, func(r *vRand, i int) {
				if ms := w.All(); len(ms) > 0 { // (Distribution of an empty window slices out of range: not a concurrency matter)
					for _, d := range w.Distribution() {
						if d < 0 {
							x.stat(1, 1)
						}
					}
				}
			})
		}
	}
	x.wait()
}

// writers own one peer each and Add ids 1,2,3,...; readers use every read accessor of the Store
func vC18Store(x *vC18Ctx) {
	x.deadline = time.Now().Add(time.Duration(x.scen.Ms) * time.Millisecond)
	x.obs.Cap = DefaultWindowCap
	st := NewStore()
	nw := 3
	for k := 0; k < nw; k++ {
		p := vC18Peers[k]
		x.loop("Add", k, func(r *vRand, i int) { st.Add(vC18Metric("m", p, i+1, time.Hour)) })
	}
	x.loop("RemovePeer", 50, func(r *vRand, i int) {
		if i%7 == 0 {
			st.RemovePeer(vC18Peers[3])
		} else if i%7 == 1 {
			st.RemovePeerMetrics(vC18Peers[3], "m")
		} else {
			st.Add(vC18Metric("other", vC18Peers[3], i+1, time.Hour))
		}
		time.Sleep(50 * time.Microsecond)
	})
	for k := nw + 1; k < x.scen.Workers+2; k++ {
		x.loop("read", 100+k, func(r *vRand, i int) {
			p := vC18Peers[r.intn(nw)]
			switch r.intn(7) {
			case 0:
				for _, m := range st.LatestValid("m") {
					if vC18ID(m) == 0 {
						x.stat(0, 1)
					}
				}
			case 1:
				for _, m := range st.AllMetrics() {
					if vC18ID(m) == 0 {
						x.stat(0, 1)
					}
				}
			case 2:
				for _, m := range st.PeerMetrics(p) {
					if vC18ID(m) == 0 || m.Peer != p {
						x.stat(0, 1)
					}
				}
			case 3:
				x.view(vC18IDs(st.PeerMetricAll("m", p)))
			case 4:
				if m := st.PeerLatest("m", p); m != nil && (vC18ID(m) == 0 || m.Peer != p) {
					x.stat(0, 1)
				}
			case 5:
				if len(st.PeerMetricAll("m", p)) > 0 {
					st.Distribution("m", p)
				}
			default:
				for _, n := range st.MetricNames() {
					if n != "m" && n != "other" {
						x.stat(0, 1)
					}
				}
			}
		})
	}
	x.wait()
}

// expired metrics keep arriving while several goroutines run the checker and one drains the alerts
func vC18Checker(x *vC18Ctx) {
	x.deadline = time.Now().Add(time.Duration(x.scen.Ms) * time.Millisecond)
	ctx, cancel := context.WithCancel(context.Background())
	defer cancel()
	st := NewStore()
	mc := NewChecker(ctx, st, 2.0)
	x.loop("Add", 0, func(r *vRand, i int) {
		ttl := time.Hour
		if r.chance(60) {
			ttl = -time.Second // already expired: the checker will alert
		}
		st.Add(vC18Metric([]string{"ping", "freespace"}[r.intn(2)], vC18Peers[r.intn(3)], i+1, ttl))
	})
	x.loop("drain", 1, func(r *vRand, i int) {
		select {
		case a := <-mc.Alerts():
			if a == nil || a.Peer == "" || a.Name == "" {
				x.stat(0, 1)
			}
		case <-time.After(time.Millisecond):
		}
	})
	for k := 2; k < x.scen.Workers; k++ {
		x.loop("check", k, func(r *vRand, i int) {
			switch r.intn(3) {
			case 0:
				if err := mc.CheckPeers(vC18Peers[:3]); err != nil && err != ErrAlertChannelFull {
					x.stat(1, 1)
				}
			case 1:
				if err := mc.CheckAll(); err != nil && err != ErrAlertChannelFull {
					x.stat(1, 1)
				}
			default:
				mc.FailedMetric("ping", vC18Peers[r.intn(3)])
			}
		})
	}
	x.wait()
}
