//go:build verif

package metrics

// C09 correspondence, package metrics: histories of operations on the real Store and Checker.
// "Time passes" without sleeping: the harness keeps the pointers of the metrics it added and rewrites
// their Expire field (one hour in the future / in the past) whenever the abstract clock moves; the accrual
// verdict is steered the same way through ReceivedAt (windows of >= 6 samples).

import (
	"context"
	"encoding/json"
	"fmt"
	"sort"
	"strconv"
	"strings"
	"testing"
	"time"

	"github.com/ipfs/ipfs-cluster/api"

	crypto "github.com/libp2p/go-libp2p-core/crypto"
	peer "github.com/libp2p/go-libp2p-core/peer"
)

// metric names: any string is a legal name, the empty one included (index 0)
func vC09NameStr(i int) string {
	if i == 0 {
		return ""
	}
	return "m" + strconv.Itoa(i)
}

func vC09NameIdx(s string) int {
	if s == "" {
		return 0
	}
	n, _ := strconv.Atoi(strings.TrimPrefix(s, "m"))
	return n
}

const (
	vC09NPeers = 6
	vC09NNames = 3
)

type vC09Op struct {
	Op    string `json:"op"` // add tick rmpeer phi checkpeers checkall latest
	Name  int    `json:"name,omitempty"`
	Peer  int    `json:"peer,omitempty"`
	Valid bool   `json:"valid,omitempty"`
	Exp   int    `json:"exp,omitempty"` // absolute abstract expiry instant
	Dt    int    `json:"dt,omitempty"`
	Peers []int  `json:"peers,omitempty"`
	B     bool   `json:"b,omitempty"`
}

type vC09Case struct {
	Ops []vC09Op `json:"ops"`
}

type vC09DetReader struct{ r *vRand }

func (d vC09DetReader) Read(p []byte) (int, error) {
	for i := range p {
		p[i] = byte(d.r.next())
	}
	return len(p), nil
}

var vC09PeerIDs []peer.ID

// peer universe, sorted the way MetricSlice.Less sorts (by the ID string): index order = result order
func vC09Peers() []peer.ID {
	if vC09PeerIDs == nil {
		for i := 0; i < vC09NPeers; i++ {
			_, pub, err := crypto.GenerateEd25519Key(vC09DetReader{newVRand(uint64(9900 + i))})
			if err != nil {
				panic(err)
			}
			id, err := peer.IDFromPublicKey(pub)
			if err != nil {
				panic(err)
			}
			vC09PeerIDs = append(vC09PeerIDs, id)
		}
		sort.Slice(vC09PeerIDs, func(i, j int) bool { return vC09PeerIDs[i] < vC09PeerIDs[j] })
	}
	return vC09PeerIDs
}

func vC09PeerIdx(p peer.ID) int {
	for i, q := range vC09Peers() {
		if q == p {
			return i
		}
	}
	return 999
}

func vC09Clamp(i, n int) int {
	if i < 0 {
		return 0
	}
	if i >= n {
		return n - 1
	}
	return i
}

type vC09Held struct {
	m   *api.Metric
	exp int
}

type vC09Alert struct {
	Name int  `json:"name"`
	Peer int  `json:"peer"`
	ID   *int `json:"id"`
}

// runs one history on the real code; returns the Coq term and the JSON observations
func vC09Run(c vC09Case) (string, []interface{}, map[string]int) {
	peers := vC09Peers()
	store := NewStore()
	checker := NewChecker(context.Background(), store, 2.0)
	now := 0
	var held []vC09Held
	phi := map[[2]int]bool{}
	stats := map[string]int{}
	var terms []string
	var obs []interface{}
	nextID := 0

	setExpire := func(h vC09Held) {
		if h.exp < now { // api.Metric.Expired: now is after the expiry
			h.m.Expire = time.Now().Add(-time.Hour).UnixNano()
		} else {
			h.m.Expire = time.Now().Add(time.Hour).UnixNano()
		}
	}
	// steer the accrual detector: equal one-hour gaps between the samples; the newest one received just now
	// (phi = 0: not failed) or a hundred hours ago (phi = +Inf: failed)
	applyPhi := func() {
		for n := 0; n < vC09NNames; n++ {
			for p := 0; p < vC09NPeers; p++ {
				ms := store.PeerMetricAll(vC09NameStr(n), peers[p])
				if len(ms) < accrualMetricsNum {
					continue
				}
				newest := time.Now()
				if phi[[2]int{n, p}] {
					newest = newest.Add(-100 * time.Hour)
				}
				for i, m := range ms { // newest first
					m.ReceivedAt = newest.Add(-time.Duration(i) * time.Hour).UnixNano()
				}
			}
		}
	}
	drain := func() ([]vC09Alert, string) {
		var out []vC09Alert
		var xs []string
		for {
			select {
			case a := <-checker.Alerts():
				al := vC09Alert{Peer: vC09PeerIdx(a.Peer)}
				al.Name = vC09NameIdx(a.Name)
				id := "None"
				if a.Value != "" {
					v, _ := strconv.Atoi(a.Value)
					al.ID = &v
					id = fmt.Sprintf("(Some %d%%N)", v)
				}
				out = append(out, al)
				xs = append(xs, fmt.Sprintf("((%d%%N, %d%%N), %s)", al.Name, al.Peer, id))
			default:
				return out, cqList(xs)
			}
		}
	}
	for _, o := range c.Ops {
		o.Name = vC09Clamp(o.Name, vC09NNames)
		o.Peer = vC09Clamp(o.Peer, vC09NPeers)
		switch o.Op {
		case "add":
			m := &api.Metric{Name: vC09NameStr(o.Name), Peer: peers[o.Peer], Value: strconv.Itoa(nextID), Valid: o.Valid}
			h := vC09Held{m, o.Exp}
			setExpire(h)
			held = append(held, h)
			store.Add(m)
			terms = append(terms, fmt.Sprintf("OAdd (mk_m %d%%N %d%%N %d%%N %s %s)", nextID, o.Name, o.Peer, cqBool(o.Valid), cqZ(int64(o.Exp))))
			nextID++
			stats["add"]++
		case "tick":
			if o.Dt < 0 {
				o.Dt = 0
			}
			now += o.Dt
			for _, h := range held {
				setExpire(h)
			}
			terms = append(terms, "OTick "+cqZ(int64(o.Dt)))
		case "rmpeer":
			store.RemovePeer(peers[o.Peer])
			terms = append(terms, fmt.Sprintf("ORemovePeer %d%%N", o.Peer))
			stats["rmpeer"]++
		case "phi":
			phi[[2]int{o.Name, o.Peer}] = o.B
			terms = append(terms, fmt.Sprintf("OSetPhi (%d%%N, %d%%N) %s", o.Name, o.Peer, cqBool(o.B)))
		case "checkpeers":
			var ps []peer.ID
			var idx []int
			for _, p := range o.Peers {
				p = vC09Clamp(p, vC09NPeers)
				ps = append(ps, peers[p])
				idx = append(idx, p)
			}
			for _, h := range held {
				setExpire(h) // keep the one-hour margins however long the run takes
			}
			applyPhi()
			err := checker.CheckPeers(ps)
			al, t := drain()
			if err != nil {
				stats["checkpeers-err"]++
			}
			stats[fmt.Sprintf("checkpeers-alerts-%d", len(al))]++
			terms = append(terms, fmt.Sprintf("OCheckPeers %s %s", cqListN(idx), t))
			obs = append(obs, map[string]interface{}{"checkpeers": al})
		case "checkall":
			for _, h := range held {
				setExpire(h)
			}
			applyPhi()
			checker.CheckAll()
			al, t := drain()
			stats[fmt.Sprintf("checkall-alerts-%d", len(al))]++
			terms = append(terms, "OCheckAll "+t)
			obs = append(obs, map[string]interface{}{"checkall": al})
		case "latest":
			for _, h := range held {
				setExpire(h)
			}
			ms := store.LatestValid(vC09NameStr(o.Name))
			ids := []int{}
			for _, m := range ms {
				v, _ := strconv.Atoi(m.Value)
				ids = append(ids, v)
			}
			stats[fmt.Sprintf("latest-len-%d", len(ids))]++
			terms = append(terms, fmt.Sprintf("OLatest %d%%N %s", o.Name, cqListN(ids)))
			obs = append(obs, map[string]interface{}{"latest": ids})
		}
	}
	return "CHist " + cqList(terms), obs, stats
}

// ---------------------------------------------------------------------------------------------------
func vC09Subset(r *vRand) []int {
	out := []int{}
	pct := r.rng(20, 90)
	for p := 0; p < vC09NPeers; p++ {
		if r.chance(pct) {
			out = append(out, p)
		}
	}
	if r.chance(15) && len(out) > 0 {
		out = append(out, out[r.intn(len(out))]) // a peer listed twice
	}
	for i := len(out) - 1; i > 0; i-- {
		j := r.intn(i + 1)
		out[i], out[j] = out[j], out[i]
	}
	return out
}

// structured, mostly valid stream
func vC09GenStructured(r *vRand) vC09Case {
	var c vC09Case
	now := 0
	np := r.rng(1, vC09NPeers)
	nn := r.rng(1, vC09NNames)
	for i, n := 0, r.rng(15, 70); i < n; i++ {
		switch x := r.intn(100); {
		case x < 50:
			o := vC09Op{Op: "add", Name: r.intn(nn), Peer: r.intn(np), Valid: !r.chance(12)}
			switch y := r.intn(100); {
			case y < 65:
				o.Exp = now + r.rng(1, 3)
			case y < 80:
				o.Exp = now // expires exactly now: not yet expired
			default:
				o.Exp = now - r.rng(1, 3)
			}
			c.Ops = append(c.Ops, o)
		case x < 62:
			dt := r.rng(1, 3)
			now += dt
			c.Ops = append(c.Ops, vC09Op{Op: "tick", Dt: dt})
		case x < 76:
			c.Ops = append(c.Ops, vC09Op{Op: "checkpeers", Peers: vC09Subset(r)})
		case x < 82:
			c.Ops = append(c.Ops, vC09Op{Op: "checkall"})
		case x < 94:
			c.Ops = append(c.Ops, vC09Op{Op: "latest", Name: r.intn(nn)})
		case x < 97:
			c.Ops = append(c.Ops, vC09Op{Op: "rmpeer", Peer: r.intn(np)})
		default:
			c.Ops = append(c.Ops, vC09Op{Op: "phi", Name: r.intn(nn), Peer: r.intn(np), B: r.chance(50)})
		}
	}
	return c
}

// boundary stream: window sizes around 1, 2, 3, the accrual minimum 6 and the ring capacity 25; repeated checks
func vC09GenBoundary(r *vRand) vC09Case {
	var c vC09Case
	sizes := []int{1, 2, 3, 4, 5, 6, 7, 12, 24, 25, 26, 30, 51}
	now := 0
	name, p := r.intn(vC09NNames), r.intn(vC09NPeers)
	other := (p + 1) % vC09NPeers
	for round, rounds := 0, r.rng(1, 3); round < rounds; round++ {
		n := sizes[r.intn(len(sizes))]
		for i := 0; i < n; i++ {
			c.Ops = append(c.Ops, vC09Op{Op: "add", Name: name, Peer: p, Valid: true, Exp: now + 1})
			if r.chance(10) {
				c.Ops = append(c.Ops, vC09Op{Op: "add", Name: name, Peer: other, Valid: true, Exp: now + 5})
			}
		}
		if r.chance(50) {
			c.Ops = append(c.Ops, vC09Op{Op: "latest", Name: name})
		}
		if r.chance(50) {
			c.Ops = append(c.Ops, vC09Op{Op: "checkpeers", Peers: []int{p, other}}) // fresh: no alert
		}
		if n >= 6 {
			c.Ops = append(c.Ops, vC09Op{Op: "phi", Name: name, Peer: p, B: r.chance(60)})
		}
		c.Ops = append(c.Ops, vC09Op{Op: "tick", Dt: 2})
		now += 2
		for k, checks := 0, r.rng(1, 4); k < checks; k++ {
			if r.chance(25) {
				c.Ops = append(c.Ops, vC09Op{Op: "checkall"})
			} else {
				c.Ops = append(c.Ops, vC09Op{Op: "checkpeers", Peers: []int{p, other}})
			}
			if r.chance(40) {
				c.Ops = append(c.Ops, vC09Op{Op: "latest", Name: name})
			}
			if n >= 6 && r.chance(40) {
				c.Ops = append(c.Ops, vC09Op{Op: "phi", Name: name, Peer: p, B: true})
			}
		}
	}
	return c
}

// malformed stream: invalid metrics, long-expired ones, peers never seen, empty peer lists, unknown names
func vC09GenMalformed(r *vRand) vC09Case {
	var c vC09Case
	for i, n := 0, r.rng(5, 30); i < n; i++ {
		switch r.intn(7) {
		case 0:
			c.Ops = append(c.Ops, vC09Op{Op: "add", Name: r.intn(vC09NNames), Peer: r.intn(vC09NPeers), Valid: false, Exp: r.rng(-5, 5)})
		case 1:
			c.Ops = append(c.Ops, vC09Op{Op: "add", Name: r.intn(vC09NNames), Peer: r.intn(vC09NPeers), Valid: true, Exp: -1000})
		case 2:
			c.Ops = append(c.Ops, vC09Op{Op: "checkpeers", Peers: []int{}})
		case 3:
			c.Ops = append(c.Ops, vC09Op{Op: "checkpeers", Peers: []int{r.intn(vC09NPeers), r.intn(vC09NPeers), r.intn(vC09NPeers)}})
		case 4:
			c.Ops = append(c.Ops, vC09Op{Op: "latest", Name: r.intn(vC09NNames)})
		case 5:
			c.Ops = append(c.Ops, vC09Op{Op: "rmpeer", Peer: r.intn(vC09NPeers)})
		default:
			c.Ops = append(c.Ops, vC09Op{Op: "checkall"})
		}
	}
	return c
}

func TestVerifC09(t *testing.T) {
	seed := uint64(vEnvInt("VERIF_SEED", 1))
	n := vEnvInt("VERIF_N", 300)
	out := newVOut("C09", "From V Require Import Base.Common Model.C09_Metrics Model.C09_Check.\nOpen Scope N_scope.",
		"(N * c09case)", "Definition R := Eval vm_compute in failing cases.\nPrint R.")
	defer out.close()
	var cases []vC09Case
	if raw := vCasesIn(); raw != nil {
		for _, b := range raw {
			var c vC09Case
			if err := json.Unmarshal(b, &c); err != nil {
				t.Fatal(err)
			}
			cases = append(cases, c)
		}
	} else {
		r := newVRand(seed)
		for i := 0; i < n; i++ {
			switch x := r.intn(100); {
			case x < 55:
				cases = append(cases, vC09GenStructured(r))
			case x < 88:
				cases = append(cases, vC09GenBoundary(r))
			default:
				cases = append(cases, vC09GenMalformed(r))
			}
		}
	}
	for _, c := range cases {
		term, obs, stats := vC09Run(c)
		for k, v := range stats {
			for i := 0; i < v; i++ {
				out.count(k)
			}
		}
		nontriv := stats["add"] >= 2 && len(obs) >= 1
		out.add(term, c, obs, nontriv)
	}
}
