//go:build verif

// GENERATED from harness/c18/rig.go.tmpl by tools/c18_stamp.py. Do not edit.

package metrics

// C18 stress rig (one stamped copy per package: tools/c18_stamp.py; edit harness/c18/rig.go.tmpl only).
//
// Parent (TestVerifC18) runs every scenario of the package in a child process of the same -race test
// binary (TestVerifC18Child) with GORACE=log_path=..., so that a data race report, a crash (an unrecovered
// panic, "concurrent map writes", "all goroutines are asleep") or a hang of the code under test cannot
// take the harness down: the parent turns each of them into one VERIF-DIRECT-VIOLATION line and writes one
// Coq case per scenario carrying the structural observations (returned slices, run-length encoded).

import (
	"bytes"
	"encoding/json"
	"fmt"
	"os"
	"os/exec"
	"path/filepath"
	"regexp"
	"runtime"
	"sort"
	"strings"
	"sync"
	"testing"
	"time"
)

type vC18Scen struct {
	Name    string `json:"scen"`
	Ms      int    `json:"ms"`
	Workers int    `json:"workers"`
	Seed    int    `json:"seed"`
	// a scripted scenario (deterministic interleavings driven through blocking fakes) can be told to run exactly
	// one script: that is the replay / corpus form of a violation it found among the scripts it generated
	Script json.RawMessage `json:"script,omitempty"`
}

// a violation a scripted scenario established by itself (a deadlock proven by the goroutine dump of one script,
// a panic of one script): reported by the parent with the script as the case input
type vC18DirectObs struct {
	Sig    string          `json:"sig"`
	Detail string          `json:"detail"`
	Script json.RawMessage `json:"script"`
}

// what a child reports back
type vC18Obs struct {
	Cap      int             `json:"cap"`   // 0 = no bound, else the maximal length of a view (window capacity)
	Views    [][][2]int      `json:"views"` // distinct views, each as runs (first id, length) of consecutive descending ids
	Stats    []int           `json:"stats"` // scenario-specific counts of malformed results; all must be 0
	Ops      map[string]int  `json:"ops"`
	Panics   []string        `json:"panics"`
	Deadlock string          `json:"deadlock"`
	Direct   []vC18DirectObs `json:"direct"`
	Done     bool            `json:"done"`
}

type vC18Ctx struct {
	scen     vC18Scen
	t        *testing.T
	deadline time.Time
	mu       sync.Mutex
	obs      vC18Obs
	seen     map[string]bool
	wg       sync.WaitGroup
	bad      []int // indices into obs.Stats
}

func (x *vC18Ctx) running() bool { return time.Now().Before(x.deadline) }

func (x *vC18Ctx) count(op string) {
	x.mu.Lock()
	x.obs.Ops[op]++
	x.mu.Unlock()
}

func (x *vC18Ctx) stat(i int, d int) {
	x.mu.Lock()
	for len(x.obs.Stats) <= i {
		x.obs.Stats = append(x.obs.Stats, 0)
	}
	x.obs.Stats[i] += d
	x.mu.Unlock()
}

// direct records a violation the scenario established by itself, with the script that produced it
func (x *vC18Ctx) direct(sig, detail string, script interface{}) {
	b, _ := json.Marshal(script)
	x.mu.Lock()
	x.obs.Direct = append(x.obs.Direct, vC18DirectObs{Sig: sig, Detail: detail, Script: b})
	x.mu.Unlock()
}

// vC18Runs: lossless run-length encoding of a list of ids as maximal runs of consecutive descending ids
func vC18Runs(ids []int) [][2]int {
	out := [][2]int{}
	for i := 0; i < len(ids); {
		j := i
		for j+1 < len(ids) && ids[j+1] == ids[j]-1 {
			j++
		}
		out = append(out, [2]int{ids[i], j - i + 1})
		i = j + 1
	}
	return out
}

// view records one returned slice (as ids, 0 = an empty / malformed entry); identical views are stored once
func (x *vC18Ctx) view(ids []int) {
	r := vC18Runs(ids)
	k := fmt.Sprint(r)
	x.mu.Lock()
	if !x.seen[k] && len(x.obs.Views) < 4000 {
		x.seen[k] = true
		x.obs.Views = append(x.obs.Views, r)
	}
	x.mu.Unlock()
}

// loop runs f repeatedly in its own goroutine until the scenario's deadline; a panic of one iteration is
// recorded (it is a violation) and the loop goes on
func (x *vC18Ctx) loop(op string, seed int, f func(r *vRand, i int)) {
	x.wg.Add(1)
	go func() {
		defer x.wg.Done()
		r := newVRand(uint64(x.scen.Seed)*1000003 + uint64(seed))
		for i := 0; x.running(); i++ {
			x.once(op, func() { f(r, i) })
			if i%64 == 63 {
				runtime.Gosched()
			}
		}
	}()
}

func (x *vC18Ctx) once(op string, f func()) {
	defer func() {
		if e := recover(); e != nil {
			buf := make([]byte, 4096)
			buf = buf[:runtime.Stack(buf, false)]
			x.mu.Lock()
			if len(x.obs.Panics) < 5 {
				x.obs.Panics = append(x.obs.Panics, fmt.Sprintf("%s: %v\n%s", op, e, buf))
			}
			x.mu.Unlock()
		}
	}()
	f()
	x.count(op)
}

// wait for all loops; if they do not finish long after the deadline, dump the goroutines: deadlock
func (x *vC18Ctx) wait() {
	done := make(chan struct{})
	go func() { x.wg.Wait(); close(done) }()
	grace := time.Duration(vEnvInt("VERIF_C18_GRACE_S", 20)) * time.Second
	select {
	case <-done:
	case <-time.After(time.Until(x.deadline) + grace):
		buf := make([]byte, 1<<20)
		buf = buf[:runtime.Stack(buf, true)]
		x.mu.Lock()
		x.obs.Deadlock = string(buf)
		x.mu.Unlock()
		x.flush()
		os.Exit(3)
	}
}

func (x *vC18Ctx) flush() {
	x.mu.Lock()
	defer x.mu.Unlock()
	b, _ := json.Marshal(x.obs)
	os.WriteFile(os.Getenv("VERIF_C18_OBS"), b, 0644)
}

// TestVerifC18Child runs one scenario in this process (started by the parent below)
func TestVerifC18Child(t *testing.T) {
	raw := os.Getenv("VERIF_C18_SCEN")
	if raw == "" {
		t.Skip("child of TestVerifC18 only")
	}
	var sc vC18Scen
	if err := json.Unmarshal([]byte(raw), &sc); err != nil {
		t.Fatal(err)
	}
	f := vC18Scenarios[sc.Name]
	if f == nil {
		t.Fatalf("unknown scenario %q", sc.Name)
	}
	x := &vC18Ctx{scen: sc, t: t, seen: map[string]bool{}}
	x.obs.Ops = map[string]int{}
	x.obs.Views = [][][2]int{}
	x.obs.Stats = []int{}
	x.obs.Panics = []string{}
	func() {
		defer func() {
			if e := recover(); e != nil {
				buf := make([]byte, 8192)
				buf = buf[:runtime.Stack(buf, false)]
				x.obs.Panics = append(x.obs.Panics, fmt.Sprintf("scenario %s: %v\n%s", sc.Name, e, buf))
			}
		}()
		f(x)
	}()
	x.obs.Done = true
	x.flush()
}

// the repository root as compiled into this binary: the directory of this (overlaid) file minus the package directory
func vC18RepoRoot() string {
	_, file, _, _ := runtime.Caller(0)
	return strings.TrimSuffix(strings.TrimSuffix(filepath.Dir(file), vC18PkgDir), "/")
}

var vC18RaceFrame = regexp.MustCompile(`(?m)^\s+(\S+\.go):(\d+)`)

// signature of one race report: the innermost frame in the repository's own code of each of the two
// stacks (else the innermost harness frame); ours = some frame of the two stacks is repository code
func vC18RaceSig(rep string) (sig string, ours bool) {
	var tops []string
	for _, blk := range regexp.MustCompile(`(?m)^(?:Read|Write|Previous read|Previous write|Atomic|Previous atomic).* by .*:$`).Split(rep, -1)[1:] {
		top, htop := "", ""
		for _, m := range vC18RaceFrame.FindAllStringSubmatch(strings.SplitN(blk, "\n\n", 2)[0], -1) {
			p := m[1]
			if strings.HasPrefix(p, runtime.GOROOT()) || strings.Contains(p, "/pkg/mod/") {
				continue
			}
			short := strings.TrimPrefix(strings.TrimPrefix(filepath.Dir(p)+"/", vC18RepoRoot()), "/") + strings.TrimPrefix(filepath.Base(p), "zz_verif_") + ":" + m[2]
			if strings.Contains(p, "zz_verif_") {
				if htop == "" {
					htop = short
				}
				continue
			}
			if strings.HasSuffix(p, "_test.go") {
				continue
			}
			top = short
			break
		}
		if top != "" {
			ours = true
		} else if htop != "" {
			top = htop
		} else {
			top = "?"
		}
		tops = append(tops, top)
		if len(tops) == 2 {
			break
		}
	}
	sort.Strings(tops)
	return "race:" + strings.Join(tops, "~"), ours
}

func vC18Direct(sig string, detail string, sc vC18Scen) {
	if len(detail) > 2500 {
		detail = detail[:2500] + " ..."
	}
	b, _ := json.Marshal(map[string]interface{}{"signature": sig, "detail": detail, "case": map[string]interface{}{"input": sc}})
	fmt.Printf("VERIF-DIRECT-VIOLATION %s\n", b)
}

func vC18CoqViews(vs [][][2]int) string {
	var a []string
	for _, v := range vs {
		var r []string
		for _, p := range v {
			r = append(r, fmt.Sprintf("(%d,%d)", p[0], p[1]))
		}
		a = append(a, "["+strings.Join(r, ";")+"]")
	}
	return "[" + strings.Join(a, "; ") + "]"
}

// TestVerifC18: the parent
func TestVerifC18(t *testing.T) {
	seed := vEnvInt("VERIF_SEED", 1)
	tier := os.Getenv("VERIF_TIER")
	out := newVOut("C18", "From V Require Import Model.C18_Check.\nOpen Scope N_scope.", "case",
		"Definition R := Eval vm_compute in failing cases.\nPrint R.")
	defer out.close()
	out.idBase += vC18IDBase
	var plan []vC18Scen
	if raw := vCasesIn(); raw != nil {
		for _, b := range raw {
			var sc vC18Scen
			if json.Unmarshal(b, &sc) == nil && vC18Scenarios[sc.Name] != nil {
				if sc.Ms <= 0 || sc.Ms > 600000 {
					sc.Ms = 300
				}
				if sc.Workers <= 0 || sc.Workers > 64 {
					sc.Workers = 4
				}
				plan = append(plan, sc)
			}
		}
	} else {
		rounds, mul := 1, 1
		if tier == "thorough" {
			rounds, mul = 3, 6
		}
		for r := 0; r < rounds; r++ {
			for _, sc := range vC18Plan {
				sc.Ms *= mul
				sc.Seed = seed*100 + r
				plan = append(plan, sc)
			}
		}
	}
	tmp, err := os.MkdirTemp(os.Getenv("VERIF_OUT"), "c18run")
	if err != nil {
		t.Fatal(err)
	}
	defer os.RemoveAll(tmp)
	for i, sc := range plan {
		var obs vC18Obs
		var buf bytes.Buffer
		var runErr error
		var el time.Duration
		racePath := ""
		for attempt := 0; attempt < 3; attempt++ {
			obsPath := filepath.Join(tmp, fmt.Sprintf("obs_%d_%d.json", i, attempt))
			racePath = filepath.Join(tmp, fmt.Sprintf("race_%d_%d", i, attempt))
			scb, _ := json.Marshal(sc)
			grace := vEnvInt("VERIF_C18_GRACE_S", 20)
			cmd := exec.Command(os.Args[0], "-test.run", "^TestVerifC18Child$", "-test.count=1",
				"-test.timeout", fmt.Sprintf("%ds", sc.Ms/1000+grace+60))
			cmd.Env = append(os.Environ(), "VERIF_C18_SCEN="+string(scb), "VERIF_C18_OBS="+obsPath,
				"GORACE=log_path="+racePath+" halt_on_error=0 history_size=3", "VERIF_OUT="+tmp)
			buf.Reset()
			cmd.Stdout, cmd.Stderr = &buf, &buf
			cmd.Dir = tmp
			t0 := time.Now()
			runErr = cmd.Run()
			el = time.Since(t0)
			obs = vC18Obs{}
			if b, err := os.ReadFile(obsPath); err == nil {
				json.Unmarshal(b, &obs)
			}
			o := buf.String()
			if obs.Done || obs.Deadlock != "" || strings.Contains(o, "panic:") || strings.Contains(o, "fatal error:") ||
				strings.Contains(o, "DATA RACE") || strings.Contains(o, "test timed out") {
				break
			}
			// the scenario could not even be set up (t.Fatal in a fixture: no port, no host): not an observation
			t.Logf("scenario %s: set-up failed (attempt %d): %s", sc.Name, attempt, o)
			if attempt == 2 {
				t.Errorf("scenario %s could not be set up: %s", sc.Name, o)
			}
		}
		// data races
		sigs := map[string]bool{}
		foreign := 0
		logs, _ := filepath.Glob(racePath + ".*")
		for _, lp := range logs {
			b, _ := os.ReadFile(lp)
			for _, rep := range strings.Split(string(b), "==================") {
				if !strings.Contains(rep, "WARNING: DATA RACE") {
					continue
				}
				sig, ours := vC18RaceSig(rep)
				if !ours && !strings.Contains(sig, "c18_test.go") {
					foreign++ // both accesses inside dependencies (their own goroutines): not this property's code
					continue
				}
				if !sigs[sig] {
					sigs[sig] = true
					vC18Direct(sig, strings.TrimSpace(rep), sc)
				}
			}
		}
		nrace := len(sigs)
		// panics recovered inside operations (one report per distinct message)
		for _, p := range obs.Panics {
			first := strings.SplitN(p, "\n", 2)[0]
			sig := "panic:" + sc.Name + ":" + regexp.MustCompile(`\[\S+\]|0x[0-9a-f]+|\d+`).ReplaceAllString(first, "N")
			if !sigs[sig] {
				sigs[sig] = true
				vC18Direct(sig, p, sc)
			}
		}
		crashed := 0
		for _, d := range obs.Direct {
			if !sigs[d.Sig] {
				sigs[d.Sig] = true
				scd := sc
				scd.Script = d.Script
				vC18Direct(d.Sig, d.Detail, scd)
			}
			crashed = 1
		}
		if obs.Deadlock != "" {
			vC18Direct("deadlock:"+sc.Name, obs.Deadlock, sc)
			crashed = 1
		} else if o := buf.String(); !obs.Done && (strings.Contains(o, "panic:") || strings.Contains(o, "fatal error:") || strings.Contains(o, "test timed out")) {
			// the child died: fatal error (concurrent map access, all goroutines asleep), unrecovered panic, timeout
			kind := "crash"
			switch {
			case strings.Contains(o, "all goroutines are asleep") || strings.Contains(o, "test timed out"):
				kind = "deadlock"
			case strings.Contains(o, "fatal error: concurrent map"):
				kind = "concurrent-map-access"
			case strings.Contains(o, "panic:"):
				kind = "panic"
			}
			if i := strings.Index(o, "fatal error:"); i >= 0 {
				o = o[i:]
			} else if i := strings.Index(o, "panic:"); i >= 0 {
				o = o[i:]
			}
			vC18Direct(kind+":"+sc.Name, fmt.Sprintf("child exit: %v\n%s", runErr, o), sc)
			crashed = 1
		}
		nops := 0
		for _, n := range obs.Ops {
			nops += n
		}
		for k, n := range obs.Ops {
			out.dist[sc.Name+"/"+k] += n
		}
		term := fmt.Sprintf("(mkobs %d %s %s %d %d %d)", obs.Cap, vC18CoqViews(obs.Views), cqListN(obs.Stats), nrace, len(obs.Panics), crashed)
		out.add(term, sc, map[string]interface{}{"ops": obs.Ops, "views": len(obs.Views), "stats": obs.Stats, "races": nrace,
			"panics": len(obs.Panics), "crashed": crashed, "ms": el.Milliseconds(), "races_inside_dependencies": foreign}, nops > 100 && len(obs.Ops) >= 2)
		t.Logf("scenario %s: %d ops, %d distinct views, races=%d panics=%d crashed=%d in %v", sc.Name, nops, len(obs.Views), nrace, len(obs.Panics), crashed, el)
	}
}
