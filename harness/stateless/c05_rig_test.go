//go:build verif

package stateless

// Rig for C05/C06: the real Tracker wired to a blocking, scripted IPFSConnector RPC service that holds a
// model daemon (cid -> mode), and to a real dsstate. The event script is executed one event at a time;
// between events the rig waits until every worker goroutine is parked in its select or blocked inside the
// fake and every API caller has returned or is blocked inside the fake. Injected by overlay.

import (
	"context"
	"errors"
	"fmt"
	"runtime"
	"sort"
	"strconv"
	"strings"
	"sync"
	"time"

	"github.com/ipfs/ipfs-cluster/api"
	"github.com/ipfs/ipfs-cluster/datastore/inmem"
	"github.com/ipfs/ipfs-cluster/state"
	"github.com/ipfs/ipfs-cluster/state/dsstate"
	"github.com/ipfs/ipfs-cluster/test"

	cid "github.com/ipfs/go-cid"
	peer "github.com/libp2p/go-libp2p-core/peer"
	rpc "github.com/libp2p/go-libp2p-gorpc"
)

var vC05Cids = []cid.Cid{test.Cid1, test.Cid2, test.Cid3, test.Cid4, test.Cid5}

func vC05CidIdx(c cid.Cid) int {
	for i, x := range vC05Cids {
		if x.Equals(c) {
			return i
		}
	}
	return -1
}

var errVC05Fault = errors.New("verif: injected ipfs failure")
var errVC05Refused = errors.New("verif: pin: already pinned recursively")

type vC05Call struct {
	cidx    int
	pin     bool // Pin (true) or Unpin
	direct  bool
	tag     int
	ctx     context.Context
	release chan bool // true = fault
}

// vC05IPFS is the IPFSConnector RPC service: connector + daemon contract of DESIGN C16.
type vC05IPFS struct {
	mu      sync.Mutex
	daemon  map[int]bool // cid index -> direct?
	blocked []*vC05Call
	seq     int // incremented at every registration and removal of a blocked call
}

func vC05Tag(name string) int {
	if len(name) > 1 && name[0] == 't' {
		if n, err := strconv.Atoi(name[1:]); err == nil {
			return n
		}
	}
	return 0
}

func (f *vC05IPFS) wait(ctx context.Context, in *api.Pin, pin bool) (*vC05Call, bool, error) {
	cl := &vC05Call{cidx: vC05CidIdx(in.Cid), pin: pin, direct: in.MaxDepth == 0, tag: vC05Tag(in.Name), ctx: ctx, release: make(chan bool, 1)}
	f.mu.Lock()
	f.blocked = append(f.blocked, cl)
	f.seq++
	f.mu.Unlock()
	var fault bool
	var err error
	select {
	case fault = <-cl.release:
	case <-ctx.Done():
		err = ctx.Err()
	}
	return cl, fault, err
}

func (f *vC05IPFS) drop(cl *vC05Call) {
	for i, x := range f.blocked {
		if x == cl {
			f.blocked = append(f.blocked[:i:i], f.blocked[i+1:]...)
			f.seq++
			return
		}
	}
}

func (f *vC05IPFS) Pin(ctx context.Context, in *api.Pin, out *struct{}) error {
	cl, fault, err := f.wait(ctx, in, true)
	f.mu.Lock()
	defer f.mu.Unlock()
	f.drop(cl)
	if err != nil {
		return err // cancelled: no daemon effect
	}
	if fault {
		return errVC05Fault
	}
	cur, ok := f.daemon[cl.cidx]
	switch {
	case ok && cur == cl.direct: // already pinned as asked
	case ok && cl.direct: // direct over recursive
		return errVC05Refused
	default: // new pin, or recursive over direct (upgrade)
		f.daemon[cl.cidx] = cl.direct
	}
	return nil
}

func (f *vC05IPFS) Unpin(ctx context.Context, in *api.Pin, out *struct{}) error {
	cl, fault, err := f.wait(ctx, in, false)
	f.mu.Lock()
	defer f.mu.Unlock()
	f.drop(cl)
	if err != nil {
		return err
	}
	if fault {
		return errVC05Fault
	}
	delete(f.daemon, cl.cidx) // not pinned is tolerated by the connector
	return nil
}

func (f *vC05IPFS) PinLsCid(ctx context.Context, in *api.Pin, out *api.IPFSPinStatus) error {
	f.mu.Lock()
	defer f.mu.Unlock()
	*out = api.IPFSPinStatusUnpinned
	if d, ok := f.daemon[vC05CidIdx(in.Cid)]; ok && d == (in.MaxDepth == 0) {
		if d {
			*out = api.IPFSPinStatusDirect
		} else {
			*out = api.IPFSPinStatusRecursive
		}
	}
	return nil
}

func (f *vC05IPFS) PinLs(ctx context.Context, in string, out *map[string]api.IPFSPinStatus) error {
	f.mu.Lock()
	defer f.mu.Unlock()
	m := map[string]api.IPFSPinStatus{}
	for i, d := range f.daemon {
		switch {
		case d && (in == "direct" || in == "all" || in == ""):
			m[vC05Cids[i].String()] = api.IPFSPinStatusDirect
		case !d && (in == "recursive" || in == "all" || in == ""):
			m[vC05Cids[i].String()] = api.IPFSPinStatusRecursive
		}
	}
	*out = m
	return nil
}

// live blocked calls (context not cancelled), sorted
func (f *vC05IPFS) inflight() []*vC05Call {
	f.mu.Lock()
	defer f.mu.Unlock()
	var out []*vC05Call
	for _, c := range f.blocked {
		if c.ctx.Err() == nil {
			out = append(out, c)
		}
	}
	sort.Slice(out, func(i, j int) bool { return out[i].cidx < out[j].cidx })
	return out
}

func (f *vC05IPFS) daemonCopy() map[int]bool {
	f.mu.Lock()
	defer f.mu.Unlock()
	m := map[int]bool{}
	for k, v := range f.daemon {
		m[k] = v
	}
	return m
}

// ---- pins and events --------------------------------------------------------------------------------------

type vC05Pin struct {
	C      int  `json:"c"`
	Meta   bool `json:"meta,omitempty"`
	Remote bool `json:"remote,omitempty"`
	Every  bool `json:"every,omitempty"` // replication factor -1 (allocated to everyone); only when not remote
	Direct bool `json:"direct,omitempty"`
	Tag    int  `json:"tag"`
}

func (p vC05Pin) norm(ncid int) vC05Pin {
	if p.C < 0 {
		p.C = 0
	}
	p.C %= ncid
	if p.Tag < 1 {
		p.Tag = 1
	}
	if p.Remote {
		p.Every = false
	}
	return p
}

func (p vC05Pin) toAPI() *api.Pin {
	opts := api.PinOptions{Name: "t" + strconv.Itoa(p.Tag), ReplicationFactorMin: 1, ReplicationFactorMax: 1}
	if p.Direct {
		opts.Mode = api.PinModeDirect
	}
	if p.Every {
		opts.ReplicationFactorMin, opts.ReplicationFactorMax = -1, -1
	}
	pin := api.PinWithOpts(vC05Cids[p.C], opts)
	switch {
	case p.Every:
	case p.Remote:
		pin.Allocations = []peer.ID{test.PeerID2}
	default:
		pin.Allocations = []peer.ID{test.PeerID3, test.PeerID1}
	}
	if p.Meta {
		pin.Type = api.MetaType
		pin.MaxDepth = 0
		pin.Allocations = nil
	}
	return pin
}

func (p vC05Pin) coq() string {
	return fmt.Sprintf("(mk_pin %d %s %s %s %d)", p.C, cqBool(p.Meta), cqBool(p.Remote), cqBool(p.Direct), p.Tag)
}

type vC05Ev struct {
	K     string   `json:"k"` // track untrack recover recoverall complete daemon
	C     int      `json:"c"`
	P     *vC05Pin `json:"p,omitempty"`
	Fault bool     `json:"fault,omitempty"`
	M     int      `json:"m,omitempty"` // daemon: 0 unpinned, 1 recursive, 2 direct
}

type vC05Script struct {
	Q      int       `json:"q"`
	NP     int       `json:"np"`
	NCid   int       `json:"ncid"`
	Pins   []vC05Pin `json:"pins"`   // initial shared state
	Daemon [][2]int  `json:"daemon"` // initial daemon: [cid, 1 recursive | 2 direct]
	Evs    []vC05Ev  `json:"evs"`
}

func (s *vC05Script) norm() {
	if s.Q < 1 {
		s.Q = 1
	}
	if s.Q > 4 {
		s.Q = 4
	}
	if s.NP < 1 {
		s.NP = 1
	}
	if s.NP > 3 {
		s.NP = 3
	}
	if s.NCid < 1 {
		s.NCid = 1
	}
	if s.NCid > len(vC05Cids) {
		s.NCid = len(vC05Cids)
	}
	seen := map[int]bool{}
	var pins []vC05Pin
	for _, p := range s.Pins {
		p = p.norm(s.NCid)
		if !seen[p.C] {
			seen[p.C] = true
			pins = append(pins, p)
		}
	}
	s.Pins = pins
	seenD := map[int]bool{}
	var dm [][2]int
	for _, d := range s.Daemon {
		if d[0] < 0 {
			d[0] = 0
		}
		d[0] %= s.NCid
		if d[1] != 2 {
			d[1] = 1
		}
		if !seenD[d[0]] {
			seenD[d[0]] = true
			dm = append(dm, d)
		}
	}
	s.Daemon = dm
	for i := range s.Evs {
		e := &s.Evs[i]
		if e.C < 0 {
			e.C = 0
		}
		e.C %= s.NCid
		if e.K == "track" {
			if e.P == nil {
				e.P = &vC05Pin{C: e.C, Tag: 1}
			}
			p := e.P.norm(s.NCid)
			e.P = &p
			e.C = p.C
		}
		if e.M < 0 || e.M > 2 {
			e.M = 0
		}
	}
}

// ---- the rig ------------------------------------------------------------------------------------------------

type vC05Rig struct {
	spt     *Tracker
	fake    *vC05IPFS
	st      *dsstate.State
	np      int
	apiMu   sync.Mutex
	apiOut  int // API calls started and not yet returned
	apiSeq  int // incremented at every start and return of an API call
	lateErr []string
}

func vC05NewRig(s *vC05Script) (*vC05Rig, error) {
	ctx := context.Background()
	st, err := dsstate.New(inmem.New(), "", dsstate.DefaultHandle())
	if err != nil {
		return nil, err
	}
	for _, p := range s.Pins {
		if err := st.Add(ctx, p.toAPI()); err != nil {
			return nil, err
		}
	}
	fake := &vC05IPFS{daemon: map[int]bool{}}
	for _, d := range s.Daemon {
		fake.daemon[d[0]] = d[1] == 2
	}
	cfg := &Config{}
	cfg.Default()
	cfg.ConcurrentPins = s.NP
	cfg.MaxPinQueueSize = s.Q
	spt := New(cfg, test.PeerID1, test.PeerName1, func(context.Context) (state.ReadOnly, error) { return st, nil })
	srv := rpc.NewServer(nil, "x")
	if err := srv.RegisterName("IPFSConnector", fake); err != nil {
		return nil, err
	}
	spt.SetClient(rpc.NewClientWithServer(nil, "x", srv))
	r := &vC05Rig{spt: spt, fake: fake, st: st, np: s.NP}
	if err := r.settle(); err != nil {
		return nil, err
	}
	return r, nil
}

// number of opWorker goroutines, and how many of them are parked in the worker's own select
func vC05Workers() (total, parked int) {
	buf := make([]byte, 1<<20)
	n := runtime.Stack(buf, true)
	for _, g := range strings.Split(string(buf[:n]), "\n\n") {
		if !strings.Contains(g, "stateless.(*Tracker).opWorker") {
			continue
		}
		total++
		lines := strings.SplitN(g, "\n", 3)
		if len(lines) >= 2 && strings.Contains(lines[0], "[select") && strings.Contains(lines[1], "stateless.(*Tracker).opWorker") {
			parked++
		}
	}
	return
}

// settle waits (positive expectation, long timeout) until nothing is running: every worker is parked or
// blocked in the fake with a live context, every outstanding API caller is blocked in the fake.
func (r *vC05Rig) counters() [5]int {
	r.apiMu.Lock()
	out, aseq := r.apiOut, r.apiSeq
	r.apiMu.Unlock()
	r.fake.mu.Lock()
	registered, fseq := len(r.fake.blocked), r.fake.seq
	live := 0
	for _, c := range r.fake.blocked {
		if c.ctx.Err() == nil {
			live++
		}
	}
	r.fake.mu.Unlock()
	return [5]int{out, aseq, registered, fseq, live}
}

func (r *vC05Rig) settle() error {
	deadline := time.Now().Add(30 * time.Second)
	for i := 0; ; i++ {
		// the goroutine dump is atomic; the counters are read before and after it and must not have moved
		// (sequence numbers rule out a change-and-back), so they are the values at the instant of the dump
		a1 := r.counters()
		total, parked := vC05Workers()
		a2 := r.counters()
		out, registered, live := a1[0], a1[2], a1[4]
		if a1 == a2 && registered == live && total == r.np+1 && parked+live == r.np+1+out {
			return nil
		}
		if time.Now().After(deadline) {
			return fmt.Errorf("rig did not settle: workers=%d parked=%d live=%d registered=%d api_outstanding=%d", total, parked, live, registered, out)
		}
		if i < 50 {
			runtime.Gosched()
		} else {
			time.Sleep(200 * time.Microsecond)
		}
	}
}

func (r *vC05Rig) shutdown() error {
	r.spt.Shutdown(context.Background())
	deadline := time.Now().Add(30 * time.Second)
	for {
		total, _ := vC05Workers()
		r.apiMu.Lock()
		out := r.apiOut
		r.apiMu.Unlock()
		if total == 0 && out == 0 {
			return nil
		}
		if time.Now().After(deadline) {
			return fmt.Errorf("tracker did not shut down: workers=%d api_outstanding=%d", total, out)
		}
		time.Sleep(200 * time.Microsecond)
	}
}

// api runs f as an API caller and waits for the rig to settle. returned=false: the caller is still blocked in
// the fake (Track of a remote pin); its late result must be nil and is checked at the end of the case.
func (r *vC05Rig) api(f func() error) (returned bool, err error, settleErr error) {
	type res struct {
		done bool
		err  error
		late bool
	}
	x := &res{}
	r.apiMu.Lock()
	r.apiOut++
	r.apiSeq++
	r.apiMu.Unlock()
	go func() {
		e := f()
		r.apiMu.Lock()
		r.apiOut--
		r.apiSeq++
		x.done, x.err = true, e
		if x.late && e != nil {
			r.lateErr = append(r.lateErr, e.Error())
		}
		r.apiMu.Unlock()
	}()
	if serr := r.settle(); serr != nil {
		return false, nil, serr
	}
	r.apiMu.Lock()
	defer r.apiMu.Unlock()
	if x.done {
		return true, x.err, nil
	}
	x.late = true
	return false, nil, nil
}

type vC05Obs struct {
	Ret      int      `json:"ret"` // 0 ok, 1 full queue, 2 other error
	Status   []int    `json:"status"`
	All      [][2]int `json:"all"`
	Daemon   [][2]int `json:"daemon"`
	Inflight [][4]int `json:"inflight"` // cid, kind (0 pin, 1 unpin), direct, tag
	Order    []int    `json:"order,omitempty"`
	Masks    []vC05MaskObs `json:"masks,omitempty"`
}

type vC05MaskObs struct {
	F   int      `json:"f"`
	All [][2]int `json:"all"`
}

func vC05SortPairs(x [][2]int) {
	sort.Slice(x, func(i, j int) bool { return x[i][0] < x[j][0] || (x[i][0] == x[j][0] && x[i][1] < x[j][1]) })
}

func (r *vC05Rig) statusAll(f api.TrackerStatus) [][2]int {
	out := [][2]int{}
	for _, pi := range r.spt.StatusAll(context.Background(), f) {
		out = append(out, [2]int{vC05CidIdx(pi.Cid), int(pi.Status)})
	}
	vC05SortPairs(out)
	return out
}

func (r *vC05Rig) observe(ncid int, ret int) vC05Obs {
	ctx := context.Background()
	o := vC05Obs{Ret: ret, All: [][2]int{}, Daemon: [][2]int{}, Inflight: [][4]int{}}
	for i := 0; i < ncid; i++ {
		o.Status = append(o.Status, int(r.spt.Status(ctx, vC05Cids[i]).Status))
	}
	o.All = r.statusAll(api.TrackerStatusUndefined)
	for k, d := range r.fake.daemonCopy() {
		m := 1
		if d {
			m = 2
		}
		o.Daemon = append(o.Daemon, [2]int{k, m})
	}
	vC05SortPairs(o.Daemon)
	for _, c := range r.fake.inflight() {
		k, d := 1, 0
		if c.pin {
			k = 0
		}
		if c.direct {
			d = 1
		}
		tag := c.tag
		if !c.pin {
			d, tag = 0, 0 // only the cid of an unpin request matters
		}
		o.Inflight = append(o.Inflight, [4]int{c.cidx, k, d, tag})
	}
	return o
}

func vC05RetOf(err error) int {
	switch {
	case err == nil:
		return 0
	case err == ErrFullQueue:
		return 1
	}
	return 2
}

// exec runs one event and waits for the rig to settle. Returns the return class and, for recoverall, the visiting order.
func (r *vC05Rig) exec(e vC05Ev) (int, []int, error) {
	ctx := context.Background()
	switch e.K {
	case "track":
		pin := e.P.toAPI()
		if err := r.st.Add(ctx, pin); err != nil {
			return 2, nil, err
		}
		returned, err, serr := r.api(func() error { return r.spt.Track(ctx, pin) })
		if serr != nil {
			return 0, nil, serr
		}
		if !returned {
			return 0, nil, nil
		}
		return vC05RetOf(err), nil, nil
	case "untrack":
		if err := r.st.Rm(ctx, vC05Cids[e.C]); err != nil {
			return 2, nil, err
		}
		returned, err, serr := r.api(func() error { return r.spt.Untrack(ctx, vC05Cids[e.C]) })
		if serr != nil {
			return 0, nil, serr
		}
		if !returned {
			return 0, nil, errors.New("Untrack blocked")
		}
		return vC05RetOf(err), nil, nil
	case "recover":
		returned, err, serr := r.api(func() error { _, err := r.spt.Recover(ctx, vC05Cids[e.C]); return err })
		if serr != nil {
			return 0, nil, serr
		}
		if !returned {
			return 0, nil, errors.New("Recover blocked")
		}
		return vC05RetOf(err), nil, nil
	case "recoverall":
		var order []int
		returned, err, serr := r.api(func() error {
			pis, err := r.spt.RecoverAll(ctx)
			for _, pi := range pis {
				order = append(order, vC05CidIdx(pi.Cid))
			}
			return err
		})
		if serr != nil {
			return 0, nil, serr
		}
		if !returned {
			return 0, nil, errors.New("RecoverAll blocked")
		}
		return vC05RetOf(err), order, nil
	case "complete":
		var target *vC05Call
		for _, c := range r.fake.inflight() {
			if c.cidx == e.C {
				target = c
				break
			}
		}
		if target == nil {
			return 0, nil, nil // nothing in flight for the cid: no-op (also in the model)
		}
		target.release <- e.Fault
		// the call must leave the fake (positive, long wait), then everything settles
		deadline := time.Now().Add(30 * time.Second)
		for {
			gone := true
			r.fake.mu.Lock()
			for _, c := range r.fake.blocked {
				if c == target {
					gone = false
				}
			}
			r.fake.mu.Unlock()
			if gone {
				break
			}
			if time.Now().After(deadline) {
				return 0, nil, errors.New("released call did not return")
			}
			runtime.Gosched()
		}
		return 0, nil, r.settle()
	case "daemon":
		r.fake.mu.Lock()
		if e.M == 0 {
			delete(r.fake.daemon, e.C)
		} else {
			r.fake.daemon[e.C] = e.M == 2
		}
		r.fake.mu.Unlock()
		return 0, nil, nil
	}
	return 0, nil, nil
}
