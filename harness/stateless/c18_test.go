//go:build verif

package stateless

// C18 stress scenarios for the stateless pin tracker: "pinning, unpinning, status and recover on the
// tracker" and "shutting a component down while it is in use".

import (
	"context"
	"time"

	"github.com/ipfs/ipfs-cluster/api"
	"github.com/ipfs/ipfs-cluster/test"

	cid "github.com/ipfs/go-cid"
	logging "github.com/ipfs/go-log/v2"
)

// case ids of this package start here (one runner evidence table for all packages)
// directory of this package inside the repository (race signatures are made relative to the repository root)
const vC18PkgDir = "pintracker/stateless"

const vC18IDBase = 200

var vC18Plan = []vC18Scen{
	{Name: "tracker", Ms: 900, Workers: 8},
	{Name: "tracker-shutdown", Ms: 600, Workers: 6},
}

var vC18Scenarios = map[string]func(x *vC18Ctx){
	"tracker":          func(x *vC18Ctx) { vC18Tracker(x, false) },
	"tracker-shutdown": func(x *vC18Ctx) { vC18Tracker(x, true) },
}

var vC18Cids = []cid.Cid{test.Cid1, test.Cid2, test.Cid3, test.Cid4}

func vC18CheckInfos(x *vC18Ctx, pis []*api.PinInfo) {
	seen := map[cid.Cid]bool{}
	for _, pi := range pis {
		if pi == nil || !pi.Cid.Defined() || seen[pi.Cid] || pi.Peer != test.PeerID1 || pi.Status == api.TrackerStatusUndefined {
			x.stat(0, 1) // nil, duplicated or half-filled entry
			continue
		}
		seen[pi.Cid] = true
	}
}

func vC18Tracker(x *vC18Ctx, shutdown bool) {
	logging.SetLogLevel("pintracker", "FATAL")
	logging.SetLogLevel("optracker", "FATAL")
	x.deadline = time.Now().Add(time.Duration(x.scen.Ms) * time.Millisecond)
	ctx := context.Background()
	var pins []*api.Pin
	for _, c := range vC18Cids {
		p := api.PinWithOpts(c, api.PinOptions{ReplicationFactorMin: -1, ReplicationFactorMax: -1})
		pins = append(pins, p)
	}
	spt := testStatelessPinTracker(x.t, pins[0], pins[2])
	stopAt := x.deadline.Add(-time.Duration(x.scen.Ms/3) * time.Millisecond)
	if shutdown {
		for k := 0; k < 2; k++ {
			x.loop("Shutdown", 900+k, func(r *vRand, i int) {
				if time.Now().Before(stopAt) {
					time.Sleep(time.Millisecond)
					return
				}
				if err := spt.Shutdown(ctx); err != nil {
					x.stat(1, 1)
				}
				time.Sleep(2 * time.Millisecond)
			})
		}
	}
	for k := 0; k < x.scen.Workers; k++ {
		x.loop("op", k, func(r *vRand, i int) {
			j := r.intn(len(vC18Cids))
			c := vC18Cids[j]
			switch r.intn(8) {
			case 0, 1:
				spt.Track(ctx, pins[j])
			case 2:
				spt.Untrack(ctx, c)
			case 3:
				if pi := spt.Status(ctx, c); pi == nil || !pi.Cid.Equals(c) || pi.Status == api.TrackerStatusUndefined {
					x.stat(0, 1)
				}
			case 4:
				vC18CheckInfos(x, spt.StatusAll(ctx, api.TrackerStatusUndefined))
			case 5:
				if pi, err := spt.Recover(ctx, c); err == nil && (pi == nil || !pi.Cid.Equals(c)) {
					x.stat(0, 1)
				}
			case 6:
				if pis, err := spt.RecoverAll(ctx); err == nil {
					vC18CheckInfos(x, pis)
				}
			default:
				vC18CheckInfos(x, spt.StatusAll(ctx, api.TrackerStatusPinned|api.TrackerStatusPinning|api.TrackerStatusPinQueued))
			}
		})
	}
	x.wait()
	spt.Shutdown(ctx)
}
