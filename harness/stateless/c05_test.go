//go:build verif

package stateless

// C05 (and the tracker part of C06): event scripts against the real Tracker; one Coq case per script.

import (
	"encoding/json"
	"fmt"
	"os"
	"strings"
	"testing"

	"github.com/ipfs/ipfs-cluster/api"
	logging "github.com/ipfs/go-log/v2"
)

type vC05Gen struct {
	r       *vRand
	metaCid int
	tag     int
	steps   int
	suffix  int // 0 none, 1 heal, 2 drain
	sufLeft int
	phase   int
	prefix  []vC05Ev // boundary stream: a scripted opening, then random events
}

// boundary stream: openings built around the comparisons of the anchored code (stale queue entry dequeued while its
// successor is in flight, queue slot held by a cancelled entry, cancel in flight and re-track, same-type duplicate with
// another mode, remote then local)
func (g *vC05Gen) boundary(s *vC05Script) {
	r := g.r
	s.NP, s.NCid = 1, 3
	g.metaCid = -1
	a, b, c := 0, 1, 2
	lp := func(cid int, direct bool) *vC05Pin { g.tag++; return &vC05Pin{C: cid, Tag: g.tag, Direct: direct} }
	tr := func(p *vC05Pin) vC05Ev { return vC05Ev{K: "track", C: p.C, P: p} }
	switch r.intn(5) {
	case 0: // stale pin entry of b is dequeued while b's unpin is in flight; then that unpin fails or succeeds
		s.Q = r.rng(1, 2)
		g.prefix = []vC05Ev{tr(lp(a, false)), tr(lp(b, r.chance(50))), {K: "untrack", C: b}, {K: "complete", C: a}, {K: "complete", C: b, Fault: r.chance(60)}}
		s.Daemon = append(s.Daemon, [2]int{b, r.rng(1, 2)}) // b is held by the daemon, so a lost unpin failure shows
	case 1: // the only queue slot is held by a cancelled entry
		s.Q = 1
		g.prefix = []vC05Ev{tr(lp(a, false)), tr(lp(b, false)), {K: "untrack", C: b}, tr(lp(c, r.chance(50))), {K: "complete", C: a}}
	case 2: // cancel in flight, re-track, complete
		s.Q = r.rng(1, 2)
		g.prefix = []vC05Ev{tr(lp(a, r.chance(50))), {K: "untrack", C: a}, tr(lp(a, r.chance(50))), {K: "complete", C: a, Fault: r.chance(30)}, {K: "complete", C: a}}
	case 3: // same-type duplicate carrying another mode
		s.Q = 2
		d := r.chance(50)
		g.prefix = []vC05Ev{tr(lp(a, d)), tr(lp(a, !d)), {K: "complete", C: a}, {K: "recoverall"}, {K: "complete", C: a}}
	default: // remote, then local while the unpin is in flight
		s.Q = 1
		p := lp(a, false)
		p.Remote = true
		g.prefix = []vC05Ev{tr(p), tr(lp(a, r.chance(50))), {K: "complete", C: a, Fault: r.chance(30)}, {K: "complete", C: a}}
	}
	if r.chance(50) {
		s.Daemon = append(s.Daemon, [2]int{r.intn(3), r.rng(1, 2)})
	}
}

func vC05NewScript(r *vRand) (*vC05Script, *vC05Gen) {
	s := &vC05Script{Q: r.rng(1, 3), NP: r.rng(1, 2), NCid: r.rng(2, 4)}
	if r.chance(40) {
		s.Q = 1
	}
	if r.chance(10) {
		s.NCid = 1
	}
	g := &vC05Gen{r: r, metaCid: -1, steps: r.rng(4, 14)}
	if r.chance(35) {
		g.metaCid = r.intn(s.NCid)
	}
	switch x := r.intn(100); {
	case x < 35:
		g.suffix = 1
	case x < 70:
		g.suffix = 2
	}
	if r.chance(15) {
		g.boundary(s)
		return s, g
	}
	if r.chance(45) {
		for c := 0; c < s.NCid; c++ {
			if r.chance(55) {
				s.Pins = append(s.Pins, g.pin(c))
			}
			if r.chance(45) {
				s.Daemon = append(s.Daemon, [2]int{c, r.rng(1, 2)})
			}
		}
	}
	return s, g
}

func (g *vC05Gen) pin(c int) vC05Pin {
	g.tag++
	p := vC05Pin{C: c, Tag: g.tag, Direct: g.r.chance(35)}
	if c == g.metaCid {
		p.Meta = true
		return p
	}
	switch x := g.r.intn(100); {
	case x < 60:
	case x < 75:
		p.Every = true
	default:
		p.Remote = true
	}
	return p
}

// next picks the next event looking at the calls currently in flight (the rig is deterministic, so the script
// recorded in the case reproduces the run)
func (g *vC05Gen) next(s *vC05Script, inflight []*vC05Call) *vC05Ev {
	r := g.r
	if len(s.Evs) < len(g.prefix) {
		e := g.prefix[len(s.Evs)]
		return &e
	}
	if g.phase == 0 && len(s.Evs) >= g.steps {
		g.phase = 1
		if g.suffix == 1 {
			g.sufLeft = 14
			return &vC05Ev{K: "recoverall"}
		}
		g.sufLeft = 14
	}
	if g.phase == 1 {
		if g.suffix == 0 || len(inflight) == 0 || g.sufLeft == 0 {
			return nil
		}
		g.sufLeft--
		c := inflight[r.intn(len(inflight))]
		return &vC05Ev{K: "complete", C: c.cidx, Fault: g.suffix == 2 && r.chance(15)}
	}
	if len(inflight) > 0 && r.chance(45) {
		c := inflight[r.intn(len(inflight))]
		return &vC05Ev{K: "complete", C: c.cidx, Fault: r.chance(22)}
	}
	c := r.intn(s.NCid)
	switch x := r.intn(100); {
	case x < 42:
		p := g.pin(c)
		return &vC05Ev{K: "track", C: c, P: &p}
	case x < 64:
		return &vC05Ev{K: "untrack", C: c}
	case x < 75:
		return &vC05Ev{K: "recover", C: c}
	case x < 86:
		return &vC05Ev{K: "recoverall"}
	case x < 96:
		return &vC05Ev{K: "daemon", C: c, M: r.intn(3)}
	default:
		return &vC05Ev{K: "complete", C: c, Fault: r.chance(30)}
	}
}

var vC05Masks = []int{2, 4, 8, 16, 32, 64, 128, 256, 512, 1024, 2048, 4096, 14, 1536}

func vC05RandMask(r *vRand) int {
	switch x := r.intn(100); {
	case x < 40:
		return vC05Masks[r.intn(len(vC05Masks))]
	case x < 90:
		m := 0
		for i := r.rng(2, 4); i > 0; i-- {
			m |= vC05Masks[r.intn(12)]
		}
		return m
	case x < 95:
		return []int{1, 8192, 1 << 20, 1 | 16, 8192 | 4}[r.intn(5)]
	default:
		return int(r.next() % (1 << 14))
	}
}

func vC05CoqEvent(e vC05Ev, order []int) string {
	switch e.K {
	case "track":
		return "ETrack " + e.P.coq()
	case "untrack":
		return fmt.Sprintf("EUntrack %d", e.C)
	case "recover":
		return fmt.Sprintf("ERecover %d", e.C)
	case "recoverall":
		return "ERecoverAll " + cqListN(order)
	case "complete":
		return fmt.Sprintf("EComplete %d %s", e.C, cqBool(e.Fault))
	case "daemon":
		m := "None"
		if e.M == 1 {
			m = "(Some false)"
		} else if e.M == 2 {
			m = "(Some true)"
		}
		return fmt.Sprintf("EDaemon %d %s", e.C, m)
	}
	return "EComplete 0 false"
}

func vC05CoqPairs(x [][2]int) string {
	xs := make([]string, len(x))
	for i, p := range x {
		xs[i] = fmt.Sprintf("(%d,%d)", p[0], p[1])
	}
	return cqList(xs)
}

func vC05CoqObs(o vC05Obs) string {
	inf := make([]string, len(o.Inflight))
	for i, q := range o.Inflight {
		inf[i] = fmt.Sprintf("(%d,%d,%d,%d)", q[0], q[1], q[2], q[3])
	}
	ms := make([]string, len(o.Masks))
	for i, m := range o.Masks {
		ms[i] = fmt.Sprintf("(%d,%s)", m.F, vC05CoqPairs(m.All))
	}
	return fmt.Sprintf("(%d,%s,%s,%s,%s,%s)", o.Ret, cqListN(o.Status), vC05CoqPairs(o.All), vC05CoqPairs(o.Daemon), cqList(inf), cqList(ms))
}

type vC05Result struct {
	obs        []vC05Obs
	events     []string
	nontrivial bool
	direct     []string // direct violations (settle failure, late error, panic)
}

// vC05Run executes the script (extending it with g when g != nil) and returns the observations.
func vC05Run(s *vC05Script, g *vC05Gen, masks bool, mr *vRand, out *vOut) (res vC05Result) {
	s.norm()
	rig, err := vC05NewRig(s)
	if err != nil {
		res.direct = append(res.direct, "rig: "+err.Error())
		return
	}
	defer func() {
		if p := recover(); p != nil {
			res.direct = append(res.direct, fmt.Sprintf("panic: %v", p))
		}
		if err := rig.shutdown(); err != nil {
			res.direct = append(res.direct, err.Error())
		}
		rig.apiMu.Lock()
		for _, e := range rig.lateErr {
			res.direct = append(res.direct, "Track of a remote pin returned an error: "+e)
		}
		rig.apiMu.Unlock()
	}()
	for i := 0; ; i++ {
		var e vC05Ev
		inflight := rig.fake.inflight()
		if g != nil {
			ne := g.next(s, inflight)
			if ne == nil {
				break
			}
			s.Evs = append(s.Evs, *ne)
			s.norm()
		}
		if i >= len(s.Evs) {
			break
		}
		e = s.Evs[i]
		for _, c := range inflight {
			if c.cidx == e.C && (e.K == "track" || e.K == "untrack" || e.K == "recover") {
				res.nontrivial = true
				out.count("instr_while_inflight")
			}
		}
		if e.K == "complete" && e.Fault {
			res.nontrivial = true
		}
		ret, order, err := rig.exec(e)
		if err != nil {
			res.direct = append(res.direct, fmt.Sprintf("event %d (%s): %v", i, e.K, err))
			s.Evs = s.Evs[:i]
			return
		}
		o := rig.observe(s.NCid, ret)
		o.Order = order
		if masks {
			nm := 4
			if g == nil && i == len(s.Evs)-1 || g != nil && g.phase == 1 {
				nm = 10
			}
			for k := 0; k < nm; k++ {
				f := vC05RandMask(mr)
				o.Masks = append(o.Masks, vC05MaskObs{F: f, All: rig.statusAll(api.TrackerStatus(f))})
			}
		}
		out.count("ev_" + e.K)
		if ret == 1 {
			out.count("ret_fullqueue")
		}
		if len(o.Inflight) == 0 {
			out.count("obs_no_inflight")
		}
		res.obs = append(res.obs, o)
		res.events = append(res.events, vC05CoqEvent(e, order))
	}
	return
}

func vC05Term(s *vC05Script, res vC05Result) string {
	pins := make([]string, len(s.Pins))
	for i, p := range s.Pins {
		pins[i] = p.coq()
	}
	steps := make([]string, len(res.events))
	for i := range res.events {
		steps[i] = "(" + res.events[i] + ", " + vC05CoqObs(res.obs[i]) + ")"
	}
	return fmt.Sprintf("((%d%%nat, %d%%nat, %d, %s, %s), %s)", s.Q, s.NP, s.NCid, cqList(pins), vC05CoqPairs(s.Daemon), cqList(steps))
}

// the shared vRand is a counter-based generator whose state is seed*G + c: seeds k and k+1 give the same stream shifted by
// one step. Mixing the seed first makes the streams of different seeds unrelated.
func vC05Mix(z uint64) uint64 {
	z = (z ^ (z >> 30)) * 0xBF58476D1CE4E5B9
	z = (z ^ (z >> 27)) * 0x94D049BB133111EB
	return z ^ (z >> 31) ^ 0x5851F42D4C957F2D
}

func TestVerifC05(t *testing.T) {
	logging.SetAllLoggers(logging.LevelFatal)
	seed := uint64(vEnvInt("VERIF_SEED", 1))
	n := vEnvInt("VERIF_N", 100)
	prop := os.Getenv("VERIF_PROP")
	if prop == "" {
		prop = "C05"
	}
	masks := prop == "C06"
	imports := "From V Require Import Base.Common Model.C05_Tracker Model.C05_Check.\nOpen Scope N_scope."
	if masks {
		imports = "From V Require Import Base.Common Model.C05_Tracker Model.C05_Check Model.C06_Check.\nOpen Scope N_scope."
	}
	out := newVOut(prop, imports, "case", "Definition R := Eval vm_compute in failing cases.\nPrint R.")
	defer out.close()
	r := newVRand(vC05Mix(seed))
	emit := func(s *vC05Script, res vC05Result) {
		for _, d := range res.direct {
			b, _ := json.Marshal(map[string]interface{}{"signature": "tracker-rig-" + strings.SplitN(d, ":", 2)[0], "detail": d, "case": map[string]interface{}{"input": s}})
			fmt.Printf("VERIF-DIRECT-VIOLATION %s\n", b)
		}
		out.add(vC05Term(s, res), s, res.obs, res.nontrivial)
	}
	if raw := vCasesIn(); raw != nil {
		for _, b := range raw {
			var s vC05Script
			if err := json.Unmarshal(b, &s); err != nil {
				t.Fatal(err)
			}
			emit(&s, vC05Run(&s, nil, masks, r.fork(), out))
		}
		return
	}
	for i := 0; i < n; i++ {
		s, g := vC05NewScript(r.fork())
		emit(s, vC05Run(s, g, masks, r.fork(), out))
	}
	if os.Getenv("VERIF_TIER") == "thorough" && !masks {
		// small-scope exhaustive part: every script of 5 events over one cid and of 3 events over two cids
		// (observations are taken after every event, so every shorter script is covered as a prefix)
		vC05Enumerate(func(s *vC05Script) {
			emit(s, vC05Run(s, nil, false, r.fork(), out))
			out.count("enumerated")
		})
	}
}

// vC05Enumerate: alphabet per cid = track local recursive / local direct / remote, untrack, recover, complete ok / fault;
// plus recoverall. A script does not start with a completion (nothing is in flight in a fresh tracker).
func vC05Enumerate(run func(*vC05Script)) {
	ev := func(ncid, code, tag int) (vC05Ev, bool) {
		if code == 7*ncid {
			return vC05Ev{K: "recoverall"}, false
		}
		c, k := code/7, code%7
		switch k {
		case 0:
			return vC05Ev{K: "track", C: c, P: &vC05Pin{C: c, Tag: tag}}, false
		case 1:
			return vC05Ev{K: "track", C: c, P: &vC05Pin{C: c, Tag: tag, Direct: true}}, false
		case 2:
			return vC05Ev{K: "track", C: c, P: &vC05Pin{C: c, Tag: tag, Remote: true}}, false
		case 3:
			return vC05Ev{K: "untrack", C: c}, false
		case 4:
			return vC05Ev{K: "recover", C: c}, false
		case 5:
			return vC05Ev{K: "complete", C: c}, true
		default:
			return vC05Ev{K: "complete", C: c, Fault: true}, true
		}
	}
	for _, cfg := range [][4]int{{1, 5, 1, 1}, {2, 3, 1, 1}, {2, 3, 1, 2}} { // ncid, length, q, np
		ncid, length, q, np := cfg[0], cfg[1], cfg[2], cfg[3]
		alpha := 7*ncid + 1
		total := 1
		for i := 0; i < length; i++ {
			total *= alpha
		}
		for idx := 0; idx < total; idx++ {
			s := &vC05Script{Q: q, NP: np, NCid: ncid}
			x := idx
			skip := false
			for i := 0; i < length; i++ {
				e, isComplete := ev(ncid, x%alpha, i+1)
				x /= alpha
				if i == 0 && isComplete {
					skip = true
					break
				}
				s.Evs = append(s.Evs, e)
			}
			if !skip {
				run(s)
			}
		}
	}
}
