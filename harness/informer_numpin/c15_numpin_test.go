//go:build verif

package numpin

import (
	"reflect"
	"testing"
)

func TestVerifC15Numpin(t *testing.T) {
	vc15Main(t, &vc15Section{
		Name: "numpin", Index: 10, EnvPrefix: "CLUSTER_NUMPIN",
		New:      func() vc15Config { return &Config{} },
		JSONType: reflect.TypeOf(jsonConfig{}),
		Hints:    map[string]string{"metric_ttl": "dur"},
	})
}
