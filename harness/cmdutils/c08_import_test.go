//go:build verif

package cmdutils

// C08, state export / import boundary: the loop of importState (`for { var pin api.Pin; dec.Decode(&pin); st.Add(&pin) }`,
// encoding/json) on the real code. A case is a pinset of 2..7 pins with pairwise different CIDs, most of them with
// metadata under different key sets; it is stored in a state, written with the real exportState (one JSON document per
// pin), read with the real importState into a second state, and every pin is read back with Get: each must read back
// as its own stored form, whatever pin was imported before it.

import (
	"bytes"
	"context"
	"encoding/json"
	"fmt"
	"reflect"
	"testing"

	"github.com/ipfs/ipfs-cluster/datastore/inmem"
	"github.com/ipfs/ipfs-cluster/state/dsstate"

	logging "github.com/ipfs/go-log/v2"
)

type vC08ICase struct {
	Kind string       `json:"kind"` // "import"
	Pins []vC08LPinIn `json:"pins"`
}

func vC08IGen(r *vRand) vC08ICase {
	c := vC08ICase{Kind: "import"}
	n := r.rng(2, 7)
	perm := []int{}
	for i := range vC08LCids {
		perm = append(perm, i)
	}
	for i := len(perm) - 1; i > 0; i-- {
		j := r.intn(i + 1)
		perm[i], perm[j] = perm[j], perm[i]
	}
	for i := 0; i < n; i++ {
		p := vC08LGenPin(r, r.chance(70), false)
		p.Cid = perm[i]
		if len(p.Exp) >= 2 && (p.Exp[0] < -62135596800 || p.Exp[0] >= 253402300800) {
			p.Exp = []int64{} // encoding/json refuses years outside 0..9999
		}
		c.Pins = append(c.Pins, p)
	}
	return c
}

func vC08IRun(out *vOut, c vC08ICase) {
	ctx := context.Background()
	st1, err := dsstate.New(inmem.New(), "/vc08i", dsstate.DefaultHandle())
	if err != nil {
		panic(err)
	}
	st2, err := dsstate.New(inmem.New(), "/vc08i", dsstate.DefaultHandle())
	if err != nil {
		panic(err)
	}
	seen := map[string]bool{}
	var terms, obs []string
	var idx []int
	stored, withMeta := 0, 0
	for i := range c.Pins {
		pin := c.Pins[i].build()
		if !pin.Cid.Defined() || seen[string(pin.Cid.Hash())] {
			continue
		}
		seen[string(pin.Cid.Hash())] = true
		terms = append(terms, vC08LPinTerm(pin))
		idx = append(idx, i)
		if err := st1.Add(ctx, pin); err == nil {
			stored++
			if len(pin.Metadata) > 0 {
				withMeta++
			}
		}
	}
	var buf bytes.Buffer
	if err := exportState(&buf, st1); err != nil {
		panic(err)
	}
	// importState returns `error` or `(int, error)` depending on the tree: take the last result
	res := reflect.ValueOf(importState).Call([]reflect.Value{reflect.ValueOf(bytes.NewReader(buf.Bytes())), reflect.ValueOf(st2)})
	if err, _ := res[len(res)-1].Interface().(error); err != nil {
		b, _ := json.Marshal(map[string]interface{}{"signature": "import-error", "detail": err.Error(), "case": map[string]interface{}{"input": c}})
		fmt.Printf("VERIF-DIRECT-VIOLATION %s\n", b)
		return
	}
	for _, i := range idx {
		pin := c.Pins[i].build()
		_, err1 := st1.Get(ctx, pin.Cid)
		got, err2 := st2.Get(ctx, pin.Cid)
		switch {
		case err1 != nil && err2 != nil:
			obs = append(obs, "ObsEncErr")
		case err2 != nil:
			obs = append(obs, "ObsDecErr")
		default:
			obs = append(obs, "(ObsPin "+vC08LPinTerm(got)+")")
		}
	}
	out.count(fmt.Sprintf("import:pins%d", len(terms)))
	out.add(fmt.Sprintf("CStream 1 %s %s", cqList(terms), cqList(obs)), c, obs, stored >= 2 && withMeta >= 2)
}

func TestVerifC08Import(t *testing.T) {
	vC08LInit()
	logging.SetAllLoggers(logging.LevelFatal)
	seed := uint64(vEnvInt("VERIF_SEED", 1))
	n := vEnvInt("VERIF_N", 60)
	out := newVOut("C08I", vC08LHeader(), "case", "Definition R := Eval vm_compute in failing cases.\nPrint R.")
	out.idBase += 800000
	defer out.close()
	var cases []vC08ICase
	if raw := vCasesIn(); raw != nil {
		for _, b := range raw {
			var c vC08ICase
			if err := json.Unmarshal(b, &c); err != nil || c.Kind != "import" {
				continue
			}
			cases = append(cases, c)
		}
	} else {
		r := newVRand(seed*1299709 + 3)
		for i := 0; i < n; i++ {
			cases = append(cases, vC08IGen(r))
		}
	}
	for _, c := range cases {
		vCaseStart(c)
		func() {
			defer func() {
				if e := recover(); e != nil {
					b, _ := json.Marshal(map[string]interface{}{"signature": "panic-import", "detail": fmt.Sprint(e), "case": map[string]interface{}{"input": c}})
					fmt.Printf("VERIF-DIRECT-VIOLATION %s\n", b)
				}
			}()
			vC08IRun(out, c)
		}()
	}
	vCaseDone()
}
