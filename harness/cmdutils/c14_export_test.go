//go:build verif

package cmdutils

// C14 correspondence harness, package cmdutils (compiles only through the runner's overlay): the real
// StateManager.ExportState / ImportState of the raft manager (CleanupRaft, OfflineState, importState, SnapshotSave)
// and of the crdt manager (badger and leveldb stores), on scratch directories under $VERIF_DIR/.build.

import (
	"bytes"
	"context"
	"encoding/json"
	"fmt"
	"io/ioutil"
	"os"
	"path/filepath"
	"strconv"
	"strings"
	"testing"
	"time"

	ipfscluster "github.com/ipfs/ipfs-cluster"
	"github.com/ipfs/ipfs-cluster/config"
	"github.com/ipfs/ipfs-cluster/consensus/crdt"
	"github.com/ipfs/ipfs-cluster/consensus/raft"
	"github.com/ipfs/ipfs-cluster/datastore/badger"
	"github.com/ipfs/ipfs-cluster/datastore/inmem"
	"github.com/ipfs/ipfs-cluster/datastore/leveldb"
	"github.com/ipfs/ipfs-cluster/state"
	"github.com/ipfs/ipfs-cluster/state/dsstate"
	"github.com/ipfs/ipfs-cluster/test"

	cid "github.com/ipfs/go-cid"
	peer "github.com/libp2p/go-libp2p-core/peer"
)

const vc14XIDBase = 600000
const vc14XWindow = 4

type vC14Edit struct {
	Op  string `json:"op"`  // "bad" (insert a line that is not a JSON pin), "dup" (repeat a line), "drop", "swap" (with the next)
	Pos int    `json:"pos"` // position in the stream (folded into range)
}

type vC14XCase struct {
	Kind      string                `json:"kind"` // "export"
	Mgr       string                `json:"mgr"`  // "raft" | "badger" | "leveldb"
	Keep      int                   `json:"keep"`
	Src       []dsstate.VC14PinSpec `json:"src"`
	HasDst    bool                  `json:"has_dst"`
	Dst       []dsstate.VC14PinSpec `json:"dst,omitempty"`
	Edits     []vC14Edit            `json:"edits,omitempty"`
	Peerstore []string              `json:"peerstore,omitempty"` // lines of the destination's peerstore file (raft import reads it)
}

func ctxBg() context.Context { return context.Background() }

type vc14XRig struct {
	root string
	n    int
}

func newVC14XRig() *vc14XRig {
	base := os.Getenv("VERIF_DIR")
	if base == "" {
		panic("VERIF_DIR not set")
	}
	root := filepath.Join(base, ".build", "c14tmp", fmt.Sprintf("cmdutils-%d", os.Getpid()))
	os.RemoveAll(root)
	if err := os.MkdirAll(root, 0700); err != nil {
		panic(err)
	}
	return &vc14XRig{root: root}
}

func (r *vc14XRig) close() { os.RemoveAll(r.root) }

func (r *vc14XRig) dir(name string) string {
	r.n++
	d := filepath.Join(r.root, fmt.Sprintf("x%d-%s", r.n, name))
	if err := os.MkdirAll(d, 0700); err != nil {
		panic(err)
	}
	return d
}

func vc14Configs(base string, keep int) *Configs {
	cfgs := &Configs{
		Cluster: &ipfscluster.Config{},
		Raft:    &raft.Config{},
		Crdt:    &crdt.Config{},
		Badger:  &badger.Config{},
		LevelDB: &leveldb.Config{},
	}
	cfgs.Cluster.BaseDir = base
	cfgs.Raft.Default()
	cfgs.Raft.BaseDir = base
	cfgs.Raft.BackupsRotate = keep
	cfgs.Crdt.Default()
	cfgs.Crdt.BaseDir = base
	cfgs.Badger.Default()
	cfgs.Badger.BaseDir = base
	cfgs.LevelDB.Default()
	cfgs.LevelDB.BaseDir = base
	return cfgs
}

func vc14Manager(mgr string, cfgs *Configs) (StateManager, error) {
	ident := &config.Identity{ID: test.PeerID1}
	switch mgr {
	case "raft":
		return NewStateManager(cfgs.Raft.ConfigKey(), "", ident, cfgs)
	case "leveldb":
		return NewStateManager(cfgs.Crdt.ConfigKey(), cfgs.LevelDB.ConfigKey(), ident, cfgs)
	default:
		return NewStateManager(cfgs.Crdt.ConfigKey(), cfgs.Badger.ConfigKey(), ident, cfgs)
	}
}

// put a pinset in place with the components' own means
func vc14Seed(mgr string, sm StateManager, cfgs *Configs, specs []dsstate.VC14PinSpec) error {
	if mgr == "raft" {
		st, err := dsstate.New(inmem.New(), "", dsstate.DefaultHandle())
		if err != nil {
			return err
		}
		for _, sp := range specs {
			if err := st.Add(ctxBg(), dsstate.VC14MakePin(sp)); err != nil {
				return err
			}
		}
		return raft.SnapshotSave(cfgs.Raft, st, []peer.ID{test.PeerID1})
	}
	if len(specs) == 0 {
		return nil // nothing to write (committing an empty crdt batch is what ImportState itself does: see the cases)
	}
	store, err := sm.GetStore()
	if err != nil {
		return err
	}
	defer store.Close()
	st, err := sm.GetOfflineState(store)
	if err != nil {
		return err
	}
	for _, sp := range specs {
		if err := st.Add(ctxBg(), dsstate.VC14MakePin(sp)); err != nil {
			return err
		}
	}
	return st.(state.BatchingState).Commit(ctxBg())
}

func vc14ListVia(sm StateManager, in *dsstate.VC14Interner) ([]dsstate.VC14Entry, error) {
	store, err := sm.GetStore()
	if err != nil {
		return nil, err
	}
	defer store.Close()
	st, err := sm.GetOfflineState(store)
	if err != nil {
		return nil, err
	}
	return dsstate.VC14Entries(st, in)
}

// ---- directory listing of a raft data folder and its backups (as the raft rig does) ----
type vc14XFolder struct {
	Marker int  `json:"marker"`
	Snap   *int `json:"snap"`
}

func vc14XHasSnapshot(path string) bool {
	ents, err := ioutil.ReadDir(filepath.Join(path, "snapshots"))
	if err != nil {
		return false
	}
	for _, e := range ents {
		if e.IsDir() && !strings.HasSuffix(e.Name(), ".tmp") {
			if _, err := os.Stat(filepath.Join(path, "snapshots", e.Name(), "meta.json")); err == nil {
				return true
			}
		}
	}
	return false
}

func vc14XObserve(path string, snapID func(string) int) *vc14XFolder {
	if _, err := os.Stat(path); err != nil {
		return nil
	}
	f := &vc14XFolder{}
	if b, err := ioutil.ReadFile(filepath.Join(path, "marker")); err == nil {
		f.Marker, _ = strconv.Atoi(strings.TrimSpace(string(b)))
	}
	if vc14XHasSnapshot(path) {
		id := snapID(path)
		f.Snap = &id
	}
	return f
}

func vc14XCoqListing(l []*vc14XFolder) string {
	xs := make([]string, len(l))
	for i, f := range l {
		switch {
		case f == nil:
			xs[i] = "None"
		case f.Snap == nil:
			xs[i] = fmt.Sprintf("Some (%d, None)", f.Marker)
		default:
			xs[i] = fmt.Sprintf("Some (%d, Some %d)", f.Marker, *f.Snap)
		}
	}
	return cqList(xs)
}

// pinset table: id 0 is the empty pinset
type vc14XSets struct {
	pins  *dsstate.VC14Interner
	ids   map[string]int
	table [][]dsstate.VC14Entry
}

func newVC14XSets() *vc14XSets {
	s := &vc14XSets{pins: dsstate.NewVC14Interner(), ids: map[string]int{}}
	s.id([]dsstate.VC14Entry{})
	return s
}
func (s *vc14XSets) id(es []dsstate.VC14Entry) int {
	k := dsstate.VC14CoqEntries(es)
	if i, ok := s.ids[k]; ok {
		return i
	}
	s.ids[k] = len(s.table)
	s.table = append(s.table, es)
	return s.ids[k]
}
func (s *vc14XSets) coqTable() string {
	xs := make([]string, len(s.table))
	for i, es := range s.table {
		xs[i] = fmt.Sprintf("(%d, %s)", i, dsstate.VC14CoqEntries(es))
	}
	return cqList(xs)
}

func vc14XEdit(lines []string, edits []vC14Edit) ([]string, bool) {
	edited := false
	for _, e := range edits {
		n := len(lines)
		switch e.Op {
		case "bad":
			pos := 0
			if n > 0 {
				pos = ((e.Pos % (n + 1)) + n + 1) % (n + 1)
			}
			bad := []string{"this is not json", "{\"cid\":", "[1,2,3]", "{\"cid\":{\"/\":\"notacid\"}}", "42"}[((e.Pos%5)+5)%5]
			lines = append(lines[:pos], append([]string{bad}, lines[pos:]...)...)
			edited = true
		case "dup":
			if n > 0 {
				pos := ((e.Pos % n) + n) % n
				lines = append(lines, lines[pos])
				edited = true
			}
		case "drop":
			if n > 0 {
				pos := ((e.Pos % n) + n) % n
				lines = append(lines[:pos], lines[pos+1:]...)
				edited = true
			}
		case "swap":
			if n > 1 {
				pos := ((e.Pos % (n - 1)) + n - 1) % (n - 1)
				lines[pos], lines[pos+1] = lines[pos+1], lines[pos]
				edited = true
			}
		}
	}
	return lines, edited
}

// which pin of the source does an exported line carry (nil: the line is not a JSON pin object with a known CID)
func vc14XClassify(line string, src []dsstate.VC14Entry) *dsstate.VC14Entry {
	var obj struct {
		Cid *struct {
			S string `json:"/"`
		} `json:"cid"`
		Type json.RawMessage `json:"type"`
	}
	dec := json.NewDecoder(strings.NewReader(line))
	if err := dec.Decode(&obj); err != nil || obj.Cid == nil || obj.Type == nil {
		return nil
	}
	c, err := cid.Decode(obj.Cid.S)
	if err != nil {
		return nil
	}
	i := dsstate.VC14CidIndex(c)
	for k := range src {
		if src[k].Cid == i {
			return &src[k]
		}
	}
	return nil
}

func vc14XRun(rig *vc14XRig, out *vOut, c vC14XCase) {
	c.Keep = c.Keep%4 + 1
	if c.Keep < 1 {
		c.Keep = 1
	}
	if c.Mgr != "raft" && c.Mgr != "leveldb" {
		if c.Mgr != "badger" {
			c.Mgr = "raft"
		}
	}
	sets := newVC14XSets()
	var errs []string
	fail := func(where string, err error) {
		errs = append(errs, where+": "+err.Error())
	}
	// source
	srcBase := rig.dir("src")
	srcCfgs := vc14Configs(srcBase, c.Keep)
	smSrc, err := vc14Manager(c.Mgr, srcCfgs)
	if err != nil {
		panic(err)
	}
	if err := vc14Seed(c.Mgr, smSrc, srcCfgs, c.Src); err != nil {
		fail("seed src", err)
	}
	srcEs, err := vc14ListVia(smSrc, sets.pins)
	if err != nil {
		fail("list src", err)
	}
	srcID := sets.id(srcEs)
	var buf bytes.Buffer
	if err := smSrc.ExportState(&buf); err != nil {
		fail("export", err)
	}
	raw := strings.Split(strings.TrimSuffix(buf.String(), "\n"), "\n")
	if buf.Len() == 0 {
		raw = []string{}
	}
	exported := []dsstate.VC14Entry{}
	for _, l := range raw {
		if e := vc14XClassify(l, srcEs); e != nil {
			exported = append(exported, *e)
		} else {
			exported = append(exported, dsstate.VC14Entry{Cid: 9999, Content: 9999})
		}
	}
	lines, edited := vc14XEdit(append([]string{}, raw...), c.Edits)
	jl := make([]string, len(lines))
	for i, l := range lines {
		if e := vc14XClassify(l, srcEs); e != nil {
			jl[i] = fmt.Sprintf("JPin (%d, (%d, %d))", e.Cid, e.Content, e.Origins)
		} else {
			jl[i] = "JBad"
		}
	}
	stream := strings.Join(lines, "\n")
	if len(lines) > 0 {
		stream += "\n"
	}
	// destination
	dstBase := rig.dir("dst")
	dstCfgs := vc14Configs(dstBase, c.Keep)
	smDst, err := vc14Manager(c.Mgr, dstCfgs)
	if err != nil {
		panic(err)
	}
	dst0 := "None"
	if c.HasDst {
		if err := vc14Seed(c.Mgr, smDst, dstCfgs, c.Dst); err != nil {
			fail("seed dst", err)
		}
		dstEs, err := vc14ListVia(smDst, sets.pins)
		if err != nil {
			fail("list dst", err)
		}
		dst0 = fmt.Sprintf("(Some %d)", sets.id(dstEs))
		if c.Mgr == "raft" {
			ioutil.WriteFile(filepath.Join(dstCfgs.Raft.GetDataFolder(), "marker"), []byte("7"), 0600)
		}
	}
	if len(c.Peerstore) > 0 {
		ioutil.WriteFile(dstCfgs.Cluster.GetPeerstorePath(), []byte(strings.Join(c.Peerstore, "\n")+"\n"), 0600)
	}
	var panicked interface{}
	var impErr error
	func() {
		defer func() {
			if r := recover(); r != nil {
				panicked = fmt.Sprint(r)
			}
		}()
		impErr = smDst.ImportState(strings.NewReader(stream))
	}()
	res := 0
	if impErr != nil {
		res = 1
	}
	if panicked != nil {
		res = 2 // goes through the Coq case (codes 17/18), where the known shapes are recognised
	}
	ok := res == 0
	afterEs, err := vc14ListVia(smDst, sets.pins)
	if err != nil {
		fail("list after", err)
	}
	listing := "[]"
	var listJSON []*vc14XFolder
	if c.Mgr == "raft" {
		df := dstCfgs.Raft.GetDataFolder()
		resolve := func(path string) int {
			cfg := &raft.Config{}
			cfg.Default()
			cfg.BaseDir = path + ".cfgbase"
			cfg.DataFolder = path
			st, err := raft.OfflineState(cfg, inmem.New())
			if err != nil {
				return 888888
			}
			es, err := dsstate.VC14Entries(st, sets.pins)
			if err != nil {
				return 888887
			}
			return sets.id(es)
		}
		listJSON = append(listJSON, vc14XObserve(df, resolve))
		for i := 0; i < vc14XWindow; i++ {
			listJSON = append(listJSON, vc14XObserve(fmt.Sprintf("%s.old.%d", df, i), resolve))
		}
		listing = vc14XCoqListing(listJSON)
	}
	mgrN := 0
	if c.Mgr != "raft" {
		mgrN = 1
	}
	withOrigins := false
	for _, e := range srcEs {
		if e.Origins > 0 {
			withOrigins = true
		}
	}
	out.count("export." + c.Mgr)
	if edited {
		out.count("export.edited_stream")
	}
	if withOrigins {
		out.count("export.pins_with_origins")
	}
	if res == 1 {
		out.count("export.import_error")
	}
	if res == 2 {
		out.count("export.import_panic")
	}
	if c.HasDst {
		out.count("export.onto_existing_state")
	}
	term := fmt.Sprintf("PExport %d %d%%nat %s %d %s %s %s %s %s %s %s", mgrN, c.Keep, sets.coqTable(), srcID, dst0,
		dsstate.VC14CoqEntries(exported), cqList(jl), cqBool(edited), cqN(res), dsstate.VC14CoqEntries(afterEs), listing)
	impMsg := ""
	if impErr != nil {
		impMsg = impErr.Error()
	}
	out.add(term, c, map[string]interface{}{"source": srcEs, "exported_lines": len(raw), "import_ok": ok, "import_error": impMsg, "import_panic": panicked,
		"after": afterEs, "listing": listJSON, "errors": errs}, len(srcEs) >= 2 && !withOrigins)
	os.RemoveAll(srcBase)
	os.RemoveAll(dstBase)
}

func vc14XGen(r *vRand, mgr string) vC14XCase {
	c := vC14XCase{Kind: "export", Mgr: mgr, Keep: r.intn(4)}
	c.Src = dsstate.VC14GenPinset(r.intn, 6, 20)
	if r.chance(60) {
		c.HasDst = true
		c.Dst = dsstate.VC14GenPinset(r.intn, 5, 10)
	}
	if r.chance(30) {
		ne := r.rng(1, 3)
		ops := []string{"bad", "dup", "drop", "swap"}
		for i := 0; i < ne; i++ {
			c.Edits = append(c.Edits, vC14Edit{Op: ops[r.intn(len(ops))], Pos: r.intn(8)})
		}
	}
	if mgr == "raft" && r.chance(30) {
		c.Peerstore = []string{"/ip4/127.0.0.1/tcp/9096/p2p/QmUZ13osndQ5uL4tPWHXe3iBgBgq9gfewcBMSCAuMBsDJ6", "/foo", "# comment", ""}
	}
	return c
}

func TestVerifC14Cmdutils(t *testing.T) {
	seed := uint64(vEnvInt("VERIF_SEED", 1))
	n := vEnvInt("VERIF_N", 60)
	out := newVOut("C14", "From V Require Import Base.Common Model.C14_Backup Model.C14_Peerstore Model.C14_State Model.C14_Check.\nOpen Scope N_scope.",
		"case", "Definition R := Eval vm_compute in failing cases.\nPrint R.")
	out.idBase += vc14XIDBase
	defer out.close()
	rig := newVC14XRig()
	defer rig.close()
	var cases []vC14XCase
	if raw := vCasesIn(); raw != nil {
		for _, b := range raw {
			var c vC14XCase
			if err := json.Unmarshal(b, &c); err != nil {
				t.Fatal(err)
			}
			cases = append(cases, c)
		}
	} else {
		r := newVRand(seed)
		for i := 0; i < n; i++ {
			cases = append(cases, vc14XGen(r, "raft"))
		}
		// the crdt manager last: its offline crdt store keeps background goroutines that must not outlive the process by long
		ncrdt := n / 8
		if ncrdt < 4 {
			ncrdt = 4
		}
		for i := 0; i < ncrdt; i++ {
			if i%2 == 0 {
				cases = append(cases, vc14XGen(r, "badger"))
			} else {
				cases = append(cases, vc14XGen(r, "leveldb"))
			}
		}
	}
	var crdtStart time.Time
	for _, c := range cases {
		if c.Mgr != "raft" && c.Mgr != "" {
			if crdtStart.IsZero() {
				crdtStart = time.Now()
			} else if time.Since(crdtStart) > 40*time.Second && vCasesIn() == nil {
				out.count("export.crdt_skipped_time_budget")
				continue
			}
		}
		vc14XRun(rig, out, c)
	}
}
