//go:build verif

package pubsubmon

// C09 correspondence, package pubsubmon: histories of operations on a real Monitor (pubsubmon.New on a real
// gossipsub): LogMetric, LatestMetrics with PeersFunc nil / failing / giving a peerset, its checker and
// its Alerts() channel. Time passes by rewriting Expire of the metrics the harness still holds.

import (
	"context"
	"encoding/json"
	"errors"
	"fmt"
	"sort"
	"strconv"
	"strings"
	"testing"
	"time"

	"github.com/ipfs/ipfs-cluster/api"

	libp2p "github.com/libp2p/go-libp2p"
	crypto "github.com/libp2p/go-libp2p-core/crypto"
	peer "github.com/libp2p/go-libp2p-core/peer"
	pubsub "github.com/libp2p/go-libp2p-pubsub"
)

const (
	vC09NPeers = 6
	vC09NNames = 2
)

type vC09Op struct {
	Op    string `json:"op"` // add tick peerset checkpeers checkall latest
	Name  int    `json:"name,omitempty"`
	Peer  int    `json:"peer,omitempty"`
	Valid bool   `json:"valid,omitempty"`
	Exp   int    `json:"exp,omitempty"`
	Dt    int    `json:"dt,omitempty"`
	Peers []int  `json:"peers,omitempty"`
	Mode  string `json:"mode,omitempty"` // peerset: none | err | some (Peers)
}

type vC09Case struct {
	Ops []vC09Op `json:"ops"`
}

type vC09DetReader struct{ r *vRand }

func (d vC09DetReader) Read(p []byte) (int, error) {
	for i := range p {
		p[i] = byte(d.r.next())
	}
	return len(p), nil
}

var vC09PeerIDs []peer.ID

func vC09Peers() []peer.ID {
	if vC09PeerIDs == nil {
		for i := 0; i < vC09NPeers; i++ {
			_, pub, err := crypto.GenerateEd25519Key(vC09DetReader{newVRand(uint64(9900 + i))})
			if err != nil {
				panic(err)
			}
			id, err := peer.IDFromPublicKey(pub)
			if err != nil {
				panic(err)
			}
			vC09PeerIDs = append(vC09PeerIDs, id)
		}
		sort.Slice(vC09PeerIDs, func(i, j int) bool { return vC09PeerIDs[i] < vC09PeerIDs[j] })
	}
	return vC09PeerIDs
}

func vC09PeerIdx(p peer.ID) int {
	for i, q := range vC09Peers() {
		if q == p {
			return i
		}
	}
	return 999
}

func vC09Clamp(i, n int) int {
	if i < 0 {
		return 0
	}
	if i >= n {
		return n - 1
	}
	return i
}

type vC09Held struct {
	m   *api.Metric
	exp int
}

func vC09Run(t *testing.T, c vC09Case) (string, []interface{}, map[string]int) {
	ctx, cancel := context.WithCancel(context.Background())
	defer cancel()
	peers := vC09Peers()
	h, err := libp2p.New(ctx, libp2p.ListenAddrStrings("/ip4/127.0.0.1/tcp/0"))
	if err != nil {
		t.Fatal(err)
	}
	defer h.Close()
	psub, err := pubsub.NewGossipSub(ctx, h, pubsub.WithMessageSigning(true), pubsub.WithStrictSignatureVerification(true))
	if err != nil {
		t.Fatal(err)
	}
	cfg := &Config{}
	cfg.Default()
	mon, err := New(ctx, cfg, psub, nil)
	if err != nil {
		t.Fatal(err)
	}
	// no SetClient: the monitor's own Watch loop and pubsub reader stay off; the harness drives the checker
	now := 0
	var held []vC09Held
	stats := map[string]int{}
	var terms []string
	var obs []interface{}
	nextID := 0
	setExpire := func(hh vC09Held) {
		if hh.exp < now {
			hh.m.Expire = time.Now().Add(-time.Hour).UnixNano()
		} else {
			hh.m.Expire = time.Now().Add(time.Hour).UnixNano()
		}
	}
	refresh := func() {
		for _, hh := range held {
			setExpire(hh)
		}
		// windows of >= 6 samples: keep the accrual detector at phi = 0 (equal one-hour gaps, newest sample
		// received just now), which is the verdict the model is given by default
		for n := 0; n < vC09NNames; n++ {
			for p := 0; p < vC09NPeers; p++ {
				ms := mon.metrics.PeerMetricAll("m"+strconv.Itoa(n), peers[p])
				if len(ms) < 6 {
					continue
				}
				newest := time.Now()
				for i, m := range ms {
					m.ReceivedAt = newest.Add(-time.Duration(i) * time.Hour).UnixNano()
				}
			}
		}
	}
	drain := func() (int, string) {
		var xs []string
		for {
			select {
			case a := <-mon.Alerts():
				name, _ := strconv.Atoi(strings.TrimPrefix(a.Name, "m"))
				id := "None"
				if a.Value != "" {
					v, _ := strconv.Atoi(a.Value)
					id = fmt.Sprintf("(Some %d%%N)", v)
				}
				xs = append(xs, fmt.Sprintf("((%d%%N, %d%%N), %s)", name, vC09PeerIdx(a.Peer), id))
			default:
				return len(xs), cqList(xs)
			}
		}
	}
	for _, o := range c.Ops {
		o.Name = vC09Clamp(o.Name, vC09NNames)
		o.Peer = vC09Clamp(o.Peer, vC09NPeers)
		var idx []int
		var ps []peer.ID
		for _, p := range o.Peers {
			p = vC09Clamp(p, vC09NPeers)
			idx = append(idx, p)
			ps = append(ps, peers[p])
		}
		switch o.Op {
		case "add":
			m := &api.Metric{Name: "m" + strconv.Itoa(o.Name), Peer: peers[o.Peer], Value: strconv.Itoa(nextID), Valid: o.Valid}
			hh := vC09Held{m, o.Exp}
			setExpire(hh)
			held = append(held, hh)
			if err := mon.LogMetric(ctx, m); err != nil {
				t.Fatal(err)
			}
			terms = append(terms, fmt.Sprintf("OAdd (mk_m %d%%N %d%%N %d%%N %s %s)", nextID, o.Name, o.Peer, cqBool(o.Valid), cqZ(int64(o.Exp))))
			nextID++
			stats["add"]++
		case "tick":
			if o.Dt < 0 {
				o.Dt = 0
			}
			now += o.Dt
			refresh()
			terms = append(terms, "OTick "+cqZ(int64(o.Dt)))
		case "peerset":
			switch o.Mode {
			case "err":
				mon.peers = func(context.Context) ([]peer.ID, error) { return nil, errors.New("no peerset") }
				terms = append(terms, "OPeerset PErr")
			case "some":
				cp := append([]peer.ID{}, ps...)
				mon.peers = func(context.Context) ([]peer.ID, error) { return cp, nil }
				terms = append(terms, "OPeerset (PSome "+cqListN(idx)+")")
			default:
				mon.peers = nil
				terms = append(terms, "OPeerset PNone")
			}
			stats["peerset-"+o.Mode]++
		case "checkpeers":
			refresh()
			mon.checker.CheckPeers(ps)
			n, tm := drain()
			stats[fmt.Sprintf("checkpeers-alerts-%d", n)]++
			terms = append(terms, fmt.Sprintf("OCheckPeers %s %s", cqListN(idx), tm))
			obs = append(obs, map[string]interface{}{"checkpeers": tm})
		case "checkall":
			refresh()
			mon.checker.CheckAll()
			n, tm := drain()
			stats[fmt.Sprintf("checkall-alerts-%d", n)]++
			terms = append(terms, "OCheckAll "+tm)
			obs = append(obs, map[string]interface{}{"checkall": tm})
		case "latest":
			refresh()
			ms := mon.LatestMetrics(ctx, "m"+strconv.Itoa(o.Name))
			ids := []int{}
			for _, m := range ms {
				v, _ := strconv.Atoi(m.Value)
				ids = append(ids, v)
			}
			stats[fmt.Sprintf("latest-len-%d", len(ids))]++
			terms = append(terms, fmt.Sprintf("OLatest %d%%N %s", o.Name, cqListN(ids)))
			obs = append(obs, map[string]interface{}{"latest": ids})
		}
	}
	return "CHist " + cqList(terms), obs, stats
}

func vC09Subset(r *vRand, pct int) []int {
	out := []int{}
	for p := 0; p < vC09NPeers; p++ {
		if r.chance(pct) {
			out = append(out, p)
		}
	}
	for i := len(out) - 1; i > 0; i-- {
		j := r.intn(i + 1)
		out[i], out[j] = out[j], out[i]
	}
	return out
}

func vC09Gen(r *vRand) vC09Case {
	var c vC09Case
	now := 0
	np := r.rng(2, vC09NPeers)
	for i, n := 0, r.rng(10, 45); i < n; i++ {
		switch x := r.intn(100); {
		case x < 42:
			o := vC09Op{Op: "add", Name: r.intn(vC09NNames), Peer: r.intn(np), Valid: !r.chance(12)}
			switch y := r.intn(100); {
			case y < 65:
				o.Exp = now + r.rng(1, 3)
			case y < 80:
				o.Exp = now
			default:
				o.Exp = now - r.rng(1, 3)
			}
			c.Ops = append(c.Ops, o)
		case x < 52:
			dt := r.rng(1, 3)
			now += dt
			c.Ops = append(c.Ops, vC09Op{Op: "tick", Dt: dt})
		case x < 66:
			switch y := r.intn(100); {
			case y < 15:
				c.Ops = append(c.Ops, vC09Op{Op: "peerset", Mode: "none"})
			case y < 30:
				c.Ops = append(c.Ops, vC09Op{Op: "peerset", Mode: "err"})
			case y < 40:
				c.Ops = append(c.Ops, vC09Op{Op: "peerset", Mode: "some", Peers: []int{}})
			default:
				c.Ops = append(c.Ops, vC09Op{Op: "peerset", Mode: "some", Peers: vC09Subset(r, r.rng(20, 90))})
			}
		case x < 90:
			c.Ops = append(c.Ops, vC09Op{Op: "latest", Name: r.intn(vC09NNames)})
		case x < 97:
			c.Ops = append(c.Ops, vC09Op{Op: "checkpeers", Peers: vC09Subset(r, 60)})
		default:
			c.Ops = append(c.Ops, vC09Op{Op: "checkall"})
		}
	}
	return c
}

func TestVerifPsmonC09(t *testing.T) {
	seed := uint64(vEnvInt("VERIF_SEED", 1))
	n := vEnvInt("VERIF_N", 60)
	out := newVOut("C09", "From V Require Import Base.Common Model.C09_Metrics Model.C09_Check.\nOpen Scope N_scope.",
		"(N * c09case)", "Definition R := Eval vm_compute in failing cases.\nPrint R.")
	out.idBase += 300000
	defer out.close()
	var cases []vC09Case
	if raw := vCasesIn(); raw != nil {
		for _, b := range raw {
			var c vC09Case
			if err := json.Unmarshal(b, &c); err != nil {
				t.Fatal(err)
			}
			cases = append(cases, c)
		}
	} else {
		r := newVRand(seed + 77)
		for i := 0; i < n; i++ {
			cases = append(cases, vC09Gen(r))
		}
	}
	for _, c := range cases {
		term, obs, stats := vC09Run(t, c)
		for k, v := range stats {
			for i := 0; i < v; i++ {
				out.count("psmon/" + k)
			}
		}
		out.add(term, c, obs, stats["add"] >= 2 && len(obs) >= 1)
	}
}
