//go:build verif

package optracker

// C18 stress scenario for the operation table and its per-operation mutex:
// "pinning, unpinning, status and recover on the tracker" at the level of the operation tracker.

import (
	"context"
	"errors"
	"time"

	"github.com/ipfs/ipfs-cluster/api"
	"github.com/ipfs/ipfs-cluster/test"

	cid "github.com/ipfs/go-cid"
)

// case ids of this package start here (one runner evidence table for all packages)
// directory of this package inside the repository (race signatures are made relative to the repository root)
const vC18PkgDir = "pintracker/optracker"

const vC18IDBase = 100

var vC18Plan = []vC18Scen{{Name: "optracker", Ms: 800, Workers: 8}}

var vC18Scenarios = map[string]func(x *vC18Ctx){"optracker": vC18OpTracker}

var vC18Cids = []cid.Cid{test.Cid1, test.Cid2, test.Cid3, test.Cid4}

func vC18CheckInfos(x *vC18Ctx, pis []*api.PinInfo) {
	seen := map[cid.Cid]bool{}
	for _, pi := range pis {
		if pi == nil || !pi.Cid.Defined() || seen[pi.Cid] || pi.Peer != test.PeerID1 || pi.Status == api.TrackerStatusUndefined || pi.TS.IsZero() {
			x.stat(0, 1) // nil, duplicated or half-filled entry
			continue
		}
		seen[pi.Cid] = true
		if pi.Status != api.TrackerStatusPinError && pi.Status != api.TrackerStatusUnpinError && pi.Status != api.TrackerStatusClusterError && pi.Error != "" {
			// status and error are read in two critical sections of the operation: a message can outlive
			// the error phase. Counted for the record (stat 2), not a violation of this property.
			x.stat(2, 0)
		}
	}
}

func vC18OpTracker(x *vC18Ctx) {
	x.deadline = time.Now().Add(time.Duration(x.scen.Ms) * time.Millisecond)
	ctx := context.Background()
	opt := NewOperationTracker(ctx, test.PeerID1, test.PeerName1)
	errX := errors.New("vc18 error")
	// writers: the life of an operation as the stateless tracker drives it
	for k := 0; k < x.scen.Workers/2; k++ {
		x.loop("track", k, func(r *vRand, i int) {
			c := vC18Cids[r.intn(len(vC18Cids))]
			typ := []OperationType{OperationPin, OperationUnpin, OperationRemote}[r.intn(3)]
			op := opt.TrackNewOperation(ctx, api.PinCid(c), typ, PhaseQueued)
			if op == nil {
				if r.chance(30) {
					opt.SetError(ctx, c, errX)
				}
				return
			}
			op.SetPhase(PhaseInProgress)
			switch r.intn(4) {
			case 0:
				op.SetError(errX)
				op.Cancel()
			case 1:
				op.SetPhase(PhaseDone)
				op.Cancel()
				opt.Clean(ctx, op)
			case 2:
				op.SetPhase(PhaseDone)
				opt.CleanAllDone(ctx)
			default:
				if op.Cancelled() {
					opt.Clean(ctx, op)
				}
			}
		})
	}
	for k := x.scen.Workers / 2; k < x.scen.Workers; k++ {
		x.loop("read", 100+k, func(r *vRand, i int) {
			c := vC18Cids[r.intn(len(vC18Cids))]
			switch r.intn(8) {
			case 0:
				if st, ok := opt.Status(ctx, c); ok && st == api.TrackerStatusUndefined {
					x.stat(0, 1)
				}
			case 1:
				if pi := opt.Get(ctx, c); pi == nil || !pi.Cid.Equals(c) {
					x.stat(0, 1)
				}
			case 2:
				if pi, ok := opt.GetExists(ctx, c); ok {
					vC18CheckInfos(x, []*api.PinInfo{pi})
				}
			case 3:
				vC18CheckInfos(x, opt.GetAll(ctx))
			case 4:
				vC18CheckInfos(x, opt.Filter(ctx, OperationPin))
			case 5:
				pis := opt.Filter(ctx, PhaseError, OperationUnpin)
				vC18CheckInfos(x, pis)
			case 6:
				for _, op := range opt.filterOps(ctx, PhaseInProgress) {
					if op == nil || op.Timestamp().IsZero() {
						x.stat(0, 1)
					}
					_ = op.String()
				}
			default:
				if opt.OpContext(ctx, c) == nil && r.chance(5) {
					_ = opt.String()
				}
			}
		})
	}
	x.wait()
}
