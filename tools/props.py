# Per-property specifications live in tools/propspec/Cxx.py (one file per property, each defines SPEC).
import os, glob, importlib.util

_D = os.path.join(os.path.dirname(os.path.abspath(__file__)), "propspec")
PROPS = {}
NOT_CLAIMED = {}
for _p in sorted(glob.glob(os.path.join(_D, "C*.py"))):
    _s = importlib.util.spec_from_file_location("propspec_" + os.path.basename(_p)[:-3], _p)
    _m = importlib.util.module_from_spec(_s)
    _s.loader.exec_module(_m)
    _id = os.path.basename(_p)[:-3]
    if hasattr(_m, "SPEC"):
        PROPS[_id] = _m.SPEC
    elif hasattr(_m, "NOT_APPLICABLE"):
        NOT_CLAIMED[_id] = _m.NOT_APPLICABLE
for _i in range(1, 19):
    _id = "C%02d" % _i
    if _id not in PROPS and _id not in NOT_CLAIMED:
        NOT_CLAIMED[_id] = "check not built yet in this session (work in progress; the technique applies, see DESIGN.md section 4)"
