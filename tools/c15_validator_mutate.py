#!/usr/bin/env python3
"""C15 validator / custom-rule mutations (round 5): writes docs/mutations/C15_V<k>_<name>.diff from textual edits applied in a
scratch worktree of the repository, and (with --run) runs ./check C15 --tier quick against each one, printing the VIOLATION
lines, the clauses named by the diagnosis and the minimised counterexample input.
usage: tools/c15_validator_mutate.py <scratch worktree> [--run] [names...]"""
import json, os, subprocess, sys, time
HERE = os.path.dirname(os.path.dirname(os.path.abspath(__file__)))
MUTS = [
 ("V1_pubsubmon_check_interval_lt", "monitor/pubsubmon/config.go", "if cfg.CheckInterval <= 0 {", "if cfg.CheckInterval < 0 {"),
 ("V2_stateless_concurrent_pins_dropped", "pintracker/stateless/config.go",
  "\tif cfg.ConcurrentPins <= 0 {\n\t\treturn errors.New(\"statelesstracker.concurrent_pins is too low\")\n\t}\n", ""),
 ("V3_raft_commit_retries_flipped", "consensus/raft/config.go", "if cfg.CommitRetries < 0 {", "if cfg.CommitRetries > 0 {"),
 ("V4_restapi_basic_auth_clause_dropped", "api/rest/config.go",
  "\tcase cfg.BasicAuthCredentials != nil && len(cfg.BasicAuthCredentials) == 0:\n\t\treturn errors.New(\"restapi.basic_auth_creds should be null or have at least one entry\")\n", ""),
 ("V5_ipfshttp_new_clause", "ipfsconn/ipfshttp/config.go", "\tif cfg.UnpinTimeout < 0 {",
  "\tif cfg.PinTimeout < time.Second {\n\t\terr = errors.New(\"ipfshttp.pin_timeout is too short\")\n\t}\n\n\tif cfg.UnpinTimeout < 0 {"),
 ("V6_cluster_early_return_nil", "cluster_config.go", "\tif cfg.ConnMgr.LowWater <= 0 {\n\t\treturn errors.New(\"cluster.connection_manager.low_water is invalid\")",
  "\tif cfg.FollowerMode {\n\t\treturn nil\n\t}\n\n\tif cfg.ConnMgr.LowWater <= 0 {\n\t\treturn errors.New(\"cluster.connection_manager.low_water is invalid\")"),
 ("V7_cluster_rf_helper_ge", "cluster_config.go", "\tif rplMin > rplMax {", "\tif rplMin >= rplMax {"),
 ("V8_badger_unfollowable_loop", "datastore/badger/config.go", "\tif cfg.GCDiscardRatio <= 0 || cfg.GCDiscardRatio >= 1 {",
  "\tfor _, c := range cfg.Folder {\n\t\tif c == ' ' {\n\t\t\treturn errors.New(\"folder has a space\")\n\t\t}\n\t}\n\n\tif cfg.GCDiscardRatio <= 0 || cfg.GCDiscardRatio >= 1 {"),
 ("V9_crdt_trusted_peers_continue", "consensus/crdt/config.go", "\t\t\tcfg.TrustedPeers = []peer.ID{}\n\t\t\tbreak\n", "\t\t\tcfg.TrustedPeers = []peer.ID{}\n\t\t\tcontinue\n"),
 ("V10_crdt_trusted_peers_save_literal", "consensus/crdt/config.go", "jcfg.TrustedPeers = []string{\"*\"}", "jcfg.TrustedPeers = []string{\"all\"}"),
 ("V12_cluster_low_water_ge", "cluster_config.go", "if cfg.ConnMgr.LowWater > cfg.ConnMgr.HighWater {", "if cfg.ConnMgr.LowWater >= cfg.ConnMgr.HighWater {"),
 ("V13_ipfshttp_pin_timeout_le", "ipfsconn/ipfshttp/config.go", "if cfg.PinTimeout < 0 {", "if cfg.PinTimeout <= 0 {"),
 ("V11_metrics_check_moved_out_of_guard", "observations/config.go",
  "\tif cfg.EnableStats {\n\t\tif cfg.PrometheusEndpoint == nil {\n\t\t\treturn errors.New(\"metrics.prometheus_endpoint is undefined\")\n\t\t}\n\t\tif cfg.ReportingInterval < 0 {\n\t\t\treturn errors.New(\"metrics.reporting_interval is invalid\")\n\t\t}\n\t}\n",
  "\tif cfg.ReportingInterval < 0 {\n\t\treturn errors.New(\"metrics.reporting_interval is invalid\")\n\t}\n\tif cfg.EnableStats {\n\t\tif cfg.PrometheusEndpoint == nil {\n\t\t\treturn errors.New(\"metrics.prometheus_endpoint is undefined\")\n\t\t}\n\t}\n"),
]
def sh(cmd, **kw):
    return subprocess.run(cmd, stdout=subprocess.PIPE, stderr=subprocess.STDOUT, universal_newlines=True, **kw)
def main():
    wt = sys.argv[1]
    run = "--run" in sys.argv
    names = [a for a in sys.argv[2:] if not a.startswith("--")]
    for name, path, old, new in MUTS:
        if names and not any(n in name for n in names):
            continue
        sh(["git", "-C", wt, "checkout", "--", "."])
        p = os.path.join(wt, path)
        s = open(p).read()
        assert s.count(old) == 1, (name, s.count(old))
        open(p, "w").write(s.replace(old, new))
        d = sh(["git", "-C", wt, "diff"]).stdout
        open(os.path.join(HERE, "docs", "mutations", "C15_%s.diff" % name), "w").write(d)
        if run:
            t = time.time()
            env = dict(os.environ, VERIF_REPO=wt, GOFLAGS="-mod=mod", GOPROXY="off", GOSUMDB="off", GOTOOLCHAIN="local")
            r = sh([os.path.join(HERE, "check"), "C15", "--tier", "quick"], cwd=HERE, env=env)
            lines = [l for l in r.stdout.splitlines() if l.startswith(("VIOLATION", "OK", "KNOWN"))]
            print("== %s: exit=%d %.0fs" % (name, r.returncode, time.time() - t))
            for l in lines:
                print("   " + l[:300])
                if "replay=" in l:
                    rp = l.split("replay=")[1].split()[0]
                    try:
                        o = json.load(open(rp))
                        if o.get("offending_entries"):
                            for e in o["offending_entries"]:
                                print("     named:", e[:400])
                        if o.get("case"):
                            print("     input:", json.dumps((o.get("case") or {}).get("input"))[:400], "| harness", o.get("harness"),
                                  "| observed ok=%s" % (o.get("observed") or {}).get("ok"))
                        if o.get("error"):
                            for el in str(o["error"]).splitlines():
                                if el.startswith("translator "):
                                    print("     " + el[:400])
                        if o.get("theorem_or_file"):
                            print("     broken:", str(o["theorem_or_file"])[:300])
                    except Exception as e:
                        print("     (replay unreadable: %s)" % e)
            sys.stdout.flush()
    sh(["git", "-C", wt, "checkout", "--", "."])
main()
