#!/bin/sh
# usage: mkoverlay.sh <worktree of ipfs-cluster>  -> prints the path of a go -overlay file that removes the two
# quic-go uses (clusterhost.go, api/rest/restapi.go), so that the root package, api/rest, cmdutils, test build with this Go.
set -e
W=$(cd "$1" && pwd)
D=/root/work/seedtools/ov_$(echo "$W" | tr '/' '_')
mkdir -p "$D"
grep -v libp2pquic "$W/clusterhost.go" > "$D/clusterhost.go"
grep -v libp2pquic "$W/api/rest/restapi.go" > "$D/restapi.go"
printf '{"Replace":{"%s/clusterhost.go":"%s/clusterhost.go","%s/api/rest/restapi.go":"%s/restapi.go"}}\n' "$W" "$D" "$W" "$D" > "$D/overlay.json"
echo "$D/overlay.json"
