STATELESS = {"dir": "pintracker/stateless", "pkgname": "stateless"}

SPEC = {
    "go": [dict(STATELESS, files=["stateless/c05_rig_test.go", "stateless/c05_test.go"], test="TestVerifC05",
                n_quick=320, n_thorough=8000, shards_quick=4, shards_thorough=64, timeout_quick=600, timeout_thorough=2400)],
    "rule": "generated: event scripts (4..14 events + a heal or drain suffix) of track/untrack/recover/recoverall/complete(ok|fault)/"
            "daemon-change over 1..4 CIDs (local, everywhere, remote, meta; recursive and direct), queue sizes 1..3, 1..2 pin workers, "
            "arbitrary initial shared state and daemon content; the next event is chosen looking at the calls in flight. "
            "thorough tier adds every script of 5 events over one CID and of 3 events over two CIDs (two worker counts). "
            "non-trivial = an instruction issued while a call for the same CID was in flight, or an injected IPFS failure; "
            "distinct = distinct canonical JSON of the script",
    "codes": {1: "model_eq_impl (C05 tracker: status, listing, daemon, calls in flight after every event)",
              10: "spec_okb converged-or-error at quiescence (C05)",
              11: "spec_okb instruction queued or reported as error (C05)",
              13: "spec_okb recover round heals (C05)",
              14: "spec_okb re-issued pin carries the recorded options (C05)"},
    "tags": {},
    "trusted": ["harness/stateless/c05_rig_test.go: blocking scripted IPFSConnector RPC service = connector + daemon contract of DESIGN C16 "
                "(already pinned as asked: no-op; recursive over direct upgrades; direct over recursive refused; unpin tolerant; a cancelled call has no effect)",
                "settle detection by goroutine dump (worker parked in opWorker select / blocked in the fake)",
                "Go channel semantics: a send to a channel with a parked receiver hands the value over (eager dispatch)"],
    "level_text": "Theorems (Props/C05.v, closed) over a small-step Gallina model of stateless.Tracker + optracker for every event schedule, "
                  "fault placement, queue size and worker count; the model is stepped along every script the harness runs on the real Tracker and "
                  "compared after every event; the implementation's own observations are checked against the boolean form of the property (codes 10/11/13/14), "
                  "which is proved sound (conv_/inst_/heal_/opts_monitor_sound: a code not produced implies the Prop-level clause at every observation; monitor_shared_state: "
                  "the monitor's record of the shared state is the model's pinset / last along every script); and complete for the model (tracker_model_passes_monitor: for every queue size, worker count > 0, initial pins and daemon content and every script over the listed cids, the observation trace computed from the model raises no code; monitor_quiescence_agrees: the monitor's observational quiescence is the model's `quiescent`)",
    "level_note": "model tied to code by differential testing (generator-bounded); IPFS connector/daemon behaviour is the assumed contract of C16; "
                  "a cancelled IPFS call is assumed to have no daemon effect",
    "assumptions": ["connector/daemon contract of C16", "a cancelled IPFS call has no effect on the daemon",
                    "every change of the shared state is followed by the matching Track/Untrack (as the consensus layer does)",
                    "a CID does not change between meta and non-meta without being unpinned first (Cluster.pin enforces it)"],
}
