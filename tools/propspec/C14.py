RAFT = {"dir": "consensus/raft", "pkgname": "raft"}

SPEC = {
    "go": [dict(RAFT, files=["raft/c14_rig_test.go", "raft/c14_raft_test.go", "raft/c14_snap_test.go"], test="TestVerifC14Raft",
                n_quick=150, n_thorough=3000, shards_quick=4, shards_thorough=12)],
    "rule": "TODO",
    "codes": {1: "model_eq_impl (C14)", 10: "backup_rotation step (C14)", 11: "backup_rotation history (C14)"},
    "tags": {},
    "trusted": [],
    "level_text": "TODO",
    "level_note": "TODO",
    "assumptions": [],
}
