RAFT = {"dir": "consensus/raft", "pkgname": "raft"}
PSTORE = {"dir": "pstoremgr", "pkgname": "pstoremgr"}
DSSTATE = {"dir": "state/dsstate", "pkgname": "dsstate"}
CMDUTILS = {"dir": "cmdutils", "pkgname": "cmdutils"}

SPEC = {
    "go": [dict(RAFT, files=["raft/c14_rig_test.go", "raft/c14_raft_test.go", "raft/c14_snap_test.go"], test="TestVerifC14Raft",
                n_quick=150, n_thorough=3000, shards_quick=4, shards_thorough=12),
           dict(PSTORE, files=["pstoremgr/c14_pstore_test.go"], test="TestVerifC14Pstore",
                n_quick=400, n_thorough=6000, shards_quick=2, shards_thorough=8),
           dict(DSSTATE, files=["dsstate/c14_pins.go", "dsstate/c14_dsstate_test.go"], test="TestVerifC14Dsstate",
                n_quick=200, n_thorough=4000, shards_quick=1, shards_thorough=4),
           dict(CMDUTILS, files=["cmdutils/c14_export_test.go"], test="TestVerifC14Cmdutils",
                n_quick=60, n_thorough=600, shards_quick=1, shards_thorough=4)],
    "rule": "TODO",
    "codes": {1: "model_eq_impl (C14)", 10: "backup_rotation step (C14)", 11: "backup_rotation history (C14)",
              12: "peerstore_skips_garbage (C14): LoadPeerstore returned a nil address or the import crashed",
              14: "marshal_unmarshal_id (C14): Marshal then Unmarshal onto an empty store does not reproduce the pinset",
              15: "snapshot_offline_id (C14): a saved snapshot does not read back (offline / raw / started peer) as the saved pinset",
              16: "export_complete (C14): the exported stream is not exactly the pinset",
              17: "export_import_id (C14): export then import does not reproduce the pinset",
              18: "import_never_panics (C14): ImportState took the process down",
              13: "peerstore_roundtrip (C14): the saved file does not read back as the same addresses in the same priority order"},
    "tags": {1: "origins-undecodable-import", 2: "crdt-import-empty-panics"},
    "trusted": [],
    "level_text": "TODO",
    "level_note": "TODO",
    "assumptions": [],
}
