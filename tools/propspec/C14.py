RAFT = {"dir": "consensus/raft", "pkgname": "raft"}
PSTORE = {"dir": "pstoremgr", "pkgname": "pstoremgr"}

SPEC = {
    "go": [dict(RAFT, files=["raft/c14_rig_test.go", "raft/c14_raft_test.go", "raft/c14_snap_test.go"], test="TestVerifC14Raft",
                n_quick=150, n_thorough=3000, shards_quick=4, shards_thorough=12),
           dict(PSTORE, files=["pstoremgr/c14_pstore_test.go"], test="TestVerifC14Pstore",
                n_quick=400, n_thorough=6000, shards_quick=2, shards_thorough=8)],
    "rule": "TODO",
    "codes": {1: "model_eq_impl (C14)", 10: "backup_rotation step (C14)", 11: "backup_rotation history (C14)",
              12: "peerstore_skips_garbage (C14): LoadPeerstore returned a nil address or the import crashed",
              13: "peerstore_roundtrip (C14): the saved file does not read back as the same addresses in the same priority order"},
    "tags": {},
    "trusted": [],
    "level_text": "TODO",
    "level_note": "TODO",
    "assumptions": [],
}
