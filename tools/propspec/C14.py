RAFT = {"dir": "consensus/raft", "pkgname": "raft"}
PSTORE = {"dir": "pstoremgr", "pkgname": "pstoremgr"}
DSSTATE = {"dir": "state/dsstate", "pkgname": "dsstate"}
CMDUTILS = {"dir": "cmdutils", "pkgname": "cmdutils"}

SPEC = {
    "go": [dict(RAFT, files=["raft/c14_rig_test.go", "raft/c14_raft_test.go", "raft/c14_snap_test.go"], test="TestVerifC14Raft",
                n_quick=150, n_thorough=3000, shards_quick=4, shards_thorough=12, timeout_thorough=2400),
           dict(PSTORE, files=["pstoremgr/c14_pstore_test.go"], test="TestVerifC14Pstore",
                n_quick=400, n_thorough=6000, shards_quick=2, shards_thorough=8),
           dict(DSSTATE, files=["dsstate/c14_pins.go", "dsstate/c14_dsstate_test.go"], test="TestVerifC14Dsstate",
                n_quick=200, n_thorough=4000, shards_quick=1, shards_thorough=4),
           dict(CMDUTILS, files=["cmdutils/c14_export_test.go"], test="TestVerifC14Cmdutils",
                n_quick=60, n_thorough=600, shards_quick=1, shards_thorough=4)],
    "rule": "raft/backup: EXHAUSTIVE box keep in 1..4 x every subset of pre-existing old.0..old.5 x histories of 1..6 cleans with a snapshot "
            "(quick: the 6-step all-snapshot history, observed after every step; thorough: all 64 snapshot/no-snapshot patterns of length 6) "
            "plus random histories (keep 1..6, absent / bare / snapshot-bearing data folder, CleanupRaft or makeBackup); non-trivial = >= 2 rotations, "
            "or >= 1 rotation onto pre-existing backups. raft/snap: random histories of SnapshotSave / CleanupRaft / bare folder / extra newer snapshot "
            "over random pinsets (all pin types, depths, options, origins), every folder read back offline, plus real Consensus peers started on a saved "
            "snapshot; non-trivial = >= 1 save of a non-empty pinset. pstoremgr: 60% arbitrary files (valid / blank / comment / garbage / '/'-garbage / "
            "self / duplicate / no-transport / no-/p2p lines, shuffled), non-trivial = >= 2 parsed lines and >= 1 skipped or garbage line; 40% save->load "
            "round trips (ip / dns / mixed / multi-address peers, distinct, tied, missing and 9999 priorities, permuted query), non-trivial = >= 2 peers saved. "
            "dsstate: random pinsets of 0..16 pins x namespaces, non-trivial = >= 2 pins. cmdutils: export->import through the raft, badger and leveldb "
            "state managers onto empty or populated destinations, 30% with an edited stream (garbage / duplicate / dropped / swapped lines), "
            "non-trivial = >= 2 pins and no origins. distinct = distinct canonical JSON of the input",
    "codes": {1: "model_eq_impl (C14)", 10: "backup_rotation step (C14)", 11: "backup_rotation history (C14)",
              12: "peerstore_skips_garbage (C14): LoadPeerstore returned a nil address or the import crashed",
              14: "marshal_unmarshal_id (C14): Marshal then Unmarshal onto an empty store does not reproduce the pinset",
              15: "snapshot_offline_id (C14): a saved snapshot does not read back (offline / raw / started peer) as the saved pinset",
              16: "export_complete (C14): the exported stream is not exactly the pinset",
              17: "export_import_id (C14): export then import does not reproduce the pinset",
              18: "import_never_panics (C14): ImportState took the process down",
              13: "peerstore_roundtrip (C14): the saved file does not read back as the same addresses in the same priority order"},
    "tags": {1: "origins-undecodable-import"},
    "trusted": ["file-system semantics of os.Rename / os.RemoveAll / os.Stat (directories are moved whole; a removed path is gone)",
                "hashicorp/raft FileSnapshotStore (newest snapshot first; CRC-checked payload), raft-boltdb, go-libp2p-raft EncodeSnapshot",
                "go-multiaddr / go-libp2p-core parsers: NewMultiaddr, String, SplitAddr, AddrInfoToP2pAddrs (abstract total parsers; their outcome per line is an input of the model; print->parse round trip exercised on the real file every run)",
                "libp2p memory peerstore: address sets per peer, one metadata value per (peer, key)",
                "per-pin codecs (protobuf, encoding/json, msgpack entries): property C08; at this level a pin is (cid, content id, #origins) and a JSON line decodes iff #origins = 0",
                "go-ds-crdt / badger / leveldb as the crdt manager's store (Clean deletes the namespace; an uncommitted batch writes nothing)",
                "harness canonical pin printer (harness/dsstate/c14_pins.go VC14Canon): two pins get the same content id iff every field prints the same"],
    "level_text": "Theorems (Props/C14.v, 31, all closed under the global context) over Gallina transcriptions of data_helper.go makeBackup/listBackups, "
                  "raft.go CleanupRaft/SnapshotSave/LastStateRaw, consensus.go OfflineState, dsstate Marshal/Unmarshal, cmdutils exportState/importState and "
                  "both state managers, pstoremgr Load/Save/ImportPeers/PeerInfos: rotation for every retention >= 1, every pre-existing set of backups and "
                  "every history; snapshot/offline and marshal/unmarshal identity for every pinset and every datastore order; export->import identity under the "
                  "no-origins guard (full statement refuted: S19), for both managers and every pinset, the empty one included (crdt: fix-S33); peerstore round trip "
                  "for whatever PeerInfos returns from any reachable peerstore, garbage lines skipped for every file. Each transcription is compared with the real "
                  "functions on real directories, files, hosts and stores at every run, and the implementation's own observations are checked against the boolean "
                  "form of each clause. Monitor theorems (Proofs/C14_Monitor.v): for each of the six case kinds, the case annotated with the model's own outputs "
                  "raises no code for every input (backup/snapshot: keep <= listed window; snapshot/export: interned cid-sorted pinset table; export: outside the "
                  "S19 shape, inside it only code 17 with the finding's tag), and absence of each code 10..18 implies its Prop-level clause",
    "level_note": "models tied to code by differential testing (generator-bounded; the backup box is exhaustive for keep 1..4 x 64 backup sets x 1..6 cleans); "
                  "per-pin codecs abstracted (C08); Unmarshal onto a non-empty store is C01 (S1); one finding carried as a refuted/partial pair "
                  "(origins-undecodable-import); crdt-import-empty-panics repaired (fix-S33)",
    "assumptions": ["peerstore lines are shorter than bufio.MaxScanTokenSize (64 KiB); a longer line stops the scan (logged), the rest of the file is not read",
                    "no /dnsaddr line in the peerstore file (ImportPeer resolves it over the network)",
                    "the pstoremgr Manager has a non-nil host (with a nil host ImportPeers dereferences it in SetPriority; cmdutils only calls LoadPeerstore on such a manager)",
                    "retention BackupsRotate >= 1 (Config.Validate rejects <= 0; makeBackup would index backups[-1])",
                    "old.i entries are directories created by earlier rotations (a rename onto a non-empty directory fails)",
                    "address order inside one peer's DNS address list is unspecified (peerstore map order) and compared as a set"],
}
