API = {"dir": "api", "pkgname": "api"}

SPEC = {
    "go": [dict(API, files=["api/c08_rig_test.go", "api/c08_generic_test.go", "api/c08_probe_test.go", "api/c08_test.go"], test="TestVerifC08",
                n_quick=1200, n_thorough=48000, shards_quick=6, shards_thorough=16)],
    "rule": "wip",
    "codes": {1: "model_eq_impl (C08 codecs)",
              10: "pb_roundtrip (stored protobuf form of a well-formed pin)",
              11: "pb_decode_total (a decoded stored form is re-encodable and stable)",
              12: "query_roundtrip (ToQuery / FromQuery of well-formed options)",
              13: "query_decode_stable (options decoded from a query re-encode to themselves)",
              14: "names_roundtrip (status filter / pin type / pin mode through its string form)",
              15: "msgpack_roundtrip (a well-formed record through the msgpack codec)",
              16: "json_roundtrip (a well-formed record through encoding/json)",
              17: "equals_detects_every_field (Pin.Equals / PinOptions.Equals against field-by-field sameness)"},
    "gen": ["C08Status", "C08Tags"],
    "force": ["Gen/C08Status.v", "Gen/C08Tags.v", "Model/C08_Status.v", "Proofs/C08_Status.v", "Model/C08_Check.v"],
    "diag": True,
    "tags": {1: "origins-undecodable"},
    "trusted": [],
    "level_text": "wip",
    "level_note": "wip",
    "assumptions": [],
}
