API = {"dir": "api", "pkgname": "api"}

SPEC = {
    "go": [dict(API, files=["api/c08_rig_test.go", "api/c08_generic_test.go", "api/c08_fuzz_test.go", "api/c08_addparams_test.go", "api/c08_test.go"],
                test="TestVerifC08", n_quick=1680, n_thorough=67200, shards_quick=6, shards_thorough=16),
           dict(dir="consensus/raft", pkgname="raft", files=["c08_pins_test.go.tmpl", "raft/c08_logop_test.go"],
                test="TestVerifC08LogOp", n_quick=260, n_thorough=6000, shards_quick=4, shards_thorough=12),
           dict(dir="state/dsstate", pkgname="dsstate", files=["c08_pins_test.go.tmpl", "dsstate/c08_snap_test.go"],
                test="TestVerifC08Snap", n_quick=80, n_thorough=2000, shards_quick=2, shards_thorough=8),
           dict(dir="cmdutils", pkgname="cmdutils", files=["c08_pins_test.go.tmpl", "cmdutils/c08_import_test.go"],
                test="TestVerifC08Import", n_quick=80, n_thorough=2000, shards_quick=2, shards_thorough=8)],
    "rule": "generated values pushed through the real codecs, one stream per boundary: pb = pins of every type/depth (0..4 allocations "
            "and origins, metadata incl. empty and non-ASCII keys, CIDv0/v1 references, expiry zero / unix-zero / negative / sub-second / "
            "year 10000, int32/uint64 boundaries, invalid UTF-8, invalid peer IDs) through ProtoMarshal/ProtoUnmarshal; pbmsg = arbitrary "
            "protobuf messages (absent options, enum out of range, junk byte fields, decode onto a used value) through ProtoUnmarshal and "
            "back; q = options through ToQuery/url/FromQuery; qraw = arbitrary queries (replication override, expire-in, meta- keys, bad "
            "numbers) through FromQuery; st/straw/pt/md = status masks, raw status strings, pin types, modes through their names; mp/js = "
            "reflect-built values of 21 record types through ugorji msgpack and encoding/json; eq = a pin against a one-field mutation of "
            "itself through Equals; wire = protobuf messages against the byte-level model (the model writer must produce the library's bytes, the model reader must read them back); plus a malformed-bytes stream (>= 20000 inputs per decoder family, counted under fuzz:*). "
            "logop (package consensus/raft) = sequences of 2..6 Raft log entries (pin / unpin / unknown type) of rich pins of every type, depth, CID version, "
            "factors 0 / -1 / n, names, metadata, expiry, references, pin-update, where later pins leave EMPTY what earlier ones set, encoded and decoded "
            "with go-libp2p-raft's own encode/decode into ONE shared LogOp and applied with the real LogOp.ApplyTo on a dsstate (plus the same bytes through the real "
            "FSM.Apply), the pin handed to the tracker and the pin read back from the state per entry; onto = a pin decoded straight on top of another; "
            "ap = add parameters (every boolean both ways, shard size / replication 0, default and other, empty and non-empty name / chunker / hash / layout / format, cid-version 0 / 1 / "
            "negative / int boundaries, and 25 % with every member at its zero value) through the real ToQueryString, url.ParseQuery and AddParamsFromQuery; apraw = arbitrary queries "
            "(absent keys, every spelling strconv.ParseBool accepts, unparsable texts, keys of the embedded options incl. the replication override) through AddParamsFromQuery; "
            "mpo / jso = a value B of each of the 21 record types decoded by ugorji msgpack / encoding/json INTO a destination that already holds a value A of the type (A mostly full, "
            "B mostly sparse: empty members, nil pointers, shorter lists, other map keys), against dec_onto; snap (package state/dsstate) = pinsets of 2..7 different pins through the real "
            "State.Marshal and State.Unmarshal onto the in-memory datastore, every pin read back; import (package cmdutils) = pinsets of 2..7 pins with different metadata through the real "
            "exportState and importState, every pin read back; "
            "non-trivial = the value sets at least two optional fields (pb), every mpo / jso case, >= 2 stored pins (snap; import: >= 2 with metadata), a later entry empties a field of an earlier one (logop, onto), any list/map/expiry (q), a multi-bit mask (st), every "
            "mp/js/eq/pbmsg case; distinct = distinct canonical JSON of the input",
    "codes": {1: "model_eq_impl (C08 codecs)",
              10: "pb_roundtrip (stored protobuf form of a well-formed pin)",
              11: "pb_decode_total (a decoded stored form is re-encodable and stable)",
              12: "query_roundtrip (ToQuery / FromQuery of well-formed options)",
              13: "query_decode_stable (options decoded from a query re-encode to themselves)",
              14: "names_roundtrip (status filter / pin type / pin mode through its string form)",
              15: "msgpack_roundtrip (a well-formed record through the msgpack codec)",
              16: "json_roundtrip (a well-formed record through encoding/json)",
              17: "equals_detects_every_field (Pin.Equals / PinOptions.Equals against field-by-field sameness)",
              21: "logop_reuse_roundtrip (a well-formed Raft log entry, decoded into the FSM's one shared LogOp and applied, hands the tracker the submitted pin "
                  "and stores its protobuf form, whatever the earlier entries were)",
              23: "addparams_query_roundtrip (add parameters well-formed for the query form come back from ToQueryString / AddParamsFromQuery as themselves, up to PinUpdate, "
                  "empty metadata keys and an empty chunker / hash read as the default)",
              22: "stream_fresh_roundtrip (a stream of records decoded in a loop - snapshot of a pinset through State.Marshal / Unmarshal, state export / import - "
                  "hands every well-formed pin back as its own stored form, whatever record was decoded before it)",
              20: "decoder_total (a malformed input makes a decoder panic or yield a value that cannot be re-encoded)"},
    "tags": {1: "origins-undecodable"},
    "gen": ["C08Status", "C08Tags"],
    "force": ["Gen/C08Status.v", "Gen/C08Tags.v", "Model/C08_Status.v", "Proofs/C08_Status.v", "Model/C08_Reuse.v", "Proofs/C08_Reuse.v", "Model/C08_Check.v"],
    "diag": True,
    "trusted": [
        "byte formats: google.golang.org/protobuf (proto3 wire, UTF-8 check of string fields), ugorji/go/codec msgpack with the default handle, "
        "encoding/json, net/url Values.Encode/ParseQuery: a written field map is read back as the same field map",
        "parsers/printers of leaf types are mutually inverse on what they accept (cid.Cast/Bytes/Decode/String, peer.IDFromBytes/Decode/Encode, "
        "multiaddr.NewMultiaddr(Bytes)/String/Bytes, time MarshalText/UnmarshalText, time.ParseDuration); their accept/reject outcome on the "
        "texts of a case is an input of the model (oracle), recomputed by the harness with the real parsers",
        "a value is identified with its canonical text (non-canonical but accepted texts are skipped by the raw-query stream and counted)",
        "tools/gen/c08_status.go and c08_tags.go (syntactic translators of the constant table and the struct tags; embedded structs promoted as Go does; "
        "the LogOp rows come from consensus/raft/log_op.go, its span-context field - a struct of the tracing library, omitempty, zero unless tracing is on - is not described "
        "and the harness checks that it never appears on the wire)",
        "decoding into a value in use (Model/C08_Reuse.v dec_onto, rules of ugorji msgpack and of encoding/json) is compared with the real decoders on every record type at every run (streams mpo / jso); "
        "outside the model: an empty collection is the nil one (a non-nil empty map on the wire would not reset the destination), and the backing arrays both libraries keep "
        "(elements between an earlier length and the capacity of a slice; a []byte decoded into the old array, which is how the seeded State.Unmarshal change corrupts stored values: "
        "seen by stream snap on the real code, not by the model)",
        "the malformed-input stream is fuzzing (a test, not a theorem): absence of panics is sampled",
    ],
    "level_text": "34 theorems (Props/C08.v, all closed) over Gallina transcriptions of ProtoMarshal/ProtoUnmarshal/convertPinType, ToQuery/FromQuery and AddParams.ToQueryString/AddParamsFromQuery with "
                  "real string split/join and decimal printing/parsing, TrackerStatus.String/FromString over the constant table regenerated from the "
                  "source, the msgpack/JSON field maps over the struct-tag table regenerated from the source (one generic round-trip theorem for every "
                  "well-formed tag table, instantiated on the current one), Pin.Equals/PinOptions.Equals, (growth item) a byte-level proto3 writer/reader of the stored pin, and the Raft FSM loop that decodes every log entry into one shared LogOp (decoding onto a used value, LogOp.ApplyTo with its reset of op.Cid: every well-formed entry comes out as itself whatever preceded it; refuted without the reset), decoding onto a used destination for both codecs and the record streams of State.Unmarshal / importState (fresh destination per record: identity; one destination for the stream: refuted for both codecs); each transcription is compared with the "
                  "real code on generated values at every run and the implementation's own output is checked against the boolean form of the property",
    "level_note": "byte-level msgpack/JSON/url encoders are trusted libraries (the protobuf wire format of the stored pin is modelled and proved as a growth item); models tied to code by differential testing (generator-bounded) and two translators; "
                  "S19 (origins undecodable from msgpack/JSON) is a finding: full statement refuted, partial statement proved; decoder totality on raw "
                  "bytes is fuzzed, not proved",
    "assumptions": ["decoding into a fresh value everywhere except the Raft log, where the reuse of one LogOp by go-libp2p-raft's FSM is modelled (C08_Reuse) and driven on the real code; what FSM.Apply does after an entry that does not decode (rollback branch) is C01's",
                    "time.Time values within the range where Unix() does not overflow",
                    "Go map iteration order is arbitrary: theorems quantify over it, comparisons sort"],
}
