import os

_REPO = os.environ.get("VERIF_REPO", "/repo")


def _fsm_variant():
    # R1 builds the hashicorp/raft instances itself, so it must hand them the same FSM value NewConsensus hands to
    # newRaftWrapper. When consensus/raft defines the restore-clearing wrapper (fix of S1) the harness uses it,
    # otherwise go-libp2p-raft's FSM as is. (R2 goes through the real NewConsensus and needs no such choice.)
    try:
        src = open(os.path.join(_REPO, "consensus/raft/consensus.go")).read()
    except OSError:
        src = ""
    return "raft/c01_fsm_fixed_test.go" if "type restoreFSM struct" in src else "raft/c01_fsm_asis_test.go"


RAFT = {"dir": "consensus/raft", "pkgname": "raft"}
FILES = ["raft/c01_rig_test.go", _fsm_variant(), "raft/c01_test.go", "raft/c01_r2_test.go", "raft/c17_test.go", "raft/c01_r3_test.go"]

SPEC = {
    "go": [dict(RAFT, files=FILES, test="TestVerifC01",
                n_quick=120, n_thorough=2000, shards_quick=4, shards_thorough=12, timeout_quick=600, timeout_thorough=3000),
           dict(RAFT, files=FILES, test="TestVerifR2C01",
                n_quick=2, n_thorough=12, shards_quick=1, shards_thorough=1, timeout_quick=600, timeout_thorough=1500),
           dict(RAFT, files=FILES, test="TestVerifR3C01",
                n_quick=2, n_thorough=40, shards_quick=1, shards_thorough=1, timeout_quick=600, timeout_thorough=1500)],
    "rule": "generated scripts on 1..3 real hashicorp/raft nodes (in-memory stores/transports) with the real go-libp2p-raft FSM, "
            "dsstate and LogOp: pin/unpin of rich random pins over 2..4 cids submitted at leader and followers, partitions, "
            "snapshots (also with Persist held back, also with a leader snapshot installed meanwhile), the leader's snapshot delivered again to a "
            "follower that is ahead of it (backward install), restarts, the pinset after every FSM step, "
            "the real OfflineState on a file-store copy of a member's newest own snapshot; plus boundary-value pins, "
            "malformed entries and pins with origins; and (R2) the real NewConsensus over libp2p + boltdb, 1 and 3 peers, with shutdown, "
            "restart on the same folder, install onto a restarted follower, OfflineState, a LogPin submitted to a member while it shuts down "
            "(placed by a pass-through datastore at the point where the final snapshot is written); and (R3) kill -9 of a child process running a "
            "1-peer consensus at a chosen acknowledgement, restart on the same folder. non-trivial = at least two ops on one cid reached the committed log and "
            "some replica restored a snapshot or restarted; distinct = distinct canonical JSON of the script",
    "codes": {1: "model_eq_impl (C01: Gallina FSM/LogOp/dsstate model driven by the observed Raft schedule)",
              2: "spec_okb (C01: every replica = replay of a prefix of the one committed sequence, nothing skipped, acknowledged ops "
                 "in the sequence and visible on the committer (the member whose CommitOp returned nil), tracker told what is stored, "
                 "OfflineState = the prefix its newest snapshot is labelled with, nothing acknowledged at a member lies above the "
                 "snapshots it has persisted when its Shutdown has returned)"},
    "tags": {1: "origins-undecodable-raft", 3: "snapshot-persist-not-point-in-time"},
    "trusted": ["harness/raft/c01_rig_test.go: guard FSM (records Apply/Snapshot/Persist/Restore under one mutex, recovers panics), "
                "recording PinTracker RPC service, redirect service standing for ConsensusRPCAPI (it names the committer of an acknowledged op), "
                "in-memory snapshot store (complete snapshots only, newest = highest (term, index) as hashicorp's file store); the model's store holds persisted and installed snapshots alike",
                "hashicorp/raft v1.1.1 (replication, commitment, snapshot install - in either direction: nothing is assumed about a snapshot "
                "being installed only on a replica that is behind it; it was observed not to hold), its in-memory stores and transport; "
                "the rig's re-sent InstallSnapshot request (leader's identity, term and newest snapshot) stands for the leader's duplicate",
                "harness/raft/c01_r2_test.go: pass-through datastore that starts a LogPin when the shutdown snapshot enumerates the pinset",
                "ugorji msgpack and golang protobuf byte formats"],
    "level_text": "Theorems (Props/C01.v) over the Gallina transcription of FSM.Apply/Snapshot/Persist/Restore, LogOp.ApplyTo, "
                  "dsstate Marshal/Unmarshal and ProtoMarshal/ProtoUnmarshal for every log and every schedule of apply, snapshot, "
                  "install and restart events; the transcription is driven by the schedule observed on real Raft nodes at every run. Monitor theorems "
                  "(Proofs/C01_Monitor.v, for every trace): spec_okb accepted => the Prop-level reading trace_spec; implementation = model on a "
                  "well-formed trace (code 1 absent) with tag_of = 0 (the recognisers of S19 and S23 are the guard) => every monitor conjunct the model "
                  "speaks about (all but C17's OReady; acknowledgements included), i.e. no untagged code-2 failure on a trace the model accepts; "
                  "the model enables an acknowledgement only when the command is in the log below what its committer has applied "
                  "(raft_ack_visible_on_committer, raft_ack_in_committer_pinset); a shutdown that takes its final snapshot with nothing committed "
                  "in between (shutdownLock) leaves every op acknowledged at the member in OfflineState and in the state restored from disk "
                  "(raft_shutdown_loses_nothing_acknowledged; at run time the model's OStopped step is enabled only then, and raft_stop_monitor_sound reads the monitor's clause back on OfflineState and on the restarted member)",
    "level_note": "partial: commitment, durability of acknowledged entries and the single committed sequence are hashicorp/raft's "
                  "(assumed by the model, sampled by the rigs); model tied to code by differential testing",
    "assumptions": ["hashicorp/raft applies committed entries in index order (again from the snapshot's index after an install, which may be "
                    "below what the replica had applied) and installs only snapshots it persisted",
                    "an entry acknowledged by Raft.Apply stays in the log (raft-boltdb durability)"],
}
