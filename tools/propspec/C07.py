ROOT = {"dir": "", "pkgname": "ipfscluster"}

SPEC = {
    "go": [dict(ROOT, files=["root/rig_test.go", "root/rig_c07_test.go", "root/c07_test.go"], test="TestVerifC07",
                n_quick=2, n_thorough=40, shards_quick=2, shards_thorough=8, timeout_quick=600)],
    "gen": ["Policy", "RPCMethods"],
    "force": ["Model/C07_Tables.v", "Model/C07_Check.v", "Proofs/C07_Tables.v"],
    "diag": True,
    "exhaustive": True,
    "rule": "x",
    "codes": {1: "model_eq_impl (C07)", 2: "spec_okb (C07)"},
    "trusted": [],
    "level_text": "x", "level_note": "x", "assumptions": [],
}
