ROOT = {"dir": "", "pkgname": "ipfscluster"}
CRDT = {"dir": "consensus/crdt", "pkgname": "crdt"}

SPEC = {
    "go": [dict(ROOT, files=["root/rig_test.go", "root/rig_c07_test.go", "root/c07_test.go"], test="TestVerifC07",
                n_quick=2, n_thorough=40, shards_quick=2, shards_thorough=8, timeout_quick=600, timeout_thorough=1500),
           dict(CRDT, files=["crdt/c07_test.go"], test="TestVerifCrdtC07",
                n_quick=8, n_thorough=120, shards_quick=1, shards_thorough=4, timeout_quick=600, timeout_thorough=1500)],
    "gen": ["Policy", "RPCMethods"],
    # everything that depends on Gen/ is recompiled at every run
    "force": ["Model/C07_Tables.v", "Model/C07_CheckSpec.v", "Model/C07_Check.v", "Proofs/C07_Tables.v"],
    "diag": True,
    # when a Gen table cannot be regenerated Model/C07_Check.v does not compile: the cases are still evaluated against the
    # Gen-independent part (code 2 on the specification tables, trust observations)
    "check_fallback": {"primary": "Model.C07_Check", "fallback": "Model.C07_CheckSpec"},
    "exhaustive": True,
    "rule": "exhaustive grid: every endpoint found by reflection on the five registered service objects (50) x caller {the peer itself, "
            "remote B, remote C} x trust configuration {raft; crdt list=[B]; crdt empty list; crdt '*'; after Trust(C); after Distrust(B)} "
            "= 900 real RPCs, plus VERIF_N generated crdt configurations (random list, '*', random Trust/Distrust history) x 150 RPCs; "
            "call sequences (kind authseq), each on its own fresh peer: caller calls an endpoint, Trust/Distrust calls are made on the real consensus component, the same "
            "caller calls the same endpoint again (up to 4 calls): 17 fixed (Trust->Distrust->Trust and Distrust->Trust->Distrust on 4 trusted, 1 open, 1 closed endpoint; "
            "operations on another peer; raft; '*'; the peer itself) + 5*VERIF_N generated (mostly crdt with an explicit list, 70% trusted / 15% open / 15% closed endpoints); "
            "package crdt: every prefix of generated Trust/Distrust histories on 5 fixed + VERIF_N generated configurations "
            "(IsTrustedPeer of 6 peers incl. self after each), and 8 fixed + VERIF_N/4 generated two-peer publications. "
            "non-trivial = every RPC case, every trust case with a non-empty history, every publication; distinct = distinct canonical JSON input",
    "codes": {1: "model_eq_impl (C07: authorize / trust_crdt / validator over the generated tables = what the peer did)",
              2: "spec_okb (C07: a remote caller got past authorization on an endpoint that is neither open nor (trusted-caller and not local-only); or an update signed by an untrusted peer was merged; or a peer that is neither the component itself nor written in trusted_peers (and no \"*\" is) is trusted after loading the configuration)",
              11: "auth_follows_trust_at_call_time (C07: in a sequence of RPCs and later Trust/Distrust calls on ONE running peer, a remote caller that was not trusted AT THE TIME OF THE CALL was let in on an endpoint that is not open (or anybody on a local-only one), or a caller trusted at the time of the call was refused on a trusted-spec endpoint - e.g. an authorisation function that remembers its first IsTrustedPeer answer per peer: still let in after Distrust, still refused after Trust)",
              10: "open_endpoint_effects (C07: a call an untrusted remote caller was let in with caused, on the called peer, a component call outside the hand-written effect table of that endpoint - e.g. the join handshake Cluster.PeerAdd running the informers (IPFS repo/stat) or publishing metrics)"},
    "trusted": ["tools/gen/policy.go, tools/gen/rpcmethods.go (syntactic; cross-checked at run time: CMethods = reflection on the service objects, CPolicy = cfg.RPCPolicy after Config.Default())",
                "go-libp2p-gorpc v0.1.3: the authorize function is consulted for every remote call and never for a call through the local server object (observed by the grid, not proved)",
                "harness/root/rig_c07_test.go fakes: consensus over an in-memory dsstate delegating IsTrustedPeer/Trust/Distrust to the real raft / crdt component; benign IPFS connector and tracker; every fake (and the monitor, an informer that asks for repo/stat like informer/disk, and the remote callers' Cluster.ID call-back service) records its calls: an effect that bypasses these component interfaces is not seen",
                "go-libp2p-pubsub topic validators and message signing (the validator's verdict is what is modelled)"],
    "level_text": "Theorems (Props/C07.v, 47, all closed): the decision function translated from the authF literal equals the modelled one; the policy table "
                  "regenerated from rpc_policy.go is total on / limited to the method set regenerated from rpc_api.go; for EVERY endpoint name an untrusted caller "
                  "is let in only on the hand-written open_spec; every local_only_spec endpoint is refused to every remote caller under every trust function; "
                  "trust_crdt follows configuration and every Trust/Distrust history; broadcasts signed by an untrusted peer never get through the validator. "
                  "Tied to the code by two translators re-run at every check and by an exhaustive grid of real libp2p RPCs plus real crdt components. "
                  "Call sequences (auth_follows_trust_changes, trust_state_after_steps, authseq_model_passes_monitor, authseq_monitor_sound, authseq_agreement_sound): for every "
                  "configuration, history and sequence of (call | Trust | Distrust) steps the model answers each call with the trust state at that moment, and monitor code 11 is sound for "
                  "'refused when not trusted at the time of the call, let in on trusted endpoints when trusted at the time of the call'. "
                  "Monitor theorems (Proofs/C07_Monitor.v): for every case kind the run-time monitors (codes 1, 2) are sound w.r.t. these "
                  "statements on the observation, the model's own output passes every monitor for every endpoint name, caller, trust configuration, "
                  "history, configuration file value and message list (no guard), and on any modelled case absence of code 1 implies absence of every code. "
                  "What the open endpoints DO: the harness records every component call (IPFS, tracker, consensus, informers, monitor, call-back) caused by a call an "
                  "untrusted remote caller was let in with; a hand-written table (open_effects) lists what each open endpoint may cause; open_endpoints_effects_spec: "
                  "no allowed effect drives IPFS / the tracker, reads or writes the pinset, writes to consensus other than AddPeer or runs the informers; monitor code 10 "
                  "(sound and complete w.r.t. the table) rejects anything else",
    "level_note": "finite table obligations are settled by vm_compute on the regenerated tables (bound = the table); gorpc's call path and pubsub's validator "
                  "dispatch are observed, not modelled; transitive propagation through a third peer that trusts the publisher is the code's design and is not excluded",
    "assumptions": ["libp2p authenticates the remote peer id handed to authF (secio/tls/noise handshake)",
                    "pubsub strict signature verification: msg.GetFrom() is the signer"],
}
