CRDT = {"dir": "consensus/crdt", "pkgname": "crdt"}
FILES = ["crdt/c02_rig_test.go", "crdt/c02_batch_test.go", "crdt/c02_set_test.go", "crdt/c02_net_test.go"]

SPEC = {
    "go": [dict(CRDT, files=FILES, test="TestVerifC02Batch", n_quick=120, n_thorough=4000,
                shards_quick=2, shards_thorough=8, timeout_quick=600, timeout_thorough=3000),
           dict(CRDT, files=FILES, test="TestVerifC02Set", n_quick=400, n_thorough=40000,
                shards_quick=4, shards_thorough=12, timeout_quick=600, timeout_thorough=3000),
           dict(CRDT, files=FILES, test="TestVerifC02Net", n_quick=3, n_thorough=36,
                shards_quick=1, shards_thorough=1, timeout_quick=600, timeout_thorough=3000)],
    "rule": "H1 (TestVerifC02Batch): scripts of pin/unpin over 3 CIDs x 12 rich pin variants on one real Consensus, config classes "
            "{batching off, size-only 1..4, age-only, both limits, queue 1..3 with the worker held during a burst} x 0..3 failing datastore "
            "commits (tombstone / element / heads write), every 4th case from a boundary+malformed list; H2 (TestVerifC02Set): 1..3 real "
            "go-ds-crdt replicas, random local writes (direct or one batch of 1..4) interleaved with deliveries of the latest or an older "
            "broadcast, every 8th case from a boundary list (S3, equal heights, add-wins, duplicate key in a batch, newest-first walks); "
            "H3 (TestVerifC02Net): real peers over libp2p, partition/heal and one untrusted-peer scenario. non-trivial = a history with >= 2 "
            "operations on one CID (H1), >= 2 replicas writing one CID (H2), >= 3 deltas (H3); distinct = distinct canonical JSON of the input",
    "codes": {1: "model_eq_impl (C02)", 10: "spec_okb C02: accepted operations are taken in submission order, none lost",
              11: "spec_okb C02: refusal exactly when the queue is full, a refused operation has no effect",
              12: "spec_okb C02: commit when the batch reaches its size limit",
              13: "spec_okb C02: commit when the batch reaches its age limit",
              14: "spec_okb C02: the batch worker never stops taking accepted operations",
              15: "spec_okb C02: committed operations take effect in submission order per CID",
              16: "spec_okb C02: every change of the pinset reaches the pin tracker",
              20: "spec_okb C02: replicas that exchanged all updates hold the same set of CIDs",
              21: "spec_okb C02: replicas that exchanged all updates hold the same pin for every CID",
              22: "spec_okb C02: every change a merge makes to a replica's pinset has its hook",
              23: "spec_okb C02: a local write takes effect at once, in submission order per CID",
              24: "spec_okb C02/C07: an update published by a peer nobody trusts reaches no trusting peer's pinset"},
    "tags": {1: "crdt-value-divergence-tombstoned-higher-priority", 2: "crdt-republish-same-priority-after-heads-failure",
             3: "crdt-value-divergence-duplicate-key-in-delta"},
    "trusted": ["harness/crdt/c02_rig_test.go: fault-injecting ds.Batching wrapper over datastore/inmem (a failing Commit writes nothing), the pass-through gate around css.batchingState "
                "(records and can hold the worker inside Add/Rm; its copy of the batch counter is used only to know what to wait for), recording PinTracker RPC service",
                "harness/crdt/c02_set_test.go: harness Broadcaster (manual inbox) and DAGSyncer (per-replica map, fallback fetch); NumWorkers=1 so that one delta is merged at a time",
                "go-ds-crdt v0.1.21 DAG walk, heads bookkeeping, pubsub and bitswap delivery are not modelled (merge order and delta contents are taken from the observation; the set logic is modelled)",
                "value bytes are compared through their rank in bytes.Compare order within a case"],
    "level_text": "Theorems (Props/C02.v, 22, all closed) over Gallina transcriptions of consensus.go LogPin/LogUnpin/batchWorker (event machine with Go<1.23 timer "
                  "semantics, every schedule and every Add/Rm/Commit outcome) and of go-ds-crdt v0.1.21 set.go + the write path of crdt.go as written (every delta list, every "
                  "delivery order, every commit outcome of one replica); the transcriptions are replayed against the real Consensus / real crdt.Datastore on generated scripts at "
                  "every run and the implementation's own observations are checked against the boolean form of the property",
    "level_note": "model tied to code by differential testing (generator-bounded). Three statements are false of the dependency as written and are kept as _refuted/_partial pairs with "
                  "Gallina recognisers (findings): value divergence and missing PutHook when a tombstoned element outranks a surviving one (S3), value divergence when one delta pins a CID twice, "
                  "a lost pin when a publish fails at the heads write. S2 (batch worker deadlock) is fixed in /repo (051502e); batch_worker_never_blocks is proved at full strength for the repaired machine.",
    "assumptions": ["pubsub/bitswap deliver every published delta to every trusting peer eventually and each replica merges it (exactly-once is not needed: merging twice is covered by H1 retries); sampled by H3",
                    "a delivery is a sequence of whole-delta merges (go-ds-crdt with several DAG workers may interleave the tombstone and element writes of two deltas; membership convergence does not depend on it)",
                    "Add/Rm on the batching state fails only through the datastore (not injected; the model has the branch and batch_no_loss_no_reorder accounts for it explicitly)",
                    "the datastore is a ds.Batching store (inmem, badger, leveldb are): putElems reads values through the store while writing through a batch"],
}
