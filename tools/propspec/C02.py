CRDT = {"dir": "consensus/crdt", "pkgname": "crdt"}
FILES = ["crdt/c02_rig_test.go", "crdt/c02_batch_test.go", "crdt/c02_set_test.go"]

SPEC = {
    "go": [dict(CRDT, files=FILES, test="TestVerifC02Batch", n_quick=120, n_thorough=1200,
                shards_quick=2, shards_thorough=8, timeout_quick=600, timeout_thorough=3000),
           dict(CRDT, files=FILES, test="TestVerifC02Set", n_quick=400, n_thorough=12000,
                shards_quick=4, shards_thorough=12, timeout_quick=600, timeout_thorough=3000)],
    "rule": "TODO",
    "codes": {1: "model_eq_impl (C02)", 10: "spec_okb C02: accepted operations are taken in submission order, none lost",
              11: "spec_okb C02: refusal exactly when the queue is full, a refused operation has no effect",
              12: "spec_okb C02: commit when the batch reaches its size limit",
              13: "spec_okb C02: commit when the batch reaches its age limit",
              14: "spec_okb C02: the batch worker never stops taking accepted operations",
              15: "spec_okb C02: committed operations take effect in submission order per CID",
              16: "spec_okb C02: every change of the pinset reaches the pin tracker",
              20: "spec_okb C02: replicas that exchanged all updates hold the same set of CIDs",
              21: "spec_okb C02: replicas that exchanged all updates hold the same pin for every CID",
              22: "spec_okb C02: every change a merge makes to a replica's pinset has its hook",
              23: "spec_okb C02: a local write takes effect at once, in submission order per CID"},
    "tags": {1: "crdt-value-divergence-tombstoned-higher-priority", 2: "crdt-republish-same-priority-after-heads-failure",
             3: "crdt-value-divergence-duplicate-key-in-delta"},
    "trusted": [],
    "level_text": "TODO",
    "level_note": "TODO",
    "assumptions": [],
}
