CRDT = {"dir": "consensus/crdt", "pkgname": "crdt"}
FILES = ["crdt/c02_rig_test.go", "crdt/c02_batch_test.go", "crdt/c02_set_test.go", "crdt/c02_net_test.go", "crdt/c02_restart_probe_test.go"]

SPEC = {
    "go": [dict(CRDT, files=FILES, test="TestVerifC02Batch", n_quick=120, n_thorough=4000,
                shards_quick=2, shards_thorough=8, timeout_quick=600, timeout_thorough=3000),
           dict(CRDT, files=FILES, test="TestVerifC02Set", n_quick=400, n_thorough=40000,
                shards_quick=4, shards_thorough=12, timeout_quick=600, timeout_thorough=3000),
           dict(CRDT, files=FILES, test="TestVerifC02Net", n_quick=3, n_thorough=36,
                shards_quick=1, shards_thorough=1, timeout_quick=600, timeout_thorough=3000)],
    "rule": "H1 (TestVerifC02Batch): scripts of pin/unpin over 3 CIDs x 12 rich pin variants on one real Consensus, config classes "
            "{batching off, size-only 1..4, age-only, both limits, restart (Shutdown with an open batch / operations queued, a LogPin after it, a new Consensus on the same datastore), queue 1..3 with the worker held during a burst} x 0..3 failing datastore "
            "commits (tombstone / element / heads write) and, with batching, 0..1 failing set queries (the worker's Rm returns an error), 7% of the pins cannot be "
            "serialised (name not valid UTF-8: refused by LogPin), a pin repeats the last pin of its CID with a fair probability (already stored as given, unpin + "
            "identical pin in one batch, pin / unpin / identical pin), every 4th case from a boundary+malformed list, every 24th case a trickle "
            "(35-64 operations on distinct CIDs, one every 1/4..1/2 of MaxBatchAge, accept time and time of effect in State() recorded for each, "
            "re-measured up to 3 times); H2 (TestVerifC02Set): 1..3 real "
            "go-ds-crdt replicas, random local writes (direct or one batch of 1..4) interleaved with deliveries of the latest or an older "
            "broadcast, every 8th case from a boundary list (S3, equal heights, add-wins, duplicate key in a batch, newest-first walks); "
            "H3 (TestVerifC02Net): real peers over libp2p: partition/heal of 2-3 peers that all trust each other, a line A--B--C in which A and C "
            "list only each other in trusted_peers and are connected only through the relay B (trust-all, trusted by nobody), and one "
            "untrusted-peer scenario; the pinsets of every pair of peers that trust each other are compared. non-trivial = a history with >= 2 "
            "operations on one CID (H1), >= 2 replicas writing one CID (H2), >= 3 deltas (H3); distinct = distinct canonical JSON of the input",
    "codes": {1: "model_eq_impl (C02): H1 replay of the trace on the timed batch machine + set; H2 replay per step; H3 predicted set of merged blocks (trust + forwarding + ancestors), own blocks rebuilt by the write path, pinset and tracker calls", 10: "spec_okb C02: accepted operations are taken in submission order, none lost",
              11: "spec_okb C02: refusal exactly when the queue is full, a refused operation has no effect",
              12: "spec_okb C02: commit when the batch reaches its size limit",
              13: "spec_okb C02: commit when the batch reaches its age limit (counted from the first operation of the batch: every accepted operation of a "
                  "trickle is in effect within MaxBatchAge + slack)",
              14: "spec_okb C02: the batch worker never stops taking accepted operations",
              15: "spec_okb C02: committed operations take effect in submission order per CID (and no operation that can never take effect is accepted)",
              16: "spec_okb C02: every change of the pinset reaches the pin tracker",
              20: "spec_okb C02: peers that trust each other and exchanged all updates hold the same set of CIDs",
              21: "spec_okb C02: peers that trust each other and exchanged all updates hold the same pin for every CID",
              22: "spec_okb C02: every change a merge makes to a replica's pinset has its hook",
              23: "spec_okb C02: a local write takes effect at once, in submission order per CID",
              24: "spec_okb C02/C07: an update published by a peer nobody trusts reaches no trusting peer's pinset"},
    "tags": {1: "crdt-value-divergence-tombstoned-higher-priority", 2: "crdt-republish-same-priority-after-heads-failure",
             3: "crdt-value-divergence-duplicate-key-in-delta"},
    "trusted": ["harness/crdt/c02_rig_test.go: fault-injecting ds.Batching wrapper over datastore/inmem (a failing Commit writes nothing), the pass-through gate around css.batchingState "
                "(records, with the harness clock, and can hold the worker inside Add/Rm; its copy of the batch counter is used only to know what to wait for; "
                "a panic inside Add/Rm/Commit is recovered, reported as a direct violation and returned as an error), recording PinTracker RPC service",
                "harness/crdt/c02_batch_test.go trickle cases: wall clock of the test process (time.Now), State().Has polled every millisecond; the age clause counts only "
                "when it fails in three consecutive measurements; slack = max(2 x MaxBatchAge, 400 ms)",
                "harness/crdt/c02_net_test.go: libp2p connection gater (partition; the two ends of the line refuse each other), as C07's relay case",
                "harness/crdt/c02_set_test.go: harness Broadcaster (manual inbox) and DAGSyncer (per-replica map, fallback fetch); NumWorkers=1 so that one delta is merged at a time",
                "go-ds-crdt v0.1.21 DAG walk, heads bookkeeping, pubsub and bitswap delivery are not modelled (merge order and delta contents are taken from the observation; the set logic is modelled)",
                "value bytes are compared through their rank in bytes.Compare order within a case"],
    "level_text": "Theorems (Props/C02.v, 39, all closed) over Gallina transcriptions of consensus.go LogPin/LogUnpin/batchWorker (event machine with Go<1.23 timer "
                  "semantics, every schedule and every Add/Rm/Commit outcome; a timed refinement with an explicit clock in which Reset sets an expiry: the age timer "
                  "of a pending batch always expires MaxBatchAge after its first operation was taken, and in every timely schedule no operation waits longer than "
                  "MaxBatchAge + latency), of go-ds-crdt v0.1.21 set.go + the write path of crdt.go as written (every delta list, every delivery order, every commit "
                  "outcome of one replica) and of the pubsub topic validator (an update is merged iff its signer is trusted, whatever peer forwarded it: peers that "
                  "trust the same signers converge for every order and path of arrival); the transcriptions are replayed against the real Consensus / real crdt.Datastore on generated scripts at "
                  "every run and the implementation's own observations are checked against the boolean form of the property",
    "level_note": "model tied to code by differential testing (generator-bounded). Three statements are false of the dependency as written and are kept as _refuted/_partial pairs with "
                  "Gallina recognisers (findings): value divergence and missing PutHook when a tombstoned element outranks a surviving one (S3), value divergence when one delta pins a CID twice, "
                  "a lost pin when a publish fails at the heads write. S28 (empty batch committed: nil-delta panic), S29 (unserialisable pin accepted with batching) and S35 (Shutdown dropped accepted batched operations) are fixed by branches fix-S28 / fix-S29 / fix-S35; "
                  "the model follows the repaired code (batch_never_commits_empty_batch at full strength, batch_empty_commit_before_fix_refuted for the old code). The age bound is proved under a stated timeliness assumption on the Go runtime (a due timer "
                  "fires within lf, the worker reads a fired timer within lw); on the implementation it is a wall-clock measurement with slack. S2 (batch worker deadlock) is fixed in /repo (051502e); batch_worker_never_blocks is proved at full strength for the repaired machine.",
    "assumptions": ["timely schedule for the age bound: the runtime fires a due timer within lf and the batch worker reads a fired timer within lw (timely_from); the "
                    "harness allows slack = max(2 x MaxBatchAge, 400 ms) for both together",
                    "an update is attributed to the peer that signed the broadcast carrying it; a relay forwards what its own validator accepts (gossipsub); sampled by H3's line topology",
                    "pubsub/bitswap deliver every published delta to every trusting peer eventually and each replica merges it (exactly-once is not needed: merging twice is covered by H1 retries); sampled by H3",
                    "a delivery is a sequence of whole-delta merges (go-ds-crdt with several DAG workers may interleave the tombstone and element writes of two deltas; membership convergence does not depend on it)",
                    "Add/Rm on the batching state fails only through the datastore (not injected; the model has the branch and batch_no_loss_no_reorder accounts for it explicitly)",
                    "the datastore is a ds.Batching store (inmem, badger, leveldb are): putElems reads values through the store while writing through a batch"],
}
