SPEC = {
    "go": [],
    "gen": ["Locksets"],
    "force": ["Gen/Locksets.v", "Proofs/C18_Table.v"],
    "diag": True,
    "shrink": False,
    "rule": "",
    "codes": {},
    "trusted": [],
    "level_text": "",
    "level_note": "",
    "assumptions": [],
}
