def _g(d, pkg, extra=None):
    return dict(dir=d, pkgname=pkg, files=["%s/c18_rig_test.go" % (d.split("/")[-1] or "root"), "%s/c18_test.go" % (d.split("/")[-1] or "root")],
                test="TestVerifC18", race=True, n_quick=1, n_thorough=1, shards_quick=1, shards_thorough=1,
                timeout_quick=600, timeout_thorough=3000, v=True)

SPEC = {
    "go": [
        _g("", "ipfscluster"),
        _g("pintracker/optracker", "optracker"),
        _g("pintracker/stateless", "stateless"),
        _g("monitor/metrics", "metrics"),
        _g("informer/disk", "disk"),
        _g("informer/numpin", "numpin"),
        _g("consensus/crdt", "crdt"),
    ],
    "gen": ["Locksets"],
    "force": ["Gen/Locksets.v", "Proofs/C18_Table.v"],
    "diag": True,
    "shrink": False,
    "rule": "",
    "codes": {2: "spec_okb (C18: a returned slice is torn: empty, duplicated, out-of-order or over-long entries)"},
    "trusted": [],
    "level_text": "",
    "level_note": "",
    "assumptions": [],
}
