def _g(d, pkg, extra=None):
    return dict(dir=d, pkgname=pkg, files=["%s/c18_rig_test.go" % (d.split("/")[-1] or "root"), "%s/c18_test.go" % (d.split("/")[-1] or "root")] + (extra or []),
                test="TestVerifC18", race=True, n_quick=1, n_thorough=1, shards_quick=1, shards_thorough=1,
                timeout_quick=600, timeout_thorough=3000, v=True)

SPEC = {
    "go": [
        _g("", "ipfscluster", ["root/c18_shutdown_test.go", "root/c18_statesync_test.go"]),
        _g("pintracker/optracker", "optracker"),
        _g("pintracker/stateless", "stateless"),
        _g("monitor/metrics", "metrics"),
        _g("informer/disk", "disk"),
        _g("informer/numpin", "numpin"),
        _g("consensus/crdt", "crdt", ["crdt/c18_lifecycle_test.go"]),
    ],
    "gen": ["Locksets"],
    "force": ["Gen/Locksets.v", "Proofs/C18_Table.v", "Proofs/C18_Tie.v", "Proofs/C18_WaitTable.v"],
    "diag": True,
    "shrink": False,
    "rule": "one case = one stress scenario run in a child process of the -race test binary for a fixed duration "
            "(root: alerts arriving while Alerts() is read, from empty / across the reset above maxAlerts; optracker: "
            "track/clean/status/filter/set-error; stateless: Track/Untrack/Status/StatusAll/Recover/RecoverAll, with and "
            "without concurrent Shutdown; metrics: Window Add/Latest/All/Distribution at cap 25 and 2, Store writers and "
            "all read accessors with RemovePeer, Checker CheckPeers/CheckAll/FailedMetric; root 'shutdown': ~150 scripted "
            "interleavings of the real Cluster.Shutdown / watchPeers / ready / PeerRemove(self) driven through blocking fakes "
            "- the watcher's look before, while and after Shutdown holds shutdownLock, at each component call Shutdown makes "
            "under the lock; peer removed by others, by LeaveOnShutdown, by PeerRemove(self) or not; one or two Shutdown calls; "
            "ready() giving up, failing or finishing while Shutdown runs - a deadlock is a verdict from the goroutine dump; "
            "root 'statesync-alerts': StateSync twice concurrently while ping alerts go through the real alertsHandler (re-pin of what the "
            "failed peer holds) and Pins() is read, on a pinset with expired pins and pins held by the failed peer, the trusted peerset "
            "growing all the time (cache misses of whatever the distance checkers share); "
            "crdt 'crdt-lifecycle': ~22 life-cycle scripts on the real Consensus, batching on and off - Shutdown before SetClient, "
            "right after SetClient, after Ready, after a setup() that gave up (pubsub topic taken), once / twice concurrently / again "
            "later, with LogPin/LogUnpin callers active; a Shutdown parked in a channel receive while neither setup() nor batchWorker() "
            "is alive is a deadlock verdict from the dump; "
            "disk and numpin: GetMetric while "
            "Shutdown; crdt: LogPin/LogUnpin/State while Shutdown with batching). non-trivial = more than 100 operations of "
            "at least 2 kinds completed; distinct = distinct scenario inputs; the schedule itself is the Go scheduler's",
    "codes": {2: "spec_okb (C18: a returned slice is torn: empty, duplicated, out-of-order or over-long entries)"},
    "trusted": ["tools/gen/locksets.go (syntactic lockset and wait walk, ~2300 lines incl. a small declared-type inference; self-tested on "
                "two snippets and 20 hand-made mutants at every run): real executions conform to the tables it emits (accesses, "
                "nesting, waits, the code units each WaitGroup / done channel covers and what they may acquire or wait for)",
                "Go race detector (-race), Go runtime deadlock/fatal-error reports, Go scheduler (which interleavings the stress run meets)",
                "critical sections of a sync.Mutex/RWMutex are atomic events of the object models (justified by the machine's "
                "mutual-exclusion invariant, Proofs/C18_Conc.v mutex_reach)",
                "callbacks handed to library calls (ring.Do) run synchronously; code of packages outside the seven analysed ones "
                "takes none of the tracked locks and does not retain references handed to it"],
    "level_text": "Theorems (Props/C18.v, 22, all closed): general — lockset_drf (disciplined threads never race, every interleaving of the "
                  "mutex/rwmutex machine), acyclic_no_lock_deadlock (strictly ordered acquisition, pending writers included, never "
                  "deadlocks) and its generalisation acyclic_wait_for_no_deadlock for the machine with Wait g (a thread blocks until the "
                  "thread group g has finished): if 'holds L acquiring M' + 'holds L waiting for G' + 'a thread of G acquires L' + "
                  "'a thread of G waits for G'' can be ranked, no interleaving reaches a state where every unfinished thread is blocked; "
                  "on the tables regenerated from the Go source at every run — discipline_holds, table_drf, "
                  "lock_order_acyclic, wait_graph_acyclic, table_no_wait_deadlock, table_covers_waits, waited_goroutines_always_started "
                  "(every plain receive from a channel field has a closer whose go statement is reached on every path of its launcher, "
                  "up to a constructor), untracked_shared_fields (no map / slice field of the owner types that is mutated, assigned or handed on "
                  "outside a constructor and reachable from two goroutine entry points is missing from the table), no_lock_leaks, accessors_atomic, "
                  "table_covers_guards; wait_graph_as_pinned_refuted (the pinned Shutdown / watchPeers / ready cycles, with a reachable "
                  "deadlocked state of the machine); on the object models — alerts_not_torn and "
                  "window_latest_atomic for the variant the table selects, with refutation witnesses for the pinned variants. A -race "
                  "stress run of exactly the call combinations of the statement (7 packages) supports it: race reports, panics, crashes "
                  "and hangs are direct violations, returned slices are checked in Coq",
    "level_note": "partial: the Go memory model (beyond data-race freedom), channel-based blocking and panics outside the listed structures "
                  "are not modelled, the stress run samples them; the translator is syntactic and trusted (self-tested); "
                  "the wait model has static groups (every goroutine a Wait collects is registered before the Wait: the sync.WaitGroup "
                  "contract) and does not model multi-way selects or context cancellation; "
                  "needs fix-S34 (crdt setup() publishes css.crdt unsynchronised with Shutdown) — on a tree without it the check reports the "
                  "data race with its life-cycle script and the unguarded write in the table, and exits 1",
    "assumptions": ["real executions conform to Gen/Locksets.v (translator soundness)",
                    "every goroutine releases the locks it holds before it ends (checked syntactically: no_lock_leaks)",
                    "every goroutine a WaitGroup's Wait collects has been registered (Add) before that Wait starts; goroutines block only on "
                    "mutexes, WaitGroups and plain receives from struct-field channels (multi-way selects, contexts, timers are not waits)",
                    "objects are published to other goroutines only after their constructor returned"],
}
