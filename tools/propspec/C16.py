IPFSHTTP = {"dir": "ipfsconn/ipfshttp", "pkgname": "ipfshttp"}

SPEC = {
    "go": [dict(IPFSHTTP, files=["ipfshttp/c16_conn_test.go"], test="TestVerifC16",
                n_quick=420, n_thorough=9000, shards_quick=4, shards_thorough=12,
                timeout_quick=300, timeout_thorough=1500)],
    "rule": "generated: op {Pin 64%, Unpin 26%, PinLsCid 10%} x pin {MaxDepth -3..3, Mode agreeing or not, 0..12 origins, "
            "update source none/other/same} x prior daemon table over 4 CIDs (each unpinned/recursive/direct) x a behaviour "
            "script of 0..3 steps over {contract answer with 0..7 progress objects (fast or slower than PinTimeout in total), "
            "IPFS error body (8 messages incl. near-misses of ErrNotPinned, 5 status codes), non-JSON error (8 bodies), "
            "connection drop by hijack (3 cut points, acted or not), stall (before/after headers), progress then stall, "
            "heartbeat without progress, error after progress in the X-Stream-Error trailer, malformed 200}; streams: "
            "structured 70%, boundary 20%, malformed 10%. non-trivial = the daemon received a request and (>= 2 requests or "
            "a fault was consumed or the table changed); distinct = distinct canonical JSON of the input",
    "codes": {1: "model_eq_impl (C16 conn_pin / conn_unpin / pin_ls_cid: result class, requests, daemon table)",
              10: "success_sound (reported success but the daemon does not hold / still holds the CID in the asked mode)",
              11: "already_pinned_no_request (pinned as asked: exactly one pin/ls, no swarm/connect, success)",
              12: "update discipline / only the target changes (pin/update only from a recursive source, unpin=false, source kept)",
              13: "failures_are_errors (the decisive exchange failed but success was reported)",
              14: "stall_gives_error (the decisive request stalled and the call did not give up with an error)",
              15: "unpin_not_pinned_ok (unpinning an unpinned CID must succeed with one pin/rm)",
              16: "swarm/connect bound (more than min(10, #origins) connects)"},
    "tags": {1: "pin-update-stall-never-gives-up", 2: "pin-trailer-error-reported-ok"},
    "trusted": ["harness/ipfshttp/c16_conn_test.go: the scripted daemon encodes the assumed go-ipfs contract of pin/ls, pin/add, "
                "pin/rm, pin/update (Model/C16_Connector.v `act`; read from go-ipfs-pinner v0.1.1 dspinner and go-ipfs-cmds v0.6.0 "
                "http/responseemitter.go: mid-stream errors go to the X-Stream-Error trailer)",
                "net/http client and server (chunked encoding, trailers, context cancellation on client disconnect)",
                "wall-clock: PinTimeout 200 ms, IPFSRequestTimeout/UnpinTimeout 600 ms, caller deadline 4 s; slow progress spaced "
                "PinTimeout/4; load-sensitive outcomes are re-measured up to 3 times"],
    "level_text": "Theorems (Props/C16.v, all closed) over the Gallina transcription of Pin/pinProgress/pinUpdate/Unpin/PinLsCid/"
                  "checkResponse for every pin, prior daemon table and behaviour script; the transcription is compared with the real "
                  "Connector driven against a scripted HTTP daemon at every run (result class, requests received, final daemon table) "
                  "and the implementation's own observation is checked against the boolean form of the property. Monitor theorems (Proofs/C16_Monitor.v): "
                  "every code 10..16 absent => its Prop-level clause (PinSpec/PinSpec2, UnpinSpec/UnpinSpec2, LsSpec); the model's own run, for every "
                  "pin, table, script and admissible swarm-connect count, raises nothing but code 14 with the tag of the carried finding. "
                  "Failure atomicity (pin_failure_atomic, unpin_failure_atomic): a call that does not report success left the daemon table unchanged unless a response was lost after the daemon acted",
    "level_note": "partial: the daemon contract is an assumption about go-ipfs (stated in Model/C16_Connector.v); the watchdog's "
                  "wall-clock behaviour is sampled (margins >= 4x, re-measured), the model abstracts time to 'stalls longer than the timeout'",
    "assumptions": ["go-ipfs contract of pin/ls, pin/add, pin/rm, pin/update as stated in Model/C16_Connector.v",
                    "a request the client gives up on has no effect on the daemon's pin table",
                    "gaps between progress objects of a well-behaved daemon are shorter than PinTimeout"],
}
