REST = {"dir": "api/rest", "pkgname": "rest"}

SPEC = {
    "go": [dict(REST, files=["api_rest/c11_rig_test.go", "api_rest/c11_test.go"], test="TestVerifC11",
                n_quick=1500, n_thorough=48000, shards_quick=8, shards_thorough=48)],
    "gen": ["RestRoutes", "RestClient", "C08Status"],
    "force": ["Model/C11_Rest.v", "Model/C11_Check.v", "Model/C11_Tables.v", "Proofs/C11_Rest.v", "Proofs/C11_Client.v", "Proofs/C11_ClientC08.v"],
    "diag": True,
    "rule": "generated: every route x {valid, invalid} pools for each path variable (CID, IPFS path, peer ID), each pin option, each add "
            "option, the JSON body and the filters x credentials {none configured; configured with missing / wrong / undecodable / right} "
            "x scripted RPC failures (generic, not-found); wrong methods, trailing slashes, CORS pre-flights, unknown and non-canonical paths; "
            "every method of the bundled client against the same server with generated options and filters. "
            "non-trivial = an HTTP request carrying at least one option, or a client call with options / filter; distinct = distinct canonical JSON input",
    "codes": {1: "model_eq_impl (C11 REST)", 20: "credentials configured: request without a listed pair was not refused with 401 before anything happened",
              21: "4xx answer (nothing failed in the cluster) but a cluster operation was performed", 22: "answer without exactly the operation the route names / malformed part not refused",
              23: "body is not a single JSON document", 24: "5xx answer without a failing cluster call", 30: "client call did not arrive with the arguments it was given",
              31: "client did not return what the server answered"},
    "tags": {},
    "trusted": ["harness/api_rest/c11_rig_test.go: recording Cluster/PeerMonitor/IPFSConnector RPC services behind the real NewAPI",
                "net/http, gorilla/mux cleanPath, rs/cors, net/url, go-cid, go-path, peer.Decode, PinOptions.FromQuery, AddParamsFromQuery, TrackerStatusFromString: outcomes are inputs of the model",
                "tools/gen/restroutes.go, tools/gen/restclient.go (syntactic translators)"],
    "level_text": "26 theorems (Props/C11.v, all closed) over the Gallina transcription of the REST layer (basic-auth wrapper outside rs/cors outside the router, "
                  "mux matching with StrictSlash over the generated route table Gen/RestRoutes.v (tied to the hand-written route_spec up to the order of routes that cannot answer a common request: rest_table_spec, rest_routes_equiv_dispatch), the 21 handlers, sendResponse) and of the client's request "
                  "construction (Gen/RestClient.v), for every request, parser outcome, credential configuration and RPC failure script: rest_fail_closed (a malformed "
                  "part: exactly 400, one document, no call), rest_wellformed_translated / rest_calls_exact (otherwise, and whenever anything is called, exactly the "
                  "operation the route names with the parsed CID / path / peer / options, against the hand-written spec_expect), rest_single_document (the NDJSON /add "
                  "stream excepted by name), rest_auth_total (no listed pair: 401 and nothing called for every method and path, pre-flights included), rest_route_ops "
                  "(generated call sites = what the route name denotes), client_faithful (every client method arrives with the arguments given, under an explicit "
                  "guard; composed with C08's query and status-name round trips), soundness of the boolean monitor and model_satisfies_spec; the transcription is "
                  "compared with the real API and the real client library on generated requests at every run and the implementation's own observations are checked "
                  "against the boolean form of the property",
    "level_note": "model tied to code by regenerated tables plus differential testing (generator-bounded); parsers are abstract; the /add NDJSON stream is the documented "
                  "exception to the single-document clause; 301 redirects (cleanPath, StrictSlash) are router behaviour; the client clause holds under client_guard "
                  "(arguments that are single path segments / canonical IPFS paths; PinPath of /ipns/recover arrives since fix-S26): unescaped path arguments "
                  "(metric names / IPFS paths containing % ? # or empty segments) are outside it; libp2p-http endpoint and TLS not exercised",
    "assumptions": ["parsers are abstract (their accept/reject outcome and value is an input); client_options_faithful / client_filter_faithful instantiate the round-trip outcomes with C08's query_roundtrip and status_roundtrip_valid",
                    "RPC outcomes are an input (failure script)"],
}
