ROOT = {"dir": "", "pkgname": "ipfscluster"}

SPEC = {
    "go": [dict(ROOT, files=["root/rig_test.go", "root/rig_c04_test.go", "root/c04_test.go"], test="TestVerifC04",
                n_quick=1500, n_thorough=12000, shards_quick=6, shards_thorough=16)],
    "gen": ["C04Guards"],
    "force": ["Proofs/C04_Guards.v"],
    "diag": True,
    "rule": "generated: histories of 1..12 (+3) Pin / PinPath / PinUpdate / Unpin / UnpinPath / RPC-Pin calls over 7 CIDs; options "
            "re-used per CID with single-field changes (metadata key added / removed / changed, name, mode, factors, expiry, origins, "
            "user allocations, update source); 6 peers x metric tables switched during the history; default factors incl. -1 and invalid; "
            "follower mode toggled during the history. non-trivial = some CID (or path) touched at least twice; distinct = distinct canonical JSON of the history",
    "codes": {1: "model_eq_impl (C04 step: returned value / error class and whole pinset after every call)",
              2: "spec_okb (C04: entry carries the requested options and a valid allocation; refused => pinset unchanged; unpin / update exact)"},
    "tags": {},
    "trusted": ["harness/root/rig_c04_test.go: fake Consensus = real dsstate on a MapDatastore (LogPin = Add, LogUnpin = Rm); fake IPFS Resolve / BlockGet (real go-ipld-cbor nodes)",
                "harness/root/rig_test.go: monitor fake = real metrics.Store + PeersetFilter",
                "error classes are read off error identity / message substrings by the harness"],
    "level_text": "Theorems (Props/C04.v, all closed) over the Gallina transcription of pin / setupPin / PinOptions.Equals / Unpin / unpinClusterDag / PinUpdate for every state, call, environment and map-iteration order; the transcription is compared with the real code call by call on generated histories at every run, and the implementation's own observations are checked against the boolean form of the property. Monitor theorems (Proofs/C04_Monitor.v): the model's answer to every call passes spec_okb at every point of every history (inputs: metadata a map, allocations a set, one metric per peer); absence of code 2 on a successful pin / unpin / update implies the Prop-level clause (entry = request as the property reads options, nothing else changed, allocation kept / as named / C03's alloc_spec)",
    "level_note": "the guard chains of setupReplicationFactor / isReplicationFactorValid, checkPinType, setupPin, pin, Unpin, PinUpdate (conditions, order, outcome: refuse <class> / redirect / shortcut / commit) are TRANSLATED from the source at every run "
                  "(Gen/C04Guards.v) and proved equal to the model's lists, whose interpretation is proved to be the decision of step (c04_guards_source_is_model, c04_*_guards_are_step); the rest of the "
                  "model (PinOptions.Equals, allocation, the meta-pin unpin, what a commit stores) is tied to code by differential testing (generator-bounded); consensus commits assumed to succeed (C01/C02); clock kept >= 1 h away from every expiry",
    "assumptions": ["LogPin / LogUnpin succeed and act as a map update (C01, C02)", "metadata keys are unique (Go map); the empty metadata key is ignored by PinOptions.Equals by design",
                    "one latest metric per peer (C09)"],
}
