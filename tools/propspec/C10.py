ROOT = {"dir": "", "pkgname": "ipfscluster"}

SPEC = {
    "go": [dict(ROOT, files=["root/rig_test.go", "root/rig_c04_test.go", "root/c10_test.go"], test="TestVerifC10",
                n_quick=600, n_thorough=8000, shards_quick=6, shards_thorough=16)],
    "rule": "generated: 1..8 members, one failing (ping alert delivered to every survivor's real alertsHandler, sequentially, in a random order; "
            "5% other alerts) or removed (PeerRemove on one peer) or, for expiry, every member running StateSync; pinsets of 1..6 pins over 7 CIDs with "
            "any allocations (65% held by the failed peer), factors, options, expiry before/after now, 22% created by pin-update (source present or gone), "
            "some meta / cluster-DAG / shard pins; metric state of every member; follower / disable_repinning per peer; occasionally an untrusted member or a "
            "survivor that never runs. non-trivial = >= 2 members, >= 1 peer ran, and (a pin held by the failed peer, or an expiry scenario); distinct = canonical JSON",
    "codes": {1: "model_eq_impl (C10: per peer LogPin/LogUnpin list, pinset after, alert recorded; isClosest answers of the real distanceChecker)",
              2: "spec_okb (C10: under-replicated pins re-homed once without the failed peer, options preserved; others untouched; none removed; expired unpinned once)"},
    "tags": {1: "repin-update-redirect"},
    "trusted": ["harness/root/rig_c04_test.go: fake Consensus = real dsstate on a MapDatastore shared by all peers; fake IPFS BlockGet",
                "harness/root/rig_test.go: monitor fake = real metrics.Store + PeersetFilter; alerts delivered over an unbuffered channel",
                "blake2b-256 (golang.org/x/crypto) digests computed by the harness are the hash function of the model"],
    "level_text": "Theorems (Props/C10.v, all closed) over the Gallina transcription of alertsHandler / vacatePeer / repinFromPeer / distanceChecker / StateSync on top of C04's pin model and C03's allocate, for every pinset, peerset, failing peer, metric state, schedule of survivors and hash function (injective on the peers in play); compared with the real code peer by peer on generated scenarios at every run; the boolean monitor applied to the implementation's scenario (code 2) is proved sound (repin_monitor_sound, sync_monitor_sound, idle_monitor_sound, one_closest_monitor_sound, check_case_sound: no code 2 implies scenario_spec, pin by pin, with C03's alloc_spec for every re-homed pin) and, for the removal kind, complete for the model (vacate_model_passes_monitor: the record generated from `vacate` on a pinset without pin-update pins raises no code 2)",
    "level_note": "model tied to code by differential testing (generator-bounded); survivors handle the alert one after the other (interleavings inside one handler are C18's); blake2b injective on the peer IDs in play is the stated cryptographic assumption; S10 kept as a refuted/partial pair",
    "assumptions": ["blake2b-256 is injective on the peer IDs in play", "members agree on the peerset and trust each other (stated in the property)",
                    "LogPin / LogUnpin succeed and act as a map update (C01, C02)", "one latest metric per peer (C09)"],
}
