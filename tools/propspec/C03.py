ROOT = {"dir": "", "pkgname": "ipfscluster"}

SPEC = {
    "go": [dict(ROOT, files=["root/rig_test.go", "root/c03_test.go"], test="TestVerifC03",
                n_quick=900, n_thorough=40000, shards_quick=6, shards_thorough=16)],
    "rule": "generated: 1..8 peers x metric state {absent, valid numeric, expired, invalid, non-numeric} x random current/"
            "blacklist/priority subsets x factor pairs around the peer count x ascend/descend; a tie-free stream (75%) is "
            "compared exactly with the model, a tie stream by spec_okb only. non-trivial = positive valid factors and >= 2 metrics; "
            "distinct = distinct canonical JSON of the input",
    "codes": {1: "model_eq_impl (C03 allocate)", 2: "spec_okb (C03: healthy, no duplicates, min<=healthy<=max, preference)"},
    "trusted": ["harness/root/rig_test.go: monitor fake = real metrics.Store + PeersetFilter (as pubsubmon.LatestMetrics)",
                "sort.Sort on distinct keys is a sort (Go stdlib)"],
    "level_text": "Theorems (Props/C03.v, 21, all closed) over the Gallina transcription of allocate/obtainAllocations/SortNumeric for every input, time and map-iteration order; the transcription is compared with the real (*Cluster).allocate on generated inputs at every run and the implementation's own output is checked against the boolean form of the property (spec_okb), which is proved sound (alloc_monitor_sound / alloc_monitor_err_sound: an accepted answer satisfies every Prop-level clause, alloc_spec) and complete for the model (alloc_model_passes_monitor: the model's answer is accepted on every admissible input); frame theorems (alloc_ignores_discarded, alloc_ignores_excluded, alloc_frame): metrics of peers that are invalid, expired or excluded are dead input, removing or adding any number of them never changes the decision; order theorems (alloc_order_outcome, alloc_order_same_peers): the iteration order of the Go map of holders cannot change success/error or the number of peers returned, nor the set of peers unless healthy holders exceed max",
    "level_note": "model tied to code by differential testing (generator-bounded); one metric per peer assumed (proved in C09); sort.Sort trusted to sort",
    "assumptions": ["one latest metric per peer (C09 latest_one_per_peer)", "metrics do not expire between LatestMetrics and SortNumeric"],
}
