PROXY = {"dir": "api/ipfsproxy", "pkgname": "ipfsproxy"}

SPEC = {
    "go": [dict(PROXY, files=["api_ipfsproxy/c12_rig_test.go", "api_ipfsproxy/c12_test.go"], test="TestVerifC12",
                n_quick=1500, n_thorough=48000, shards_quick=4, shards_thorough=16)],
    "gen": ["ProxyRoutes"],
    "force": ["Model/C12_Proxy.v", "Model/C12_Check.v", "Model/C12_Tables.v", "Proofs/C12_Proxy.v"],
    "diag": True,
    "rule": "generated requests: hijacked routes in both argument styles x valid/invalid paths and CIDs x every option "
            "(type, unpin, only-hash, pin, trickle, layout, chunker, stream-channels, name, replication, ...) x all methods "
            "x scripted RPC failures; near-miss paths around every route; arbitrary other paths/queries/bodies (byte-compared "
            "at the daemon); non-canonical paths. non-trivial = carries a query or a body; distinct = distinct canonical JSON input",
    "codes": {1: "model_eq_impl (C12 proxy)", 10: "hijacked request reached the daemon", 11: "relay identity",
              12: "error answer but a mutating cluster call was made", 13: "mutating call forwarded to the daemon",
              14: "successful answer without exactly the requested operation", 15: "non-canonical path: neither 301 nor relay, or a cluster call"},
    "trusted": ["harness/api_ipfsproxy/c12_rig_test.go: recording fake daemon (httptest) and recording Cluster/IPFSConnector/Consensus RPC services",
                "net/http, httputil.ReverseProxy, gorilla/mux cleanPath, net/url, go-path, go-cid parsers: outcomes are inputs of the model",
                "tools/gen/proxyroutes.go (syntactic translator of the hijack subrouter)"],
    "level_text": "25 theorems (Props/C12.v, all closed) over the Gallina transcription of the proxy (routing through the generated table "
                  "Gen/ProxyRoutes.v, the seven hijack handlers, the relay) for every request, parser outcome and RPC failure script; the "
                  "transcription is compared with the real ipfsproxy.Server between a recording daemon and recording RPC services on generated "
                  "requests at every run, and the implementation's own observations are checked against the boolean form of the property. "
                  "Monitor theorems (Proofs/C12_Monitor.v): every run-time code (1, 10-15) is proved sound (its absence on an observation implies the "
                  "Prop-level clause: relay identity, nothing mutating forwarded, error means no operation, success means exactly the requested "
                  "operation), the model's own result raises no code for every request and environment, and an observation that agrees with the "
                  "model raises no code",
    "level_note": "model tied to code by a regenerated routing table plus differential testing (generator-bounded); ReverseProxy headers not compared; "
                  "sharded adds and format=car are left to C13",
    "assumptions": ["parsers (net/url, go-path, cid, AddParamsFromQuery), mux cleanPath and the importer are abstract: their outcome is an input",
                    "RPC outcomes are an input (failure script); the daemon's answer is an input"],
}
