def _g(dir_, pkg, sec, test, n_quick=400, n_thorough=6000, shards_quick=1):
    return dict(dir=dir_, pkgname=pkg, files=["c15_driver_test.go.tmpl", "%s/c15_%s_test.go" % (dir_.replace("/", "_") or "root", sec)],
                test=test, n_quick=n_quick, n_thorough=n_thorough, shards_quick=shards_quick, shards_thorough=4)

SPEC = {
    "go": [
        _g("", "ipfscluster", "cluster", "TestVerifC15Cluster", 800),
        _g("consensus/raft", "raft", "raft", "TestVerifC15Raft", 700),
        _g("consensus/crdt", "crdt", "crdt", "TestVerifC15Crdt", 400),
        _g("api/rest", "rest", "restapi", "TestVerifC15Restapi", 800),
        _g("api/ipfsproxy", "ipfsproxy", "ipfsproxy", "TestVerifC15Ipfsproxy", 500),
        _g("ipfsconn/ipfshttp", "ipfshttp", "ipfshttp", "TestVerifC15Ipfshttp", 350),
        _g("pintracker/stateless", "stateless", "stateless", "TestVerifC15Stateless", 150),
        _g("monitor/pubsubmon", "pubsubmon", "pubsubmon", "TestVerifC15Pubsubmon", 150),
        _g("informer/disk", "disk", "disk", "TestVerifC15Disk", 150),
        _g("informer/numpin", "numpin", "numpin", "TestVerifC15Numpin", 100),
        _g("observations", "observations", "observations", "TestVerifC15Metrics", 200),
        _g("observations", "observations", "observations", "TestVerifC15Tracing", 200),
        _g("datastore/badger", "badger", "badger", "TestVerifC15Badger", 700, shards_quick=2),
        _g("datastore/leveldb", "leveldb", "leveldb", "TestVerifC15Leveldb", 600, shards_quick=3),
        dict(dir="config", pkgname="config_test", files=["config/c15_manager_test.go"], test="TestVerifC15Manager",
             n_quick=260, n_thorough=4000, shards_quick=2, shards_thorough=4),
    ],
    "gen": ["ConfigSchemas", "ConfigValidators", "ConfigCustoms"],
    "force": ["Model/C15_Check.v", "Proofs/C15_Tables.v", "Proofs/C15_Manager.v"],
    "diag": True,
    "rule": "per section: every member of the JSON struct (found by reflection) x every candidate value of its kind on the default document "
            "(boundary stream), random multi-member documents on the default and on the empty document, wrong JSON types, raw non-objects; "
            "non-trivial = at least one member set; distinct = distinct canonical JSON of the input; "
            "Manager: any subset of the 14 components registered x files with sections absent/null/not-an-object/modified, sections of unregistered "
            "and of unknown components carrying planted secrets, unknown top-level members, malformed files; LoadJSON / LoadJSONFromFile+SaveJSON / Default",
    "codes": {1: "model_eq_impl (C15 load/save tables vs LoadJSON/ToJSON)", 10: "accepted configuration fails Validate()",
              11: "ToJSON(LoadJSON(ToJSON(cfg))) differs from ToJSON(cfg)", 12: "secret present in ToDisplayJSON",
              13: "a well-formed setting of the document is missing from the loaded configuration", 14: "default configuration invalid",
              15: "a section of the accepted file whose component is not registered in the Manager is lost or altered by ToJSON/SaveJSON",
              16: "a member named secret/private_key/basic_auth_credentials is shown in Manager.ToDisplayJSON without the hidden marker",
              17: "the Manager accepted a file although a section in it is refused by its registered component"},
    "tags": {1: "raft-namespace-dropped", 2: "mergo-drops-false-bool"},
    "trusted": ["the Validate() translator's kind-directed reading of == nil / len == 0 and its oracle table (self-tested against native evaluation at every run)",
                "time.ParseDuration/Duration.String, multiaddr, peer ID, hex and key parsers: abstract (the harness tells the model accept/reject and the canonical form)",
                "encoding/json, envconfig, mergo (zero values skipped with WithOverride)"],
    "level_text": "generic theorems (Props/C15.v, 36, all closed under the global context) over every table and every document; tables regenerated from the config.go files at every run; correspondence per package; "
                  "the Validate() method of every section (with the helpers it calls and hashicorp/raft ValidateConfig at the pinned version) is TRANSLATED at every run (Gen/ConfigValidators.v, one clause per rejection) "
                  "and proved equal, for every oracle and configuration, to the model's validator (validators_source_is_model); crdt's trusted-peers rule likewise (Gen/ConfigCustoms.v, customs_source_is_model); "
                  "the per-section run-time monitors are tied to the theorems: a case annotated with the model's own outputs raises no code (every section, mode, document, environment), "
                  "each absent code 10-14 implies its Prop-level clause, and a case without code 1 is an observation of a configuration the model accepts",
    "level_note": "validators and the crdt trusted-peers rule: translated from the source and proved equal to the model (a changed Validate() is reported by the clause that differs, and by a counterexample where the harness hits the bound); "
                  "library outcomes (TLS pair loads, ID matches key) are named oracles; restapi ssl_cert_file/ssl_key_file (tlsOptions) remain a hand transcription pinned by source hash",
    "assumptions": [],
}

# development aid: VERIF_C15_ONLY=TestVerifC15Manager runs a single harness of this property
import os as _os
if _os.environ.get("VERIF_C15_ONLY"):
    SPEC["go"] = [g for g in SPEC["go"] if g["test"] in _os.environ["VERIF_C15_ONLY"].split(",")]
