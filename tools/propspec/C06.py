STATELESS = {"dir": "pintracker/stateless", "pkgname": "stateless"}
ROOT = {"dir": "", "pkgname": "ipfscluster"}

SPEC = {
    "go": [dict(STATELESS, files=["stateless/c05_rig_test.go", "stateless/c05_test.go"], test="TestVerifC05",
                n_quick=260, n_thorough=9000, shards_quick=4, shards_thorough=24, timeout_quick=600),
           dict(ROOT, files=["root/rig_test.go", "root/c06_global_test.go"], test="TestVerifC06Global",
                n_quick=400, n_thorough=12000, shards_quick=2, shards_thorough=12, timeout_quick=600)],
    "rule": "tracker part: the C05 event scripts (track/untrack/recover/recoverall/complete(ok|fault)/daemon-change over 1..4 CIDs, "
            "local/everywhere/remote/meta x recursive/direct, arbitrary initial shared state and daemon content); after every event "
            "Status of every CID, StatusAll(0) and StatusAll(f) for 4 masks (10 at the end of a script: single statuses, the composites "
            "error/queued, random unions, out-of-range bits). cluster-wide part: 1..7 members (two without a reachable host), "
            "allocation lists (including non-members and a peer listed twice), per-peer reply / error / authorization error, follower mode, "
            "a malformed stream where a reply carries another peer's identity. non-trivial = (tracker) an instruction issued while a call for "
            "the same CID was in flight or an injected failure; (cluster) >= 2 members and not follower mode; distinct = distinct canonical JSON of the input",
    "codes": {1: "model_eq_impl (C06: Status/StatusAll/StatusAll(f) after every event; globalPinInfoCid/Slice peer maps)",
              20: "spec_okb Status truthful at quiescence (C06)", 21: "spec_okb StatusAll truthful at quiescence (C06)",
              22: "spec_okb Status and StatusAll agree (C06)", 23: "spec_okb filtered listing = unfiltered listing restricted to the filter (C06)",
              24: "spec_okb queued/in-progress only while an operation is pending (C06)",
              30: "spec_okb a peer at most once per CID in the cluster-wide view (C06)",
              31: "spec_okb allocated peers: own report or cluster_error; other members remote (C06)",
              32: "spec_okb listing: an unreachable member is cluster_error for every listed CID (C06)"},
    "tags": {},
    "trusted": ["harness/stateless/c05_rig_test.go (see C05)", "harness/root/c06_global_test.go: scripted PinTracker RPC services on in-process libp2p hosts, "
                "fake consensus (Peers, State over a real dsstate)", "go-libp2p-gorpc MultiCall / authorization errors"],
    "level_text": "Theorems (Props/C06.v, closed): filter law for every state and every mask, agreement of the two views at every reachable state, "
                  "truthfulness at quiescence, constants disjoint, Match laws, cluster-wide view (once per peer, allocated/remote/unreachable); the models are "
                  "compared with the real Tracker after every event of generated scripts and with the real globalPinInfoCid/Slice on generated reply vectors; "
                  "monitors tied to the statements: cluster-wide view codes 30/31/32 sound and complete (gcid_/gslice_model_passes: a case carrying the model's answer yields []; "
                  "gcid_/gslice_monitor_sound), tracker codes 22/23 sound and complete for the model (views_agree_/filter_law_monitor_sound, model_views_pass); "
                  "code 24 sound and complete for the model with >= 1 pin worker (pending_monitor_sound, model_pending_pass, via the dispatch fact of C05), codes 20/21 sound (truthful_monitor_sound); and complete for the model on stable scripts that follow the harness convention for RecoverAll (truthful_model_passes; the convention and stability are both shown necessary by example)",
    "level_note": "model tied to code by differential testing (generator-bounded); status classes are compared where the two views use different names "
                  "for the same fact (pin_error / unexpectedly_unpinned); truthfulness assumes a CID does not change between meta and non-meta without an unpin",
    "assumptions": ["connector/daemon contract of C16", "every change of the shared state is followed by the matching Track/Untrack",
                    "a CID does not change between meta and non-meta without being unpinned first (Cluster.pin enforces it)",
                    "peers report their own identity in PinInfo.Peer (the model also covers the other case; the allocated/remote clause assumes it)"],
}
