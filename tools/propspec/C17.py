import os

_REPO = os.environ.get("VERIF_REPO", "/repo")


def _fsm_variant():
    try:
        src = open(os.path.join(_REPO, "consensus/raft/consensus.go")).read()
    except OSError:
        src = ""
    return "raft/c01_fsm_fixed_test.go" if "type restoreFSM struct" in src else "raft/c01_fsm_asis_test.go"


RAFT = {"dir": "consensus/raft", "pkgname": "raft"}
FILES = ["raft/c01_rig_test.go", _fsm_variant(), "raft/c01_test.go", "raft/c01_r2_test.go", "raft/c17_test.go", "raft/c01_r3_test.go"]

ROOT = {"dir": "", "pkgname": "ipfscluster"}
ROOT_FILES = ["root/rig_test.go", "root/rig_c04_test.go", "root/c17_cluster_test.go", "root/c17_cluster_raft_test.go"]

SPEC = {
    "go": [dict(RAFT, files=FILES, test="TestVerifC17", n_quick=60, n_thorough=1200, shards_quick=4, shards_thorough=12,
                timeout_quick=600, timeout_thorough=3000),
           dict(ROOT, files=ROOT_FILES, test="TestVerifC17Cluster", n_quick=300, n_thorough=6000, shards_quick=6, shards_thorough=12,
                timeout_quick=600, timeout_thorough=3000)],
    "rule": "generated scripts on rig R1 (real hashicorp/raft nodes in memory, real FSM and *Consensus): 1..3 initial members of 6 "
            "peer identities; AddPeer/RmPeer through the real Consensus.AddPeer/RmPeer at leader and followers (of absent, present, "
            "last, leading and own peers) interleaved with pin/unpin, snapshots, restarts; every joiner runs the real WaitForSync and "
            "is observed when it returns, some with their FSM held back (entries queued, not applied); Peers() of every live member after quiescence. non-trivial = at least two membership calls "
            "and one acknowledged write; distinct = distinct canonical JSON of the script",
    "codes": {1: "model_eq_impl (C17: membership wrappers + C01 FSM model driven by the observed schedule)",
              2: "spec_okb (C17: success = member/non-member, nothing else changes, present-add and absent-remove are successful no-ops, "
                 "the last peer is not removable, all live members report the same set)",
              10: "spec_okb (C17 pinsets: every member = replay of a prefix; a ready joiner covers everything committed before its join returned)"},
    "tags": {1: "origins-undecodable-raft", 3: "snapshot-persist-not-point-in-time", 4: "ready-before-fsm-applied"},
    "trusted": ["harness/raft/c01_rig_test.go (guard FSM, recorders, redirect service), harness/raft/c17_test.go: a removed peer is stopped by "
                "the harness (Cluster.watchPeers/Shutdown do that in the product) and never rejoins under the same identity",
                "hashicorp/raft v1.1.1 configuration changes (joint consensus safety, every member eventually receives the entries)"],
    "level_text": "Theorems (Props/C17.v) over the Gallina transcription of raftWrapper.AddPeer/RemovePeer, the Consensus.AddPeer/RmPeer retry "
                  "loops, Peers() and WaitForSync for every log, every peer, every per-attempt outcome of hashicorp/raft and every schedule of "
                  "receive/apply/install/restart events; the transcription is driven by what real Raft nodes did at every run",
    "level_note": "partial: joint-consensus safety and eventual delivery are hashicorp/raft's; the cluster-level part (PeerAdd/Join/PeerRemove/"
                  "watchPeers self-shutdown, data folder cleanup, re-pinning before removal) is not exercised by this check",
    "assumptions": ["every member receives the one committed log in index order; a snapshot carries the configuration of its index",
                    "C01: clean ops are applied as plain writes (raft_prefix_invariant_partial)"],
}
