import os

_REPO = os.environ.get("VERIF_REPO", "/repo")


def _fsm_variant():
    try:
        src = open(os.path.join(_REPO, "consensus/raft/consensus.go")).read()
    except OSError:
        src = ""
    return "raft/c01_fsm_fixed_test.go" if "type restoreFSM struct" in src else "raft/c01_fsm_asis_test.go"


RAFT = {"dir": "consensus/raft", "pkgname": "raft"}
FILES = ["raft/c01_rig_test.go", _fsm_variant(), "raft/c01_test.go", "raft/c01_r2_test.go", "raft/c17_test.go", "raft/c01_r3_test.go"]

ROOT = {"dir": "", "pkgname": "ipfscluster"}
ROOT_FILES = ["root/rig_test.go", "root/rig_c04_test.go", "root/c17_cluster_test.go", "root/c17_cluster_raft_test.go", "root/c17_probe_test.go"]

SPEC = {
    "go": [dict(RAFT, files=FILES, test="TestVerifC17", n_quick=60, n_thorough=1200, shards_quick=4, shards_thorough=12,
                timeout_quick=600, timeout_thorough=3000),
           dict(ROOT, files=ROOT_FILES, test="TestVerifC17Cluster", n_quick=300, n_thorough=4000, shards_quick=6, shards_thorough=12,
                timeout_quick=600, timeout_thorough=3000)],
    "rule": "generated scripts on rig R1 (real hashicorp/raft nodes in memory, real FSM and *Consensus): 1..3 initial members of 6 "
            "peer identities; AddPeer/RmPeer through the real Consensus.AddPeer/RmPeer at leader and followers (of absent, present, "
            "last, leading and own peers) interleaved with pin/unpin, snapshots, restarts; every joiner runs the real WaitForSync and "
            "is observed when it returns, some with their FSM held back (entries queued, not applied), some LAGGING: the joiner's Raft reads its RPCs through a gate that "
            "lets entries through up to a scripted log index (leader MaxAppendEntries = 1), so it has received nothing / one entry / half / all but its own add entry while WaitForSync runs "
            "(every 8th script is this shape on a 2..3-member cluster, plus 15 % of the random joins); some with a STALE member: a follower stopped with its stores, the membership changed without it (a peer added / removed), the follower started again "
            "behind the same gate (heartbeats reach it, entries do not: its own Peers() is the old peerset) and asked for the opposite change (RmPeer of the peer it does not list / AddPeer of the one it still lists), "
            "then everybody catches up (every 8th script, alternating); Peers() of every live member after quiescence. non-trivial = at least two membership calls "
            "and one acknowledged write; distinct = distinct canonical JSON of the script. "
            "Cluster level (TestVerifC17Cluster, package ipfscluster): generated scripts of the REAL Cluster.PeerRemove / PeerAdd / watchPeers / Shutdown "
            "on 1..4 of 5 peers. Rig A: struct-literal Cluster peers, each running the real watchPeers goroutine, over a recording fake of the consensus "
            "component (scripted outcome of every RmPeer / AddPeer / LogPin; Clean = the real raft.CleanupRaft on real data folders with pre-existing backups; "
            "what a peer's watcher sees can be frozen and released): pinsets with pins held by the removed peer, at / under / over their minimum, pin-update, "
            "meta, expired pins; repinning on / off / follower; remove at another peer, at oneself, at a stopped peer, of an absent peer, of the last peer; RmPeer "
            "committed / appended-but-error / refused; refused LogPin; a peer replaced (one added, it removed) between two looks of its watcher; LeaveOnShutdown; "
            "restart; user pin / unpin in between. Rig B: peers made by the real NewCluster on the real raft.Consensus (libp2p, boltdb, file snapshots): removal of a "
            "follower at the leader, of the leader at a follower, of oneself, of the leader by itself, of an absent peer, a joiner, shutdown of an unremoved "
            "member (3 scripts quick, 16 thorough). non-trivial = at least two members, one PeerRemove, and a re-pin or a peer that removed itself",
    "codes": {1: "model_eq_impl (C17: membership wrappers + C01 FSM model driven by the observed schedule)",
              2: "spec_okb (C17: success = member/non-member, nothing else changes, present-add and absent-remove are successful no-ops, "
                 "the last peer is not removable, all live members report the same set)",
              10: "spec_okb (C17 pinsets: every member = replay of a prefix; a ready joiner covers everything committed before its join returned)",
              11: "spec_okb (C17 joiner: WaitForSync returned on a peer that had not received its own add entry - it did not list itself in its own Peers())",
              20: "spec_okb (C17 cluster level, one operation: PeerRemove re-pins before the configuration entry and drops no pin, disabled re-pinning only "
                  "removes, success = no member and nothing else changes, every pin the removed peer held has C10's outcome; other operations leave the pinset alone)",
              21: "spec_okb (C17 cluster level, who runs: a peer whose own view of the peerset lacks it has stopped itself; a member has not; nobody starts by itself)",
              22: "spec_okb (C17 cluster level, data folders at the end: a peer that stopped because it was removed (and had become ready) cleaned exactly once, its "
                  "folder is gone and the backups are C14's rotation; a peer never out of the peerset and not leaving never cleaned, folder and backups untouched)"},
    "tags": {1: "origins-undecodable-raft", 3: "snapshot-persist-not-point-in-time", 4: "ready-before-fsm-applied"},
    "trusted": ["harness/raft/c01_rig_test.go (guard FSM, recorders, redirect service), harness/raft/c17_test.go: a removed peer is stopped by "
                "the harness (Cluster.watchPeers/Shutdown do that in the product) and never rejoins under the same identity",
                "hashicorp/raft v1.1.1 configuration changes (joint consensus safety, every member eventually receives the entries)",
                "harness/root/c17_cluster_test.go rig A: the fake consensus component (RmPeer / AddPeer decide as raftWrapper does: absent / present no-op, last peer refused; "
                "a stopped component refuses everything), stub host, fake tracker / tracer / monitor / IPFS; rig B cross-checks the fake against the real raft.Consensus at every run",
                "Shutdown of the monitor, APIs, IPFS connector, tracker, informers and tracer succeeds (an error there makes Cluster.Shutdown return before doneCh is closed)"],
    "level_text": "Theorems (Props/C17.v) over the Gallina transcription of raftWrapper.AddPeer/RemovePeer, the Consensus.AddPeer/RmPeer retry "
                  "loops, Peers() and WaitForSync for every log, every peer, every per-attempt outcome of hashicorp/raft and every schedule of "
                  "receive/apply/install/restart events; the transcription is driven by what real Raft nodes did at every run. Cluster level: theorems over a "
                  "machine (Model/C17_Cluster.v) of PeerRemove (C10's re-pin loop, then the membership wrapper), PeerAdd, Join, watchPeers ticks, Shutdown "
                  "(leave, snapshot, clean = C14's cleanup), restart and user calls, for every event list: ordering of re-pins before the configuration entry, no pin "
                  "dropped, disabled re-pinning only removes, a removed peer stops and cleans (one more backup per C14), an unremoved peer keeps its data; compared with "
                  "the real Cluster methods at every run",
    "level_note": "partial: joint-consensus safety and eventual delivery of configuration entries (also to the removed peer) are hashicorp/raft's; the per-pin "
                  "re-homing statement carries C10's guard (pins made by pin-update: finding repin-update-redirect); 'an unremoved peer never cleans' holds for peers "
                  "without LeaveOnShutdown (with it the data is cleaned even when leaving failed: refuted/partial pair, reproduced on both rigs)",
    "assumptions": ["every member receives the one committed log in index order; a snapshot carries the configuration of its index",
                    "C01: clean ops are applied as plain writes (raft_prefix_invariant_partial)"],
}
