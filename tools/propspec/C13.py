SHARDING = {"dir": "adder/sharding", "pkgname": "sharding"}
FILES = ["adder_sharding/c13_rig_test.go", "adder_sharding/c13_synth_test.go", "adder_sharding/c13_files_test.go", "adder_sharding/c13_shape_test.go"]

SPEC = {
    "go": [
        dict(SHARDING, files=FILES, test="TestVerifC13Shard", n_quick=260, n_thorough=20000, shards_quick=4, shards_thorough=12,
             timeout_quick=600, timeout_thorough=3000),
        dict(SHARDING, files=FILES, test="TestVerifC13Single", n_quick=200, n_thorough=15000, shards_quick=2, shards_thorough=8,
             timeout_quick=600, timeout_thorough=3000),
        dict(SHARDING, files=FILES, test="TestVerifC13Files", n_quick=60, n_thorough=3000, shards_quick=4, shards_thorough=12,
             timeout_quick=600, timeout_thorough=3000),
        dict(SHARDING, files=FILES, test="TestVerifC13Shape", n_quick=160, n_thorough=6000, shards_quick=4, shards_thorough=12,
             timeout_quick=600, timeout_thorough=3000),
    ],
    "tags": {1: "unixfs-balanced-first-leaf-error-swallowed"},
    "rule": "synthetic importer streams (1..30 raw / dag-pb nodes, duplicates, links to earlier nodes, sizes around the shard limit: "
            "sum = limit-1/limit/limit+1, single block of limit-1/limit/limit+1, empty blocks, limit 0..2; 5983..11969 small nodes around "
            "MaxLinks and 2*MaxLinks) x allocation scripts (1..4 lists of 1..5 peers, errors, empty lists) x replication factors "
            "(-1, 0, 1..3) x put faults at any (round, destination) of daemon / gorpc-server / gorpc-client class (sparse and dense) x pin "
            "faults, through the real sharding and single DAG services and BlockAdder; every case is compared exactly with the model. "
            "non-trivial = at least 2 distinct blocks and the run reached a pin or failed on a put; distinct = distinct canonical JSON input",
    "codes": {1: "model_eq_impl (C13 trace of BlockAllocate / BlockPut rounds / Pin calls and result)",
              10: "delivered_equals_produced", 11: "shards_partition", 12: "shard_under_limit", 13: "shard_depth_covers",
              14: "final_pins", 15: "failure_no_root_pin",
              20: "content: delivered blocks not closed under links from the root", 21: "content: a file does not read back byte for byte",
              22: "content: root differs between sharded and unsharded add", 23: "content: root differs from go-unixfs' importer",
              24: "content: result / error differs between sharded and unsharded add"},
    "trusted": ["harness/adder_sharding/c13_rig_test.go: recording Cluster.BlockAllocate / Cluster.Pin / IPFSConnector.BlockPut services "
                "behind a local gorpc server; call destination and MultiCall identity read from *rpc.Call through a server stats handler",
                "sha2-256 collision freedom and injectivity of the CBOR link-map encoding (cluster-built nodes are modelled by their link list)",
                "go-unixfs importer, chunkers, go-merkledag, go-ipld-cbor (the importer is an input of the model)"],
    "level_text": "Theorems (Props/C13.v, all closed) over the Gallina transcription of BlockAdder.Add/AddMany, the single DAG service, and the "
                  "sharding DAG service (ingestBlock, flushCurrentShard, shard.Flush, makeDAG, Finalize) for every importer stream, root, "
                  "shard limit, MaxLinks > 0, allocation script, put-outcome script and pin-outcome script; the transcription is compared "
                  "event by event with the real services on generated streams at every run and the implementation's own trace is checked "
                  "against the boolean form of each clause (codes 10..15); each of these monitors is proved sound (delivered_/partition_/under_limit_/"
                  "depth_/final_pins_/failure_monitor_sound: an accepted trace satisfies the Prop-level clause) and complete for the model "
                  "(model_passes_monitors: for every strict input the model's own result and trace, sharded, unsharded or aborted, pass all six)",
    "level_note": "partial: the importer (chunkers, layouts, UnixFS, dag-pb, SHA-256) is an input of the model; closure of the delivered "
                  "blocks, byte-for-byte read-back and root equality (sharded = unsharded = go-unixfs importer) are differential tests on "
                  "generated file trees, not proofs. Model tied to code by differential testing (generator-bounded)",
    "assumptions": ["the importer stream is link-closed and contains the root (go-unixfs importer contract; checked on every real-tree case)",
                    "BlockAllocate returns a non-nil list (the real RPC does)",
                    "MaxLinks > 0"],
}
