SHARDING = {"dir": "adder/sharding", "pkgname": "sharding"}
FILES = ["adder_sharding/c13_rig_test.go", "adder_sharding/c13_synth_test.go", "adder_sharding/c13_files_test.go", "adder_sharding/c13_shape_test.go", "adder_sharding/c13_tree_test.go"]

SPEC = {
    "go": [
        dict(SHARDING, files=FILES, test="TestVerifC13Shard", n_quick=260, n_thorough=20000, shards_quick=4, shards_thorough=12,
             timeout_quick=600, timeout_thorough=3000),
        dict(SHARDING, files=FILES, test="TestVerifC13Single", n_quick=200, n_thorough=15000, shards_quick=2, shards_thorough=8,
             timeout_quick=600, timeout_thorough=3000),
        dict(SHARDING, files=FILES, test="TestVerifC13Files", n_quick=60, n_thorough=3000, shards_quick=4, shards_thorough=12,
             timeout_quick=600, timeout_thorough=3000),
        dict(SHARDING, files=FILES, test="TestVerifC13Tree", n_quick=120, n_thorough=5000, shards_quick=4, shards_thorough=12,
             timeout_quick=600, timeout_thorough=3000),
        dict(SHARDING, files=FILES, test="TestVerifC13Shape", n_quick=160, n_thorough=6000, shards_quick=4, shards_thorough=12,
             timeout_quick=600, timeout_thorough=3000),
    ],
    "tags": {1: "unixfs-balanced-first-leaf-error-swallowed"},
    "rule": "synthetic importer streams (1..30 raw / dag-pb nodes, duplicates, links to earlier nodes, sizes around the shard limit: "
            "sum = limit-1/limit/limit+1, single block of limit-1/limit/limit+1, empty blocks, limit 0..2; 5983..11969 small nodes around "
            "MaxLinks and 2*MaxLinks) x allocation scripts (1..4 lists of 1..5 peers, errors, empty lists) x replication factors "
            "(-1, 0, 1..3) x put faults at any (round, destination) of daemon / gorpc-server / gorpc-client class (sparse and dense) x pin "
            "faults, through the real sharding and single DAG services and BlockAdder; every case is compared exactly with the model. "
            "non-trivial = at least 2 distinct blocks and the run reached a pin or failed on a put; distinct = distinct canonical JSON input. "
            "TestVerifC13Shape: single files (sizes 0, 1, k-1, k, k+1, around a full node / tree / trickle layer for links-per-block 2..5 and "
            "the shipped 174, multiples, random; zeros = shared sub-DAGs) x size-k chunkers x balanced / trickle x raw-leaves x CID v0/v1 "
            "x single / sharding service through the real Adder: the DAG the importer built, block by block in the order of DAGService.Add, "
            "is compared with the Coq model of the importer; non-trivial there = the DAG has an internal node. "
            "TestVerifC13Tree: file trees of depth 0..3 with 0..5 entries per directory (empty directories, empty files, hidden names, a single "
            "file, the empty directory) x wrap x hidden x FromFiles / FromMultipart x layouts x links-per-block 2, 3, 174 x single / sharding "
            "service: EVERY node handed to DAGService.Add (file blocks and directory nodes with their link names) is compared with the model of "
            "the importer on a tree; non-trivial there = at least one directory node and one file",
    "codes": {1: "model_eq_impl (C13 trace of BlockAllocate / BlockPut rounds / Pin calls and result)",
              10: "delivered_equals_produced", 11: "shards_partition", 12: "shard_under_limit", 13: "shard_depth_covers",
              14: "final_pins", 15: "failure_no_root_pin",
              20: "content: delivered blocks not closed under links from the root", 21: "content: a file does not read back byte for byte",
              22: "content: root differs between sharded and unsharded add", 23: "content: root differs from go-unixfs' importer",
              24: "content: result / error differs between sharded and unsharded add",
              30: "importer shape: a link of an observed block goes to a block not handed to the DAG service before, or the last block is not the root",
              31: "importer shape: the observed leaves in order are not the file, or an internal node carries data",
              32: "importer shape: fan-out (balanced: 1..maxlinks children, leaves at one depth; trickle: leaf layer then layers of at most 4 sub-trees)",
              33: "importer shape: a recorded size (UnixFS blocksize / Filesize) is not the number of file bytes below the link / the root",
              34: "importer shape: number of UnixFS blocksizes differs from the number of links",
              35: "importer shape: the single-file add failed or the root is not in the stream",
              36: "importer shape: the add of a single file did not return within 30 s (the layout does not terminate)",
              40: "importer tree: a link of an observed block goes to a block not handed to the DAG service before, or the root was never handed to it",
              41: "importer tree: a file of the tree does not read back byte for byte by its path from the returned root over the observed blocks",
              42: "importer tree: the links of a directory block are not strictly sorted by name, or a file block has a named link",
              45: "importer tree: a block that is neither a raw node, a UnixFS file node nor a basic directory (HAMT shard, symlink)",
              46: "importer tree: number of UnixFS blocksizes differs from the number of links",
              47: "importer tree: the add failed or the root is not in the stream",
              48: "importer tree: the add did not return within 30 s"},
    "trusted": ["harness/adder_sharding/c13_rig_test.go: recording Cluster.BlockAllocate / Cluster.Pin / IPFSConnector.BlockPut services "
                "behind a local gorpc server; call destination and MultiCall identity read from *rpc.Call through a server stats handler",
                "sha2-256 collision freedom and injectivity of the CBOR link-map encoding (cluster-built nodes are modelled by their link list)",
                "go-unixfs importer for directories / HAMT / MFS, the rabin and buzhash chunkers, go-merkledag (dag-pb), the UnixFS protobuf encoding, "
                "go-ipld-cbor, SHA-256 and the other hash functions (for these the importer is an input of the model; the size chunker and the "
                "balanced / trickle layouts for one file are modelled, proved and compared block by block with the real importer)",
                "harness/adder_sharding/c13_shape_test.go: decoding of the observed blocks with go-merkledag / go-unixfs (links, UnixFS blocksizes, Data); "
                "helpers.DefaultLinksPerBlock lowered through the package variable the real ipfsadd reads"],
    "level_text": "Theorems (Props/C13.v, all closed) over the Gallina transcription of BlockAdder.Add/AddMany, the single DAG service, and the "
                  "sharding DAG service (ingestBlock, flushCurrentShard, shard.Flush, makeDAG, Finalize) for every importer stream, root, "
                  "shard limit, MaxLinks > 0, allocation script, put-outcome script and pin-outcome script; the transcription is compared "
                  "event by event with the real services on generated streams at every run and the implementation's own trace is checked "
                  "against the boolean form of each clause (codes 10..15); each of these monitors is proved sound (delivered_/partition_/under_limit_/"
                  "depth_/final_pins_/failure_monitor_sound: an accepted trace satisfies the Prop-level clause) and complete for the model "
                  "(model_passes_monitors: for every strict input the model's own result and trace, sharded, unsharded or aborted, pass all six). "
                  "For ONE file the importer itself is modelled as written (go-ipfs-chunker size splitter, go-unixfs DagBuilderHelper, balanced.Layout / "
                  "fillNodeRec, trickle.Layout / fillTrickleRec) and proved for every byte string, chunk size k > 0 and links-per-block >= 2 (balanced; "
                  "1 for trickle; with 1 balanced.Layout provably never ends): the layouts terminate, concat of the chunks = the file, the leaves are "
                  "the chunks in order, read_back = the file, every link records the bytes below it (so a seeking reader is correct: importer_seek), "
                  "balanced fan-out 1..maxlinks at uniform depth, the trickle layer structure (tshape; fan-out <= maxlinks + 4 (maxDepth - 1)), blocks are handed to DAGService.Add children first and the root last; this stream "
                  "meets the importer contract of the adder theorems, giving single_file_delivered_closed_and_readable(_sharded): after a successful add "
                  "exactly the importer's root is pinned, every block reachable from it was put, and a reader over the blocks that were put returns "
                  "exactly the input bytes. The same for FILE TREES (Model/C13_Tree.v: ipfsadd AddAllAndPin / addDir / addNode / outputDirs, go-mfs Mkdir / PutNode / "
                  "GetNode / Flush / Close, BasicDirectory with links sorted by name, hidden filter, wrap; no HAMT, no bound on the width): the emitted "
                  "blocks are closed under links and contain the root (tree_emission_closed), a directory links exactly its entries' names, sorted "
                  "(dir_links_named), and tree_delivered_closed_and_readable(_sharded): for every emission with the model's blocks (go-mfs emits directory "
                  "nodes in Go map order, several times), after a successful add the root is pinned, every reachable block was put, and every visible file "
                  "is found by its path and reads back byte for byte from the blocks that were put (TestVerifC13Tree compares every emitted node). "
                  "The importer model is compared block by block with the DAG the real importer builds (TestVerifC13Shape, code 1) "
                  "and the observed DAG is checked against the boolean clauses (codes 30..33; closed_/shape_/trickle_monitors_sound, balanced_/trickle_passes_monitors)",
    "level_note": "partial: for HAMT-sharded directories (never produced by this code: uio.HAMTShardingSize stays 0), symlinks, for the rabin / buzhash chunkers, and for the encodings (dag-pb, UnixFS protobuf, "
                  "raw leaves, CID versions, SHA-256 and the other hashes: in the model a block is its content and the hash any collision-free function) "
                  "the importer stays an input of the model; closure of the delivered blocks, byte-for-byte read-back and root equality (sharded = "
                  "unsharded = go-unixfs importer) are there differential tests on generated file trees, not proofs. "
                  "Model tied to code by differential testing (generator-bounded)",
    "assumptions": ["the importer stream is link-closed and contains the root (go-unixfs importer contract; proved for one file with a size-k chunker, "
                    "proved for file trees without symlinks, checked on every real-tree case otherwise)",
                    "uio.HAMTShardingSize = 0 (shipped; nothing in ipfs-cluster sets it; go-mfs builds plain BasicDirectories): directories are never "
                    "HAMT-sharded, whatever their width; names unique per directory (a file system guarantees it); fewer than 262144 entries per add "
                    "(no FlushMemFree); one top-level entry per add",
                    "no CID collision among the blocks of one DAG (injective_on); chunk size k > 0 (chunker.FromString rejects size-0) and "
                    "k <= 1 MiB (BlockSizeLimit, ChunkSizeLimit: not modelled); links-per-block >= 2 (shipped: 174)",
                    "BlockAllocate returns a non-nil list (the real RPC does)",
                    "MaxLinks > 0"],
}
