MET = {"dir": "monitor/metrics", "pkgname": "metrics"}
PSM = {"dir": "monitor/pubsubmon", "pkgname": "pubsubmon"}
ROOT = {"dir": "", "pkgname": "ipfscluster"}

SPEC = {
    "go": [dict(MET, files=["metrics/c09_test.go"], test="TestVerifC09",
                n_quick=400, n_thorough=8000, shards_quick=4, shards_thorough=12, timeout_quick=600, timeout_thorough=1500),
           dict(PSM, files=["pubsubmon/c09_test.go"], test="TestVerifPsmonC09",
                n_quick=60, n_thorough=600, shards_quick=1, shards_thorough=4, timeout_quick=600, timeout_thorough=1500),
           dict(ROOT, files=["root/rig_test.go", "root/c09_test.go"], test="TestVerifCadenceC09",
                n_quick=5, n_thorough=24, shards_quick=1, shards_thorough=1, timeout_quick=600, timeout_thorough=1500)],
    "rule": "histories on the real metrics.Store + Checker (55% structured: adds of any name/peer/validity/expiry before, at or after now, "
            "ticks, CheckPeers over random peer lists with duplicates and unknown peers, CheckAll, LatestValid, RemovePeer, accrual verdict "
            "switches; 33% boundary: bursts of 1..51 adds to one window (around 3, the accrual minimum 6, the ring capacity 25), expiry, "
            "1..4 consecutive checks, renewal; 12% malformed: invalid / long-expired metrics, empty peer lists, unknown names); histories on a real "
            "pubsubmon.Monitor with PeersFunc nil / failing / giving peersets; 5+ timed runs of the real pushPingMetrics / pushInformerMetrics. "
            "non-trivial = a history with >= 2 adds and >= 1 observing operation, a cadence run with >= 3 publications; distinct = distinct canonical JSON input",
    "codes": {1: "model_eq_impl (C09: LatestMetrics ids in order / alerts as a multiset / publish schedule lower bound)",
              2: "spec_okb latest (C09: a reported metric is invalid, expired, not the most recent of its peer, not a member, or a peer appears twice)",
              10: "spec_okb no_alert_when_fresh (C09: alert for a (name, peer) whose most recent metric has not expired)",
              11: "spec_okb alert_once (C09: more than one alert for a (name, peer) since its last metric arrived)",
              13: "spec_okb expired_is_reported (C09: CheckPeers saw a (name, peer) whose most recent metric had expired, never alerted for, and did not alert)",
              12: "spec_okb cadence (C09: a metric was republished after the previous one had expired, or stamped with too short a TTL)"},
    "trusted": ["the harness steers time by rewriting Expire (+/- 1 h) and the accrual verdict by rewriting ReceivedAt of the metrics it holds pointers to; "
                "api.Metric.Expired / Discard are exercised through that, the phi arithmetic (prob.go) only at its two extremes",
                "container/ring, sort.Stable (Go stdlib)",
                "cadence: wall-clock measurement with three attempts; margins interval (ping) and TTL/2 (informers)"],
    "level_text": "Theorems (Props/C09.v, 25, all closed) over the Gallina transcription of Store/Window/PeersetFilter/LatestMetrics and of the repaired Checker "
                  "(branch fix-S9): one metric per peer, the most recent, valid, unexpired, member, complete; no alert when fresh; from any state over any history without "
                  "renewal at most one alert per (name, peer) and the stale window is gone; an observed expiry is reported; a removed peer is forgotten under every name until it publishes again and its removal touches nobody else (removed_peer_forgotten / _not_reported / remove_peer_touches_only_that_peer); ping and informer schedules never lapse for "
                  "every interval / TTL / error pattern. The transcription is compared with the real packages on generated histories at every run, and the implementation's answers are judged by history-only monitors (codes 2, 10, 11, 13) that are proved sound (latest_monitor_sound, alerts_fresh/once/reported_monitor_sound: a code not produced implies the Prop-level clause over the whole history) and complete for the model (hist_model_passes_monitor: the model's own answers never trip a monitor; hist_agreeing_passes_monitor: nor does any history the model agrees with)",
    "level_note": "partial: the cadence theorems are about the schedule the code requests (timer latency and goroutine start-up are measured, not modelled); "
                  "the accrual verdict phi is an oracle; model tied to code by differential testing (generator-bounded)",
    "assumptions": ["a check pass is instantaneous (one `now` per pass)", "timers never fire early"],
}
