#!/usr/bin/env python3
"""Developer helper for C15 (not used by ./check): build one section harness, run it, evaluate its cases with coqc
and print timing + the failing tuples.  usage: tools/c15_dev.py <TestName> [N] [seed]"""
import sys, os, time, glob, shutil, subprocess
sys.path.insert(0, os.path.dirname(os.path.abspath(__file__)))
import run
from props import PROPS


def main():
    test = sys.argv[1]
    n = int(sys.argv[2]) if len(sys.argv) > 2 else 300
    seed = int(sys.argv[3]) if len(sys.argv) > 3 else 1
    spec = PROPS["C15"]
    ok, o = run.run_translators()
    if not ok:
        print(o)
    rc, mo = run.coq_build()
    if rc != 0:
        print(mo[-3000:])
    ov = run.make_overlay(spec["go"])
    for g in spec["go"]:
        if g["test"] != test:
            continue
        b, o = run.build_harness(g, ov)
        if b is None:
            print(o[-4000:])
            return 1
        outdir = os.path.join(run.CASES, "dev_" + test)
        rc, o = run.run_harness(b, g, "C15", outdir, seed, n, 1)
        lines = [l for l in o.splitlines() if "ERROR" not in l and "WARN" not in l]
        print("\n".join(lines[-15:]))
        if rc != 0:
            return rc
        files = sorted(glob.glob(os.path.join(outdir, "*.v")))
        t = time.time()
        fails, errs = run.eval_cases(files)
        print("coq eval %.1fs; %d failing tuples; errors: %s" % (time.time() - t, len(fails), errs[:1]))
        side = run.load_sidecar(outdir)
        shown = 0
        seen = set()
        for (_, cid, code, tag) in fails:
            if (code, tag) in seen and shown > 12:
                continue
            seen.add((code, tag))
            shown += 1
            if shown > 25:
                break
            c = side.get(cid, {})
            print("FAIL id=%d code=%d tag=%d input=%s obs=%s" % (cid, code, tag, str(c.get("input"))[:400], str(c.get("obs"))[:600]))
    return 0


if __name__ == "__main__":
    sys.exit(main())
