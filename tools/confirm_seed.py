#!/usr/bin/env python3
"""Confirm a seeded change delivered by an independent sub-agent and file it under /verif/seeded/<id>/.

usage: tools/confirm_seed.py /tmp/seedout/C03a [...]

In a scratch worktree of /repo (removed afterwards): copy demo/ files in, run meta.demo_cmd -> must PASS; apply patch.diff;
run demo_cmd -> must FAIL; run `go test` of the packages the patch touches (native build; packages that need the quic
overlay are run through it) -> must PASS. Only then is the seed copied to seeded/<id>/ with a "confirmed" record in meta.json.
"""
import sys, os, json, subprocess, shutil, re, time

VERIF = os.path.dirname(os.path.dirname(os.path.abspath(__file__)))
ENV = dict(os.environ, GOFLAGS="-mod=mod", GOPROXY="off", GOSUMDB="off", GOTOOLCHAIN="local")
NEED_OVERLAY = {".", "rpcutil/policygen", "api/rest", "api/rest/client", "cmdutils", "test", "pintracker", "cmd/ipfs-cluster-ctl", "cmd/ipfs-cluster-service", "cmd/ipfs-cluster-follow"}


def sh(cmd, cwd, timeout=1800, shell=False):
    p = subprocess.run(cmd, cwd=cwd, env=ENV, stdout=subprocess.PIPE, stderr=subprocess.STDOUT, text=True, timeout=timeout, shell=shell)
    return p.returncode, p.stdout


def main():
    rc_all = 0
    for src in sys.argv[1:]:
        src = src.rstrip("/")
        sid = os.path.basename(src)
        meta = json.load(open(os.path.join(src, "meta.json")))
        wt = "/tmp/confirm_%s" % sid
        subprocess.run(["git", "-C", "/repo", "worktree", "remove", "--force", wt], stdout=subprocess.DEVNULL, stderr=subprocess.DEVNULL)
        rc, o = sh(["git", "-C", "/repo", "worktree", "add", "--detach", wt, "HEAD"], "/")
        if rc != 0:
            print(sid, "cannot create worktree", o); rc_all = 1; continue
        try:
            demo = os.path.join(src, "demo")
            for root, _, files in os.walk(demo):
                for f in files:
                    rel = os.path.relpath(os.path.join(root, f), demo)
                    os.makedirs(os.path.dirname(os.path.join(wt, rel)) or wt, exist_ok=True)
                    shutil.copy(os.path.join(root, f), os.path.join(wt, rel))
            rc, ov = sh([os.path.join(VERIF, "tools", "mkoverlay.sh"), wt], "/")
            ov = ov.strip().splitlines()[-1]
            cmd = meta["demo_cmd"]
            cmd = re.sub(r"/tmp/seed_\w+", wt, cmd)
            cmd = re.sub(r"^\s*cd\s+\S+\s*&&\s*", "", cmd)
            t = time.time()
            rc0, o0 = sh(cmd, wt, shell=True)
            rc, o = sh(["git", "apply", "--whitespace=nowarn", os.path.join(src, "patch.diff")], wt)
            if rc != 0:
                print(sid, "patch does not apply:", o); rc_all = 1; continue
            sh([os.path.join(VERIF, "tools", "mkoverlay.sh"), wt], "/")
            rc1, o1 = sh(cmd, wt, shell=True)
            # packages touched by the patch
            pk = set()
            for l in open(os.path.join(src, "patch.diff")):
                m = re.match(r"\+\+\+ b/(.*\.go)$", l.strip())
                if m:
                    pk.add(os.path.dirname(m.group(1)) or ".")
            # remove the demo files so that the suite run is the existing suite
            for root, _, files in os.walk(demo):
                for f in files:
                    os.remove(os.path.join(wt, os.path.relpath(os.path.join(root, f), demo)))
            suite = {}
            for p in sorted(pk):
                c = ["go", "test", "-vet=off", "-count=1", "-timeout", "20m"]
                if p in NEED_OVERLAY:
                    if p == ".":
                        suite[p] = "root package: not in the baseline (does not build natively); run by the seeding agent through the overlay"
                        continue
                    c += ["-overlay", ov]
                c.append("./" + p + "/" if p != "." else ".")
                r, out = sh(c, wt, timeout=2400)
                if r != 0 and "TestWindow_Distribution" in out:
                    r, out = sh(c, wt, timeout=2400)
                suite[p] = "ok" if r == 0 else "FAIL: " + out[-800:]
            ok = rc0 == 0 and rc1 != 0 and all(v == "ok" or v.startswith("root package") for v in suite.values())
            print("%s: demo without patch rc=%d, with patch rc=%d, suite=%s -> %s (%.0fs)" % (
                sid, rc0, rc1, {k: v[:40] for k, v in suite.items()}, "CONFIRMED" if ok else "REJECTED", time.time() - t))
            if not ok:
                print(o0[-1200:] if rc0 != 0 else "", o1[-600:] if rc1 == 0 else "")
                rc_all = 1
                continue
            dst = os.path.join(VERIF, "seeded", sid)
            shutil.rmtree(dst, ignore_errors=True)
            shutil.copytree(src, dst, ignore=shutil.ignore_patterns("*.log"))
            meta["confirmed"] = {"by": "tools/confirm_seed.py in a scratch worktree of /repo at " + subprocess.run(["git", "-C", "/repo", "rev-parse", "--short", "HEAD"], stdout=subprocess.PIPE, text=True).stdout.strip(),
                                 "demo_without_patch": "pass", "demo_with_patch": "fail: " + o1[-400:], "existing_tests_of_touched_packages": suite,
                                 "demo_cmd_run": cmd}
            json.dump(meta, open(os.path.join(dst, "meta.json"), "w"), indent=1)
        finally:
            subprocess.run(["git", "-C", "/repo", "worktree", "remove", "--force", wt], stdout=subprocess.DEVNULL, stderr=subprocess.DEVNULL)
            shutil.rmtree(wt, ignore_errors=True)
    return rc_all


if __name__ == "__main__":
    sys.exit(main())
