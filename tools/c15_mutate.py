#!/usr/bin/env python3
"""Developer helper for C15 (not used by ./check): apply each listed mutation to a scratch worktree of /repo,
run the check against it, record exit code / VIOLATION lines / first replay, restore the worktree.
usage: tools/c15_mutate.py <worktree> [name ...]"""
import sys, os, subprocess, json, re

VERIF = os.path.dirname(os.path.dirname(os.path.abspath(__file__)))


def sub(path, old, new, count=1):
    def f(wt):
        p = os.path.join(wt, path)
        s = open(p).read()
        if old not in s:
            raise RuntimeError("pattern not found in %s: %r" % (path, old))
        open(p, "w").write(s.replace(old, new, count))
    return f


def patch(diff):
    def f(wt):
        subprocess.run(["git", "-C", wt, "apply", os.path.join(VERIF, "docs", "mutations", diff)], check=True)
    return f


MUTATIONS = [
    ("S15_revert", "revert of fix-S15: raft no longer loads datastore_namespace", patch("C15_S15_revert.diff")),
    ("S18_revert", "revert of fix-S18: badger sync_writes/truncate through mergo only", patch("C15_S18_revert.diff")),
    ("S25_revert", "revert of fix-S25: Manager dereferences a null component section", patch("C15_S25_revert.diff")),
    ("M4_flip_cmp", "cluster Validate: low_water > high_water  ->  >=", sub("cluster_config.go",
        "if cfg.ConnMgr.LowWater > cfg.ConnMgr.HighWater {", "if cfg.ConnMgr.LowWater >= cfg.ConnMgr.HighWater {")),
    ("M5_drop_save", "ipfsproxy toJSONConfig: node_https no longer written", sub("api/ipfsproxy/config.go",
        "\tjcfg.NodeHTTPS = cfg.NodeHTTPS\n", "")),
    ("M6_untag_secret", "restapi: hidden tag removed from basic_auth_credentials", sub("api/rest/config.go",
        '`json:"basic_auth_credentials"  hidden:"true"`', '`json:"basic_auth_credentials"`')),
    ("M7_setifnotdefault", "config.SetIfNotDefault(int): n != 0 -> n > 0 (negative values silently ignored)", sub("config/util.go",
        "\t\tn := src.(int)\n\t\tif n != 0 {", "\t\tn := src.(int)\n\t\tif n > 0 {")),
    ("M8_wrong_enum", "disk applyJSONConfig: \"reposize\" selects MetricFreeSpace", sub("informer/disk/config.go",
        "\tcase \"reposize\":\n\t\tcfg.MetricType = MetricRepoSize", "\tcase \"reposize\":\n\t\tcfg.MetricType = MetricFreeSpace")),
    ("M9_wrong_member", "raft toJSONConfig: commit_retries written from BackupsRotate", sub("consensus/raft/config.go",
        "CommitRetries:        cfg.CommitRetries,", "CommitRetries:        cfg.BackupsRotate,")),
    ("M10_skip_validate", "stateless applyJSONConfig: returns nil instead of cfg.Validate()", sub("pintracker/stateless/config.go",
        "\tconfig.SetIfNotDefault(jcfg.ConcurrentPins, &cfg.ConcurrentPins)\n\n\treturn cfg.Validate()",
        "\tconfig.SetIfNotDefault(jcfg.ConcurrentPins, &cfg.ConcurrentPins)\n\n\treturn nil")),
    ("M11_dur_offbyone", "ipfshttp Validate: pin_timeout < 0 -> <= 0", sub("ipfsconn/ipfshttp/config.go",
        "if cfg.PinTimeout < 0 {", "if cfg.PinTimeout <= 0 {")),
]


def main():
    wt = sys.argv[1]
    only = sys.argv[2:]
    results = []
    for name, what, apply in MUTATIONS:
        if only and name not in only:
            continue
        subprocess.run(["git", "-C", wt, "checkout", "--", "."], check=True)
        try:
            apply(wt)
        except Exception as e:
            print("MUTATION %s: cannot apply: %s" % (name, e), flush=True)
            continue
        env = dict(os.environ, VERIF_REPO=wt)
        p = subprocess.run(["timeout", "1500", os.path.join(VERIF, "check"), "C15", "--tier", "quick"], env=env,
                           stdout=subprocess.PIPE, stderr=subprocess.STDOUT, text=True, errors="replace")
        lines = [l for l in p.stdout.splitlines() if l.startswith(("VIOLATION", "OK ", "KNOWN"))]
        detail = []
        for l in lines[:6]:
            m = re.search(r"replay=(\S+)", l)
            if m and os.path.exists(m.group(1)):
                r = json.load(open(m.group(1)))
                detail.append({"kind": r.get("kind"), "name": r.get("name"), "signature": r.get("signature"),
                               "input": (r.get("case") or {}).get("input"), "offending": r.get("offending_entries"),
                               "theorem_or_file": (r.get("theorem_or_file") or "")[:200], "meaning": r.get("meaning")})
        print("MUTATION %s (%s): exit=%d" % (name, what, p.returncode), flush=True)
        for l in lines[:8]:
            print("   " + re.sub(r"replay=\S+ ", "", l), flush=True)
        for d in detail[:4]:
            print("   replay: " + json.dumps(d)[:700], flush=True)
        results.append((name, p.returncode))
    subprocess.run(["git", "-C", wt, "checkout", "--", "."], check=True)
    print("SUMMARY", results)


if __name__ == "__main__":
    main()
