#!/usr/bin/env python3
"""Stamp harness/c18/rig.go.tmpl into every package that has a C18 stress harness (the overlay injects
plain files, one package clause each). Run after editing the template:  python3 tools/c18_stamp.py"""
import os
V = os.path.dirname(os.path.dirname(os.path.abspath(__file__)))
PKGS = {"root": "ipfscluster", "optracker": "optracker", "stateless": "stateless", "metrics": "metrics",
        "disk": "disk", "numpin": "numpin", "crdt": "crdt"}
tmpl = open(os.path.join(V, "harness", "c18", "rig.go.tmpl")).read()
for d, pkg in PKGS.items():
    os.makedirs(os.path.join(V, "harness", d), exist_ok=True)
    out = "// GENERATED from harness/c18/rig.go.tmpl by tools/c18_stamp.py. Do not edit.\n" + tmpl.replace("PKGNAME", pkg)
    # the build tag must stay the first line
    lines = out.split("\n")
    lines.remove("//go:build verif")
    out = "//go:build verif\n\n" + "\n".join(lines)
    with open(os.path.join(V, "harness", d, "c18_rig_test.go"), "w") as f:
        f.write(out)
print("stamped", len(PKGS))
