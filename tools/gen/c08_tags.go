package main

import (
	"fmt"
	"go/ast"
	"go/token"
	"path/filepath"
	"reflect"
	"strconv"
	"strings"
)

// Gen/C08Tags.v: for every struct type of api/types.go and api/add.go the list of its fields as the JSON and
// msgpack (ugorji: `codec` tag, falling back to `json`) encoders see them — embedded structs promoted in place —
// with key name, omitempty, "-" and a type descriptor (coq/Base/C08_Schema.v).
func init() { register("C08Tags", genC08Tags) }

type c08Struct struct {
	name string
	st   *ast.StructType
}

func c08TypeOf(e ast.Expr, structs map[string]*ast.StructType) string {
	switch x := e.(type) {
	case *ast.Ident:
		switch x.Name {
		case "int", "int8", "int16", "int32", "int64", "PinDepth", "IPFSPinStatus":
			return "TInt"
		case "uint", "uint8", "uint16", "uint32", "uint64", "PinType":
			return "TUint"
		case "string":
			return "TStr"
		case "bool":
			return "TBool"
		case "TrackerStatus":
			return "TStatus"
		case "PinMode":
			return "TMode"
		case "Multiaddr":
			return "TMaddr"
		}
		if _, ok := structs[x.Name]; ok {
			return "(TStruct " + coqStr(x.Name) + ")"
		}
	case *ast.SelectorExpr:
		if p, ok := x.X.(*ast.Ident); ok {
			switch p.Name + "." + x.Sel.Name {
			case "time.Time":
				return "TTime"
			case "cid.Cid":
				return "TCid"
			case "peer.ID":
				return "TPeer"
			case "protocol.ID":
				return "TStr"
			case "multiaddr.Multiaddr":
				return "TMaddrIface"
			}
		}
	case *ast.StarExpr:
		return "(TPtr " + c08TypeOf(x.X, structs) + ")"
	case *ast.ArrayType:
		if x.Len == nil {
			if id, ok := x.Elt.(*ast.Ident); ok && (id.Name == "byte" || id.Name == "uint8") {
				return "TBytes"
			}
			return "(TSlice " + c08TypeOf(x.Elt, structs) + ")"
		}
	case *ast.MapType:
		if id, ok := x.Key.(*ast.Ident); ok && id.Name == "string" {
			return "(TMap " + c08TypeOf(x.Value, structs) + ")"
		}
	}
	return "(TOther " + coqStr(exprString(e)) + ")"
}

func exprString(e ast.Expr) string {
	switch x := e.(type) {
	case *ast.Ident:
		return x.Name
	case *ast.SelectorExpr:
		return exprString(x.X) + "." + x.Sel.Name
	case *ast.StarExpr:
		return "*" + exprString(x.X)
	case *ast.ArrayType:
		return "[]" + exprString(x.Elt)
	case *ast.MapType:
		return "map[" + exprString(x.Key) + "]" + exprString(x.Value)
	}
	return fmt.Sprintf("%T", e)
}

func c08TagParts(tag string) (name string, omit bool, skip bool) {
	if tag == "-" {
		return "", false, true
	}
	parts := strings.Split(tag, ",")
	name = parts[0]
	for _, o := range parts[1:] {
		if o == "omitempty" { // exactly, as both encoders compare it ("s, omitempty" does not set it)
			omit = true
		}
	}
	return
}

func c08Fields(name string, structs map[string]*ast.StructType, depth int) ([]string, error) {
	if depth > 4 {
		return nil, fmt.Errorf("struct %s: embedding too deep", name)
	}
	st := structs[name]
	var rows []string
	for _, f := range st.Fields.List {
		tag := ""
		if f.Tag != nil {
			tag, _ = strconv.Unquote(f.Tag.Value)
		}
		stag := reflect.StructTag(tag)
		if len(f.Names) == 0 {
			// embedded: promoted in place when it is an untagged struct of these files
			id, ok := f.Type.(*ast.Ident)
			if !ok || structs[id.Name] == nil || tag != "" {
				return nil, fmt.Errorf("struct %s: embedded field %s cannot be followed", name, exprString(f.Type))
			}
			sub, err := c08Fields(id.Name, structs, depth+1)
			if err != nil {
				return nil, err
			}
			rows = append(rows, sub...)
			continue
		}
		for _, n := range f.Names {
			if !ast.IsExported(n.Name) {
				continue
			}
			jt, jok := stag.Lookup("json")
			ct, cok := stag.Lookup("codec")
			if !cok {
				ct = jt // ugorji falls back to the json tag
			}
			jn, jo, js := c08TagParts(jt)
			cn, co, cs := c08TagParts(ct)
			if !jok || jn == "" {
				jn = n.Name
			}
			if cn == "" {
				cn = n.Name
			}
			rows = append(rows, fmt.Sprintf("mk_field %s %s %v %v %s %v %v %s", coqStr(n.Name), coqStr(jn), jo, js, coqStr(cn), co, cs,
				c08TypeOf(f.Type, structs)))
		}
	}
	return rows, nil
}

func genC08Tags(repo string) (string, error) {
	structs := map[string]*ast.StructType{}
	var order []string
	for _, fn := range []string{"types.go", "add.go"} {
		_, f, err := parseFile(filepath.Join(repo, "api", fn))
		if err != nil {
			return "", err
		}
		for _, d := range f.Decls {
			gd, ok := d.(*ast.GenDecl)
			if !ok || gd.Tok != token.TYPE {
				continue
			}
			for _, sp := range gd.Specs {
				ts := sp.(*ast.TypeSpec)
				if st, ok := ts.Type.(*ast.StructType); ok {
					structs[ts.Name.Name] = st
					order = append(order, ts.Name.Name)
				}
			}
		}
	}
	if len(order) == 0 {
		return "", fmt.Errorf("no struct types found in api/types.go, api/add.go")
	}
	var b strings.Builder
	b.WriteString(genHeader)
	b.WriteString("From V Require Import Base.C08_Schema.\n\n")
	b.WriteString("Definition api_schema : schema := [\n")
	first := true
	for _, name := range order {
		if name == "Multiaddr" {
			continue // the self-serializing wrapper is a leaf type (TMaddr)
		}
		rows, err := c08Fields(name, structs, 0)
		if err != nil {
			return "", err
		}
		if !first {
			b.WriteString(";\n")
		}
		first = false
		b.WriteString("  (" + coqStr(name) + ", [\n    " + strings.Join(rows, ";\n    ") + "])")
	}
	b.WriteString("].\n")
	rows, opaque, err := c08LogOpFields(repo, structs)
	if err != nil {
		return "", err
	}
	b.WriteString("\n(* consensus/raft/log_op.go: the fields of LogOp as the msgpack encoder of go-libp2p-raft sees them; a field of a\n   foreign struct type (the trace span context) is not described: it is listed with its omitempty flag *)\n")
	b.WriteString("Definition raft_logop_fields : list field := [\n    " + strings.Join(rows, ";\n    ") + "].\n")
	b.WriteString("Definition raft_logop_opaque : list (string * bool) := [" + strings.Join(opaque, "; ") + "].\n")
	return b.String(), nil
}

// LogOp of consensus/raft: `*api.X` is a pointer to struct X of the api table, a named integer type of the file is an
// integer; a field whose type is a struct of another package is reported as opaque (name, omitempty).
func c08LogOpFields(repo string, apiStructs map[string]*ast.StructType) (rows []string, opaque []string, err error) {
	_, f, err := parseFile(filepath.Join(repo, "consensus", "raft", "log_op.go"))
	if err != nil {
		return nil, nil, err
	}
	ints := map[string]bool{}
	var st *ast.StructType
	for _, d := range f.Decls {
		gd, ok := d.(*ast.GenDecl)
		if !ok || gd.Tok != token.TYPE {
			continue
		}
		for _, sp := range gd.Specs {
			ts := sp.(*ast.TypeSpec)
			if id, ok := ts.Type.(*ast.Ident); ok && (id.Name == "int" || id.Name == "int32" || id.Name == "int64") {
				ints[ts.Name.Name] = true
			}
			if s, ok := ts.Type.(*ast.StructType); ok && ts.Name.Name == "LogOp" {
				st = s
			}
		}
	}
	if st == nil {
		return nil, nil, fmt.Errorf("type LogOp struct not found in consensus/raft/log_op.go")
	}
	for _, fd := range st.Fields.List {
		tag := ""
		if fd.Tag != nil {
			tag, _ = strconv.Unquote(fd.Tag.Value)
		}
		if len(fd.Names) == 0 {
			return nil, nil, fmt.Errorf("LogOp: embedded field %s cannot be followed", exprString(fd.Type))
		}
		stag := reflect.StructTag(tag)
		for _, n := range fd.Names {
			jt, jok := stag.Lookup("json")
			ct, cok := stag.Lookup("codec")
			if !cok {
				ct = jt
			}
			jn, jo, js := c08TagParts(jt)
			cn, co, cs := c08TagParts(ct)
			if !ast.IsExported(n.Name) {
				continue // invisible to every encoder
			}
			if !jok || jn == "" {
				jn = n.Name
			}
			if cn == "" {
				cn = n.Name
			}
			ty := ""
			switch x := fd.Type.(type) {
			case *ast.Ident:
				if ints[x.Name] {
					ty = "TInt"
				}
			case *ast.StarExpr:
				if sel, ok := x.X.(*ast.SelectorExpr); ok {
					if p, ok := sel.X.(*ast.Ident); ok && p.Name == "api" && apiStructs[sel.Sel.Name] != nil {
						ty = "(TPtr (TStruct " + coqStr(sel.Sel.Name) + "))"
					}
				}
			case *ast.SelectorExpr:
				if p, ok := x.X.(*ast.Ident); ok && p.Name == "trace" && !cs {
					opaque = append(opaque, fmt.Sprintf("(%s, %v)", coqStr(n.Name), co))
					continue
				}
			}
			if ty == "" {
				ty = c08TypeOf(fd.Type, map[string]*ast.StructType{})
			}
			rows = append(rows, fmt.Sprintf("mk_field %s %s %v %v %s %v %v %s", coqStr(n.Name), coqStr(jn), jo, js, coqStr(cn), co, cs, ty))
		}
	}
	if len(rows) == 0 {
		return nil, nil, fmt.Errorf("LogOp: no encodable field found")
	}
	return rows, opaque, nil
}
