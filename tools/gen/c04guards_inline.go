package main

// Helper functions a maintainer extracts from a guard chain are FOLLOWED by the C04 guard translator:
//
//  1. a call used as (part of) a condition, to a function / method of the receiver declared in the same package, whose
//     body is `return e`, optionally preceded by `if c { return true|false }` steps and pure local `x := e`: the
//     arguments are substituted for the parameters (on the syntax tree) and the resulting expression is translated as
//     if it had been written in place (`if c { return false }; return e` reads `!c && e`, conjunctions flattened to
//     the left as Go parses an unparenthesised chain).
//  2. `err = c.helper(..)` / `x, err := c.helper(..)` / a call statement, at the top level of the chain and — when the
//     helper returns an error — immediately followed by `if err != nil { return .., err }`: the helper's body, with the
//     parameters substituted, is walked by the same walker and its steps are spliced into the caller's list. A helper
//     `return .., nil` continues the caller (an early one, `if c { return nil }`, puts the rest of the helper under
//     `!c`); an error return is the caller's error exit.
//
// Refused (error with file:line): recursion, a body with any other statement, an argument that contains a call (the
// substitution could duplicate or reorder it), a helper that assigns to a parameter or declares a name the caller
// declares, a free name of the helper that the caller shadows, a helper whose error the caller does not check at once,
// a helper return that is neither an error exit nor `nil`, results bound to anything but `_` or the same expression.

import (
	"fmt"
	"go/ast"
	"go/token"
	"path/filepath"
	"sort"
	"strings"
)

type c04Callee struct {
	cf     *c15File
	fd     *ast.FuncDecl
	key    string
	params []string        // receiver first (if named)
	ptr    map[string]bool // parameter of pointer type
	args   []ast.Expr      // receiver expression first (if the receiver is named)
}

type c04Helper struct{ hasErr bool }

var c04Builtins = map[string]bool{"nil": true, "true": true, "false": true, "len": true, "cap": true, "string": true, "int": true,
	"error": true, "bool": true, "_": true, "append": true, "make": true, "new": true, "iota": true}

// names declared inside a function (receiver, parameters, results, :=, var, range)
func c04Declared(fd *ast.FuncDecl) map[string]bool {
	d := map[string]bool{}
	fl := func(l *ast.FieldList) {
		if l == nil {
			return
		}
		for _, f := range l.List {
			for _, n := range f.Names {
				d[n.Name] = true
			}
		}
	}
	fl(fd.Recv)
	fl(fd.Type.Params)
	fl(fd.Type.Results)
	if fd.Body == nil {
		return d
	}
	ast.Inspect(fd.Body, func(n ast.Node) bool {
		switch t := n.(type) {
		case *ast.AssignStmt:
			if t.Tok == token.DEFINE {
				for _, l := range t.Lhs {
					if id, ok := l.(*ast.Ident); ok {
						d[id.Name] = true
					}
				}
			}
		case *ast.ValueSpec:
			for _, id := range t.Names {
				d[id.Name] = true
			}
		case *ast.RangeStmt:
			if t.Tok == token.DEFINE {
				for _, l := range []ast.Expr{t.Key, t.Value} {
					if id, ok := l.(*ast.Ident); ok {
						d[id.Name] = true
					}
				}
			}
		case *ast.FuncLit:
			fl(t.Type.Params)
			fl(t.Type.Results)
		}
		return true
	})
	delete(d, "_")
	return d
}

// identifiers used in a node, field selectors and composite-literal keys excluded
func c04Idents(n ast.Node) map[string]bool {
	out := map[string]bool{}
	skip := map[*ast.Ident]bool{}
	ast.Inspect(n, func(x ast.Node) bool {
		switch t := x.(type) {
		case *ast.SelectorExpr:
			skip[t.Sel] = true
		case *ast.KeyValueExpr:
			if id, ok := t.Key.(*ast.Ident); ok {
				skip[id] = true
			}
		case *ast.Ident:
			if !skip[t] {
				out[t.Name] = true
			}
		}
		return true
	})
	return out
}

// a call other than len(<call-free>) inside e
func c04HasCall(e ast.Node) bool {
	found := false
	ast.Inspect(e, func(x ast.Node) bool {
		if ce, ok := x.(*ast.CallExpr); ok {
			if id, ok := ce.Fun.(*ast.Ident); !ok || id.Name != "len" {
				found = true
			}
		}
		if _, ok := x.(*ast.FuncLit); ok {
			found = true
		}
		return !found
	})
	return found
}

func (w *c04Walker) site(n ast.Node) string {
	if n == nil || !n.Pos().IsValid() {
		if len(w.sites) > 0 {
			return w.sites[len(w.sites)-1]
		}
		return "?:0"
	}
	pos := w.cf.fset.Position(n.Pos())
	return fmt.Sprintf("%s:%d", filepath.Base(pos.Filename), pos.Line)
}

// the declaration a call refers to, when it is a plain function or a method of the receiver declared in this package
func (w *c04Walker) callee(ce *ast.CallExpr) (*c04Callee, error) {
	var key string
	var recv ast.Expr
	switch f := ce.Fun.(type) {
	case *ast.Ident:
		key = f.Name
		if w.declared[key] {
			return nil, nil
		}
	case *ast.SelectorExpr:
		id, ok := f.X.(*ast.Ident)
		if !ok || w.recvName == "" || id.Name != w.recvName {
			return nil, nil
		}
		key, recv = w.recvType+"."+f.Sel.Name, f.X
	default:
		return nil, nil
	}
	cf, fd := w.cf, w.cf.funcs[key]
	if fd == nil && w.repo != "" {
		files, _ := filepath.Glob(filepath.Join(w.repo, "*.go"))
		sort.Strings(files)
		for _, p := range files {
			if strings.HasSuffix(p, "_test.go") {
				continue
			}
			o := c15FileCache[p]
			if o == nil {
				var err error
				if o, err = c15Load(p); err != nil {
					continue
				}
				c15FileCache[p] = o
			}
			if o.funcs[key] != nil {
				cf, fd = o, o.funcs[key]
				break
			}
		}
	}
	if fd == nil || fd.Body == nil {
		return nil, nil
	}
	name := fd.Name.Name
	for _, k := range append(append([]string{}, w.stack...), w.top) {
		if k == key {
			return nil, w.errf(ce, "call of %s not followed: it is recursive", name)
		}
	}
	cal := &c04Callee{cf: cf, fd: fd, key: key, ptr: map[string]bool{}}
	if recv != nil {
		if len(fd.Recv.List) == 1 && len(fd.Recv.List[0].Names) == 1 && fd.Recv.List[0].Names[0].Name != "_" {
			n := fd.Recv.List[0].Names[0].Name
			cal.params = append(cal.params, n)
			_, cal.ptr[n] = fd.Recv.List[0].Type.(*ast.StarExpr)
			cal.args = append(cal.args, recv)
		}
	}
	np := 0
	for _, f := range fd.Type.Params.List {
		if _, variadic := f.Type.(*ast.Ellipsis); variadic || len(f.Names) == 0 {
			return nil, w.errf(ce, "call of %s not followed: unnamed or variadic parameter", name)
		}
		for _, n := range f.Names {
			if n.Name == "_" {
				return nil, w.errf(ce, "call of %s not followed: unnamed or variadic parameter", name)
			}
			cal.params = append(cal.params, n.Name)
			_, cal.ptr[n.Name] = f.Type.(*ast.StarExpr)
			np++
		}
	}
	if np != len(ce.Args) || ce.Ellipsis.IsValid() {
		return nil, w.errf(ce, "call of %s not followed: argument count", name)
	}
	for _, a := range ce.Args {
		if c04HasCall(a) {
			return nil, w.errf(a, "call of %s not followed: the argument %s contains a call (the substitution could duplicate or reorder it)", name, w.text(a))
		}
	}
	cal.args = append(cal.args, ce.Args...)
	// free names of the callee must mean the same thing at the call site
	decl := c04Declared(fd)
	var free []string
	for n := range c04Idents(fd.Body) {
		if !decl[n] && !c04Builtins[n] && w.declared[n] {
			free = append(free, n)
		}
	}
	if len(free) > 0 {
		sort.Strings(free)
		return nil, w.errf(ce, "call of %s not followed: it refers to %s, which the caller declares itself", name, strings.Join(free, ", "))
	}
	return cal, nil
}

// copy of a syntax tree with identifiers replaced
type c04Subst struct {
	env     map[string]ast.Expr
	ptr     map[string]bool
	keepPos bool
	fixed   token.Pos // position given to every copied node when keepPos is false
	fail    string
}

func (s *c04Subst) pos(p token.Pos) token.Pos {
	if s.keepPos {
		return p
	}
	return s.fixed
}

func (s *c04Subst) mentions(n ast.Node) bool {
	for id := range c04Idents(n) {
		if _, ok := s.env[id]; ok {
			return true
		}
	}
	return false
}

func c04Primary(e ast.Expr) bool {
	switch e.(type) {
	case *ast.Ident, *ast.BasicLit, *ast.SelectorExpr, *ast.CallExpr, *ast.ParenExpr, *ast.IndexExpr:
		return true
	}
	return false
}

func (s *c04Subst) exprs(l []ast.Expr) []ast.Expr {
	if l == nil {
		return nil
	}
	out := make([]ast.Expr, len(l))
	for i, e := range l {
		out[i] = s.expr(e)
	}
	return out
}

func (s *c04Subst) expr(e ast.Expr) ast.Expr {
	switch t := e.(type) {
	case nil:
		return nil
	case *ast.Ident:
		if r, ok := s.env[t.Name]; ok {
			if s.keepPos {
				// the argument takes the place (and the position) of the parameter it replaces
				r = (&c04Subst{env: map[string]ast.Expr{}, fixed: t.NamePos}).expr(r)
			}
			if !c04Primary(r) {
				return &ast.ParenExpr{X: r}
			}
			return r
		}
		return &ast.Ident{NamePos: s.pos(t.NamePos), Name: t.Name}
	case *ast.BasicLit:
		return &ast.BasicLit{ValuePos: s.pos(t.ValuePos), Kind: t.Kind, Value: t.Value}
	case *ast.ParenExpr:
		return &ast.ParenExpr{Lparen: s.pos(t.Lparen), X: s.expr(t.X), Rparen: s.pos(t.Rparen)}
	case *ast.SelectorExpr:
		return &ast.SelectorExpr{X: s.expr(t.X), Sel: &ast.Ident{NamePos: s.pos(t.Sel.NamePos), Name: t.Sel.Name}}
	case *ast.StarExpr:
		return &ast.StarExpr{Star: s.pos(t.Star), X: s.expr(t.X)}
	case *ast.UnaryExpr:
		return &ast.UnaryExpr{OpPos: s.pos(t.OpPos), Op: t.Op, X: s.expr(t.X)}
	case *ast.BinaryExpr:
		return &ast.BinaryExpr{X: s.expr(t.X), OpPos: s.pos(t.OpPos), Op: t.Op, Y: s.expr(t.Y)}
	case *ast.IndexExpr:
		return &ast.IndexExpr{X: s.expr(t.X), Lbrack: s.pos(t.Lbrack), Index: s.expr(t.Index), Rbrack: s.pos(t.Rbrack)}
	case *ast.CallExpr:
		if t.Ellipsis.IsValid() {
			s.fail = "a call with `...`"
		}
		return &ast.CallExpr{Fun: s.expr(t.Fun), Lparen: s.pos(t.Lparen), Args: s.exprs(t.Args), Rparen: s.pos(t.Rparen)}
	}
	if s.mentions(e) || !s.keepPos {
		s.fail = fmt.Sprintf("an expression of a kind the substitution does not copy (%T)", e)
	}
	return e
}

func (s *c04Subst) block(b *ast.BlockStmt) *ast.BlockStmt {
	if b == nil {
		return nil
	}
	return &ast.BlockStmt{Lbrace: b.Lbrace, List: s.stmts(b.List), Rbrace: b.Rbrace}
}

func (s *c04Subst) stmts(l []ast.Stmt) []ast.Stmt {
	out := make([]ast.Stmt, len(l))
	for i, st := range l {
		out[i] = s.stmt(st)
	}
	return out
}

func (s *c04Subst) stmt(st ast.Stmt) ast.Stmt {
	switch t := st.(type) {
	case nil:
		return nil
	case *ast.EmptyStmt:
		return t
	case *ast.BlockStmt:
		return s.block(t)
	case *ast.ExprStmt:
		return &ast.ExprStmt{X: s.expr(t.X)}
	case *ast.ReturnStmt:
		return &ast.ReturnStmt{Return: t.Return, Results: s.exprs(t.Results)}
	case *ast.DeferStmt:
		if ce, ok := s.expr(t.Call).(*ast.CallExpr); ok {
			return &ast.DeferStmt{Defer: t.Defer, Call: ce}
		}
	case *ast.AssignStmt:
		for _, l := range t.Lhs {
			root := l
			for {
				if se, ok := root.(*ast.SelectorExpr); ok {
					root = se.X
					continue
				}
				break
			}
			if id, ok := root.(*ast.Ident); ok {
				if _, isParam := s.env[id.Name]; isParam && (root == l || !s.ptr[id.Name]) {
					s.fail = "an assignment to its parameter " + id.Name + " (not visible to the caller)"
				}
			}
		}
		return &ast.AssignStmt{Lhs: s.exprs(t.Lhs), TokPos: t.TokPos, Tok: t.Tok, Rhs: s.exprs(t.Rhs)}
	case *ast.IfStmt:
		var els ast.Stmt
		if t.Else != nil {
			els = s.stmt(t.Else)
		}
		return &ast.IfStmt{If: t.If, Init: s.stmt(t.Init), Cond: s.expr(t.Cond), Body: s.block(t.Body), Else: els}
	case *ast.SwitchStmt:
		return &ast.SwitchStmt{Switch: t.Switch, Init: s.stmt(t.Init), Tag: s.expr(t.Tag), Body: s.block(t.Body)}
	case *ast.CaseClause:
		return &ast.CaseClause{Case: t.Case, List: s.exprs(t.List), Colon: t.Colon, Body: s.stmts(t.Body)}
	}
	// any other statement is refused by the walker itself; it must at least not hide a parameter
	if s.mentions(st) {
		s.fail = fmt.Sprintf("a statement of a kind the substitution does not copy (%T)", st)
	}
	return st
}

func (w *c04Walker) substFor(cal *c04Callee, keepPos bool) *c04Subst {
	s := &c04Subst{env: map[string]ast.Expr{}, ptr: cal.ptr, keepPos: keepPos}
	clean := &c04Subst{env: map[string]ast.Expr{}}
	for i, p := range cal.params {
		s.env[p] = clean.expr(cal.args[i])
		if clean.fail != "" {
			s.fail = "an argument: " + clean.fail
		}
	}
	return s
}

// x op y, a chain of the same operator flattened to the left (as Go parses it without parentheses)
func c04Bin(op token.Token, x, y ast.Expr) ast.Expr {
	if b, ok := y.(*ast.BinaryExpr); ok && b.Op == op {
		return c04Bin(op, c04Bin(op, x, b.X), b.Y)
	}
	wrap := func(e ast.Expr) ast.Expr {
		if b, ok := e.(*ast.BinaryExpr); ok && b.Op != op && (b.Op == token.LAND || b.Op == token.LOR) {
			return &ast.ParenExpr{X: e}
		}
		return e
	}
	return &ast.BinaryExpr{X: wrap(x), Op: op, Y: wrap(y)}
}

// the expression a predicate body denotes
func (w *c04Walker) predExpr(cal *c04Callee, s *c04Subst, stmts []ast.Stmt, ce *ast.CallExpr) (ast.Expr, error) {
	name := cal.fd.Name.Name
	bad := func(n ast.Node, what string) error {
		pos := cal.cf.fset.Position(n.Pos())
		return w.errf(ce, "call of %s not followed: %s:%d: %s", name, filepath.Base(pos.Filename), pos.Line, what)
	}
	if len(stmts) == 0 {
		return nil, w.errf(ce, "call of %s not followed: no return", name)
	}
	switch t := stmts[0].(type) {
	case *ast.ReturnStmt:
		if len(t.Results) != 1 {
			return nil, bad(t, "return of something else than one value")
		}
		return s.expr(t.Results[0]), nil
	case *ast.AssignStmt:
		id, ok := t.Lhs[0].(*ast.Ident)
		if !ok || t.Tok != token.DEFINE || len(t.Lhs) != 1 || len(t.Rhs) != 1 || c04HasCall(t.Rhs[0]) {
			return nil, bad(t, "a statement the translator cannot see through: "+strings.Join(strings.Fields(cal.cf.text(t)), " "))
		}
		v := s.expr(t.Rhs[0])
		s2 := &c04Subst{env: map[string]ast.Expr{}, ptr: s.ptr, keepPos: s.keepPos}
		for k, e := range s.env {
			s2.env[k] = e
		}
		s2.env[id.Name] = &ast.ParenExpr{X: v}
		r, err := w.predExpr(cal, s2, stmts[1:], ce)
		s.fail += s2.fail
		return r, err
	case *ast.IfStmt:
		if t.Init == nil && t.Else == nil && len(t.Body.List) == 1 {
			if rs, ok := t.Body.List[0].(*ast.ReturnStmt); ok && len(rs.Results) == 1 {
				if id, ok := rs.Results[0].(*ast.Ident); ok && (id.Name == "true" || id.Name == "false") {
					c := s.expr(t.Cond)
					rest, err := w.predExpr(cal, s, stmts[1:], ce)
					if err != nil {
						return nil, err
					}
					if id.Name == "true" {
						return c04Bin(token.LOR, c, rest), nil
					}
					return c04Bin(token.LAND, &ast.UnaryExpr{Op: token.NOT, X: &ast.ParenExpr{X: c}}, rest), nil
				}
			}
		}
	}
	return nil, bad(stmts[0], "a statement the translator cannot see through: "+strings.Join(strings.Fields(cal.cf.text(stmts[0])), " "))
}

// a call used as a condition: the expression it stands for (nil: not a call this translator resolves)
func (w *c04Walker) inlinePred(ce *ast.CallExpr) (ast.Expr, *c04Callee, error) {
	cal, err := w.callee(ce)
	if cal == nil || err != nil {
		return nil, nil, err
	}
	res := cal.fd.Type.Results
	if res == nil || len(res.List) != 1 || len(res.List[0].Names) > 1 {
		return nil, nil, nil
	}
	if id, ok := res.List[0].Type.(*ast.Ident); !ok || id.Name != "bool" {
		return nil, nil, nil
	}
	s := w.substFor(cal, false)
	e, err := w.predExpr(cal, s, cal.fd.Body.List, ce)
	if err != nil {
		return nil, nil, err
	}
	if s.fail != "" {
		return nil, nil, w.errf(ce, "call of %s not followed: it has %s", cal.fd.Name.Name, s.fail)
	}
	return e, cal, nil
}

func c04IsErrorType(e ast.Expr) bool {
	id, ok := e.(*ast.Ident)
	return ok && id.Name == "error"
}

// a call statement / assignment from a call to a helper whose body is a guard chain: its steps spliced into the caller's.
// handled == false: not a helper this translator resolves (the caller reports the statement as before).
func (w *c04Walker) splice(st ast.Stmt, ce *ast.CallExpr, lhs []ast.Expr, next ast.Stmt, g *vCond, inCond bool, i *int) (bool, error) {
	cal, err := w.callee(ce)
	if cal == nil || err != nil {
		return false, err
	}
	name := cal.fd.Name.Name
	var results []ast.Expr
	if r := cal.fd.Type.Results; r != nil {
		for _, f := range r.List {
			if len(f.Names) > 0 {
				return true, w.errf(st, "call of %s not followed: named results", name)
			}
			results = append(results, f.Type)
		}
	}
	hasErr := len(results) > 0 && c04IsErrorType(results[len(results)-1])
	if !g.isT() || inCond {
		return true, w.errf(st, "call of the helper %s under a condition", name)
	}
	if hasErr {
		if len(lhs) != len(results) || w.cf.text(lhs[len(lhs)-1]) != "err" {
			return true, w.errf(st, "call of the helper %s: its error is not bound to err", name)
		}
		if _, ok := isErrNotNil(w.cf, next); !ok {
			return true, w.errf(st, "call of the helper %s not followed by `if err != nil { return .., err }`", name)
		}
	} else if len(lhs) != 0 && len(lhs) != len(results) {
		return true, w.errf(st, "call of the helper %s: result count", name)
	}
	hdecl := c04Declared(cal.fd)
	var clash []string
	isParam := map[string]bool{}
	for _, p := range cal.params {
		isParam[p] = true
	}
	for n := range hdecl {
		if !isParam[n] && n != "err" && w.declared[n] {
			clash = append(clash, n)
		}
	}
	if len(clash) > 0 {
		sort.Strings(clash)
		return true, w.errf(st, "call of the helper %s not followed: it declares %s, which the caller declares too", name, strings.Join(clash, ", "))
	}
	for n := range hdecl {
		if isParam[n] {
			continue
		}
		for _, a := range cal.args {
			if c04Idents(a)[n] {
				return true, w.errf(st, "call of the helper %s not followed: its local %s would capture an argument", name, n)
			}
		}
	}
	s := w.substFor(cal, true)
	body := s.stmts(cal.fd.Body.List)
	if s.fail != "" {
		return true, w.errf(st, "call of the helper %s not followed: it has %s", name, s.fail)
	}
	sub := &c04Walker{cf: cal.cf, repo: w.repo, fn: w.fn, top: w.top, ints: map[string]string{}, strs: map[string]string{}, alias: map[string]string{},
		texts: append([]string{}, w.texts...), gnames: append([]string{}, w.gnames...), recvName: w.recvName, recvType: w.recvType,
		declared: map[string]bool{}, stack: append(append([]string{}, w.stack...), cal.key), sites: append(append([]string{}, w.sites...), w.site(st)),
		helper: &c04Helper{hasErr: hasErr}}
	for k, v := range w.ints {
		sub.ints[k] = v
	}
	for k, v := range w.alias {
		sub.alias[k] = v
	}
	for k := range w.declared {
		sub.declared[k] = true
	}
	for k := range hdecl {
		if !isParam[k] {
			sub.declared[k] = true
		}
	}
	if err := sub.walk(body, vTrue, false); err != nil {
		return true, err
	}
	// results bound by the caller: only `_`, or the very expression every successful return gives
	for k, l := range lhs {
		if hasErr && k == len(lhs)-1 {
			break
		}
		lt := w.text(l)
		if lt == "_" {
			continue
		}
		for _, r := range sub.okReturns {
			if k >= len(r.Results) || sub.text(r.Results[k]) != lt {
				return true, w.errf(st, "call of the helper %s: binding of the result %s not followed", name, lt)
			}
		}
	}
	for _, x := range sub.steps {
		w.steps = append(w.steps, c04Step{x.coq, name + ": " + x.name})
	}
	w.texts = sub.texts
	if hasErr {
		w.lastErr = ""
		*i++ // the caller's `if err != nil { return .., err }`: the helper's error exits are the caller's
	}
	return true, nil
}

// in a helper: `return .., nil` (or any return of a helper without an error result)
func (w *c04Walker) isOkReturn(rs *ast.ReturnStmt) bool {
	if !w.helper.hasErr {
		return true
	}
	return len(rs.Results) > 0 && w.cf.text(rs.Results[len(rs.Results)-1]) == "nil"
}
