package main

// Gen/ConfigSchemas.v (property C15): one table per component configuration section.
// For every member of the section's JSON struct: JSON path, kind, omitempty, hidden tag, the *load rule*
// found by a syntactic walk of applyJSONConfig/applyConfigJSON (and the helpers it calls), the *save rule*
// found in toJSONConfig, the Config member on each side and the value Default() gives it.
// Anything the walk cannot classify becomes LCustom "<section>.<member>" together with a hash of the
// enclosing function: the Coq side accepts a custom rule only when a hand transcription pinned to exactly
// that hash exists, so an unfollowed shape fails the table obligations instead of passing silently.
// Also emitted per section: a hash of Validate (+ the same-file helpers it calls), whether the apply
// function ends in `return cfg.Validate()`, and the envconfig prefix.

import (
	"bytes"
	"crypto/sha256"
	"fmt"
	"go/ast"
	"go/parser"
	"go/printer"
	"go/token"
	"strconv"
	"strings"
)

func init() { register("ConfigSchemas", genConfigSchemas) }

type c15Sec struct {
	name, dir, file       string
	jsonType, cfgType     string
	applyFn, saveFn       string
	defaultFns            []string
	envConst              string
}

var c15Sections = []c15Sec{
	{"cluster", "", "cluster_config.go", "configJSON", "Config", "applyConfigJSON", "toConfigJSON", []string{"setDefaults"}, "configKey"},
	{"raft", "consensus/raft", "config.go", "jsonConfig", "Config", "applyJSONConfig", "toJSONConfig", []string{"Default"}, "envConfigKey"},
	{"crdt", "consensus/crdt", "config.go", "jsonConfig", "Config", "applyJSONConfig", "toJSONConfig", []string{"Default"}, "envConfigKey"},
	{"restapi", "api/rest", "config.go", "jsonConfig", "Config", "applyJSONConfig", "toJSONConfig", []string{"Default"}, "envConfigKey"},
	{"ipfsproxy", "api/ipfsproxy", "config.go", "jsonConfig", "Config", "applyJSONConfig", "toJSONConfig", []string{"Default"}, "envConfigKey"},
	{"ipfshttp", "ipfsconn/ipfshttp", "config.go", "jsonConfig", "Config", "applyJSONConfig", "toJSONConfig", []string{"Default"}, "envConfigKey"},
	{"stateless", "pintracker/stateless", "config.go", "jsonConfig", "Config", "applyJSONConfig", "toJSONConfig", []string{"Default"}, "envConfigKey"},
	{"pubsubmon", "monitor/pubsubmon", "config.go", "jsonConfig", "Config", "applyJSONConfig", "toJSONConfig", []string{"Default"}, "envConfigKey"},
	{"disk", "informer/disk", "config.go", "jsonConfig", "Config", "applyJSONConfig", "toJSONConfig", []string{"Default"}, "envConfigKey"},
	{"numpin", "informer/numpin", "config.go", "jsonConfig", "Config", "applyJSONConfig", "toJSONConfig", []string{"Default"}, "envConfigKey"},
	{"metrics", "observations", "config.go", "jsonMetricsConfig", "MetricsConfig", "applyJSONConfig", "toJSONConfig", []string{"Default"}, "metricsEnvConfigKey"},
	{"tracing", "observations", "config.go", "jsonTracingConfig", "TracingConfig", "applyJSONConfig", "toJSONConfig", []string{"Default"}, "tracingEnvConfigKey"},
	{"badger", "datastore/badger", "config.go", "jsonConfig", "Config", "applyJSONConfig", "toJSONConfig", []string{"Default"}, "envConfigKey"},
	{"leveldb", "datastore/leveldb", "config.go", "jsonConfig", "Config", "applyJSONConfig", "toJSONConfig", []string{"Default"}, "envConfigKey"},
}

// defaults of custom members whose rule configcustoms.go does not translate (their Config representation is chosen by
// the hand transcription). crdt.trusted_peers is translated: its default is computed from Default() (TrustAll, TrustedPeers).
var c15CustomDefaults = map[string]string{}

// library constructors whose result is a default block: module, file, function
var c15ExtDefaults = map[string][3]string{
	"hraft.DefaultConfig":   {"github.com/hashicorp/raft", "config.go", "DefaultConfig"},
	"badger.DefaultOptions": {"github.com/dgraph-io/badger", "options.go", "DefaultOptions"},
}

// total conversions (no error result) with their rule
var c15TotalConv = map[string]string{"api.StringsToPeers": "LParseListSkipBad"}

// parsers that accept the empty string
var c15EmptyOK = map[string]bool{"DecodeClusterSecret": true}

type c15JField struct {
	path, gosel, gotype, kind string
	omit, hidden, group, ptr  bool
	parent                    string // JSON path of the enclosing pointer-struct member
	lrule                     string // Coq term
	lcfg                      string
	lpos                      int
	lguard                    string // "", "nonzero"
	srule, scfg               string
	custom                    bool
	customFn                  string
	mentioned                 bool
	emptyZero                 bool
}

type c15File struct {
	fset    *token.FileSet
	f       *ast.File
	structs map[string]*ast.StructType
	funcs   map[string]*ast.FuncDecl // "Recv.Name" or "Name"
	values  map[string]ast.Expr      // package-level const / var initialisers
	iota    map[string]int
	zeroVar map[string]bool // package-level vars without initialiser
}

func c15Load(path string) (*c15File, error) {
	fset, f, err := parseFile(path)
	if err != nil {
		return nil, err
	}
	return c15FromAST(fset, f), nil
}

// a file given as text (self-tests)
func c15LoadSrc(src string) (*c15File, error) {
	fset := token.NewFileSet()
	f, err := parser.ParseFile(fset, "snippet.go", src, parser.ParseComments)
	if err != nil {
		return nil, err
	}
	return c15FromAST(fset, f), nil
}

func c15FromAST(fset *token.FileSet, f *ast.File) *c15File {
	cf := &c15File{fset: fset, f: f, structs: map[string]*ast.StructType{}, funcs: map[string]*ast.FuncDecl{},
		values: map[string]ast.Expr{}, iota: map[string]int{}, zeroVar: map[string]bool{}}
	for _, d := range f.Decls {
		switch d := d.(type) {
		case *ast.GenDecl:
			for _, sp := range d.Specs {
				switch sp := sp.(type) {
				case *ast.TypeSpec:
					if st, ok := sp.Type.(*ast.StructType); ok {
						cf.structs[sp.Name.Name] = st
					}
				}
			}
			if d.Tok == token.CONST || d.Tok == token.VAR {
				var last ast.Expr
				for i, sp := range d.Specs {
					vs := sp.(*ast.ValueSpec)
					for k, n := range vs.Names {
						if k < len(vs.Values) {
							cf.values[n.Name] = vs.Values[k]
							last = vs.Values[k]
							if id, ok := vs.Values[k].(*ast.Ident); ok && id.Name == "iota" {
								cf.iota[n.Name] = i
							}
						} else if d.Tok == token.CONST && last != nil {
							if id, ok := last.(*ast.Ident); ok && id.Name == "iota" {
								cf.iota[n.Name] = i
							}
						} else if d.Tok == token.VAR {
							cf.zeroVar[n.Name] = true
						}
					}
				}
			}
		case *ast.FuncDecl:
			key := d.Name.Name
			if d.Recv != nil && len(d.Recv.List) == 1 {
				key = c15TypeName(d.Recv.List[0].Type) + "." + key
			}
			cf.funcs[key] = d
		}
	}
	return cf
}

func c15TypeName(e ast.Expr) string {
	switch e := e.(type) {
	case *ast.StarExpr:
		return c15TypeName(e.X)
	case *ast.Ident:
		return e.Name
	}
	return "?"
}

func (cf *c15File) text(n ast.Node) string {
	var b bytes.Buffer
	printer.Fprint(&b, cf.fset, n)
	return b.String()
}

func c15Hash(s string) string {
	h := sha256.Sum256([]byte(s))
	return fmt.Sprintf("%x", h[:8])
}

func c15Recv(fd *ast.FuncDecl) string {
	if fd.Recv != nil && len(fd.Recv.List) == 1 && len(fd.Recv.List[0].Names) == 1 {
		return fd.Recv.List[0].Names[0].Name
	}
	return ""
}

// ---------------------------------------------------------------------------------------------
// JSON struct
// ---------------------------------------------------------------------------------------------
func c15Tag(f *ast.Field, key string) string {
	if f.Tag == nil {
		return ""
	}
	s, _ := strconv.Unquote(f.Tag.Value)
	// reflect.StructTag syntax
	for s != "" {
		s = strings.TrimLeft(s, " ")
		i := strings.Index(s, ":\"")
		if i < 0 {
			break
		}
		name := s[:i]
		rest := s[i+2:]
		j := strings.Index(rest, "\"")
		if j < 0 {
			break
		}
		if name == key {
			return rest[:j]
		}
		s = rest[j+1:]
	}
	return ""
}

func (cf *c15File) flatten(tname, jprefix, gprefix, parent string, out *[]*c15JField) error {
	st := cf.structs[tname]
	if st == nil {
		return fmt.Errorf("struct %s not found", tname)
	}
	for _, f := range st.Fields.List {
		if len(f.Names) != 1 {
			return fmt.Errorf("struct %s: embedded or multi-name member", tname)
		}
		jt := c15Tag(f, "json")
		parts := strings.Split(jt, ",")
		if parts[0] == "" || parts[0] == "-" {
			return fmt.Errorf("struct %s member %s: no json name", tname, f.Names[0].Name)
		}
		jf := &c15JField{path: jprefix + parts[0], gosel: gprefix + f.Names[0].Name, gotype: cf.text(f.Type), parent: parent}
		for _, p := range parts[1:] {
			if p == "omitempty" {
				jf.omit = true
			}
		}
		jf.hidden = c15Tag(f, "hidden") == "true"
		inner := ""
		switch t := f.Type.(type) {
		case *ast.Ident:
			if cf.structs[t.Name] != nil {
				inner = t.Name
			}
		case *ast.StarExpr:
			if id, ok := t.X.(*ast.Ident); ok && cf.structs[id.Name] != nil {
				inner = id.Name
				jf.group = true
			}
		}
		if inner != "" && !jf.group {
			if err := cf.flatten(inner, jf.path+".", jf.gosel+".", parent, out); err != nil {
				return err
			}
			continue
		}
		if jf.group {
			jf.kind = "KGroup"
			*out = append(*out, jf)
			if err := cf.flatten(inner, jf.path+".", jf.gosel+".", jf.path, out); err != nil {
				return err
			}
			continue
		}
		switch jf.gotype {
		case "string":
			jf.kind = "KStr"
		case "bool":
			jf.kind = "KBool"
		case "int", "int64", "int32", "uint", "uint32", "uint64":
			jf.kind = "KInt"
		case "float64":
			jf.kind = "KFloat"
		case "*bool":
			jf.kind, jf.ptr = "KBool", true
		case "*float64":
			jf.kind, jf.ptr = "KFloat", true
		case "*options.FileLoadingMode":
			jf.kind, jf.ptr = "KInt", true
		case "[]string", "ipfsconfig.Strings", "[]float64":
			jf.kind = "KList"
		case "map[string]string", "map[string][]string":
			jf.kind = "KMap"
		default:
			return fmt.Errorf("member %s: unsupported type %s", jf.path, jf.gotype)
		}
		*out = append(*out, jf)
	}
	return nil
}

// ---------------------------------------------------------------------------------------------
// walking the apply function
// ---------------------------------------------------------------------------------------------
type c15Alias struct {
	jpath   string
	how     string // direct, durIgnore, durZero, parsed, list, unmarshal, elem
	parser  string
	checked bool
}

type c15Walker struct {
	cf       *c15File
	sec      *c15Sec
	fields   []*c15JField
	byGo     map[string]*c15JField
	byPath   map[string]*c15JField
	jvar     string
	cvar     string
	alias    map[string]*c15Alias
	durFuncs map[string]bool
	pos      int
	softG    int
	validates bool
	curFn    string
	resets   map[string]string // cfg path -> reset value (Coq) inside a group
	errs     []string
	thenDefaults [][2]string // (cfg path, expression) of `if j == 0 { cfg.P = expr } else ...`
}

func (w *c15Walker) selPath(e ast.Expr) (root string, path string, ok bool) {
	var parts []string
	for {
		switch x := e.(type) {
		case *ast.SelectorExpr:
			parts = append([]string{x.Sel.Name}, parts...)
			e = x.X
			continue
		case *ast.ParenExpr:
			e = x.X
			continue
		case *ast.Ident:
			return x.Name, strings.Join(parts, "."), true
		}
		return "", "", false
	}
}

// resolve an expression to a JSON member (directly or through a local alias)
func (w *c15Walker) resJ(e ast.Expr) (*c15JField, *c15Alias) {
	switch x := e.(type) {
	case *ast.StarExpr:
		return w.resJ(x.X)
	case *ast.ParenExpr:
		return w.resJ(x.X)
	case *ast.CallExpr:
		// type conversions such as goleveldb.Compression(x), string(x)
		if len(x.Args) == 1 {
			if _, ok := c15TotalConv[w.cf.text(x.Fun)]; !ok {
				if jf, a := w.resJ(x.Args[0]); jf != nil && w.isConversion(x.Fun) {
					return jf, a
				}
			}
		}
		return nil, nil
	}
	root, p, ok := w.selPath(e)
	if !ok {
		return nil, nil
	}
	if root == w.jvar && p != "" {
		if jf := w.byGo[p]; jf != nil {
			return jf, &c15Alias{jpath: jf.path, how: "direct"}
		}
		return nil, nil
	}
	if a := w.alias[root]; a != nil && p == "" {
		return w.byPath[a.jpath], a
	}
	if a := w.alias[root]; a != nil && p != "" && a.how == "direct" {
		// alias of a struct member (conman := jcfg.ConnectionManager; conman.HighWater)
		base := w.byPath[a.jpath]
		if base != nil {
			if jf := w.byGo[base.gosel+"."+p]; jf != nil {
				return jf, &c15Alias{jpath: jf.path, how: "direct"}
			}
		}
	}
	return nil, nil
}

func (w *c15Walker) isConversion(fun ast.Expr) bool {
	s := w.cf.text(fun)
	switch s {
	case "string", "int", "int64", "uint", "uint64", "float64", "time.Duration", "ipfsconfig.Strings":
		return true
	}
	// pkg.Type(x) where Type is capitalised and the package is not a known function holder
	if strings.HasPrefix(s, "goleveldb.") || strings.HasPrefix(s, "options.") {
		return true
	}
	return false
}

func (w *c15Walker) cfgDest(e ast.Expr) (string, bool) {
	if u, ok := e.(*ast.UnaryExpr); ok && u.Op == token.AND {
		e = u.X
	}
	root, p, ok := w.selPath(e)
	if ok && root == w.cvar && p != "" {
		return p, true
	}
	return "", false
}

func (w *c15Walker) mentions(n ast.Node) []*c15JField {
	seen := map[string]bool{}
	var out []*c15JField
	ast.Inspect(n, func(m ast.Node) bool {
		e, ok := m.(ast.Expr)
		if !ok {
			return true
		}
		switch e.(type) {
		case *ast.SelectorExpr, *ast.Ident:
			if jf, _ := w.resJ(e); jf != nil && !seen[jf.path] {
				seen[jf.path] = true
				out = append(out, jf)
			}
		}
		return true
	})
	return out
}

func (w *c15Walker) setRule(jf *c15JField, rule, cfgp string, guard string) {
	if jf.custom {
		return
	}
	switch guard {
	case "nonzero":
		switch {
		case rule == "LAlways":
			rule = "LIfNonZero"
		case strings.HasPrefix(rule, "(LParseAlways"):
			rule = "LParseIfNonEmpty"
		case rule == "LParseListAlways":
			rule = "LParseListIfNonEmpty"
		case rule == "LIfNonZero" || rule == "LParseIfNonEmpty" || rule == "LParseListIfNonEmpty":
		default:
			w.markCustom(jf)
			return
		}
	}
	if jf.parent != "" && guard != "nogroup" {
		reset := "VNone"
		if r, ok := w.resets[cfgp]; ok {
			reset = r
		} else {
			reset = "(zero_of " + c15KindFor(jf, rule) + ")"
		}
		rule = fmt.Sprintf("(LIfParent %s %s %s)", coqStr(jf.parent), rule, reset)
	}
	// an explicit later rule replaces the blanket merge rule
	if jf.lrule != "" && jf.lrule != "LMergeNonZero" && jf.lrule != rule {
		w.markCustom(jf)
		return
	}
	if jf.lrule == "" {
		w.pos++
		jf.lpos = w.pos
	}
	jf.lrule, jf.lcfg = rule, cfgp
}

func c15KindFor(jf *c15JField, rule string) string {
	k := jf.kind
	if k == "KStr" {
		if strings.Contains(rule, "LDur") {
			return "KDur"
		}
		if strings.Contains(rule, "LParse") {
			return "KTok"
		}
	}
	return k
}

func (w *c15Walker) markCustom(jf *c15JField) {
	if !jf.custom {
		w.pos++
		jf.lpos = w.pos
	}
	jf.custom = true
	jf.customFn = w.curFn
	jf.lrule = ""
}

func isErrCheck(s ast.Stmt) bool {
	is, ok := s.(*ast.IfStmt)
	if !ok || is.Init != nil {
		return false
	}
	be, ok := is.Cond.(*ast.BinaryExpr)
	if !ok || be.Op != token.NEQ {
		return false
	}
	x, ok1 := be.X.(*ast.Ident)
	y, ok2 := be.Y.(*ast.Ident)
	if !ok1 || !ok2 || x.Name != "err" || y.Name != "nil" {
		return false
	}
	if len(is.Body.List) == 0 {
		return false
	}
	_, ok = is.Body.List[len(is.Body.List)-1].(*ast.ReturnStmt)
	return ok
}

func (w *c15Walker) parseDurationsCall(ce *ast.CallExpr, checked bool, guard string) bool {
	if w.cf.text(ce.Fun) != "config.ParseDurations" {
		return false
	}
	g := -1
	if !checked {
		w.softG++
		g = w.softG
	}
	for _, a := range ce.Args[1:] {
		u, ok := a.(*ast.UnaryExpr)
		if !ok {
			w.errs = append(w.errs, "ParseDurations: unexpected argument "+w.cf.text(a))
			continue
		}
		cl, ok := u.X.(*ast.CompositeLit)
		if !ok {
			w.errs = append(w.errs, "ParseDurations: unexpected argument "+w.cf.text(a))
			continue
		}
		var dur, dst ast.Expr
		for _, el := range cl.Elts {
			kv, ok := el.(*ast.KeyValueExpr)
			if !ok {
				continue
			}
			switch w.cf.text(kv.Key) {
			case "Duration":
				dur = kv.Value
			case "Dst":
				dst = kv.Value
			}
		}
		jf, al := w.resJ(dur)
		cp, ok2 := w.cfgDest(dst)
		if jf == nil || al == nil || al.how != "direct" || !ok2 {
			w.errs = append(w.errs, "ParseDurations: cannot resolve "+w.cf.text(a))
			for _, m := range w.mentions(a) {
				w.markCustom(m)
			}
			continue
		}
		rule := "LDurIfNonEmpty"
		if !checked {
			rule = fmt.Sprintf("(LDurSoft %d)", g)
		} else if jf.emptyZero {
			rule = "LDurEmptyZero"
		}
		if guard == "nonzero" {
			w.markCustom(jf)
			continue
		}
		w.setRule(jf, rule, cp, "")
	}
	return true
}

func (w *c15Walker) walkFunc(fd *ast.FuncDecl, top bool) {
	oldJ, oldC, oldA, oldF := w.jvar, w.cvar, w.alias, w.curFn
	w.cvar = c15Recv(fd)
	w.jvar = ""
	if fd.Type.Params != nil && len(fd.Type.Params.List) == 1 && len(fd.Type.Params.List[0].Names) == 1 {
		w.jvar = fd.Type.Params.List[0].Names[0].Name
	}
	w.alias = map[string]*c15Alias{}
	w.curFn = c15TypeName(fd.Recv.List[0].Type) + "." + fd.Name.Name
	w.walkStmts(fd.Body.List, "")
	if top {
		if n := len(fd.Body.List); n > 0 {
			if rs, ok := fd.Body.List[n-1].(*ast.ReturnStmt); ok && len(rs.Results) == 1 && w.cf.text(rs.Results[0]) == w.cvar+".Validate()" {
				w.validates = true
			}
		}
	}
	w.jvar, w.cvar, w.alias, w.curFn = oldJ, oldC, oldA, oldF
}

func (w *c15Walker) unknown(s ast.Stmt) {
	for _, m := range w.mentions(s) {
		w.markCustom(m)
	}
}

// method call on the receiver with the JSON struct as only argument: cfg.loadX(jcfg)
func (w *c15Walker) inlineCall(e ast.Expr) bool {
	ce, ok := e.(*ast.CallExpr)
	if !ok || len(ce.Args) != 1 {
		return false
	}
	se, ok := ce.Fun.(*ast.SelectorExpr)
	if !ok {
		return false
	}
	r, ok := se.X.(*ast.Ident)
	a, ok2 := ce.Args[0].(*ast.Ident)
	if !ok || !ok2 || r.Name != w.cvar || a.Name != w.jvar {
		return false
	}
	fd := w.cf.funcs[w.sec.cfgType+"."+se.Sel.Name]
	if fd == nil {
		return false
	}
	w.walkFunc(fd, false)
	return true
}

func (w *c15Walker) walkStmts(stmts []ast.Stmt, guard string) {
	for i := 0; i < len(stmts); i++ {
		s := stmts[i]
		next := ast.Stmt(nil)
		if i+1 < len(stmts) {
			next = stmts[i+1]
		}
		w.walkStmt(s, next, guard)
	}
}

func (w *c15Walker) walkStmt(s ast.Stmt, next ast.Stmt, guard string) {
	for _, m := range w.mentions(s) {
		m.mentioned = true
	}
	switch s := s.(type) {
	case *ast.DeclStmt, *ast.BranchStmt, *ast.EmptyStmt, *ast.DeferStmt:
		return
	case *ast.ReturnStmt:
		if len(s.Results) == 1 {
			if ce, ok := s.Results[0].(*ast.CallExpr); ok {
				if w.parseDurationsCall(ce, true, guard) {
					return
				}
			}
		}
		if len(w.mentions(s)) > 0 {
			w.unknown(s)
		}
		return
	case *ast.ExprStmt:
		ce, ok := s.X.(*ast.CallExpr)
		if !ok {
			w.unknown(s)
			return
		}
		fn := w.cf.text(ce.Fun)
		if fn == "config.SetIfNotDefault" && len(ce.Args) == 2 {
			jf, al := w.resJ(ce.Args[0])
			cp, ok := w.cfgDest(ce.Args[1])
			if jf == nil || !ok {
				w.unknown(s)
				return
			}
			switch al.how {
			case "direct":
				w.setRule(jf, "LIfNonZero", cp, guard)
			case "durIgnore":
				if guard != "" {
					w.markCustom(jf)
				} else {
					w.setRule(jf, "LDurIgnoreErr", cp, "")
				}
			default:
				w.markCustom(jf)
			}
			return
		}
		if w.parseDurationsCall(ce, false, guard) {
			return
		}
		if strings.HasPrefix(fn, "logger.") {
			return
		}
		w.unknown(s)
		return
	case *ast.AssignStmt:
		w.walkAssign(s, next, guard)
		return
	case *ast.IfStmt:
		w.walkIf(s, guard)
		return
	case *ast.RangeStmt:
		w.walkRange(s, guard)
		return
	case *ast.SwitchStmt:
		w.walkSwitch(s, guard)
		return
	}
	w.unknown(s)
}

func (w *c15Walker) walkAssign(s *ast.AssignStmt, next ast.Stmt, guard string) {
	// local closure: parseDuration := func(txt string) time.Duration { d, _ := time.ParseDuration(txt) ... return d }
	if len(s.Lhs) == 1 && len(s.Rhs) == 1 {
		if fl, ok := s.Rhs[0].(*ast.FuncLit); ok {
			if id, ok := s.Lhs[0].(*ast.Ident); ok && w.isDurIgnoreClosure(fl) {
				w.durFuncs[id.Name] = true
				return
			}
		}
	}
	if len(s.Rhs) != 1 {
		w.unknown(s)
		return
	}
	rhs := s.Rhs[0]
	// destination is a Config member
	if len(s.Lhs) == 1 {
		if cp, ok := w.cfgDest(s.Lhs[0]); ok {
			w.assignCfg(s, cp, rhs, guard)
			return
		}
		// jcfg.X = "0s" handled in walkIf; other writes to the JSON struct are not understood
		if jf, _ := w.resJ(s.Lhs[0]); jf != nil {
			if _, isIdent := s.Lhs[0].(*ast.Ident); !isIdent {
				w.unknown(s)
				return
			}
		}
	}
	// local definitions
	allIdent := true
	for _, l := range s.Lhs {
		if _, ok := l.(*ast.Ident); !ok {
			allIdent = false
		}
	}
	if !allIdent {
		if len(w.mentions(s)) > 0 {
			w.unknown(s)
		}
		return
	}
	name := s.Lhs[0].(*ast.Ident).Name
	lastIsErr := len(s.Lhs) == 2 && s.Lhs[1].(*ast.Ident).Name == "err"
	lastIsBlank := len(s.Lhs) == 2 && s.Lhs[1].(*ast.Ident).Name == "_"
	if name == "err" && len(s.Lhs) == 1 {
		// err := cfg.loadX(jcfg) / err = config.ParseDurations(...)
		if w.inlineCall(rhs) {
			return
		}
		if ce, ok := rhs.(*ast.CallExpr); ok {
			if w.parseDurationsCall(ce, next != nil && isErrCheck(next), guard) {
				return
			}
		}
		if len(w.mentions(s)) > 0 {
			w.unknown(s)
		}
		return
	}
	if jf, al := w.resJ(rhs); jf != nil && len(s.Lhs) == 1 {
		w.alias[name] = &c15Alias{jpath: jf.path, how: al.how, parser: al.parser, checked: al.checked}
		return
	}
	ce, ok := rhs.(*ast.CallExpr)
	if !ok {
		if len(w.mentions(s)) > 0 {
			w.unknown(s)
		}
		return
	}
	fn := w.cf.text(ce.Fun)
	// x := jcfg.X.Unmarshal()
	if se, ok := ce.Fun.(*ast.SelectorExpr); ok && se.Sel.Name == "Unmarshal" && len(ce.Args) == 0 {
		if root, p, ok := w.selPath(se.X); ok && root == w.jvar {
			w.alias[name] = &c15Alias{jpath: p, how: "unmarshal"}
			return
		}
	}
	if len(ce.Args) >= 1 {
		jf, al := w.resJ(ce.Args[0])
		onlyFirst := true
		for _, a := range ce.Args[1:] {
			if len(w.mentions(a)) > 0 {
				onlyFirst = false
			}
		}
		if jf != nil && onlyFirst && len(ce.Args) == 1 {
			switch {
			case w.durFuncs[fn] && al.how == "direct" && len(s.Lhs) == 1:
				w.alias[name] = &c15Alias{jpath: jf.path, how: "durIgnore"}
				return
			case fn == "time.ParseDuration" && al.how == "direct" && lastIsBlank:
				w.alias[name] = &c15Alias{jpath: jf.path, how: "durZero"}
				return
			case lastIsErr && (al.how == "direct" || al.how == "parsed" || al.how == "elem"):
				if al.how == "parsed" && !al.checked {
					break
				}
				how := "parsed"
				if al.how == "elem" {
					how = "elemParsed"
				}
				p := fn
				if al.how == "parsed" {
					p = al.parser
				}
				w.alias[name] = &c15Alias{jpath: jf.path, how: how, parser: p, checked: next != nil && isErrCheck(next)}
				return
			}
		}
	}
	if len(w.mentions(s)) > 0 {
		w.unknown(s)
	}
}

func (w *c15Walker) isDurIgnoreClosure(fl *ast.FuncLit) bool {
	if fl.Type.Params == nil || len(fl.Type.Params.List) != 1 || len(fl.Type.Params.List[0].Names) != 1 {
		return false
	}
	p := fl.Type.Params.List[0].Names[0].Name
	b := fl.Body.List
	if len(b) < 2 {
		return false
	}
	as, ok := b[0].(*ast.AssignStmt)
	if !ok || len(as.Lhs) != 2 || len(as.Rhs) != 1 {
		return false
	}
	if w.cf.text(as.Lhs[1]) != "_" || w.cf.text(as.Rhs[0]) != "time.ParseDuration("+p+")" {
		return false
	}
	d := w.cf.text(as.Lhs[0])
	rs, ok := b[len(b)-1].(*ast.ReturnStmt)
	if !ok || len(rs.Results) != 1 || w.cf.text(rs.Results[0]) != d {
		return false
	}
	// nothing in between may assign d
	for _, st := range b[1 : len(b)-1] {
		bad := false
		ast.Inspect(st, func(n ast.Node) bool {
			if a, ok := n.(*ast.AssignStmt); ok {
				for _, l := range a.Lhs {
					if w.cf.text(l) == d {
						bad = true
					}
				}
			}
			return true
		})
		if bad {
			return false
		}
	}
	return true
}

func (w *c15Walker) assignCfg(s *ast.AssignStmt, cp string, rhs ast.Expr, guard string) {
	// cfg.P = T{A: jcfg.X.A, ...}
	if cl, ok := rhs.(*ast.CompositeLit); ok {
		if len(w.mentions(cl)) == 0 {
			return
		}
		tn := c15TypeName(cl.Type)
		st := w.cf.structs[tn]
		if st == nil {
			w.unknown(s)
			return
		}
		set := map[string]bool{}
		type pend struct {
			jf *c15JField
			cp string
		}
		var ps []pend
		for _, el := range cl.Elts {
			kv, ok := el.(*ast.KeyValueExpr)
			if !ok {
				w.unknown(s)
				return
			}
			k := w.cf.text(kv.Key)
			jf, al := w.resJ(kv.Value)
			if jf == nil || al.how != "direct" {
				w.unknown(s)
				return
			}
			set[k] = true
			ps = append(ps, pend{jf, cp + "." + k})
		}
		for _, f := range st.Fields.List {
			for _, n := range f.Names {
				if !set[n.Name] {
					w.resets[cp+"."+n.Name] = c15ZeroOfType(w.cf.text(f.Type))
				}
			}
		}
		for _, p := range ps {
			w.setRule(p.jf, "LAlways", p.cp, guard)
		}
		return
	}
	if ce, ok := rhs.(*ast.CallExpr); ok && w.cf.text(ce.Fun) == "make" {
		return
	}
	// cfg.P = conv(jcfg.X) for a total conversion
	if ce, ok := rhs.(*ast.CallExpr); ok {
		if rule, ok := c15TotalConv[w.cf.text(ce.Fun)]; ok && len(ce.Args) == 1 {
			if jf, al := w.resJ(ce.Args[0]); jf != nil && al.how == "direct" && guard == "" {
				w.setRule(jf, rule, cp, "")
				return
			}
		}
	}
	jf, al := w.resJ(rhs)
	if jf == nil {
		if len(w.mentions(s)) > 0 {
			w.unknown(s)
		}
		return
	}
	switch al.how {
	case "direct":
		w.setRule(jf, "LAlways", cp, guard)
	case "durZero":
		if guard != "" {
			w.markCustom(jf)
			return
		}
		w.setRule(jf, "LDurZeroOnErr", cp, "")
	case "parsed":
		if !al.checked {
			w.markCustom(jf)
			return
		}
		eo := "false"
		if c15EmptyOK[al.parser] {
			eo = "true"
		}
		w.setRule(jf, "(LParseAlways "+eo+")", cp, guard)
	case "list":
		w.setRule(jf, "LParseListAlways", cp, guard)
	default:
		w.markCustom(jf)
	}
}

func c15ZeroOfType(t string) string {
	switch t {
	case "time.Duration", "int", "int64", "uint64", "float64":
		return "(VZ 0)"
	case "string":
		return `(VS "")`
	case "bool":
		return "(VB false)"
	}
	return "VNone"
}

// if-statement shapes
func (w *c15Walker) walkIf(s *ast.IfStmt, guard string) {
	if s.Init == nil && isErrCheck(s) {
		return
	}
	// if err := mergo.Merge(&cfg.P, alias, mergo.WithOverride); err != nil { return err }
	if as, ok := s.Init.(*ast.AssignStmt); ok && len(as.Rhs) == 1 {
		if ce, ok := as.Rhs[0].(*ast.CallExpr); ok && w.cf.text(ce.Fun) == "mergo.Merge" {
			w.mergeCall(s, ce, guard)
			return
		}
	}
	cond := s.Cond
	var subj ast.Expr
	shape := ""
	if s.Init != nil {
		as, ok := s.Init.(*ast.AssignStmt)
		if !ok || len(as.Lhs) != 1 || len(as.Rhs) != 1 {
			w.unknown(s)
			return
		}
		id, ok := as.Lhs[0].(*ast.Ident)
		jf, al := w.resJ(as.Rhs[0])
		if !ok || jf == nil || al.how != "direct" {
			w.unknown(s)
			return
		}
		w.alias[id.Name] = &c15Alias{jpath: jf.path, how: "direct"}
	}
	if be, ok := cond.(*ast.BinaryExpr); ok {
		y := w.cf.text(be.Y)
		x := be.X
		if ce, ok := x.(*ast.CallExpr); ok && w.cf.text(ce.Fun) == "len" && len(ce.Args) == 1 && be.Op == token.GTR && y == "0" {
			subj, shape = ce.Args[0], "nonzero"
		} else if be.Op == token.NEQ && (y == `""` || y == "0") {
			subj, shape = x, "nonzero"
		} else if be.Op == token.NEQ && y == "nil" {
			subj, shape = x, "nonnil"
		} else if be.Op == token.EQL && (y == "0" || y == `""`) {
			subj, shape = x, "iszero"
		}
	}
	if subj == nil {
		w.unknown(s)
		return
	}
	jf, al := w.resJ(subj)
	if jf == nil || al.how != "direct" {
		w.unknown(s)
		return
	}
	switch shape {
	case "nonnil":
		if jf.group && s.Else == nil && guard == "" {
			w.setGroup(jf)
			w.walkStmts(s.Body.List, "")
			return
		}
		if jf.ptr && s.Else == nil && len(s.Body.List) == 1 && guard == "" {
			if as, ok := s.Body.List[0].(*ast.AssignStmt); ok && len(as.Lhs) == 1 && len(as.Rhs) == 1 {
				cp, ok1 := w.cfgDest(as.Lhs[0])
				st, ok2 := as.Rhs[0].(*ast.StarExpr)
				if ok1 && ok2 {
					if j2, _ := w.resJ(st.X); j2 == jf {
						// replaces a preceding merge rule
						if jf.lrule == "LMergeNonZero" {
							jf.lrule = ""
							if jf.lcfg != cp {
								w.markCustom(jf)
								return
							}
						}
						w.setRule(jf, "LPtrIfNonNil", cp, "")
						return
					}
				}
			}
		}
		w.unknown(s)
	case "iszero":
		// if j == "" { j = "0s" }
		if s.Else == nil && len(s.Body.List) == 1 {
			if as, ok := s.Body.List[0].(*ast.AssignStmt); ok && len(as.Lhs) == 1 && len(as.Rhs) == 1 {
				if j2, _ := w.resJ(as.Lhs[0]); j2 == jf && w.cf.text(as.Rhs[0]) == `"0s"` && jf.lrule == "" {
					jf.emptyZero = true
					return
				}
			}
		}
		// if j == 0 { cfg.P = Default } else { cfg.P = j }
		if eb, ok := s.Else.(*ast.BlockStmt); ok && len(s.Body.List) == 1 && len(eb.List) == 1 && guard == "" {
			a1, ok1 := s.Body.List[0].(*ast.AssignStmt)
			a2, ok2 := eb.List[0].(*ast.AssignStmt)
			if ok1 && ok2 && len(a1.Lhs) == 1 && len(a2.Lhs) == 1 && len(a2.Rhs) == 1 {
				c1, k1 := w.cfgDest(a1.Lhs[0])
				c2, k2 := w.cfgDest(a2.Lhs[0])
				j2, al2 := w.resJ(a2.Rhs[0])
				if k1 && k2 && c1 == c2 && j2 == jf && al2.how == "direct" && len(w.mentions(a1)) == 0 {
					// the then-branch must restore the default of the same member (checked by the coherence obligation through fdef)
					w.setRule(jf, "LIfNonZero", c1, "")
					w.thenDefaults = append(w.thenDefaults, [2]string{c1, w.cf.text(a1.Rhs[0])})
					return
				}
			}
		}
		w.unknown(s)
	case "nonzero":
		if s.Else != nil || guard != "" {
			w.unknown(s)
			return
		}
		// the body may only concern this member
		for _, m := range w.mentions(s.Body) {
			if m != jf {
				w.unknown(s)
				return
			}
		}
		w.walkStmts(s.Body.List, "nonzero")
	}
}

func (w *c15Walker) setGroup(jf *c15JField) {
	if jf.lrule == "" {
		w.pos++
		jf.lpos = w.pos
	}
	jf.lrule = "LGroup"
}

func (w *c15Walker) mergeCall(s *ast.IfStmt, ce *ast.CallExpr, guard string) {
	if len(ce.Args) != 3 || w.cf.text(ce.Args[2]) != "mergo.WithOverride" || guard != "" {
		w.unknown(s)
		return
	}
	cp, ok := w.cfgDest(ce.Args[0])
	id, ok2 := ce.Args[1].(*ast.Ident)
	if !ok || !ok2 || w.alias[id.Name] == nil || w.alias[id.Name].how != "unmarshal" {
		w.unknown(s)
		return
	}
	gosel := w.alias[id.Name].jpath // Go selector of the nested JSON struct
	// type of the nested struct
	var tname string
	st := w.cf.structs[w.sec.jsonType]
	for _, f := range st.Fields.List {
		if len(f.Names) == 1 && f.Names[0].Name == gosel {
			tname = c15TypeName(f.Type)
		}
	}
	um := w.cf.funcs[tname+".Unmarshal"]
	if um == nil {
		w.errs = append(w.errs, "no Unmarshal method for "+tname)
		return
	}
	recv := c15Recv(um)
	localOf := map[string]string{}
	// <ret>.G = <recv>.F  (possibly converted, possibly `if p := recv.F; p != nil { ret.G = *p }`)
	copies := map[string]string{}
	var scan func(stmts []ast.Stmt)
	scan = func(stmts []ast.Stmt) {
		for _, st := range stmts {
			switch st := st.(type) {
			case *ast.AssignStmt:
				if len(st.Lhs) != 1 || len(st.Rhs) != 1 {
					continue
				}
				lse, ok := st.Lhs[0].(*ast.SelectorExpr)
				if !ok {
					continue
				}
				var src string
				ast.Inspect(st.Rhs[0], func(n ast.Node) bool {
					if se, ok := n.(*ast.SelectorExpr); ok {
						if x, ok := se.X.(*ast.Ident); ok && x.Name == recv {
							src = se.Sel.Name
						}
					}
					if idn, ok := n.(*ast.Ident); ok && localOf[idn.Name] != "" {
						src = localOf[idn.Name]
					}
					return true
				})
				if src != "" {
					copies[src] = lse.Sel.Name
				}
			case *ast.IfStmt:
				if as, ok := st.Init.(*ast.AssignStmt); ok && len(as.Lhs) == 1 && len(as.Rhs) == 1 {
					if se, ok := as.Rhs[0].(*ast.SelectorExpr); ok {
						if x, ok := se.X.(*ast.Ident); ok && x.Name == recv {
							localOf[w.cf.text(as.Lhs[0])] = se.Sel.Name
						}
					}
				}
				scan(st.Body.List)
			}
		}
	}
	scan(um.Body.List)
	for _, jf := range w.fields {
		if !strings.HasPrefix(jf.gosel, gosel+".") {
			continue
		}
		member := strings.TrimPrefix(jf.gosel, gosel+".")
		jf.mentioned = true
		if g, ok := copies[member]; ok {
			w.setRule(jf, "LMergeNonZero", cp+"."+g, "")
		} else {
			w.markCustom(jf)
		}
	}
}

func (w *c15Walker) walkRange(s *ast.RangeStmt, guard string) {
	jf, al := w.resJ(s.X)
	v, ok := s.Value.(*ast.Ident)
	if jf == nil || al.how != "direct" || !ok {
		w.unknown(s)
		return
	}
	// body: y, err := parser(v); if err != nil { return }; DEST = append(DEST, y)
	b := s.Body.List
	if len(b) == 3 {
		a1, ok1 := b[0].(*ast.AssignStmt)
		a3, ok3 := b[2].(*ast.AssignStmt)
		if ok1 && ok3 && isErrCheck(b[1]) && len(a1.Lhs) == 2 && len(a1.Rhs) == 1 && len(a3.Lhs) == 1 && len(a3.Rhs) == 1 {
			ce, okc := a1.Rhs[0].(*ast.CallExpr)
			ap, oka := a3.Rhs[0].(*ast.CallExpr)
			if okc && oka && len(ce.Args) == 1 && w.cf.text(ce.Args[0]) == v.Name && w.cf.text(a1.Lhs[1]) == "err" &&
				w.cf.text(ap.Fun) == "append" && len(ap.Args) == 2 && w.cf.text(ap.Args[0]) == w.cf.text(a3.Lhs[0]) &&
				w.cf.text(ap.Args[1]) == w.cf.text(a1.Lhs[0]) {
				if cp, ok := w.cfgDest(a3.Lhs[0]); ok {
					w.setRule(jf, "LParseListAlways", cp, guard)
					return
				}
				if id, ok := a3.Lhs[0].(*ast.Ident); ok && guard == "" {
					w.alias[id.Name] = &c15Alias{jpath: jf.path, how: "list"}
					return
				}
			}
		}
	}
	w.unknown(s)
}

func (w *c15Walker) walkSwitch(s *ast.SwitchStmt, guard string) {
	if s.Init != nil || s.Tag == nil || guard != "" {
		w.unknown(s)
		return
	}
	jf, al := w.resJ(s.Tag)
	if jf == nil || al.how != "direct" {
		w.unknown(s)
		return
	}
	var lits []string
	cp := ""
	hasDefault := false
	for _, c := range s.Body.List {
		cc := c.(*ast.CaseClause)
		if cc.List == nil {
			if len(cc.Body) == 1 {
				if _, ok := cc.Body[0].(*ast.ReturnStmt); ok {
					hasDefault = true
					continue
				}
			}
			w.unknown(s)
			return
		}
		if len(cc.Body) != 1 {
			w.unknown(s)
			return
		}
		as, ok := cc.Body[0].(*ast.AssignStmt)
		if !ok || len(as.Lhs) != 1 || len(w.mentions(as)) != 0 {
			w.unknown(s)
			return
		}
		c1, ok := w.cfgDest(as.Lhs[0])
		if !ok || (cp != "" && cp != c1) {
			w.unknown(s)
			return
		}
		cp = c1
		for _, l := range cc.List {
			bl, ok := l.(*ast.BasicLit)
			if !ok || bl.Kind != token.STRING {
				w.unknown(s)
				return
			}
			v, _ := strconv.Unquote(bl.Value)
			lits = append(lits, v)
		}
	}
	if !hasDefault || cp == "" {
		w.unknown(s)
		return
	}
	w.setRule(jf, "(LEnum "+coqStrList(lits)+")", cp, "")
}
