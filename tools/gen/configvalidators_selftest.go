package main

// Self-test of the Validate() translator, run before every generation. A small Validate in every statement style the
// 14 sections use (if-chain, `err =` with a final `return err`, tagless switch, nested ifs, a helper called through
// `if err := f(...); err != nil`, a tail call of a method, a library-style oracle, a constant block, locals) is
// translated and EVALUATED on a grid of configurations against the same function written natively in Go; then
// hand-made mutants of it (flipped comparison, dropped clause, `&&` for `||`, early `return nil` added, a check moved
// out of its guard, a negation dropped, `return nil` for `return err`, ...) must each translate to THEIR native
// meaning, which must differ from the base somewhere on the grid; and statement or expression shapes the walk does
// not know must make it fail rather than drop a condition.

import (
	"fmt"
	"strings"
)

const vSelfBase = `package p

import (
	"errors"
	"fmt"
	"time"
)

const minBytes = 4096

func (cfg *Config) Validate() error {
	if cfg.Addr == nil {
		return errors.New("addr")
	}
	if cfg.Low <= 0 {
		return errors.New("low")
	}
	if cfg.Low > cfg.High {
		return errors.New("order")
	}
	if cfg.Ratio <= 0 || cfg.Ratio >= 1 {
		return errors.New("ratio")
	}
	if cfg.Name == "" {
		return errors.New("name")
	}
	if cfg.Creds != nil && len(cfg.Creds) == 0 {
		return errors.New("creds")
	}
	if cfg.Enable {
		if len(cfg.Peers) == 0 {
			return errors.New("peers")
		}
		if cfg.Interval < 5*time.Millisecond {
			return fmt.Errorf("interval")
		}
	}
	if cfg.Inner == nil {
		return errors.New("inner")
	}
	mn := cfg.Min
	if err := check(mn, cfg.Max); err != nil {
		return err
	}
	return cfg.tail()
}

func check(a, b int) error {
	floor := lowest
	if floor == 0 {
		floor = -1
	}
	if a == 0 || b == 0 {
		return errors.New("zero")
	}
	if a > b {
		return errors.New("order")
	}
	if a < floor {
		return errors.New("floor")
	}
	return nil
}

const lowest = 0

func (cfg *Config) tail() error {
	switch {
	case cfg.Bytes < minBytes:
		return fmt.Errorf("bytes %d", minBytes)
	case cfg.Key != "" && !cfg.Key.Matches(cfg.Addr):
		return errors.New("key")
	}
	return nil
}

func (cfg *Config) ValidateB() error {
	var err error
	if len(cfg.Peers) == 0 {
		err = errors.New("peers")
	}
	if cfg.Addr == nil {
		err = errors.New("addr")
	}
	if cfg.Interval < 0 {
		err = errors.New("interval")
	}
	if cfg.Bytes < minBytes {
		err = fmt.Errorf("bytes %d", minBytes)
	}
	return err
}
`

type vSelfV struct {
	addr, name, key                                   string
	low, high, ratio, interval, min, max, bytes       int64
	creds, peers                                      int
	enable, matches                                   bool
}

// the base snippet, natively; mut selects the hand-made variant
func vSelfRef(v vSelfV, mut string) bool {
	if v.addr == "" {
		return false
	}
	if mut == "flipped comparison" {
		if v.low < 0 {
			return false
		}
	} else if v.low <= 0 {
		return false
	}
	if mut != "dropped clause" && v.low > v.high {
		return false
	}
	if mut == "early return nil" && v.name == "" {
		return true
	}
	if mut == "and for or" {
		if v.ratio <= 0 && v.ratio >= 1000000 {
			return false
		}
	} else if v.ratio <= 0 || v.ratio >= 1000000 {
		return false
	}
	if v.name == "" {
		return false
	}
	if v.creds == 1 {
		return false
	}
	if mut == "check moved out of its guard" {
		if v.peers == 0 {
			return false
		}
		if v.enable && v.interval < 5000000 {
			return false
		}
	} else if v.enable {
		if v.peers == 0 {
			return false
		}
		if v.interval < 5000000 {
			return false
		}
	} else if mut == "else branch added" && v.high > 100 {
		return false
	}
	if v.min == 0 || v.max == 0 {
		return false
	}
	if mut == "helper comparison flipped" {
		if v.min < v.max {
			return false
		}
	} else if v.min > v.max {
		return false
	}
	if v.min < -1 {
		return false
	}
	if mut != "switch case dropped" && v.bytes < 4096 {
		return false
	}
	if mut == "negation dropped" {
		if v.key != "" && v.matches {
			return false
		}
	} else if v.key != "" && !v.matches {
		return false
	}
	return true
}

func vSelfRefB(v vSelfV, mut string) bool {
	if mut == "return nil for return err" {
		return true
	}
	if v.peers == 0 {
		return false
	}
	if mut != "B clause dropped" && v.addr == "" {
		return false
	}
	if v.interval < 0 {
		return false
	}
	if v.bytes < 4096 {
		return false
	}
	return true
}

func vSelfInfo(src, fn string) (*vSecInfo, error) {
	cf, err := c15LoadSrc(src)
	if err != nil {
		return nil, err
	}
	f := func(n, k string) *vField { return &vField{name: n, kind: k, rule: "LAlways"} }
	si := &vSecInfo{name: "selftest", cfgType: "Config", validateFn: fn, cf: cf, ambiguous: map[string]bool{}, defText: map[string]string{}, written: map[string]bool{},
		byCfg: map[string]*vField{"Addr": f("addr", "KTok"), "Low": f("low", "KInt"), "High": f("high", "KInt"), "Ratio": f("ratio", "KFloat"),
			"Name": f("name", "KStr"), "Creds": f("creds", "KMap"), "Enable": f("enable", "KBool"), "Peers": f("peers", "KList"),
			"Interval": f("interval", "KDur"), "Min": f("min", "KInt"), "Max": f("max", "KInt"), "Bytes": f("bytes", "KInt"), "Key": f("key", "KTok")},
		defs: map[string]c15Val{"Inner": {k: "block"}}}
	return si, nil
}

func vSelfGrid() []vSelfV {
	var out []vSelfV
	for _, addr := range []string{"", "a"} {
		for _, low := range []int64{-1, 0, 1, 3} {
			for _, high := range []int64{0, 2, 101} {
				for _, ratio := range []int64{0, 500000, 1000000} {
					for _, name := range []string{"", "n"} {
						for creds := 0; creds < 3; creds++ {
							for _, en := range []bool{false, true} {
								for peers := 0; peers < 2; peers++ {
									for _, iv := range []int64{-1, 4999999, 5000000} {
										for _, mn := range []int64{-2, -1, 0, 1, 2} {
											for _, mx := range []int64{-1, 0, 1} {
												for _, by := range []int64{4095, 4096} {
													for _, key := range []string{"", "k"} {
														for _, ma := range []bool{false, true} {
															out = append(out, vSelfV{addr: addr, name: name, key: key, low: low, high: high, ratio: ratio,
																interval: iv, min: mn, max: mx, bytes: by, creds: creds, peers: peers, enable: en, matches: ma})
														}
													}
												}
											}
										}
									}
								}
							}
						}
					}
				}
			}
		}
	}
	return out
}

func vSelfAccepts(cls []vClause, v vSelfV) bool {
	mem := func(n string) vVal {
		switch n {
		case "addr":
			return vVal{s: v.addr}
		case "name":
			return vVal{s: v.name}
		case "key":
			return vVal{s: v.key}
		case "low":
			return vVal{z: v.low}
		case "high":
			return vVal{z: v.high}
		case "ratio":
			return vVal{z: v.ratio}
		case "interval":
			return vVal{z: v.interval}
		case "min":
			return vVal{z: v.min}
		case "max":
			return vVal{z: v.max}
		case "bytes":
			return vVal{z: v.bytes}
		case "creds":
			return vVal{mst: v.creds}
		case "peers":
			return vVal{llen: v.peers}
		case "enable":
			return vVal{b: v.enable}
		}
		panic("selftest: unknown member " + n)
	}
	orc := func(n string) bool {
		if n != "matches" {
			panic("selftest: unknown oracle " + n)
		}
		return v.matches
	}
	for _, c := range cls {
		if c.cond.eval(mem, orc) {
			return false
		}
	}
	return true
}

func c15ValidSelfTest() error {
	const okey = "selftest|cfg.Key.Matches(cfg.Addr)"
	c15ValidOracles[okey] = vOracle{"matches", false}
	defer delete(c15ValidOracles, okey)
	grid := vSelfGrid()
	run := func(src, fn string) ([]vClause, error) {
		si, err := vSelfInfo(src, fn)
		if err != nil {
			return nil, err
		}
		return c15TranslateValidate(si)
	}
	agree := func(cls []vClause, ref func(vSelfV, string) bool, mut string) error {
		for _, v := range grid {
			if vSelfAccepts(cls, v) != ref(v, mut) {
				return fmt.Errorf("translation and native meaning differ at %+v (native accepts: %v)", v, ref(v, mut))
			}
		}
		return nil
	}
	differs := func(ref func(vSelfV, string) bool, mut string) bool {
		for _, v := range grid {
			if ref(v, mut) != ref(v, "") {
				return true
			}
		}
		return false
	}
	for _, b := range []struct {
		fn  string
		ref func(vSelfV, string) bool
		n   int
	}{{"Validate", vSelfRef, 14}, {"ValidateB", vSelfRefB, 4}} {
		cls, err := run(vSelfBase, b.fn)
		if err != nil {
			return fmt.Errorf("base %s: %v", b.fn, err)
		}
		if len(cls) != b.n {
			return fmt.Errorf("base %s: %d clauses, expected %d", b.fn, len(cls), b.n)
		}
		if err := agree(cls, b.ref, ""); err != nil {
			return fmt.Errorf("base %s: %v", b.fn, err)
		}
	}
	type mutant struct {
		name, fn, old, new string
		wantErr            string // non-empty: the translator must fail with a message containing this
	}
	muts := []mutant{
		{"flipped comparison", "Validate", "if cfg.Low <= 0 {", "if cfg.Low < 0 {", ""},
		{"dropped clause", "Validate", "\tif cfg.Low > cfg.High {\n\t\treturn errors.New(\"order\")\n\t}\n", "", ""},
		{"and for or", "Validate", "cfg.Ratio <= 0 || cfg.Ratio >= 1", "cfg.Ratio <= 0 && cfg.Ratio >= 1", ""},
		{"early return nil", "Validate", "\tif cfg.Ratio <= 0", "\tif cfg.Name == \"\" {\n\t\treturn nil\n\t}\n\tif cfg.Ratio <= 0", ""},
		{"check moved out of its guard", "Validate", "\tif cfg.Enable {\n\t\tif len(cfg.Peers) == 0 {\n\t\t\treturn errors.New(\"peers\")\n\t\t}\n",
			"\tif len(cfg.Peers) == 0 {\n\t\treturn errors.New(\"peers\")\n\t}\n\tif cfg.Enable {\n", ""},
		{"else branch added", "Validate", "\t\t\treturn fmt.Errorf(\"interval\")\n\t\t}\n\t}\n",
			"\t\t\treturn fmt.Errorf(\"interval\")\n\t\t}\n\t} else {\n\t\tif cfg.High > 100 {\n\t\t\treturn errors.New(\"high\")\n\t\t}\n\t}\n", ""},
		{"helper comparison flipped", "Validate", "if a > b {", "if a < b {", ""},
		{"switch case dropped", "Validate", "\tcase cfg.Bytes < minBytes:\n\t\treturn fmt.Errorf(\"bytes %d\", minBytes)\n", "", ""},
		{"negation dropped", "Validate", "!cfg.Key.Matches(cfg.Addr)", "cfg.Key.Matches(cfg.Addr)", ""},
		{"return nil for return err", "ValidateB", "\t}\n\treturn err\n", "\t}\n\treturn nil\n", ""},
		{"B clause dropped", "ValidateB", "\tif cfg.Addr == nil {\n\t\terr = errors.New(\"addr\")\n\t}\n", "", ""},
		// shapes the walk must refuse
		{"loop", "Validate", "\tmn := cfg.Min\n", "\tmn := cfg.Min\n\tfor _, p := range cfg.Peers {\n\t\tif p == nil {\n\t\t\treturn errors.New(\"p\")\n\t\t}\n\t}\n", "statement not understood"},
		{"unknown call in a condition", "Validate", "if cfg.Low <= 0 {", "if bad(cfg.Low) {", "condition not followed"},
		{"call with a configuration argument", "Validate", "if cfg.Low <= 0 {", "if cfg.Low <= limit(cfg.High) {", "condition not followed"},
		{"if with initialiser", "Validate", "if cfg.Low <= 0 {", "if l := cfg.Low; l <= 0 {", "initialiser not understood"},
		{"local assigned under a condition", "Validate", "\tmn := cfg.Min\n", "\tmn := cfg.Min\n\tif cfg.Enable {\n\t\tmn = cfg.Max\n\t}\n", "assigned under a condition"},
		{"switch with a tag", "Validate", "\tswitch {\n\tcase cfg.Bytes < minBytes:", "\tswitch cfg.Bytes {\n\tcase minBytes:", "switch with a tag"},
		{"fallthrough", "Validate", "\t\treturn fmt.Errorf(\"bytes %d\", minBytes)\n\tcase", "\t\tfallthrough\n\tcase", "inside a switch case"},
		{"non-empty string constant", "Validate", "if cfg.Name == \"\" {", "if cfg.Name == \"x\" {", "non-empty string constant"},
		{"return of an unknown value", "Validate", "\treturn cfg.tail()\n", "\treturn lastErr\n", "return not understood"},
		{"error variable reset", "ValidateB", "\tif cfg.Interval < 0 {\n\t\terr = errors.New(\"interval\")\n", "\tif cfg.Interval < 0 {\n\t\terr = nil\n", "something else than a new error"},
		{"helper not in the file", "Validate", "check(mn, cfg.Max)", "checkElsewhere(mn, cfg.Max)", "call not followed"},
		{"member written outside Default", "Validate", "if cfg.Inner == nil {", "if cfg.Scratch == nil {", "condition not followed"},
		{"defer", "Validate", "\tmn := cfg.Min\n", "\tdefer cleanup()\n\tmn := cfg.Min\n", "statement not understood"},
		{"function that may fall off its end", "Validate", "\t\treturn errors.New(\"floor\")\n\t}\n\treturn nil\n", "\t\treturn errors.New(\"floor\")\n\t}\n", "can end without a return"},
		{"float constant not representable", "Validate", "cfg.Ratio >= 1 {", "cfg.Ratio >= 0.12345678 {", "not representable"},
		{"float member against an integer member", "Validate", "if cfg.Low > cfg.High {", "if cfg.Ratio > cfg.High {", "numeric comparison"},
	}
	for _, m := range muts {
		if strings.Count(vSelfBase, m.old) != 1 {
			return fmt.Errorf("mutant %q: anchor not unique (%d)", m.name, strings.Count(vSelfBase, m.old))
		}
		src := strings.Replace(vSelfBase, m.old, m.new, 1)
		si, err := vSelfInfo(src, m.fn)
		if err != nil {
			return fmt.Errorf("mutant %q: %v", m.name, err)
		}
		if m.name == "member written outside Default" {
			si.written["Scratch"] = true
		}
		cls, err := c15TranslateValidate(si)
		if m.wantErr != "" {
			if err == nil {
				return fmt.Errorf("mutant %q: the translator accepted a shape it cannot follow", m.name)
			}
			if !strings.Contains(err.Error(), m.wantErr) {
				return fmt.Errorf("mutant %q: failed for another reason: %v", m.name, err)
			}
			continue
		}
		if err != nil {
			return fmt.Errorf("mutant %q: %v", m.name, err)
		}
		ref := vSelfRef
		if m.fn == "ValidateB" {
			ref = vSelfRefB
		}
		if !differs(ref, m.name) {
			return fmt.Errorf("mutant %q: the native variant does not differ from the base on the grid (self-test too weak)", m.name)
		}
		if err := agree(cls, ref, m.name); err != nil {
			return fmt.Errorf("mutant %q: %v", m.name, err)
		}
	}
	return nil
}
