package main

// Self-test of the custom-rule translator: the "trust everybody" list in its known shape, and hand-made variants that
// must NOT be recognised (or must be recognised with the changed literal).

import (
	"fmt"
	"strings"
)

const ccSelfBase = `package p

type jsonConfig struct {
	Name  string   ` + "`json:\"name\"`" + `
	Peers []string ` + "`json:\"peers\"`" + `
}

func (cfg *Config) Default() error {
	cfg.Name = "n"
	cfg.Peers = []peer.ID{}
	cfg.All = true
	return nil
}

func (cfg *Config) applyJSONConfig(jcfg *jsonConfig) error {
	config.SetIfNotDefault(jcfg.Name, &cfg.Name)
	cfg.All = false
	cfg.Peers = []peer.ID{}
	for _, p := range jcfg.Peers {
		if p == "*" {
			cfg.All = true
			cfg.Peers = []peer.ID{}
			break
		}
		pid, err := peer.Decode(p)
		if err != nil {
			return fmt.Errorf("peers: %s", err)
		}
		cfg.Peers = append(cfg.Peers, pid)
	}
	return cfg.Validate()
}

func (cfg *Config) toJSONConfig() *jsonConfig {
	jcfg := &jsonConfig{
		Name: cfg.Name,
	}
	if cfg.All {
		jcfg.Peers = []string{"*"}
	} else {
		jcfg.Peers = api.PeersToStrings(cfg.Peers)
	}
	return jcfg
}
`

func c15CustomSelfTest() error {
	sec := &c15Sec{name: "selftest", jsonType: "jsonConfig", cfgType: "Config", applyFn: "applyJSONConfig", saveFn: "toJSONConfig", defaultFns: []string{"Default"}}
	run := func(src string) (*c15CustomTr, error) {
		cf, err := c15LoadSrc(src)
		if err != nil {
			return nil, err
		}
		an, err := c15AnalyseFile("", sec, cf)
		if err != nil {
			return nil, err
		}
		return c15TranslateCustomsOf(an, sec), nil
	}
	tr, err := run(ccSelfBase)
	if err != nil {
		return fmt.Errorf("base: %v", err)
	}
	wantL, wantS, wantD := `(CRStarLoad "*" "All" "Peers")`, `(CRStarSave "*" "All" "Peers")`, `(VL ["*"])`
	if tr.rules["selftest.peers"] != wantL || tr.rules["selftest.peers/save"] != wantS || tr.defs["selftest.peers"] != wantD {
		return fmt.Errorf("base: got %q %q %q (%v)", tr.rules["selftest.peers"], tr.rules["selftest.peers/save"], tr.defs["selftest.peers"], tr.notes)
	}
	muts := []struct {
		name, old, new string
		wantL, wantS   string // "" = must not be recognised
	}{
		{"continue for break", "\t\t\tbreak\n", "\t\t\tcontinue\n", "", ""},
		{"literal tested after parsing", "\t\tif p == \"*\" {\n\t\t\tcfg.All = true\n\t\t\tcfg.Peers = []peer.ID{}\n\t\t\tbreak\n\t\t}\n\t\tpid, err := peer.Decode(p)\n\t\tif err != nil {\n\t\t\treturn fmt.Errorf(\"peers: %s\", err)\n\t\t}\n",
			"\t\tpid, err := peer.Decode(p)\n\t\tif err != nil {\n\t\t\treturn fmt.Errorf(\"peers: %s\", err)\n\t\t}\n\t\tif p == \"*\" {\n\t\t\tcfg.All = true\n\t\t\tcfg.Peers = []peer.ID{}\n\t\t\tbreak\n\t\t}\n", "", ""},
		{"flag not reset", "\tcfg.All = false\n", "", "", ""},
		{"list not cleared at the literal", "\t\t\tcfg.All = true\n\t\t\tcfg.Peers = []peer.ID{}\n\t\t\tbreak\n", "\t\t\tcfg.All = true\n\t\t\tbreak\n", "", ""},
		{"parse error ignored", "\t\tif err != nil {\n\t\t\treturn fmt.Errorf(\"peers: %s\", err)\n\t\t}\n", "\t\tif err != nil {\n\t\t\tcontinue\n\t\t}\n", "", ""},
		{"flag written again after the loop", "\treturn cfg.Validate()\n", "\tcfg.All = len(cfg.Peers) == 0\n\treturn cfg.Validate()\n", "", ""},
		{"save: branches swapped", "\tif cfg.All {\n\t\tjcfg.Peers = []string{\"*\"}\n\t} else {\n\t\tjcfg.Peers = api.PeersToStrings(cfg.Peers)\n\t}\n",
			"\tif cfg.All {\n\t\tjcfg.Peers = api.PeersToStrings(cfg.Peers)\n\t} else {\n\t\tjcfg.Peers = []string{\"*\"}\n\t}\n", "", ""},
		{"save: flag ignored", "\tif cfg.All {\n\t\tjcfg.Peers = []string{\"*\"}\n\t} else {\n\t\tjcfg.Peers = api.PeersToStrings(cfg.Peers)\n\t}\n",
			"\tjcfg.Peers = api.PeersToStrings(cfg.Peers)\n", "", ""},
		{"save: another literal", "jcfg.Peers = []string{\"*\"}", "jcfg.Peers = []string{\"all\"}", wantL, `(CRStarSave "all" "All" "Peers")`},
		{"load: another literal", "if p == \"*\" {", "if p == \"all\" {", `(CRStarLoad "all" "All" "Peers")`, wantS},
	}
	for _, m := range muts {
		if strings.Count(ccSelfBase, m.old) != 1 {
			return fmt.Errorf("mutant %q: anchor not unique (%d)", m.name, strings.Count(ccSelfBase, m.old))
		}
		tr, err := run(strings.Replace(ccSelfBase, m.old, m.new, 1))
		if err != nil {
			return fmt.Errorf("mutant %q: %v", m.name, err)
		}
		if tr.rules["selftest.peers"] != m.wantL || tr.rules["selftest.peers/save"] != m.wantS {
			return fmt.Errorf("mutant %q: got %q %q, expected %q %q", m.name, tr.rules["selftest.peers"], tr.rules["selftest.peers/save"], m.wantL, m.wantS)
		}
		if m.wantL == "" && len(tr.notes) == 0 {
			return fmt.Errorf("mutant %q: no note says why the member is not translated", m.name)
		}
	}
	return nil
}
