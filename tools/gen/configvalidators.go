package main

// Gen/ConfigValidators.v (property C15): the Validate() method of every configuration section, TRANSLATED into the
// clause vocabulary of coq/Model/C15_VCond.v. A Validate() is a chain of `if <cond> { return <error> }` statements
// (or `err = <error>` with a final `return err`, or a tagless switch), possibly nested, possibly calling helpers of the
// same file (isReplicationFactorValid, validateLibp2p) or a library validator read from the module cache at the
// version go.mod pins (hashicorp/raft ValidateConfig). The walk executes the body symbolically: every place where the
// function rejects becomes one clause (name = the Go text of the conditions on the way, condition = a vcond over the
// JSON members the Config members are bound to by Gen/ConfigSchemas.v). The function accepts exactly when no clause
// holds. Config members that no load rule writes are constants (their value after Default()); conditions that call
// into a library become a named oracle from a fixed table; anything else (a statement or expression shape the walk
// does not know, an unlisted call, a local assigned under a configuration-dependent condition ...) makes the
// translator FAIL — a condition is never dropped silently.
// The Coq side (Proofs/C15_Tables.v) proves at every run that the translated clauses and the model's clauses
// (Model/C15_Valid.v) are the same function of oracle and configuration; Diag/C15.v names the clauses that differ.

import (
	"fmt"
	"go/ast"
	"go/token"
	"math"
	"path/filepath"
	"sort"
	"strings"
)

func init() { register("ConfigValidators", genConfigValidators) }

// ---------------------------------------------------------------------------------------------
// conditions
// ---------------------------------------------------------------------------------------------
type vTerm struct {
	m   string // member (JSON name) when !isK
	k   int64
	isK bool
}

type vCond struct {
	op   string // bool le lt eq emptys nill isnone emptym flag orc not and or
	b    bool
	l, r vTerm
	n    string
	x, y *vCond
}

var vTrue = &vCond{op: "bool", b: true}
var vFalse = &vCond{op: "bool", b: false}

func vBool(b bool) *vCond {
	if b {
		return vTrue
	}
	return vFalse
}
func (c *vCond) isT() bool { return c.op == "bool" && c.b }
func (c *vCond) isF() bool { return c.op == "bool" && !c.b }

func vEqual(a, b *vCond) bool {
	if a == nil || b == nil {
		return a == b
	}
	if a.op != b.op || a.b != b.b || a.l != b.l || a.r != b.r || a.n != b.n {
		return false
	}
	return vEqual(a.x, b.x) && vEqual(a.y, b.y)
}

func vNot(a *vCond) *vCond {
	switch {
	case a.op == "bool":
		return vBool(!a.b)
	case a.op == "not":
		return a.x
	}
	return &vCond{op: "not", x: a}
}

func vAnd(a, b *vCond) *vCond {
	switch {
	case a.isF() || b.isF():
		return vFalse
	case a.isT():
		return b
	case b.isT():
		return a
	case vEqual(a, b):
		return a
	}
	return &vCond{op: "and", x: a, y: b}
}

func vOr(a, b *vCond) *vCond {
	switch {
	case a.isT() || b.isT():
		return vTrue
	case a.isF():
		return b
	case b.isF():
		return a
	case vEqual(a, b):
		return a
	}
	return &vCond{op: "or", x: a, y: b}
}

func vCmp(op string, l, r vTerm) *vCond {
	if l.isK && r.isK {
		switch op {
		case "le":
			return vBool(l.k <= r.k)
		case "lt":
			return vBool(l.k < r.k)
		case "eq":
			return vBool(l.k == r.k)
		}
	}
	return &vCond{op: op, l: l, r: r}
}

func vAtom(op, n string) *vCond { return &vCond{op: op, n: n} }

func (t vTerm) coq() string {
	if t.isK {
		if t.k < 0 {
			return fmt.Sprintf("(TK (%d))", t.k)
		}
		return fmt.Sprintf("(TK %d)", t.k)
	}
	return "(TM " + coqStr(t.m) + ")"
}

func (c *vCond) coq() string {
	switch c.op {
	case "bool":
		if c.b {
			return "(CBool true)"
		}
		return "(CBool false)"
	case "le":
		return "(CLe " + c.l.coq() + " " + c.r.coq() + ")"
	case "lt":
		return "(CLt " + c.l.coq() + " " + c.r.coq() + ")"
	case "eq":
		return "(CEq " + c.l.coq() + " " + c.r.coq() + ")"
	case "emptys":
		return "(CEmptyS " + coqStr(c.n) + ")"
	case "nill":
		return "(CNilL " + coqStr(c.n) + ")"
	case "isnone":
		return "(CIsNone " + coqStr(c.n) + ")"
	case "emptym":
		return "(CEmptyM " + coqStr(c.n) + ")"
	case "flag":
		return "(CFlag " + coqStr(c.n) + ")"
	case "orc":
		return "(COrc " + coqStr(c.n) + ")"
	case "not":
		return "(CNot " + c.x.coq() + ")"
	case "and":
		return "(CAnd " + c.x.coq() + " " + c.y.coq() + ")"
	case "or":
		return "(COr " + c.x.coq() + " " + c.y.coq() + ")"
	}
	return "(* ? *)"
}

// plain rendering, used in clause names
func (t vTerm) show() string {
	if t.isK {
		return fmt.Sprint(t.k)
	}
	return t.m
}
func (c *vCond) show() string {
	switch c.op {
	case "bool":
		return fmt.Sprint(c.b)
	case "le":
		return c.l.show() + " <= " + c.r.show()
	case "lt":
		return c.l.show() + " < " + c.r.show()
	case "eq":
		return c.l.show() + " == " + c.r.show()
	case "emptys":
		return c.n + " unset"
	case "nill":
		return c.n + " empty"
	case "isnone":
		return c.n + " null"
	case "emptym":
		return c.n + " = {}"
	case "flag":
		return c.n
	case "orc":
		return "oracle " + c.n
	case "not":
		return "not (" + c.x.show() + ")"
	case "and":
		return "(" + c.x.show() + " and " + c.y.show() + ")"
	case "or":
		return "(" + c.x.show() + " or " + c.y.show() + ")"
	}
	return "?"
}

// evaluation on the Go side (self-test only)
type vVal struct {
	z    int64
	s    string
	llen int
	mst  int // map: 0 nil, 1 non-nil empty, 2 non-empty
	b    bool
}

func (c *vCond) eval(mem func(string) vVal, orc func(string) bool) bool {
	tv := func(t vTerm) int64 {
		if t.isK {
			return t.k
		}
		return mem(t.m).z
	}
	switch c.op {
	case "bool":
		return c.b
	case "le":
		return tv(c.l) <= tv(c.r)
	case "lt":
		return tv(c.l) < tv(c.r)
	case "eq":
		return tv(c.l) == tv(c.r)
	case "emptys":
		return mem(c.n).s == ""
	case "nill":
		return mem(c.n).llen == 0
	case "isnone":
		return mem(c.n).mst == 0
	case "emptym":
		return mem(c.n).mst == 1
	case "flag":
		return mem(c.n).b
	case "orc":
		return orc(c.n)
	case "not":
		return !c.x.eval(mem, orc)
	case "and":
		return c.x.eval(mem, orc) && c.y.eval(mem, orc)
	case "or":
		return c.x.eval(mem, orc) || c.y.eval(mem, orc)
	}
	panic("vCond.eval: " + c.op)
}

// ---------------------------------------------------------------------------------------------
// what the walk knows about a section
// ---------------------------------------------------------------------------------------------
type vField struct {
	name, kind, rule string // JSON name, model kind (KInt KDur KFloat KStr KTok KList KMap KBool), final load rule
}

type vSecInfo struct {
	name, cfgType string
	validateFn    string // "" = Validate
	repo          string
	cf            *c15File
	byCfg         map[string]*vField // Config member path -> the JSON member bound to it
	ambiguous     map[string]bool
	defs          map[string]c15Val // Config member path -> value after Default()
	defText       map[string]string // Config member path -> source text of the expression Default() assigns
	written       map[string]bool   // Config member paths assigned or address-taken outside the default functions
}

// oracles: an expression the walk cannot follow, by its source text -> named external outcome.
// These are exactly the oracles coq/Model/C15_Valid.v has.
type vOracle struct {
	name string
	neg  bool
}

var c15ValidOracles = map[string]vOracle{
	// tlsOptions sets cfg.TLS from newTLSConfig(cert, key) (crypto/tls.LoadX509KeyPair): non-nil iff the pair loads
	"restapi|cfg.TLS == nil": {"tls_ok", true},
	// libp2p: peer.ID.MatchesPrivateKey
	"restapi|cfg.ID.MatchesPrivateKey(cfg.PrivateKey)": {"id_matches_key", false},
}

// helper calls on members that are constants of the section: decided elsewhere, recorded as a never-rejecting clause.
// key: section|call text ; value: the Config member that must be constant, the text Default() must assign to it, and why.
var c15ValidConstCalls = map[string][3]string{
	"cluster|isRPCPolicyValid(cfg.RPCPolicy)": {"RPCPolicy", "DefaultRPCPolicy",
		"RPCPolicy is not part of the JSON form: always DefaultRPCPolicy, which isRPCPolicyValid accepts (C07 policy_total on Gen/Policy.v)"},
}

// library validators: module, file, function
var c15ExtValidators = map[string][3]string{
	"hraft.ValidateConfig": {"github.com/hashicorp/raft", "config.go", "ValidateConfig"},
}

func (si *vSecInfo) isWritten(path string, withSub bool) bool {
	for w := range si.written {
		if w == path || strings.HasPrefix(path, w+".") || (withSub && strings.HasPrefix(w, path+".")) {
			return true
		}
	}
	return false
}

// symbolic values of expressions
type vSym struct {
	kind   string // member num str bool nil zero block opaque
	f      *vField
	n      float64
	s      string
	b      bool
	path   string
	nonNil bool
	text   string
}

func (si *vSecInfo) memberAt(path string) vSym {
	if si.ambiguous[path] {
		return vSym{kind: "opaque", text: "Config member " + path + " is bound to two JSON members"}
	}
	if f := si.byCfg[path]; f != nil {
		return vSym{kind: "member", f: f, path: path}
	}
	isPrefix := false
	for p := range si.byCfg {
		if strings.HasPrefix(p, path+".") {
			isPrefix = true
		}
	}
	if d, ok := si.defs[path]; ok && d.k == "block" {
		return vSym{kind: "block", path: path, nonNil: !si.isWritten(path, false)}
	}
	if isPrefix {
		return vSym{kind: "block", path: path}
	}
	// a member no load rule is bound to: a constant when nothing outside Default() writes it
	if si.isWritten(path, true) {
		return vSym{kind: "opaque", text: "Config member " + path + " (written outside Default())"}
	}
	d, ok := si.defs[path]
	if !ok {
		// a member of a block its constructor does not mention, or one Default() never assigns: the zero value
		return vSym{kind: "zero", path: path}
	}
	switch d.k {
	case "num":
		return vSym{kind: "num", n: d.n, path: path}
	case "str":
		return vSym{kind: "str", s: d.s, path: path}
	case "bool":
		return vSym{kind: "bool", b: d.b, path: path}
	case "none":
		return vSym{kind: "nil", path: path}
	case "zero":
		return vSym{kind: "zero", path: path}
	}
	return vSym{kind: "opaque", text: "Config member " + path + " (default not evaluated: " + d.k + " " + d.s + ")"}
}

// ---------------------------------------------------------------------------------------------
// the walk
// ---------------------------------------------------------------------------------------------
type vClause struct {
	name string
	cond *vCond
}

type vCtx struct {
	si      *vSecInfo
	cf      *c15File // file of the function being walked
	env     map[string]vSym
	errVar  string
	pending []vClause
	names   []string
	named   []*vCond // the condition each name stands for
	prefix  string
	symb    int // > 0 inside a branch whose condition depends on the configuration
	depth   int
	out     *[]vClause
}

type vExit struct{ acc, fall *vCond } // relative to the entry: leaves by an accepting return / falls through

func (x *vCtx) errf(n ast.Node, format string, a ...interface{}) error {
	pos := x.cf.fset.Position(n.Pos())
	return fmt.Errorf("%s: %s:%d: %s", x.si.name, filepath.Base(pos.Filename), pos.Line, strings.Join(strings.Fields(fmt.Sprintf(format, a...)), " "))
}

func (x *vCtx) constLocals() map[string]c15Val {
	m := map[string]c15Val{}
	for k, v := range x.env {
		switch v.kind {
		case "num":
			m[k] = c15Val{k: "num", n: v.n}
		case "str":
			m[k] = c15Val{k: "str", s: v.s}
		case "bool":
			m[k] = c15Val{k: "bool", b: v.b}
		}
	}
	return m
}

func (x *vCtx) constEval(e ast.Expr) (vSym, bool) {
	// only expressions that do not mention a local bound to something else than a constant
	bad := false
	ast.Inspect(e, func(n ast.Node) bool {
		if id, ok := n.(*ast.Ident); ok {
			if s, ok := x.env[id.Name]; ok && s.kind != "num" && s.kind != "str" && s.kind != "bool" {
				bad = true
			}
		}
		if _, ok := n.(*ast.CallExpr); ok {
			bad = true
		}
		return true
	})
	if bad {
		return vSym{}, false
	}
	ev := &c15Eval{cf: x.cf, locals: x.constLocals(), repo: x.si.repo}
	v, err := ev.eval(e)
	if err != nil {
		return vSym{}, false
	}
	switch v.k {
	case "num":
		return vSym{kind: "num", n: v.n}, true
	case "str":
		return vSym{kind: "str", s: v.s}, true
	case "bool":
		return vSym{kind: "bool", b: v.b}, true
	case "none":
		return vSym{kind: "nil"}, true
	}
	return vSym{}, false
}

var c15NumConversions = map[string]bool{"int": true, "int64": true, "uint": true, "uint64": true, "float64": true, "time.Duration": true}

func (x *vCtx) resolve(e ast.Expr) vSym {
	switch t := e.(type) {
	case *ast.ParenExpr:
		return x.resolve(t.X)
	case *ast.Ident:
		if t.Name == "nil" {
			return vSym{kind: "nil"}
		}
		if s, ok := x.env[t.Name]; ok {
			return s
		}
		if s, ok := x.constEval(t); ok {
			return s
		}
		return vSym{kind: "opaque", text: t.Name}
	case *ast.BasicLit, *ast.BinaryExpr, *ast.UnaryExpr:
		if s, ok := x.constEval(e); ok {
			return s
		}
		return vSym{kind: "opaque", text: x.cf.text(e)}
	case *ast.SelectorExpr:
		// rooted at a local?
		root := e
		for {
			if se, ok := root.(*ast.SelectorExpr); ok {
				root = se.X
				continue
			}
			if pe, ok := root.(*ast.ParenExpr); ok {
				root = pe.X
				continue
			}
			break
		}
		if id, ok := root.(*ast.Ident); ok {
			if _, isLocal := x.env[id.Name]; !isLocal {
				if s, ok := x.constEval(e); ok {
					return s
				}
				return vSym{kind: "opaque", text: x.cf.text(e)}
			}
		}
		base := x.resolve(t.X)
		if base.kind == "block" {
			p := t.Sel.Name
			if base.path != "" {
				p = base.path + "." + p
			}
			return x.si.memberAt(p)
		}
		return vSym{kind: "opaque", text: x.cf.text(e)}
	case *ast.CallExpr:
		if se, ok := t.Fun.(*ast.SelectorExpr); ok && se.Sel.Name == "String" && len(t.Args) == 0 {
			// an enumeration member the model holds by its name
			if b := x.resolve(se.X); b.kind == "member" && strings.HasPrefix(b.f.rule, "(LEnum") {
				return b
			}
		}
		if len(t.Args) == 1 && c15NumConversions[x.cf.text(t.Fun)] {
			return x.resolve(t.Args[0])
		}
		return vSym{kind: "opaque", text: x.cf.text(e)}
	}
	return vSym{kind: "opaque", text: x.cf.text(e)}
}

func (x *vCtx) oracle(e ast.Expr) (*vCond, bool) {
	o, ok := c15ValidOracles[x.si.name+"|"+x.cf.text(e)]
	if !ok {
		return nil, false
	}
	c := vAtom("orc", o.name)
	if o.neg {
		return vNot(c), true
	}
	return c, true
}

func isNumKind(k string) bool { return k == "KInt" || k == "KDur" || k == "KFloat" }

// the condition "this value is empty / unset / nil"
func (x *vCtx) emptiness(e ast.Expr, s vSym, how string) (*vCond, error) {
	switch s.kind {
	case "member":
		switch s.f.kind {
		case "KStr", "KTok":
			// how: "len", "nil", "str"
			if how == "nil" && s.f.kind == "KStr" {
				return nil, x.errf(e, "string member %s compared with nil", s.f.name)
			}
			return vAtom("emptys", s.f.name), nil
		case "KList":
			if how == "str" {
				return nil, x.errf(e, "list member %s compared with a string", s.f.name)
			}
			return vAtom("nill", s.f.name), nil
		case "KMap":
			switch how {
			case "nil":
				return vAtom("isnone", s.f.name), nil
			case "len":
				return vOr(vAtom("isnone", s.f.name), vAtom("emptym", s.f.name)), nil
			}
		}
		return nil, x.errf(e, "emptiness (%s) of member %s of kind %s not understood", how, s.f.name, s.f.kind)
	case "str":
		if how == "nil" {
			return nil, x.errf(e, "string constant compared with nil")
		}
		return vBool(s.s == ""), nil
	case "nil", "zero":
		return vTrue, nil
	case "block":
		if how == "nil" && s.nonNil {
			return vFalse, nil
		}
	}
	return nil, x.errf(e, "emptiness (%s) of %s not understood", how, x.cf.text(e))
}

func lenArg(e ast.Expr) (ast.Expr, bool) {
	for {
		if p, ok := e.(*ast.ParenExpr); ok {
			e = p.X
			continue
		}
		break
	}
	ce, ok := e.(*ast.CallExpr)
	if !ok || len(ce.Args) != 1 {
		return nil, false
	}
	if id, ok := ce.Fun.(*ast.Ident); ok && id.Name == "len" {
		return ce.Args[0], true
	}
	return nil, false
}

func flipOp(op token.Token) token.Token {
	switch op {
	case token.LSS:
		return token.GTR
	case token.LEQ:
		return token.GEQ
	case token.GTR:
		return token.LSS
	case token.GEQ:
		return token.LEQ
	}
	return op
}

func (x *vCtx) numTerm(e ast.Expr, s vSym, float bool) (vTerm, error) {
	switch s.kind {
	case "member":
		if !isNumKind(s.f.kind) || (s.f.kind == "KFloat") != float {
			return vTerm{}, x.errf(e, "member %s of kind %s in a numeric comparison (float=%v)", s.f.name, s.f.kind, float)
		}
		return vTerm{m: s.f.name}, nil
	case "num", "zero":
		n := s.n
		if float {
			n = n * 1e6
		}
		if math.Abs(n-math.Round(n)) > 1e-9 || math.Abs(n) > 9e18 {
			return vTerm{}, x.errf(e, "constant %v is not representable (float=%v)", s.n, float)
		}
		return vTerm{k: int64(math.Round(n)), isK: true}, nil
	}
	return vTerm{}, x.errf(e, "%s is not numeric", x.cf.text(e))
}

func (x *vCtx) compare(e *ast.BinaryExpr) (*vCond, error) {
	op := e.Op
	lx, rx := e.X, e.Y
	// len(X) <op> n
	if a, ok := lenArg(rx); ok {
		_ = a
		lx, rx, op = rx, lx, flipOp(op)
	}
	if a, ok := lenArg(lx); ok {
		sa := x.resolve(a)
		sn := x.resolve(rx)
		if sa.kind == "opaque" || sn.kind != "num" {
			if c, ok := x.oracle(e); ok {
				return c, nil
			}
			return nil, x.errf(e, "condition not followed: %s", x.cf.text(e))
		}
		em, err := x.emptiness(a, sa, "len")
		if err != nil {
			return nil, err
		}
		switch {
		case sn.n == 0 && (op == token.EQL || op == token.LEQ), sn.n == 1 && op == token.LSS:
			return em, nil
		case sn.n == 0 && (op == token.NEQ || op == token.GTR), sn.n == 1 && op == token.GEQ:
			return vNot(em), nil
		}
		return nil, x.errf(e, "length comparison not understood: %s", x.cf.text(e))
	}
	sl, sr := x.resolve(lx), x.resolve(rx)
	if sl.kind == "opaque" || sr.kind == "opaque" {
		if c, ok := x.oracle(e); ok {
			return c, nil
		}
		return nil, x.errf(e, "condition not followed: %s (%s%s)", x.cf.text(e), sl.text, sr.text)
	}
	// nil on one side
	if sl.kind == "nil" && sr.kind != "nil" {
		sl, sr, lx, rx, op = sr, sl, rx, lx, flipOp(op)
	}
	if sr.kind == "nil" {
		if op != token.EQL && op != token.NEQ {
			return nil, x.errf(e, "ordering against nil")
		}
		em, err := x.emptiness(lx, sl, "nil")
		if err != nil {
			if c, ok := x.oracle(e); ok {
				return c, nil
			}
			return nil, err
		}
		if op == token.NEQ {
			return vNot(em), nil
		}
		return em, nil
	}
	// string constant on one side
	if sl.kind == "str" && sr.kind != "str" {
		sl, sr, lx, rx, op = sr, sl, rx, lx, flipOp(op)
	}
	if sr.kind == "str" {
		if op != token.EQL && op != token.NEQ {
			return nil, x.errf(e, "ordering of strings")
		}
		var c *vCond
		switch {
		case sl.kind == "str":
			c = vBool(sl.s == sr.s)
		case sl.kind == "zero":
			c = vBool(sr.s == "")
		case sr.s == "":
			em, err := x.emptiness(lx, sl, "str")
			if err != nil {
				return nil, err
			}
			c = em
		default:
			return nil, x.errf(e, "comparison with a non-empty string constant: %s", x.cf.text(e))
		}
		if op == token.NEQ {
			return vNot(c), nil
		}
		return c, nil
	}
	// numbers
	float := (sl.kind == "member" && sl.f.kind == "KFloat") || (sr.kind == "member" && sr.f.kind == "KFloat")
	tl, err := x.numTerm(lx, sl, float)
	if err != nil {
		return nil, err
	}
	tr, err := x.numTerm(rx, sr, float)
	if err != nil {
		return nil, err
	}
	switch op {
	case token.LSS:
		return vCmp("lt", tl, tr), nil
	case token.LEQ:
		return vCmp("le", tl, tr), nil
	case token.GTR:
		return vCmp("lt", tr, tl), nil
	case token.GEQ:
		return vCmp("le", tr, tl), nil
	case token.EQL:
		return vCmp("eq", tl, tr), nil
	case token.NEQ:
		return vNot(vCmp("eq", tl, tr)), nil
	}
	return nil, x.errf(e, "operator %s not understood", op)
}

func (x *vCtx) cond(e ast.Expr) (*vCond, error) {
	switch t := e.(type) {
	case *ast.ParenExpr:
		return x.cond(t.X)
	case *ast.UnaryExpr:
		if t.Op == token.NOT {
			c, err := x.cond(t.X)
			if err != nil {
				return nil, err
			}
			return vNot(c), nil
		}
	case *ast.BinaryExpr:
		switch t.Op {
		case token.LOR, token.LAND:
			a, err := x.cond(t.X)
			if err != nil {
				return nil, err
			}
			b, err := x.cond(t.Y)
			if err != nil {
				return nil, err
			}
			if t.Op == token.LOR {
				return vOr(a, b), nil
			}
			return vAnd(a, b), nil
		case token.EQL, token.NEQ, token.LSS, token.LEQ, token.GTR, token.GEQ:
			return x.compare(t)
		}
	case *ast.Ident, *ast.SelectorExpr, *ast.CallExpr:
		s := x.resolve(e)
		switch {
		case s.kind == "member" && s.f.kind == "KBool":
			return vAtom("flag", s.f.name), nil
		case s.kind == "bool":
			return vBool(s.b), nil
		case s.kind == "zero":
			return vFalse, nil
		}
		if c, ok := x.oracle(e); ok {
			return c, nil
		}
	}
	return nil, x.errf(e, "condition not followed: %s", x.cf.text(e))
}

func isErrCtor(cf *c15File, e ast.Expr) bool {
	ce, ok := e.(*ast.CallExpr)
	if !ok {
		return false
	}
	fn := cf.text(ce.Fun)
	return fn == "errors.New" || fn == "fmt.Errorf"
}

func (x *vCtx) clauseName(cur *vCond) string {
	var ns []string
	for _, t := range x.names {
		t = strings.Join(strings.Fields(t), " ")
		if len(x.names) > 1 && (strings.Contains(t, "||") || strings.Contains(t, "&&")) && !strings.HasPrefix(t, "!(") {
			t = "(" + t + ")"
		}
		ns = append(ns, t)
	}
	n := strings.Join(ns, " && ")
	if n == "" {
		n = "(unconditionally)"
	}
	return x.prefix + n
}

// the clause name, annotated when the condition of the clause is more than the named guards (an earlier return nil,
// an enclosing call made only under a condition)
func (x *vCtx) clauseNameFor(abs *vCond) string {
	named := vTrue
	for _, c := range x.named {
		named = vAnd(named, c)
	}
	n := x.clauseName(vTrue)
	if !vEqual(abs, named) {
		n += "   [as a whole: " + abs.show() + "]"
	}
	return n
}

func (x *vCtx) emit(name string, c *vCond) { *x.out = append(*x.out, vClause{name, c}) }

// walk a statement list entered under the (absolute) condition g
func (x *vCtx) walk(stmts []ast.Stmt, g *vCond) (vExit, error) {
	acc := vFalse
	cur := vTrue
	for _, st := range stmts {
		switch s := st.(type) {
		case *ast.EmptyStmt:
		case *ast.BlockStmt:
			ex, err := x.walk(s.List, vAnd(g, cur))
			if err != nil {
				return vExit{}, err
			}
			acc = vOr(acc, vAnd(cur, ex.acc))
			cur = vAnd(cur, ex.fall)
		case *ast.DeclStmt:
			gd, ok := s.Decl.(*ast.GenDecl)
			if !ok || gd.Tok != token.VAR || len(gd.Specs) != 1 {
				return vExit{}, x.errf(s, "declaration not understood: %s", x.cf.text(s))
			}
			vs := gd.Specs[0].(*ast.ValueSpec)
			if len(vs.Names) != 1 || len(vs.Values) != 0 || vs.Type == nil || x.cf.text(vs.Type) != "error" || x.errVar != "" || x.symb > 0 {
				return vExit{}, x.errf(s, "declaration not understood: %s", x.cf.text(s))
			}
			x.errVar = vs.Names[0].Name
		case *ast.ExprStmt:
			if ce, ok := s.X.(*ast.CallExpr); ok && strings.HasPrefix(x.cf.text(ce.Fun), "logger.") {
				continue
			}
			return vExit{}, x.errf(s, "statement not understood: %s", x.cf.text(s))
		case *ast.AssignStmt:
			if len(s.Lhs) != 1 || len(s.Rhs) != 1 {
				return vExit{}, x.errf(s, "assignment not understood: %s", x.cf.text(s))
			}
			id, ok := s.Lhs[0].(*ast.Ident)
			if !ok {
				return vExit{}, x.errf(s, "assignment to something else than a local: %s", x.cf.text(s))
			}
			if id.Name == x.errVar && x.errVar != "" {
				if s.Tok != token.ASSIGN || !isErrCtor(x.cf, s.Rhs[0]) {
					return vExit{}, x.errf(s, "the error variable is assigned something else than a new error: %s", x.cf.text(s))
				}
				x.pending = append(x.pending, vClause{x.clauseNameFor(vAnd(g, cur)), vAnd(g, cur)})
				continue
			}
			if x.symb > 0 {
				return vExit{}, x.errf(s, "local %s assigned under a condition on the configuration", id.Name)
			}
			sym := x.resolve(s.Rhs[0])
			if sym.kind == "opaque" {
				return vExit{}, x.errf(s, "value of local %s not followed: %s", id.Name, x.cf.text(s.Rhs[0]))
			}
			if s.Tok == token.ASSIGN {
				if _, known := x.env[id.Name]; !known {
					return vExit{}, x.errf(s, "assignment to an unknown variable %s", id.Name)
				}
			}
			x.env[id.Name] = sym
		case *ast.IfStmt:
			ex, err := x.walkIf(s, g, cur)
			if err != nil {
				return vExit{}, err
			}
			acc = vOr(acc, ex.acc)
			cur = ex.fall
		case *ast.SwitchStmt:
			ex, err := x.walkSwitch(s, g, cur)
			if err != nil {
				return vExit{}, err
			}
			acc = vOr(acc, ex.acc)
			cur = ex.fall
		case *ast.ReturnStmt:
			if len(s.Results) != 1 {
				return vExit{}, x.errf(s, "return not understood: %s", x.cf.text(s))
			}
			r := s.Results[0]
			switch {
			case x.cf.text(r) == "nil":
				acc = vOr(acc, cur)
			case isErrCtor(x.cf, r):
				x.emit(x.clauseNameFor(vAnd(g, cur)), vAnd(g, cur))
			case x.errVar != "" && x.cf.text(r) == x.errVar:
				for _, p := range x.pending {
					c := vAnd(p.cond, vAnd(g, cur))
					n := p.name
					if !vEqual(c, p.cond) {
						n += "   [as a whole: " + c.show() + "]"
					}
					x.emit(n, c)
				}
				acc = vOr(acc, cur)
			default:
				ce, ok := r.(*ast.CallExpr)
				if !ok {
					return vExit{}, x.errf(s, "return not understood: %s", x.cf.text(s))
				}
				ex, err := x.inline(ce, vAnd(g, cur))
				if err != nil {
					return vExit{}, err
				}
				acc = vOr(acc, vAnd(cur, ex.acc))
			}
			cur = vFalse
		default:
			return vExit{}, x.errf(st, "statement not understood: %s", x.cf.text(st))
		}
	}
	return vExit{acc, cur}, nil
}

// returns exits relative to the statement list that contains the if (acc: additional accepting exits; fall: new cur)
func (x *vCtx) walkIf(s *ast.IfStmt, g, cur *vCond) (vExit, error) {
	if s.Init != nil {
		// if err := CALL; err != nil { return err }
		as, ok := s.Init.(*ast.AssignStmt)
		if ok && as.Tok == token.DEFINE && len(as.Lhs) == 1 && len(as.Rhs) == 1 && s.Else == nil && len(s.Body.List) == 1 {
			id, ok1 := as.Lhs[0].(*ast.Ident)
			ce, ok2 := as.Rhs[0].(*ast.CallExpr)
			rs, ok3 := s.Body.List[0].(*ast.ReturnStmt)
			if ok1 && ok2 && ok3 && len(rs.Results) == 1 && x.cf.text(s.Cond) == id.Name+" != nil" && x.cf.text(rs.Results[0]) == id.Name {
				ex, err := x.inline(ce, vAnd(g, cur))
				if err != nil {
					return vExit{}, err
				}
				return vExit{vFalse, vAnd(cur, ex.acc)}, nil
			}
		}
		return vExit{}, x.errf(s, "if statement with an initialiser not understood: %s", x.cf.text(s.Init))
	}
	c, err := x.cond(s.Cond)
	if err != nil {
		return vExit{}, err
	}
	var elseStmts []ast.Stmt
	switch e := s.Else.(type) {
	case nil:
	case *ast.BlockStmt:
		elseStmts = e.List
	case *ast.IfStmt:
		elseStmts = []ast.Stmt{e}
	default:
		return vExit{}, x.errf(s, "else branch not understood")
	}
	if c.op == "bool" {
		// decided statically (a condition on constants): only the branch taken is executed
		body := s.Body.List
		if !c.b {
			body = elseStmts
			// keep the skipped branch visible: a clause that never rejects
			x.names = append(x.names, x.cf.text(s.Cond))
			x.emit(x.clauseName(vTrue)+"   [never: decided on constants of the section (values after Default() that no load rule writes)]", vFalse)
			x.names = x.names[:len(x.names)-1]
		}
		ex, err := x.walk(body, vAnd(g, cur))
		if err != nil {
			return vExit{}, err
		}
		return vExit{vAnd(cur, ex.acc), vAnd(cur, ex.fall)}, nil
	}
	txt := x.cf.text(s.Cond)
	x.symb++
	x.names = append(x.names, txt)
	x.named = append(x.named, c)
	ex1, err := x.walk(s.Body.List, vAnd(vAnd(g, cur), c))
	x.names = x.names[:len(x.names)-1]
	x.named = x.named[:len(x.named)-1]
	if err != nil {
		return vExit{}, err
	}
	ex2 := vExit{vFalse, vTrue}
	if s.Else != nil {
		x.names = append(x.names, "!("+txt+")")
		x.named = append(x.named, vNot(c))
		ex2, err = x.walk(elseStmts, vAnd(vAnd(g, cur), vNot(c)))
		x.names = x.names[:len(x.names)-1]
		x.named = x.named[:len(x.named)-1]
		if err != nil {
			return vExit{}, err
		}
	}
	x.symb--
	acc := vOr(vAnd(cur, vAnd(c, ex1.acc)), vAnd(cur, vAnd(vNot(c), ex2.acc)))
	thenRej := ex1.acc.isF() && ex1.fall.isF()
	elseRej := ex2.acc.isF() && ex2.fall.isF()
	var fall *vCond
	// a branch in which every path rejects needs no negated guard afterwards: the clauses it emitted already
	// reject there (the clause list is a disjunction)
	switch {
	case thenRej && elseRej:
		fall = vFalse
	case thenRej:
		fall = vAnd(cur, ex2.fall)
	case elseRej:
		fall = vAnd(cur, ex1.fall)
	case vEqual(ex1.fall, ex2.fall):
		fall = vAnd(cur, ex1.fall)
	default:
		fall = vAnd(cur, vOr(vAnd(c, ex1.fall), vAnd(vNot(c), ex2.fall)))
	}
	return vExit{acc, fall}, nil
}

func (x *vCtx) walkSwitch(s *ast.SwitchStmt, g, cur *vCond) (vExit, error) {
	if s.Init != nil || s.Tag != nil {
		return vExit{}, x.errf(s, "switch with a tag or an initialiser not understood")
	}
	rem := vTrue // no earlier case matched (negations of purely rejecting cases dropped)
	acc := vFalse
	fall := vFalse
	sawDefault := false
	x.symb++
	defer func() { x.symb-- }()
	for i, cs := range s.Body.List {
		cc := cs.(*ast.CaseClause)
		c := vFalse
		txt := "default"
		if cc.List == nil {
			if i != len(s.Body.List)-1 {
				return vExit{}, x.errf(cc, "default case that is not the last one")
			}
			sawDefault = true
			c = vTrue
		} else {
			var ts []string
			for _, e := range cc.List {
				ci, err := x.cond(e)
				if err != nil {
					return vExit{}, err
				}
				c = vOr(c, ci)
				ts = append(ts, x.cf.text(e))
			}
			txt = strings.Join(ts, " || ")
		}
		for _, b := range cc.Body {
			if br, ok := b.(*ast.BranchStmt); ok {
				return vExit{}, x.errf(br, "%s inside a switch case not understood", br.Tok)
			}
		}
		x.names = append(x.names, txt)
		x.named = append(x.named, c)
		ex, err := x.walk(cc.Body, vAnd(vAnd(g, cur), vAnd(rem, c)))
		x.names = x.names[:len(x.names)-1]
		x.named = x.named[:len(x.named)-1]
		if err != nil {
			return vExit{}, err
		}
		acc = vOr(acc, vAnd(cur, vAnd(vAnd(rem, c), ex.acc)))
		fall = vOr(fall, vAnd(vAnd(rem, c), ex.fall))
		if !(ex.acc.isF() && ex.fall.isF()) {
			rem = vAnd(rem, vNot(c))
		}
	}
	if !sawDefault {
		fall = vOr(fall, rem)
	}
	return vExit{acc, vAnd(cur, fall)}, nil
}

// a call whose error result decides: the callee's clauses under g, its accepting exits returned
func (x *vCtx) inline(ce *ast.CallExpr, g *vCond) (vExit, error) {
	if x.depth > 4 {
		return vExit{}, x.errf(ce, "calls nested too deeply")
	}
	txt := x.cf.text(ce)
	if cc, ok := c15ValidConstCalls[x.si.name+"|"+txt]; ok && x.cf == x.si.cf {
		m := x.si.memberAt(cc[0])
		if x.si.byCfg[cc[0]] != nil || x.si.isWritten(cc[0], true) || x.si.defText[cc[0]] != cc[1] {
			return vExit{}, x.errf(ce, "%s: %s is no longer the constant %s (%s %q)", txt, cc[0], cc[1], m.kind, x.si.defText[cc[0]])
		}
		x.emit(x.prefix+txt+" != nil   [never: "+cc[2]+"]", vFalse)
		return vExit{vTrue, vFalse}, nil
	}
	var fd *ast.FuncDecl
	cf := x.cf
	env := map[string]vSym{}
	name := ""
	switch f := ce.Fun.(type) {
	case *ast.Ident:
		fd = x.cf.funcs[f.Name]
		name = f.Name
	case *ast.SelectorExpr:
		if ext, ok := c15ExtValidators[x.cf.text(f)]; ok && x.cf == x.si.cf {
			ver, err := c15ModVersion(x.si.repo, ext[0])
			if err != nil {
				return vExit{}, err
			}
			p := filepath.Join(c15ModCache(), ext[0]+"@"+ver, ext[1])
			ecf := c15FileCache[p]
			if ecf == nil {
				ecf, err = c15Load(p)
				if err != nil {
					return vExit{}, err
				}
				c15FileCache[p] = ecf
			}
			cf = ecf
			fd = ecf.funcs[ext[2]]
			name = x.cf.text(f) + "@" + ver
		} else if b := x.resolve(f.X); b.kind == "block" && b.path == "" && x.cf == x.si.cf {
			fd = x.cf.funcs[x.si.cfgType+"."+f.Sel.Name]
			name = f.Sel.Name
			if fd != nil {
				if r := c15Recv(fd); r != "" {
					env[r] = vSym{kind: "block", path: "", nonNil: true}
				}
			}
		}
	}
	if fd == nil || fd.Body == nil {
		return vExit{}, x.errf(ce, "call not followed: %s", txt)
	}
	var params []string
	if fd.Type.Params != nil {
		for _, p := range fd.Type.Params.List {
			for _, n := range p.Names {
				params = append(params, n.Name)
			}
		}
	}
	if len(params) != len(ce.Args) {
		return vExit{}, x.errf(ce, "call %s: %d arguments for %d named parameters", txt, len(ce.Args), len(params))
	}
	for i, a := range ce.Args {
		s := x.resolve(a)
		if s.kind == "opaque" {
			return vExit{}, x.errf(ce, "call %s: argument %s not followed (%s)", txt, x.cf.text(a), s.text)
		}
		env[params[i]] = s
	}
	sub := &vCtx{si: x.si, cf: cf, env: env, prefix: x.prefix + name + ": ", depth: x.depth + 1, out: x.out, symb: x.symb}
	ex, err := sub.walk(fd.Body.List, g)
	if err != nil {
		return vExit{}, err
	}
	if !ex.fall.isF() {
		return vExit{}, x.errf(ce, "%s can end without a return", name)
	}
	return ex, nil
}

// translate <cfgType>.Validate of the section
func c15TranslateValidate(si *vSecInfo) ([]vClause, error) {
	fn := si.validateFn
	if fn == "" {
		fn = "Validate"
	}
	fd := si.cf.funcs[si.cfgType+"."+fn]
	if fd == nil || fd.Body == nil {
		return nil, fmt.Errorf("%s: %s.%s not found", si.name, si.cfgType, fn)
	}
	if fd.Type.Params != nil && len(fd.Type.Params.List) != 0 {
		return nil, fmt.Errorf("%s: Validate takes arguments", si.name)
	}
	if fd.Type.Results == nil || len(fd.Type.Results.List) != 1 || si.cf.text(fd.Type.Results.List[0].Type) != "error" || len(fd.Type.Results.List[0].Names) != 0 {
		return nil, fmt.Errorf("%s: Validate does not return a single unnamed error", si.name)
	}
	var out []vClause
	x := &vCtx{si: si, cf: si.cf, env: map[string]vSym{}, out: &out}
	if r := c15Recv(fd); r != "" {
		x.env[r] = vSym{kind: "block", path: "", nonNil: true}
	}
	ex, err := x.walk(fd.Body.List, vTrue)
	if err != nil {
		return nil, err
	}
	if !ex.fall.isF() {
		return nil, fmt.Errorf("%s: Validate can end without a return", si.name)
	}
	return out, nil
}

// ---------------------------------------------------------------------------------------------
// section information from the ConfigSchemas analysis
// ---------------------------------------------------------------------------------------------
func c15ValidInfo(repo string, sec *c15Sec) (*vSecInfo, error) {
	an, err := c15Analyse(repo, sec)
	if err != nil {
		return nil, err
	}
	si := &vSecInfo{name: sec.name, cfgType: sec.cfgType, repo: repo, cf: an.cf, byCfg: map[string]*vField{}, ambiguous: map[string]bool{},
		defs: an.defs, defText: map[string]string{}, written: map[string]bool{}}
	for _, jf := range an.w.fields {
		if jf.kind == "KGroup" {
			continue
		}
		rule, kind := c15FinalRule(sec, jf)
		f := &vField{name: jf.path, kind: kind, rule: rule}
		for _, p := range []string{jf.lcfg, jf.scfg} {
			if p == "" {
				continue
			}
			if o := si.byCfg[p]; o != nil && o.name != f.name {
				si.ambiguous[p] = true
			}
			si.byCfg[p] = f
		}
	}
	isDefault := map[string]bool{}
	for _, d := range sec.defaultFns {
		isDefault[d] = true
	}
	wk := &c15Walker{}
	for _, d := range an.cf.f.Decls {
		fd, ok := d.(*ast.FuncDecl)
		if !ok || fd.Body == nil || fd.Recv == nil || len(fd.Recv.List) != 1 || c15TypeName(fd.Recv.List[0].Type) != sec.cfgType {
			continue
		}
		recv := c15Recv(fd)
		if recv == "" {
			continue
		}
		note := func(e ast.Expr, dst map[string]bool) string {
			root, p, ok := wk.selPath(e)
			if ok && root == recv && p != "" {
				if dst != nil {
					dst[p] = true
				}
				return p
			}
			return ""
		}
		var dst map[string]bool
		if !isDefault[fd.Name.Name] {
			dst = si.written
		}
		ast.Inspect(fd.Body, func(n ast.Node) bool {
			switch t := n.(type) {
			case *ast.AssignStmt:
				for i, l := range t.Lhs {
					p := note(l, dst)
					if p != "" && dst == nil && len(t.Lhs) == len(t.Rhs) {
						si.defText[p] = an.cf.text(t.Rhs[i])
					}
				}
			case *ast.IncDecStmt:
				note(t.X, dst)
			case *ast.UnaryExpr:
				if t.Op == token.AND {
					note(t.X, dst)
				}
			}
			return true
		})
	}
	return si, nil
}

func genConfigValidators(repo string) (string, error) {
	if err := c15ValidSelfTest(); err != nil {
		return "", fmt.Errorf("self-test of the validator translator: %v", err)
	}
	var b strings.Builder
	b.WriteString("(* GENERATED by tools/gen/configvalidators.go from the Validate() methods of the component config.go files at every check run. Do not edit.\n")
	b.WriteString("   One clause per place where Validate() rejects: (Go text of the conditions on the way, condition over the JSON members).\n")
	b.WriteString("   gen_validate_<section> accepts exactly when no clause holds. *)\n")
	b.WriteString("From Coq Require Import String List ZArith.\nFrom V Require Import Model.C15_Config Model.C15_VCond.\nImport ListNotations.\nOpen Scope string_scope.\nOpen Scope Z_scope.\n\n")
	var names []string
	usedOracles := map[string]bool{}
	for i := range c15Sections {
		sec := &c15Sections[i]
		si, err := c15ValidInfo(repo, sec)
		if err != nil {
			return "", err
		}
		cls, err := c15TranslateValidate(si)
		if err != nil {
			return "", err
		}
		var rows []string
		for _, c := range cls {
			rows = append(rows, fmt.Sprintf("  (%s,\n     %s)", coqStr(c.name), c.cond.coq()))
			var scan func(v *vCond)
			scan = func(v *vCond) {
				if v == nil {
					return
				}
				if v.op == "orc" {
					usedOracles[v.n] = true
				}
				scan(v.x)
				scan(v.y)
			}
			scan(c.cond)
		}
		names = append(names, sec.name)
		b.WriteString(fmt.Sprintf("Definition gen_clauses_%s : list (string * vcond) := [\n%s\n].\n", sec.name, strings.Join(rows, ";\n")))
		b.WriteString(fmt.Sprintf("Definition gen_validate_%s (orc : oracle) (c : cfg_view) : bool := rejects_none orc c (map snd gen_clauses_%s).\n\n", sec.name, sec.name))
	}
	var t1, t2 []string
	for _, n := range names {
		t1 = append(t1, fmt.Sprintf("(%s, gen_clauses_%s)", coqStr(n), n))
		t2 = append(t2, fmt.Sprintf("(%s, gen_validate_%s)", coqStr(n), n))
	}
	b.WriteString("Definition gen_clause_table : list (string * list (string * vcond)) := [\n  " + strings.Join(t1, ";\n  ") + "\n].\n\n")
	b.WriteString("Definition gen_validators : list (string * validator) := [\n  " + strings.Join(t2, ";\n  ") + "\n].\n\n")
	var os []string
	for o := range usedOracles {
		os = append(os, o)
	}
	sort.Strings(os)
	b.WriteString("Definition gen_oracles_used : list string := " + coqStrList(os) + ".\n")
	return b.String(), nil
}
