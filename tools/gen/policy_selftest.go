package main

// Self-test of the authorisation-function translator (second half of policy.go), run before every generation:
// reduced copies of rpc_api.go in the shape it has today (closure, switch, two NewServer calls) and in an
// equivalent one (method value, if-chain, options slice) must give the identical table; other equivalent
// spellings too; hand-made defects must give the correspondingly different table or be refused.

import (
	"fmt"
	"strings"
)

const polSelfHead = `package p

const (
	RPCClosed RPCEndpointType = iota
	RPCTrusted
	RPCOpen
)

type RPCEndpointType int
`

const polSelfClosure = polSelfHead + `
func newRPCServer(c *Cluster) (*rpc.Server, error) {
	var s *rpc.Server

	authF := func(pid peer.ID, svc, method string) bool {
		endpointType, ok := c.config.RPCPolicy[svc+"."+method]
		if !ok {
			return false
		}

		switch endpointType {
		case RPCTrusted:
			return c.consensus.IsTrustedPeer(c.ctx, pid)
		case RPCOpen:
			return true
		default:
			return false
		}
	}

	if c.config.Tracing {
		s = rpc.NewServer(
			c.host,
			version.RPCProtocol,
			rpc.WithServerStatsHandler(&ocgorpc.ServerHandler{}),
			rpc.WithAuthorizeFunc(authF),
		)
	} else {
		s = rpc.NewServer(c.host, version.RPCProtocol, rpc.WithAuthorizeFunc(authF))
	}

	cl := &ClusterRPCAPI{c}
	err := s.RegisterName(RPCServiceID(cl), cl)
	if err != nil {
		return nil, err
	}
	return s, nil
}
`

const polSelfMethod = polSelfHead + `
func (c *Cluster) authorizeRPC(pid peer.ID, svc, method string) bool {
	endpointType, ok := c.config.RPCPolicy[svc+"."+method]
	if !ok {
		return false
	}

	if endpointType == RPCOpen {
		return true
	}
	if endpointType == RPCTrusted {
		return c.consensus.IsTrustedPeer(c.ctx, pid)
	}
	// RPCClosed and anything unknown.
	return false
}

func newRPCServer(c *Cluster) (*rpc.Server, error) {
	var opts []rpc.ServerOption
	if c.config.Tracing {
		opts = append(opts, rpc.WithServerStatsHandler(&ocgorpc.ServerHandler{}))
	}
	opts = append(opts, rpc.WithAuthorizeFunc(c.authorizeRPC))

	s := rpc.NewServer(c.host, version.RPCProtocol, opts...)

	cl := &ClusterRPCAPI{c}
	err := s.RegisterName(RPCServiceID(cl), cl)
	if err != nil {
		return nil, err
	}
	return s, nil
}
`

func polSelfRows(none, closed, trusted, open string) string {
	return "(* authF of newRPCServer: entry found in the policy map (or not) and consensus.IsTrustedPeer(caller) -> allow *)\n" +
		"Definition authf_gen (e : option ept) (trusted : bool) : bool :=\n  match e with\n" +
		"  | None => " + none + "\n  | Some Closed => " + closed + "\n  | Some Trusted => " + trusted + "\n  | Some Open => " + open + "\n  end.\n"
}

func polSelfRun(src string) (string, error) {
	p, err := polParseSrc(src)
	if err != nil {
		return "", fmt.Errorf("self-test source does not parse: %v", err)
	}
	return polAuthTable(p)
}

type polSelfCase struct {
	name, base, old, new string
	want                 string // expected table ("" = must be refused)
	wantErr              string // substring of the refusal
}

func polSelfTest() error {
	good := polSelfRows("false", "false", "trusted", "true")
	ifOpen := "\tif endpointType == RPCOpen {\n\t\treturn true\n\t}\n"
	ifTrusted := "\tif endpointType == RPCTrusted {\n\t\treturn c.consensus.IsTrustedPeer(c.ctx, pid)\n\t}\n"
	chain := ifOpen + ifTrusted + "\t// RPCClosed and anything unknown.\n\treturn false\n"
	appendAuth := "\topts = append(opts, rpc.WithAuthorizeFunc(c.authorizeRPC))\n"
	cases := []polSelfCase{
		// the two shapes of the task and further equivalent spellings: the same table
		{name: "closure / switch / two calls", base: polSelfClosure, want: good},
		{name: "method / if-chain / options slice", base: polSelfMethod, want: good},
		{name: "literal passed directly", base: polSelfMethod, old: "c.authorizeRPC))", new: "func(p peer.ID, s, m string) bool {\n\t\tif t, ok := c.config.RPCPolicy[s+\".\"+m]; ok {\n\t\t\treturn t == RPCOpen || (t == RPCTrusted && c.consensus.IsTrustedPeer(c.ctx, p))\n\t\t}\n\t\treturn false\n\t}))", want: good},
		{name: "package-level function, renamed parameters, != and else", base: polSelfMethod + "\nfunc authz(who peer.ID, service, m string) bool {\n\tpol := theCluster.config.RPCPolicy\n\tkey := service + \".\" + m\n\tt, found := pol[key]\n\tif !found {\n\t\treturn false\n\t}\n\tif t != RPCTrusted {\n\t\tif t != RPCOpen {\n\t\t\treturn false\n\t\t} else {\n\t\t\treturn true\n\t\t}\n\t}\n\treturn theCluster.consensus.IsTrustedPeer(theCluster.ctx, who)\n}\n",
			old: "c.authorizeRPC))", new: "authz))", want: good},
		{name: "single-value lookup: a missing entry reads as the zero type, RPCClosed", base: polSelfMethod, old: "\tendpointType, ok := c.config.RPCPolicy[svc+\".\"+method]\n\tif !ok {\n\t\treturn false\n\t}\n",
			new: "\tendpointType := c.config.RPCPolicy[svc+\".\"+method]\n", want: good},
		{name: "tagless switch", base: polSelfClosure, old: "switch endpointType {\n\t\tcase RPCTrusted:", new: "switch {\n\t\tcase endpointType == RPCTrusted:", wantErr: "comparison of operands"},
		{name: "tagless switch, both labels", base: strings.Replace(polSelfClosure, "case RPCOpen:", "case endpointType == RPCOpen:", 1), old: "switch endpointType {\n\t\tcase RPCTrusted:", new: "switch {\n\t\tcase endpointType == RPCTrusted:", want: good},
		{name: "option held in a variable, slice literal", base: polSelfMethod, old: "\tvar opts []rpc.ServerOption\n", new: "\tauth := rpc.WithAuthorizeFunc(c.authorizeRPC)\n\topts := []rpc.ServerOption{auth}\n",
			want: "", wantErr: "options hold 2"},
		{name: "option held in a variable, slice literal, appended once", base: strings.Replace(polSelfMethod, appendAuth, "", 1), old: "\tvar opts []rpc.ServerOption\n", new: "\tauth := rpc.WithAuthorizeFunc(c.authorizeRPC)\n\topts := []rpc.ServerOption{auth}\n", want: good},

		// defects in the decision: a different table
		{name: "closure: Open and Trusted swapped", base: polSelfClosure, old: "case RPCTrusted:\n\t\t\treturn c.consensus.IsTrustedPeer(c.ctx, pid)\n\t\tcase RPCOpen:\n\t\t\treturn true", new: "case RPCOpen:\n\t\t\treturn c.consensus.IsTrustedPeer(c.ctx, pid)\n\t\tcase RPCTrusted:\n\t\t\treturn true",
			want: polSelfRows("false", "false", "true", "trusted")},
		{name: "if-chain: Open and Trusted swapped", base: polSelfMethod, old: chain, new: strings.Replace(strings.Replace(strings.Replace(chain, "RPCOpen", "RPCx", 1), "RPCTrusted", "RPCOpen", 1), "RPCx", "RPCTrusted", 1),
			want: polSelfRows("false", "false", "true", "trusted")},
		{name: "closure: !ok returns true", base: polSelfClosure, old: "if !ok {\n\t\t\treturn false", new: "if !ok {\n\t\t\treturn true", want: polSelfRows("true", "false", "trusted", "true")},
		{name: "if-chain: !ok returns true", base: polSelfMethod, old: "if !ok {\n\t\treturn false", new: "if !ok {\n\t\treturn true", want: polSelfRows("true", "false", "trusted", "true")},
		{name: "if-chain: ok instead of !ok", base: polSelfMethod, old: "if !ok {", new: "if ok {", want: polSelfRows("false", "false", "false", "false")},
		{name: "closure: default returns true", base: polSelfClosure, old: "default:\n\t\t\treturn false", new: "default:\n\t\t\treturn true", want: polSelfRows("false", "true", "trusted", "true")},
		{name: "if-chain: final return true", base: polSelfMethod, old: "unknown.\n\treturn false", new: "unknown.\n\treturn true", want: polSelfRows("false", "true", "trusted", "true")},
		{name: "if-chain: == turned into != (Open)", base: polSelfMethod, old: "endpointType == RPCOpen", new: "endpointType != RPCOpen", want: polSelfRows("false", "true", "true", "false")},
		{name: "if-chain: == turned into != (Trusted)", base: polSelfMethod, old: "endpointType == RPCTrusted", new: "endpointType != RPCTrusted", want: polSelfRows("false", "trusted", "false", "true")},
		{name: "closure: Trusted served to all", base: polSelfClosure, old: "return c.consensus.IsTrustedPeer(c.ctx, pid)", new: "return true", want: polSelfRows("false", "false", "true", "true")},
		{name: "if-chain: trust verdict negated", base: polSelfMethod, old: "return c.consensus.IsTrustedPeer(c.ctx, pid)", new: "return !c.consensus.IsTrustedPeer(c.ctx, pid)", want: polSelfRows("false", "false", "negb trusted", "true")},
		{name: "single-value lookup and Closed served", base: polSelfMethod, old: "\tendpointType, ok := c.config.RPCPolicy[svc+\".\"+method]\n\tif !ok {\n\t\treturn false\n\t}\n",
			new: "\tendpointType := c.config.RPCPolicy[svc+\".\"+method]\n\tif endpointType == RPCClosed {\n\t\treturn true\n\t}\n", want: polSelfRows("true", "true", "trusted", "true")},

		// defects / shapes that must be refused
		{name: "closure: IsTrustedPeer not asked about the caller", base: polSelfClosure, old: "IsTrustedPeer(c.ctx, pid)", new: "IsTrustedPeer(c.ctx, c.id)", wantErr: "something else than the caller"},
		{name: "if-chain: IsTrustedPeer not asked about the caller", base: polSelfMethod, old: "IsTrustedPeer(c.ctx, pid)", new: "IsTrustedPeer(c.ctx, c.host.ID())", wantErr: "something else than the caller"},
		{name: "closure: tracing call without the option", base: polSelfClosure, old: "\t\t\trpc.WithAuthorizeFunc(authF),\n", new: "", wantErr: "options hold 0 rpc.WithAuthorizeFunc"},
		{name: "closure: plain call without the option", base: polSelfClosure, old: "version.RPCProtocol, rpc.WithAuthorizeFunc(authF))", new: "version.RPCProtocol)", wantErr: "options hold 0 rpc.WithAuthorizeFunc"},
		{name: "slice: option appended only without tracing", base: polSelfMethod, old: "\t}\n" + appendAuth, new: "\t} else {\n\t" + appendAuth + "\t}\n", wantErr: "options hold 0 rpc.WithAuthorizeFunc"},
		{name: "slice: option never appended", base: polSelfMethod, old: appendAuth, new: "", wantErr: "options hold 0 rpc.WithAuthorizeFunc"},
		{name: "slice: options reset when tracing", base: polSelfMethod, old: appendAuth + "\n", new: appendAuth + "\tif c.config.Tracing {\n\t\topts = opts[:1]\n\t}\n", wantErr: "does not follow"},
		{name: "slice: second, different function appended", base: polSelfMethod, old: appendAuth, new: appendAuth + "\topts = append(opts, rpc.WithAuthorizeFunc(func(p peer.ID, s, m string) bool { return true }))\n", wantErr: "options hold 2"},
		{name: "two calls with functions that decide differently", base: polSelfClosure, old: "version.RPCProtocol, rpc.WithAuthorizeFunc(authF))", new: "version.RPCProtocol, rpc.WithAuthorizeFunc(func(p peer.ID, s, m string) bool { return true }))", wantErr: "decide differently"},
		{name: "function variable overwritten before the call", base: polSelfClosure, old: "\tif c.config.Tracing {\n", new: "\tauthF = c.other\n\tif c.config.Tracing {\n", wantErr: "overwritten"},
		{name: "options slice passed to a helper", base: polSelfMethod, old: appendAuth, new: appendAuth + "\ttune(&opts)\n", wantErr: "does not follow"},
		{name: "option built by a helper", base: polSelfMethod, old: appendAuth, new: appendAuth + "\topts = append(opts, c.extraOption())\n", wantErr: "could carry an authorisation function"},
		{name: "unknown statement in the function", base: polSelfMethod, old: "\tif !ok {\n", new: "\tlogger.Debug(svc)\n\tif !ok {\n", wantErr: "is not evaluated"},
		{name: "another map", base: polSelfMethod, old: "c.config.RPCPolicy[", new: "c.config.OtherPolicy[", wantErr: "not a value the translator can evaluate"},
		{name: "another key", base: polSelfMethod, old: "[svc+\".\"+method]", new: "[method+\".\"+svc]", wantErr: "string expression is not"},
		{name: "method of a field, not of the parameter", base: polSelfMethod, old: "WithAuthorizeFunc(c.authorizeRPC)", new: "WithAuthorizeFunc(c.auth.authorizeRPC)", wantErr: "is not a function literal"},
		{name: "unknown method", base: polSelfMethod, old: "WithAuthorizeFunc(c.authorizeRPC)", new: "WithAuthorizeFunc(c.authorize)", wantErr: "0 declarations of method Cluster.authorize"},
	}
	for _, c := range cases {
		src := c.base
		if c.old != "" {
			if strings.Count(src, c.old) != 1 {
				return fmt.Errorf("%s: the text to replace occurs %d times in the self-test source", c.name, strings.Count(src, c.old))
			}
			src = strings.Replace(src, c.old, c.new, 1)
		}
		got, err := polSelfRun(src)
		switch {
		case c.want != "" && err != nil:
			return fmt.Errorf("%s: refused: %v", c.name, err)
		case c.want != "" && got != c.want:
			return fmt.Errorf("%s: got\n%s", c.name, got)
		case c.want == "" && err == nil:
			return fmt.Errorf("%s: accepted, table\n%s", c.name, got)
		case c.want == "" && !strings.Contains(err.Error(), c.wantErr):
			return fmt.Errorf("%s: refused with an unexpected message: %v", c.name, err)
		case c.want == "" && !strings.Contains(err.Error(), "selftest.go:"):
			return fmt.Errorf("%s: the refusal does not name a position: %v", c.name, err)
		}
	}
	return nil
}
