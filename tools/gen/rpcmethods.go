package main

import (
	"fmt"
	"go/ast"
	"path/filepath"
	"sort"
	"strconv"
	"strings"
)

// Gen/RPCMethods.v: the RPC endpoints a peer offers = every exported method of the receiver types that
// RPCServiceID (rpc_api.go) names, as "<Service>.<Method>" (this is also how isRPCPolicyValid enumerates
// them by reflection), plus which of those services newRPCServer registers.
func init() { register("RPCMethods", genRPCMethods) }

func genRPCMethods(repo string) (string, error) {
	fset, af, err := parseFile(filepath.Join(repo, "rpc_api.go"))
	if err != nil {
		return "", err
	}
	// RPCServiceID type switch: receiver type -> service name
	svc := map[string]string{}
	var werr error
	foundSID := false
	for _, d := range af.Decls {
		fd, ok := d.(*ast.FuncDecl)
		if !ok || fd.Recv != nil || fd.Name.Name != "RPCServiceID" {
			continue
		}
		foundSID = true
		ast.Inspect(fd.Body, func(m ast.Node) bool {
			cc, ok := m.(*ast.CaseClause)
			if !ok || cc.List == nil {
				return true
			}
			if len(cc.Body) != 1 {
				werr = fmt.Errorf("%s: RPCServiceID case body is not a single return", fset.Position(cc.Pos()))
				return false
			}
			rs, ok := cc.Body[0].(*ast.ReturnStmt)
			if !ok || len(rs.Results) != 1 {
				werr = fmt.Errorf("%s: RPCServiceID case body is not a single return", fset.Position(cc.Pos()))
				return false
			}
			lit, ok := rs.Results[0].(*ast.BasicLit)
			if !ok {
				werr = fmt.Errorf("%s: RPCServiceID returns a non-literal", fset.Position(cc.Pos()))
				return false
			}
			s, _ := strconv.Unquote(lit.Value)
			for _, e := range cc.List {
				st, ok := e.(*ast.StarExpr)
				if !ok {
					werr = fmt.Errorf("%s: RPCServiceID case is not a pointer type", fset.Position(e.Pos()))
					return false
				}
				id, ok := st.X.(*ast.Ident)
				if !ok {
					werr = fmt.Errorf("%s: RPCServiceID case is not *T", fset.Position(e.Pos()))
					return false
				}
				svc[id.Name] = s
			}
			return true
		})
	}
	if werr != nil {
		return "", werr
	}
	if !foundSID || len(svc) == 0 {
		return "", fmt.Errorf("RPCServiceID type switch not found in rpc_api.go")
	}
	// exported methods of those types anywhere in the root package (non-test files)
	files, err := filepath.Glob(filepath.Join(repo, "*.go"))
	if err != nil {
		return "", err
	}
	var methods []string
	for _, fn := range files {
		if strings.HasSuffix(fn, "_test.go") {
			continue
		}
		_, f, err := parseFile(fn)
		if err != nil {
			return "", err
		}
		for _, d := range f.Decls {
			fd, ok := d.(*ast.FuncDecl)
			if !ok || fd.Recv == nil || len(fd.Recv.List) != 1 || !fd.Name.IsExported() {
				continue
			}
			var t ast.Expr = fd.Recv.List[0].Type
			if st, ok := t.(*ast.StarExpr); ok {
				t = st.X
			}
			id, ok := t.(*ast.Ident)
			if !ok {
				continue
			}
			if s, ok := svc[id.Name]; ok {
				methods = append(methods, s+"."+fd.Name.Name)
			}
		}
		// an embedded field in one of the service types would promote methods the walk does not see
		for _, d := range f.Decls {
			gd, ok := d.(*ast.GenDecl)
			if !ok {
				continue
			}
			for _, sp := range gd.Specs {
				ts, ok := sp.(*ast.TypeSpec)
				if !ok {
					continue
				}
				if _, isSvc := svc[ts.Name.Name]; !isSvc {
					continue
				}
				stt, ok := ts.Type.(*ast.StructType)
				if !ok {
					return "", fmt.Errorf("service type %s is not a struct", ts.Name.Name)
				}
				for _, fl := range stt.Fields.List {
					if len(fl.Names) == 0 {
						return "", fmt.Errorf("service type %s embeds a field: promoted methods are not followed", ts.Name.Name)
					}
				}
			}
		}
	}
	if len(methods) == 0 {
		return "", fmt.Errorf("no RPC methods found")
	}
	sort.Strings(methods)
	// the services registered by newRPCServer: x := &T{...}; RegisterName(RPCServiceID(x), x)
	registered := map[string]bool{}
	for _, d := range af.Decls {
		fd, ok := d.(*ast.FuncDecl)
		if !ok || fd.Recv != nil || fd.Name.Name != "newRPCServer" {
			continue
		}
		vart := map[string]string{}
		ast.Inspect(fd.Body, func(m ast.Node) bool {
			switch x := m.(type) {
			case *ast.AssignStmt:
				if len(x.Lhs) == 1 && len(x.Rhs) == 1 {
					if id, ok := x.Lhs[0].(*ast.Ident); ok {
						if un, ok := x.Rhs[0].(*ast.UnaryExpr); ok {
							if cl, ok := un.X.(*ast.CompositeLit); ok {
								if tid, ok := cl.Type.(*ast.Ident); ok {
									vart[id.Name] = tid.Name
								}
							}
						}
					}
				}
			case *ast.CallExpr:
				se, ok := x.Fun.(*ast.SelectorExpr)
				if !ok || se.Sel.Name != "RegisterName" || len(x.Args) != 2 {
					return true
				}
				rcv, ok1 := x.Args[1].(*ast.Ident)
				idc, ok2 := x.Args[0].(*ast.CallExpr)
				if !ok1 || !ok2 || len(idc.Args) != 1 {
					werr = fmt.Errorf("%s: RegisterName is not RegisterName(RPCServiceID(x), x)", fset.Position(x.Pos()))
					return false
				}
				f, ok3 := idc.Fun.(*ast.Ident)
				a, ok4 := idc.Args[0].(*ast.Ident)
				if !ok3 || !ok4 || f.Name != "RPCServiceID" || a.Name != rcv.Name {
					werr = fmt.Errorf("%s: RegisterName is not RegisterName(RPCServiceID(x), x)", fset.Position(x.Pos()))
					return false
				}
				s, ok := svc[vart[rcv.Name]]
				if !ok {
					werr = fmt.Errorf("%s: registered object %s is not of a known service type", fset.Position(x.Pos()), rcv.Name)
					return false
				}
				registered[s] = true
			}
			return true
		})
	}
	if werr != nil {
		return "", werr
	}
	var regs, known []string
	for _, s := range svc {
		known = append(known, s)
		if registered[s] {
			regs = append(regs, s)
		}
	}
	sort.Strings(regs)
	sort.Strings(known)
	var b strings.Builder
	b.WriteString(genHeader)
	b.WriteString("\nDefinition rpc_methods : list string := [\n  ")
	ms := make([]string, len(methods))
	for i, m := range methods {
		ms[i] = coqStr(m)
	}
	b.WriteString(strings.Join(ms, ";\n  ") + "\n].\n\n")
	b.WriteString("Definition known_services : list string := " + coqStrList(known) + ".\n")
	b.WriteString("Definition registered_services : list string := " + coqStrList(regs) + ".\n")
	return b.String(), nil
}
