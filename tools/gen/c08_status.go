package main

import (
	"fmt"
	"go/ast"
	"go/token"
	"path/filepath"
	"strconv"
	"strings"
)

// Gen/C08Status.v: the TrackerStatus constants of api/types.go (const blocks, `1 << iota` and `A | B` expressions
// evaluated here) and the trackerStatusString map literal, as a table (value, name) in source order.
func init() { register("C08Status", genC08Status) }

// evalConst evaluates the small expression language the constant blocks use; anything else is an error.
func evalConst(e ast.Expr, iota int64, env map[string]int64) (int64, error) {
	switch x := e.(type) {
	case *ast.BasicLit:
		if x.Kind != token.INT {
			return 0, fmt.Errorf("unsupported literal %s", x.Value)
		}
		return strconv.ParseInt(x.Value, 0, 64)
	case *ast.Ident:
		if x.Name == "iota" {
			return iota, nil
		}
		if v, ok := env[x.Name]; ok {
			return v, nil
		}
		return 0, fmt.Errorf("unknown constant %s", x.Name)
	case *ast.ParenExpr:
		return evalConst(x.X, iota, env)
	case *ast.BinaryExpr:
		a, err := evalConst(x.X, iota, env)
		if err != nil {
			return 0, err
		}
		b, err := evalConst(x.Y, iota, env)
		if err != nil {
			return 0, err
		}
		switch x.Op {
		case token.SHL:
			if b < 0 || b > 62 {
				return 0, fmt.Errorf("shift out of range")
			}
			return a << uint(b), nil
		case token.OR:
			return a | b, nil
		case token.ADD:
			return a + b, nil
		}
		return 0, fmt.Errorf("unsupported operator %s", x.Op)
	}
	return 0, fmt.Errorf("unsupported constant expression %T", e)
}

// constsOfType collects every constant of the named type from all const blocks of the file: specs typed with it,
// specs that implicitly repeat such a spec, and untyped specs whose expression only mentions such constants.
func constsOfType(f *ast.File, typ string) (map[string]int64, error) {
	env := map[string]int64{}
	for _, d := range f.Decls {
		gd, ok := d.(*ast.GenDecl)
		if !ok || gd.Tok != token.CONST {
			continue
		}
		var curExpr ast.Expr
		curType := ""
		for i, sp := range gd.Specs {
			vs := sp.(*ast.ValueSpec)
			if len(vs.Values) > 0 {
				curExpr = vs.Values[0]
				curType = ""
				if id, ok := vs.Type.(*ast.Ident); ok {
					curType = id.Name
				} else if vs.Type != nil {
					curType = "?"
				}
			}
			if len(vs.Names) != 1 || len(vs.Values) > 1 || curExpr == nil {
				continue
			}
			switch curType {
			case typ:
				v, err := evalConst(curExpr, int64(i), env)
				if err != nil {
					return nil, fmt.Errorf("constant %s: %v", vs.Names[0].Name, err)
				}
				env[vs.Names[0].Name] = v
			case "":
				// untyped: ours only if it is built from our constants (e.g. A | B | C)
				mentions := false
				ast.Inspect(curExpr, func(n ast.Node) bool {
					if id, ok := n.(*ast.Ident); ok {
						if _, ok := env[id.Name]; ok {
							mentions = true
						}
					}
					return true
				})
				if mentions {
					v, err := evalConst(curExpr, int64(i), env)
					if err != nil {
						return nil, fmt.Errorf("constant %s: %v", vs.Names[0].Name, err)
					}
					env[vs.Names[0].Name] = v
				}
			}
		}
	}
	return env, nil
}

func genC08Status(repo string) (string, error) {
	_, f, err := parseFile(filepath.Join(repo, "api", "types.go"))
	if err != nil {
		return "", err
	}
	env, err := constsOfType(f, "TrackerStatus")
	if err != nil {
		return "", err
	}
	var rows []string
	found := false
	var ferr error
	ast.Inspect(f, func(n ast.Node) bool {
		vs, ok := n.(*ast.ValueSpec)
		if !ok || len(vs.Names) != 1 || vs.Names[0].Name != "trackerStatusString" || len(vs.Values) != 1 {
			return true
		}
		cl, ok := vs.Values[0].(*ast.CompositeLit)
		if !ok {
			return true
		}
		found = true
		for _, e := range cl.Elts {
			kv, ok := e.(*ast.KeyValueExpr)
			if !ok {
				ferr = fmt.Errorf("trackerStatusString: element is not key: value")
				return false
			}
			k, ok1 := kv.Key.(*ast.Ident)
			v, ok2 := kv.Value.(*ast.BasicLit)
			if !ok1 || !ok2 || v.Kind != token.STRING {
				ferr = fmt.Errorf("trackerStatusString: entry is not Constant: \"literal\"")
				return false
			}
			val, ok := env[k.Name]
			if !ok {
				ferr = fmt.Errorf("trackerStatusString: constant %s not evaluated", k.Name)
				return false
			}
			name, _ := strconv.Unquote(v.Value)
			rows = append(rows, fmt.Sprintf("(%d%%N, %s)", val, coqStr(name)))
		}
		return false
	})
	if ferr != nil {
		return "", ferr
	}
	if !found || len(rows) == 0 {
		return "", fmt.Errorf("trackerStatusString map literal not found")
	}
	var b strings.Builder
	b.WriteString(genHeader)
	b.WriteString("From Coq Require Import NArith.\n\n")
	b.WriteString("(* api/types.go: trackerStatusString, keys evaluated from the TrackerStatus const blocks *)\n")
	b.WriteString("Definition tracker_status_table : list (N * string) := [\n  " + strings.Join(rows, ";\n  ") + "].\n")
	return b.String(), nil
}
