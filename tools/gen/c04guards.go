package main

// Gen/C04Guards.v (property C04): the guard chains of cluster.go — setupReplicationFactor (+ isReplicationFactorValid of
// cluster_config.go, inlined), checkPinType, setupPin, pin, Unpin, PinUpdate — TRANSLATED into ordered step lists in the
// vocabulary of coq/Model/C04_Guards.v:
//
//	SGuard cond outcome   `if cond { return ... }`  outcome = Refuse <error class> | Redirect f | Commit op | Accept
//	SEffect cond effects  `if cond { assignments }` (or unconditional assignments)
//	SCall f / STail f     `err := c.f(..); if err != nil { return .., err }` / `return f(..)` for f in the translated set
//
// Conditions: `&&`, `||`, `!` over leaves; a leaf is an integer comparison of known terms (pin.ReplicationFactorMin/Max,
// pin.MaxDepth, c.config.ReplicationFactorMin/Max, len(pin.Allocations), len(blacklist), integer locals, constants) or an
// entry of a fixed table keyed by its source text (follower mode, pin types and modes, nil tests, expiry against the
// clock, PinOptions.Equals, ...). Calls the model abstracts (PinGet, allocate, unpinClusterDag) become `GFails name`.
// The error class of a refusal is derived as the harness derives it (identity of errFollowerMode, message substrings).
// The condition machinery (vCond and its constructors) is the one of configvalidators.go.
// Anything the walk does not know — a statement shape, a leaf that is not in the table, an assignment to something a later
// guard reads, a step after an effect inside a conditional block — makes the translator FAIL.

import (
	"fmt"
	"go/ast"
	"go/token"
	"path/filepath"
	"regexp"
	"strconv"
	"strings"
)

func init() { register("C04Guards", genC04Guards) }

var c04Funcs = []string{"setupReplicationFactor", "checkPinType", "setupPin", "pin", "Unpin", "PinUpdate"}

// functions of the translated set, by how they are named in calls
var c04Translated = map[string]string{"c.setupReplicationFactor": "setupReplicationFactor", "checkPinType": "checkPinType",
	"c.setupPin": "setupPin", "c.PinUpdate": "PinUpdate"}

// plain functions inlined at a `return f(args)` (file relative to the repository, function)
var c04Inlined = map[string][2]string{"isReplicationFactorValid": {"cluster_config.go", "isReplicationFactorValid"}}

// calls the model abstracts: name of the oracle and error class of a failure
var c04Abstract = map[string][2]string{"c.PinGet": {"PinGet", "ENotFound"}, "c.allocate": {"allocate", "EAlloc"},
	"c.unpinClusterDag": {"unpinClusterDag", "EMeta"}}

var c04Terms = map[string]string{
	"pin.ReplicationFactorMin": "(ZPin FRmin)", "pin.ReplicationFactorMax": "(ZPin FRmax)", "pin.MaxDepth": "(ZPin FDepth)",
	"c.config.ReplicationFactorMin": "(ZCfg FRmin)", "c.config.ReplicationFactorMax": "(ZCfg FRmax)",
	"len(pin.Allocations)": "ZLenAllocs", "len(blacklist)": "ZLenBlacklist",
}

// boolean leaves by source text (after alias substitution); "!" prefix on the value = negated
var c04Atoms = map[string]string{
	"c.config.FollowerMode":                        "GFollower",
	"pin.Cid == cid.Undef":                         "GCidUndef",
	"pin.PinUpdate == cid.Undef":                   "GUpdateUndef",
	"pin.PinUpdate != cid.Undef":                   "!GUpdateUndef",
	"pin.PinUpdate.Equals(pin.Cid)":                "GUpdateIsCid",
	"existing == nil":                              "(GIsNil WExisting)",
	"existing != nil":                              "!(GIsNil WExisting)",
	"existing.Type == pin.Type":                    "GTypeSame",
	"existing.Type != pin.Type":                    "!GTypeSame",
	"pin.Reference == nil":                         "GRefNil",
	"pin.Reference != nil":                         "!GRefNil",
	"pin.ExpireAt.IsZero()":                        "GExpireZero",
	"pin.ExpireAt.Before(time.Now())":              "GExpireBefore",
	"pin.ExpireAt.After(time.Now())":               "GExpireAfter",
	"opts.Name == \"\"":                            "GOptNameEmpty",
	"opts.Name != \"\"":                            "!GOptNameEmpty",
	"opts.ExpireAt.IsZero()":                       "GOptExpireZero",
	"opts.ExpireAt.After(time.Now())":              "GOptExpireAfter",
	"pin.IsPinEverywhere()":                        "GEverywhere",
	"pin.PinOptions.Equals(&existing.PinOptions)":  "GOptsEqual",
	"err != nil && err != state.ErrNotFound":       "GStateErr",
}

var c04Types = map[string]string{"api.DataType": "DataT", "api.ShardType": "ShardT", "api.ClusterDAGType": "ClusterDAGT", "api.MetaType": "MetaT", "api.BadType": "BadT"}
var c04Who = map[string]string{"pin": "WPin", "existing": "WExisting"}

// error class of a message, as harness/root/rig_c04_test.go reads it
func c04ClassOf(msg string, fn string) string {
	has := func(s string) bool { return strings.Contains(msg, s) }
	switch {
	case has("cluster.replication_factor"):
		return "EBadFactors"
	case has("pin.ExpireAt set before current time"):
		return "EExpired"
	case has("cannot repin CID with different tracking method"):
		return "ETypeChange"
	case has("already pinned in recursive mode"):
		return "EDowngrade"
	case has("cannot unpin a shard directly"), has("cannot unpin a Cluster DAG directly"):
		return "EUnpinType"
	case has("unrecognized pin type"):
		if fn == "Unpin" {
			return "EUnpinType"
		}
		return "EPinType"
	case has("data pins should not reference"), has("must pin shards go depth 1"), has("must pin roots directly"),
		has("clusterDAG pins should reference"), has("meta pin should not specify allocations"), has("metaPins should reference"):
		return "EPinType"
	case has("this pin type cannot be updated"):
		return "EUpdateType"
	}
	return "EOther"
}

type c04Step struct {
	coq  string
	name string // source text
}

type c04Walker struct {
	cf      *c15File
	repo    string
	fn      string
	ints    map[string]string // integer locals and parameters -> gz term
	strs    map[string]string // string locals (messages under construction)
	alias   map[string]string // local -> expression text it stands for
	lastErr string            // class of the error the variable err holds after the last abstract call
	texts   []string          // roots written by EText effects
	gnames  []string          // source text of the enclosing conditions
	steps   []c04Step
	// following extracted helpers (c04guards_inline.go)
	top       string            // key of the function being translated
	recvName  string            // its receiver
	recvType  string
	declared  map[string]bool   // names declared in it (and in the helpers being walked)
	stack     []string          // helpers being inlined
	sites     []string          // file:line of the calls being inlined
	helper    *c04Helper        // set while the body of a spliced helper is walked
	depth     int               // nesting of conditional blocks
	okReturns []*ast.ReturnStmt // successful returns of the helper
}

func (w *c04Walker) errf(n ast.Node, format string, a ...interface{}) error {
	return fmt.Errorf("%s: %s: %s", w.fn, w.site(n), strings.Join(strings.Fields(fmt.Sprintf(format, a...)), " "))
}

func (w *c04Walker) text(n ast.Node) string {
	s := strings.Join(strings.Fields(w.cf.text(n)), " ")
	for a, e := range w.alias {
		s = regexp.MustCompile(`\b`+regexp.QuoteMeta(a)+`\b`).ReplaceAllString(s, e)
	}
	return s
}

func gTerm(t vTerm) string {
	if t.isK {
		if t.k < 0 {
			return fmt.Sprintf("(ZK (%d))", t.k)
		}
		return fmt.Sprintf("(ZK %d)", t.k)
	}
	return t.m
}

func gCoq(c *vCond) string {
	switch c.op {
	case "bool":
		if c.b {
			return "(GBool true)"
		}
		return "(GBool false)"
	case "le":
		return "(GLe " + gTerm(c.l) + " " + gTerm(c.r) + ")"
	case "lt":
		return "(GLt " + gTerm(c.l) + " " + gTerm(c.r) + ")"
	case "eq":
		return "(GEq " + gTerm(c.l) + " " + gTerm(c.r) + ")"
	case "atom":
		return c.n
	case "not":
		return "(GNot " + gCoq(c.x) + ")"
	case "and":
		return "(GAnd " + gCoq(c.x) + " " + gCoq(c.y) + ")"
	case "or":
		return "(GOr " + gCoq(c.x) + " " + gCoq(c.y) + ")"
	}
	return "(* ? *)"
}

func (w *c04Walker) term(e ast.Expr) (vTerm, bool) {
	for {
		if p, ok := e.(*ast.ParenExpr); ok {
			e = p.X
			continue
		}
		break
	}
	switch t := e.(type) {
	case *ast.BasicLit:
		if t.Kind == token.INT {
			n, err := strconv.ParseInt(t.Value, 0, 64)
			return vTerm{k: n, isK: true}, err == nil
		}
	case *ast.UnaryExpr:
		if t.Op == token.SUB {
			if v, ok := w.term(t.X); ok && v.isK {
				return vTerm{k: -v.k, isK: true}, true
			}
		}
	case *ast.Ident:
		if g, ok := w.ints[t.Name]; ok {
			return vTerm{m: g}, true
		}
	}
	if g, ok := c04Terms[w.text(e)]; ok {
		return vTerm{m: g}, true
	}
	return vTerm{}, false
}

func (w *c04Walker) atom(e ast.Expr) (*vCond, bool) {
	a, ok := c04Atoms[w.text(e)]
	if !ok {
		return nil, false
	}
	if strings.HasPrefix(a, "!") {
		return vNot(&vCond{op: "atom", n: a[1:]}), true
	}
	return &vCond{op: "atom", n: a}, true
}

func (w *c04Walker) cond(e ast.Expr) (*vCond, error) {
	if c, ok := w.atom(e); ok {
		return c, nil
	}
	switch t := e.(type) {
	case *ast.ParenExpr:
		return w.cond(t.X)
	case *ast.CallExpr:
		// a predicate declared in this package: translated as if its body had been written in place
		ex, cal, err := w.inlinePred(t)
		if err != nil {
			return nil, err
		}
		if ex != nil {
			w.sites = append(w.sites, w.site(t))
			w.stack = append(w.stack, cal.key)
			defer func() { w.sites, w.stack = w.sites[:len(w.sites)-1], w.stack[:len(w.stack)-1] }()
			if err := w.checkTexts(ex); err != nil {
				return nil, err
			}
			return w.cond(ex)
		}
	case *ast.UnaryExpr:
		if t.Op == token.NOT {
			c, err := w.cond(t.X)
			if err != nil {
				return nil, err
			}
			return vNot(c), nil
		}
	case *ast.BinaryExpr:
		switch t.Op {
		case token.LAND, token.LOR:
			a, err := w.cond(t.X)
			if err != nil {
				return nil, err
			}
			b, err := w.cond(t.Y)
			if err != nil {
				return nil, err
			}
			if t.Op == token.LAND {
				return vAnd(a, b), nil
			}
			return vOr(a, b), nil
		case token.EQL, token.NEQ, token.LSS, token.LEQ, token.GTR, token.GEQ:
			// X.Type ==/!= api.TType ; X.Mode ==/!= api.PinModeRecursive
			if se, ok := t.X.(*ast.SelectorExpr); ok && (t.Op == token.EQL || t.Op == token.NEQ) {
				if id, ok := se.X.(*ast.Ident); ok && c04Who[id.Name] != "" {
					var c *vCond
					if ty, ok := c04Types[w.text(t.Y)]; ok && se.Sel.Name == "Type" {
						c = &vCond{op: "atom", n: "(GTypeIs " + c04Who[id.Name] + " " + ty + ")"}
					}
					if w.text(t.Y) == "api.PinModeRecursive" && se.Sel.Name == "Mode" {
						c = &vCond{op: "atom", n: "(GModeRec " + c04Who[id.Name] + ")"}
					}
					if c != nil {
						if t.Op == token.NEQ {
							return vNot(c), nil
						}
						return c, nil
					}
				}
			}
			l, ok1 := w.term(t.X)
			r, ok2 := w.term(t.Y)
			if ok1 && ok2 {
				switch t.Op {
				case token.LSS:
					return vCmp("lt", l, r), nil
				case token.LEQ:
					return vCmp("le", l, r), nil
				case token.GTR:
					return vCmp("lt", r, l), nil
				case token.GEQ:
					return vCmp("le", r, l), nil
				case token.EQL:
					return vCmp("eq", l, r), nil
				case token.NEQ:
					return vNot(vCmp("eq", l, r)), nil
				}
			}
		}
	}
	return nil, w.errf(e, "condition not followed: %s", w.text(e))
}

func (w *c04Walker) emit(coq string, n ast.Node) {
	name := strings.Join(strings.Fields(w.cf.text(n)), " ")
	if len(w.gnames) > 0 {
		if _, isExpr := n.(ast.Expr); isExpr {
			name = strings.Join(w.gnames, " && ")
		} else {
			name = "if " + strings.Join(w.gnames, " && ") + " { " + name + " }"
		}
	}
	w.steps = append(w.steps, c04Step{coq, name})
}

func (w *c04Walker) checkTexts(e ast.Expr) error {
	s := w.text(e)
	for _, r := range w.texts {
		if regexp.MustCompile(`\b` + regexp.QuoteMeta(r) + `\b`).MatchString(s) {
			return w.errf(e, "condition reads %s, which an earlier assignment kept only as text wrote", r)
		}
	}
	return nil
}

func isTracing(cf *c15File, e ast.Expr) bool {
	ce, ok := e.(*ast.CallExpr)
	if !ok {
		return false
	}
	fn := cf.text(ce.Fun)
	return fn == "trace.StartSpan" || fn == "trace.NewContext"
}

func isLogger(cf *c15File, s ast.Stmt) bool {
	es, ok := s.(*ast.ExprStmt)
	if !ok {
		return false
	}
	ce, ok := es.X.(*ast.CallExpr)
	return ok && strings.HasPrefix(cf.text(ce.Fun), "logger.")
}

func onlyLoggers(cf *c15File, b *ast.BlockStmt) bool {
	if b == nil {
		return false
	}
	for _, s := range b.List {
		if !isLogger(cf, s) {
			return false
		}
	}
	return true
}

// the string a message expression denotes (literal, tracked local)
func (w *c04Walker) strOf(e ast.Expr) (string, bool) {
	switch t := e.(type) {
	case *ast.BasicLit:
		if t.Kind == token.STRING {
			s, err := strconv.Unquote(t.Value)
			return s, err == nil
		}
	case *ast.Ident:
		s, ok := w.strs[t.Name]
		return s, ok
	}
	return "", false
}

// outcome of a return statement (the error is the last result)
func (w *c04Walker) outcome(rs *ast.ReturnStmt) (string, error) {
	if len(rs.Results) == 0 {
		return "", w.errf(rs, "bare return")
	}
	last := rs.Results[len(rs.Results)-1]
	txt := w.text(last)
	switch {
	case txt == "nil":
		return "Accept", nil
	case txt == "errFollowerMode":
		return `(Refuse "EFollower")`, nil
	case txt == "err":
		if w.lastErr == "" {
			return "", w.errf(rs, "return of err: no call is known to have set it")
		}
		return "(Refuse " + coqStr(w.lastErr) + ")", nil
	}
	if ce, ok := last.(*ast.CallExpr); ok {
		fn := w.cf.text(ce.Fun)
		switch fn {
		case "errors.New", "fmt.Errorf":
			if len(ce.Args) >= 1 {
				if m, ok := w.strOf(ce.Args[0]); ok {
					return "(Refuse " + coqStr(c04ClassOf(m, w.fn)) + ")", nil
				}
			}
			return "", w.errf(rs, "error message not followed: %s", txt)
		case "c.consensus.LogPin", "c.consensus.LogUnpin":
			if len(ce.Args) == 2 && w.text(ce.Args[1]) != "pin" && w.text(ce.Args[1]) != "existing" {
				return "", w.errf(rs, "commit of something else than the pin: %s", txt)
			}
			return "(Commit " + coqStr(strings.TrimPrefix(fn, "c.consensus.")) + ")", nil
		}
	}
	return "", w.errf(rs, "return not understood: %s", w.text(rs))
}

func isErrNotNil(cf *c15File, s ast.Stmt) (*ast.ReturnStmt, bool) {
	is, ok := s.(*ast.IfStmt)
	if !ok || is.Init != nil || is.Else != nil || cf.text(is.Cond) != "err != nil" || len(is.Body.List) != 1 {
		return nil, false
	}
	rs, ok := is.Body.List[0].(*ast.ReturnStmt)
	if !ok || len(rs.Results) == 0 || cf.text(rs.Results[len(rs.Results)-1]) != "err" {
		return nil, false
	}
	return rs, true
}

// walk a statement list under the guard g (conjunction of the enclosing conditions); inCond: inside a conditional block
func (w *c04Walker) walk(stmts []ast.Stmt, g *vCond, inCond bool) error {
	effectSeen := false
	step := func(n ast.Node) error {
		if inCond && effectSeen {
			return w.errf(n, "a step after an effect inside a conditional block (its condition would be evaluated again)")
		}
		return nil
	}
	for i := 0; i < len(stmts); i++ {
		st := stmts[i]
		var next ast.Stmt
		if i+1 < len(stmts) {
			next = stmts[i+1]
		}
		switch s := st.(type) {
		case *ast.EmptyStmt:
		case *ast.DeferStmt:
			if w.cf.text(s.Call.Fun) != "span.End" {
				return w.errf(s, "statement not understood: %s", w.text(s))
			}
		case *ast.ExprStmt:
			if !isLogger(w.cf, s) {
				if ce, ok := s.X.(*ast.CallExpr); ok {
					if err := step(s); err != nil {
						return err
					}
					handled, err := w.splice(s, ce, nil, next, g, inCond, &i)
					if err != nil {
						return err
					}
					if handled {
						continue
					}
				}
				return w.errf(s, "statement not understood: %s", w.text(s))
			}
		case *ast.ReturnStmt:
			if w.helper != nil && w.isOkReturn(s) {
				// the body of a spliced helper: `return .., nil` at its end continues the caller (no step)
				if w.depth != 0 || i != len(stmts)-1 {
					return w.errf(s, "helper return not followed: a successful return that is neither `if c { return .., nil }` at the top level nor the last statement")
				}
				w.okReturns = append(w.okReturns, s)
				continue
			}
			if err := step(s); err != nil {
				return err
			}
			if w.helper != nil {
				// any other return of a spliced helper must be an error exit
				if w.depth == 0 && w.cf.text(s.Results[len(s.Results)-1]) == "err" {
					return w.errf(s, "helper return not followed: err returned without `if err != nil`")
				}
				o, err := w.outcome(s)
				if err != nil {
					return err
				}
				if !strings.HasPrefix(o, "(Refuse ") {
					return w.errf(s, "helper return not followed: %s is neither an error exit nor nil", w.text(s))
				}
				w.emit("SGuard "+gCoq(g)+" "+o, s)
				continue
			}
			// return f(args) for a translated or inlined function
			if len(s.Results) == 1 {
				if ce, ok := s.Results[0].(*ast.CallExpr); ok {
					fn := w.cf.text(ce.Fun)
					if name, ok := c04Translated[fn]; ok {
						if !g.isT() {
							return w.errf(s, "tail call under a condition")
						}
						w.emit("STail "+coqStr(name), s)
						continue
					}
					if in, ok := c04Inlined[fn]; ok {
						if !g.isT() {
							return w.errf(s, "inlined call under a condition")
						}
						if err := w.inline(in, ce); err != nil {
							return err
						}
						continue
					}
				}
			}
			o, err := w.outcome(s)
			if err != nil {
				return err
			}
			w.emit("SGuard "+gCoq(g)+" "+o, s)
		case *ast.AssignStmt:
			if len(s.Rhs) == 1 && isTracing(w.cf, s.Rhs[0]) {
				continue
			}
			before := len(w.steps)
			if err := w.assign(s, next, g, inCond, &i); err != nil {
				return err
			}
			if len(w.steps) > before && strings.HasPrefix(w.steps[len(w.steps)-1].coq, "SEffect") {
				if err := step(s); err != nil {
					return err
				}
				effectSeen = true
			} else if len(w.steps) > before {
				if err := step(s); err != nil {
					return err
				}
			}
		case *ast.IfStmt:
			if err := step(s); err != nil {
				return err
			}
			if w.helper != nil && w.depth == 0 && s.Init == nil && s.Else == nil && len(s.Body.List) == 1 {
				// `if c { return .., nil }` in a spliced helper: the rest of the helper happens under !c
				if rs, ok := s.Body.List[0].(*ast.ReturnStmt); ok && w.isOkReturn(rs) {
					if err := w.checkTexts(s.Cond); err != nil {
						return err
					}
					c, err := w.cond(s.Cond)
					if err != nil {
						return err
					}
					w.okReturns = append(w.okReturns, rs)
					w.gnames = append(w.gnames, "!("+strings.Join(strings.Fields(w.cf.text(s.Cond)), " ")+")")
					err = w.walk(stmts[i+1:], vAnd(g, vNot(c)), true)
					w.gnames = w.gnames[:len(w.gnames)-1]
					return err
				}
			}
			if err := w.walkIf(s, g); err != nil {
				return err
			}
		case *ast.SwitchStmt:
			if err := step(s); err != nil {
				return err
			}
			if err := w.walkSwitch(s, g); err != nil {
				return err
			}
		default:
			return w.errf(st, "statement not understood: %s", w.text(st))
		}
	}
	return nil
}

func (w *c04Walker) effect(g *vCond, effs []string, n ast.Node) {
	w.emit("SEffect "+gCoq(g)+" ["+strings.Join(effs, "; ")+"]", n)
}

// one assignment as an effect term
func (w *c04Walker) effTerm(s *ast.AssignStmt) (string, error) {
	if len(s.Lhs) != 1 || len(s.Rhs) != 1 {
		return "", w.errf(s, "assignment not understood: %s", w.text(s))
	}
	lhs, rhs := w.cf.text(s.Lhs[0]), s.Rhs[0]
	if id, ok := s.Lhs[0].(*ast.Ident); ok {
		if t, ok := w.term(rhs); ok && (s.Tok == token.DEFINE || w.ints[id.Name] != "") {
			w.ints[id.Name] = "(ZLocal " + coqStr(id.Name) + ")"
			return "ESetLocal " + coqStr(id.Name) + " " + gTerm(t), nil
		}
		if id.Name == "pin" && w.cf.text(rhs) == "existing" && s.Tok == token.ASSIGN {
			return "EUseExisting", nil
		}
		return "", w.errf(s, "assignment not understood: %s", w.text(s))
	}
	switch lhs {
	case "pin.ReplicationFactorMin", "pin.ReplicationFactorMax":
		t, ok := w.term(rhs)
		if !ok {
			return "", w.errf(s, "assignment not understood: %s", w.text(s))
		}
		f := "FRmin"
		if lhs == "pin.ReplicationFactorMax" {
			f = "FRmax"
		}
		return "ESetPinZ " + f + " " + gTerm(t), nil
	case "pin.Allocations":
		switch w.cf.text(rhs) {
		case "nil":
			return "EClearAllocs", nil
		case "allocs":
			if w.alias["allocs#from"] == "allocate" {
				return "ESetAllocs", nil
			}
		}
		return "", w.errf(s, "assignment not understood: %s", w.text(s))
	}
	// anything else: kept as text, provided it is rooted at `existing` (the object PinUpdate returns)
	root, _, ok := (&c15Walker{}).selPath(s.Lhs[0])
	if ok && root == "existing" && s.Tok == token.ASSIGN {
		w.texts = append(w.texts, lhs)
		return "EText " + coqStr(w.text(s)), nil
	}
	return "", w.errf(s, "assignment not understood: %s", w.text(s))
}

func (w *c04Walker) assign(s *ast.AssignStmt, next ast.Stmt, g *vCond, inCond bool, i *int) error {
	// message strings under construction
	if len(s.Lhs) == 1 && len(s.Rhs) == 1 {
		if id, ok := s.Lhs[0].(*ast.Ident); ok {
			if bl, ok := s.Rhs[0].(*ast.BasicLit); ok && bl.Kind == token.STRING {
				v, _ := strconv.Unquote(bl.Value)
				switch s.Tok {
				case token.DEFINE:
					w.strs[id.Name] = v
					return nil
				case token.ADD_ASSIGN:
					if _, ok := w.strs[id.Name]; ok {
						w.strs[id.Name] += v
						return nil
					}
				}
			}
		}
	}
	// calls whose error decides
	if len(s.Rhs) == 1 {
		if ce, ok := s.Rhs[0].(*ast.CallExpr); ok {
			fn := w.cf.text(ce.Fun)
			lastIsErr := w.cf.text(s.Lhs[len(s.Lhs)-1]) == "err"
			if name, ok := c04Translated[fn]; ok && lastIsErr && len(s.Lhs) == 1 {
				if _, ok := isErrNotNil(w.cf, next); ok && g.isT() {
					w.emit("SCall "+coqStr(name), s)
					*i++
					return nil
				}
				return w.errf(s, "call of %s not followed by `if err != nil { return .., err }` at top level", name)
			}
			if ab, ok := c04Abstract[fn]; ok && lastIsErr {
				w.lastErr = ab[1]
				if len(s.Lhs) == 2 {
					w.alias[w.cf.text(s.Lhs[0])+"#from"] = ab[0]
				}
				if _, ok := isErrNotNil(w.cf, next); ok {
					w.emit("SGuard "+gCoq(vAnd(g, &vCond{op: "atom", n: "(GFails " + coqStr(ab[0]) + ")"}))+" (Refuse "+coqStr(ab[1])+")", s)
					*i++
					return nil
				}
				// the error is examined by a later condition: the binding is kept as text
				w.lastErr = "EOther"
				w.effect(g, []string{"EText " + coqStr(w.text(s))}, s)
				return nil
			}
			if _, known := c04Translated[fn]; !known {
				if handled, err := w.splice(s, ce, s.Lhs, next, g, inCond, i); handled || err != nil {
					return err
				}
			}
		}
	}
	e, err := w.effTerm(s)
	if err != nil {
		return err
	}
	w.effect(g, []string{e}, s)
	return nil
}

func (w *c04Walker) walkIf(s *ast.IfStmt, g *vCond) error {
	if s.Init != nil {
		// if x := <expr>; cond
		as, ok := s.Init.(*ast.AssignStmt)
		if !ok || as.Tok != token.DEFINE || len(as.Lhs) != 1 || len(as.Rhs) != 1 {
			return w.errf(s, "if with an initialiser not understood: %s", w.text(s.Init))
		}
		id, ok := as.Lhs[0].(*ast.Ident)
		if _, isSel := as.Rhs[0].(*ast.SelectorExpr); !ok || !isSel {
			return w.errf(s, "if with an initialiser not understood: %s", w.text(s.Init))
		}
		w.alias[id.Name] = w.text(as.Rhs[0])
		defer delete(w.alias, id.Name)
	}
	if s.Else != nil {
		eb, _ := s.Else.(*ast.BlockStmt)
		if onlyLoggers(w.cf, s.Body) && onlyLoggers(w.cf, eb) {
			return nil
		}
	}
	if onlyLoggers(w.cf, s.Body) && s.Else == nil {
		return nil
	}
	if err := w.checkTexts(s.Cond); err != nil {
		return err
	}
	c, err := w.cond(s.Cond)
	if err != nil {
		return err
	}
	ctxt := strings.Join(strings.Fields(w.cf.text(s.Cond)), " ")
	if strings.Contains(ctxt, "||") {
		ctxt = "(" + ctxt + ")"
	}
	w.gnames = append(w.gnames, ctxt)
	defer func() { w.gnames = w.gnames[:len(w.gnames)-1] }()
	// redirect: { v, err := c.F(...); return v, .., err } with F translated
	if len(s.Body.List) == 2 && s.Else == nil {
		as, ok1 := s.Body.List[0].(*ast.AssignStmt)
		rs, ok2 := s.Body.List[1].(*ast.ReturnStmt)
		if ok1 && ok2 && len(as.Rhs) == 1 && len(as.Lhs) == 2 && w.cf.text(as.Lhs[1]) == "err" && len(rs.Results) >= 2 &&
			w.cf.text(rs.Results[len(rs.Results)-1]) == "err" && w.cf.text(rs.Results[0]) == w.cf.text(as.Lhs[0]) {
			if ce, ok := as.Rhs[0].(*ast.CallExpr); ok {
				if name, ok := c04Translated[w.cf.text(ce.Fun)]; ok {
					w.emit("SGuard "+gCoq(vAnd(g, c))+" (Redirect "+coqStr(name)+")", s.Cond)
					return nil
				}
			}
		}
	}
	// a block of assignments only: one effect step
	allAssign := len(s.Body.List) > 0
	for _, b := range s.Body.List {
		if _, ok := b.(*ast.AssignStmt); !ok {
			allAssign = false
		}
	}
	if allAssign && s.Else == nil {
		var effs []string
		for _, b := range s.Body.List {
			as := b.(*ast.AssignStmt)
			if len(as.Rhs) == 1 {
				if _, isCall := as.Rhs[0].(*ast.CallExpr); isCall && w.cf.text(as.Rhs[0]) != "nil" {
					if _, known := w.term(as.Rhs[0]); !known {
						allAssign = false
						break
					}
				}
			}
			e, err := w.effTerm(as)
			if err != nil {
				return err
			}
			effs = append(effs, e)
		}
		if allAssign {
			w.effect(vAnd(g, c), effs, s.Cond)
			return nil
		}
	}
	w.depth++
	defer func() { w.depth-- }()
	if err := w.walk(s.Body.List, vAnd(g, c), true); err != nil {
		return err
	}
	w.gnames[len(w.gnames)-1] = "!(" + ctxt + ")"
	switch e := s.Else.(type) {
	case nil:
	case *ast.BlockStmt:
		return w.walk(e.List, vAnd(g, vNot(c)), true)
	case *ast.IfStmt:
		return w.walk([]ast.Stmt{e}, vAnd(g, vNot(c)), true)
	}
	return nil
}

func (w *c04Walker) walkSwitch(s *ast.SwitchStmt, g *vCond) error {
	if s.Init != nil || s.Tag == nil {
		return w.errf(s, "switch not understood")
	}
	tag, ok := s.Tag.(*ast.SelectorExpr)
	id, ok2 := tag.X.(*ast.Ident)
	if !ok || !ok2 || tag.Sel.Name != "Type" || c04Who[id.Name] == "" {
		return w.errf(s, "switch over something else than a pin type: %s", w.text(s.Tag))
	}
	any := vFalse
	for i, cs := range s.Body.List {
		cc := cs.(*ast.CaseClause)
		var c *vCond
		if cc.List == nil {
			if i != len(s.Body.List)-1 {
				return w.errf(cc, "default case that is not the last one")
			}
			c = vNot(any)
		} else {
			c = vFalse
			for _, e := range cc.List {
				ty, ok := c04Types[w.text(e)]
				if !ok {
					return w.errf(e, "case not understood: %s", w.text(e))
				}
				c = vOr(c, &vCond{op: "atom", n: "(GTypeIs " + c04Who[id.Name] + " " + ty + ")"})
			}
			any = vOr(any, c)
		}
		for _, b := range cc.Body {
			if br, ok := b.(*ast.BranchStmt); ok {
				return w.errf(br, "%s inside a switch case", br.Tok)
			}
		}
		ctxt := "default"
		if cc.List != nil {
			var ts []string
			for _, e := range cc.List {
				ts = append(ts, w.text(s.Tag)+" == "+w.text(e))
			}
			ctxt = strings.Join(ts, " || ")
		}
		w.gnames = append(w.gnames, ctxt)
		w.depth++
		err := w.walk(cc.Body, vAnd(g, c), true)
		w.depth--
		w.gnames = w.gnames[:len(w.gnames)-1]
		if err != nil {
			return err
		}
	}
	return nil
}

// `return f(args)` for a plain function of another file: its body with the parameters bound to the argument terms
func (w *c04Walker) inline(in [2]string, ce *ast.CallExpr) error {
	p := filepath.Join(w.repo, in[0])
	cf := c15FileCache[p]
	if cf == nil {
		var err error
		cf, err = c15Load(p)
		if err != nil {
			return err
		}
		c15FileCache[p] = cf
	}
	fd := cf.funcs[in[1]]
	if fd == nil || fd.Body == nil {
		return w.errf(ce, "%s not found in %s", in[1], in[0])
	}
	var params []string
	for _, f := range fd.Type.Params.List {
		for _, n := range f.Names {
			params = append(params, n.Name)
		}
	}
	if len(params) != len(ce.Args) {
		return w.errf(ce, "%s: argument count", in[1])
	}
	sub := &c04Walker{cf: cf, repo: w.repo, fn: w.fn, ints: map[string]string{}, strs: map[string]string{}, alias: map[string]string{},
		declared: c04Declared(fd), top: in[1], stack: append(append([]string{}, w.stack...), w.top), sites: w.sites}
	for i, a := range ce.Args {
		t, ok := w.term(a)
		if !ok {
			return w.errf(a, "%s: argument not followed: %s", in[1], w.text(a))
		}
		sub.ints[params[i]] = gTerm(t)
	}
	if err := sub.walk(fd.Body.List, vTrue, false); err != nil {
		return err
	}
	for _, s := range sub.steps {
		w.steps = append(w.steps, c04Step{s.coq, in[1] + ": " + s.name})
	}
	return nil
}

func c04Translate(repo string, cf *c15File, fn string) ([]c04Step, error) {
	fd := cf.funcs["Cluster."+fn]
	if fd == nil {
		fd = cf.funcs[fn]
	}
	if fd == nil || fd.Body == nil {
		return nil, fmt.Errorf("%s not found", fn)
	}
	w := &c04Walker{cf: cf, repo: repo, fn: fn, ints: map[string]string{}, strs: map[string]string{}, alias: map[string]string{}, declared: c04Declared(fd)}
	w.top = fn
	if fd.Recv != nil && len(fd.Recv.List) == 1 && len(fd.Recv.List[0].Names) == 1 {
		w.recvName, w.recvType = fd.Recv.List[0].Names[0].Name, c15TypeName(fd.Recv.List[0].Type)
		w.top = w.recvType + "." + fn
	}
	if err := w.walk(fd.Body.List, vTrue, false); err != nil {
		return nil, err
	}
	if len(w.steps) == 0 {
		return nil, fmt.Errorf("%s: no step", fn)
	}
	last := w.steps[len(w.steps)-1].coq
	if !strings.HasPrefix(last, "STail") && !strings.HasPrefix(last, "SGuard (GBool true)") {
		// a function whose last statement is a switch with a default returns in every case
		if !strings.HasPrefix(last, "SGuard") {
			return nil, fmt.Errorf("%s can end without a return", fn)
		}
	}
	return w.steps, nil
}

func c04Emit(repo string, cf *c15File) (string, error) {
	var b strings.Builder
	b.WriteString("(* GENERATED by tools/gen/c04guards.go from cluster.go / cluster_config.go at every check run. Do not edit.\n")
	b.WriteString("   Per function the ordered steps (guards with their outcome, effects, calls) and, in parallel, the source text of each step. *)\n")
	b.WriteString("From V Require Import Base.Common Model.C04_ClusterOps Model.C04_Guards.\nFrom Coq Require Import String.\nOpen Scope string_scope.\nOpen Scope Z_scope.\n\n")
	var t1, t2 []string
	for _, fn := range c04Funcs {
		steps, err := c04Translate(repo, cf, fn)
		if err != nil {
			return "", err
		}
		var rows, names []string
		for _, s := range steps {
			rows = append(rows, "  "+s.coq)
			names = append(names, "  "+coqStr(strings.ReplaceAll(s.name, "\"", "'")))
		}
		b.WriteString(fmt.Sprintf("Definition gen_steps_%s : list gstep := [\n%s\n].\n", fn, strings.Join(rows, ";\n")))
		b.WriteString(fmt.Sprintf("Definition gen_names_%s : list string := [\n%s\n].\n\n", fn, strings.Join(names, ";\n")))
		t1 = append(t1, fmt.Sprintf("(%s, gen_steps_%s)", coqStr(fn), fn))
		t2 = append(t2, fmt.Sprintf("(%s, gen_names_%s)", coqStr(fn), fn))
	}
	b.WriteString("Definition gen_guard_table : list (string * list gstep) := [\n  " + strings.Join(t1, ";\n  ") + "\n].\n\n")
	b.WriteString("Definition gen_guard_names : list (string * list string) := [\n  " + strings.Join(t2, ";\n  ") + "\n].\n")
	return b.String(), nil
}

func genC04Guards(repo string) (string, error) {
	if err := c04SelfTest(); err != nil {
		return "", fmt.Errorf("self-test of the guard translator: %v", err)
	}
	cf, err := c15Load(filepath.Join(repo, "cluster.go"))
	if err != nil {
		return "", err
	}
	return c04Emit(repo, cf)
}
