package main

import (
	"fmt"
	"go/ast"
	"path/filepath"
	"sort"
	"strconv"
	"strings"
)

// Gen/Policy.v: DefaultRPCPolicy map literal (rpc_policy.go), the RPC method set (exported methods of
// the *RPCAPI receiver types in rpc_api.go, named through RPCServiceID), and the shape of authF.
func init() { register("Policy", genPolicy) }

func genPolicy(repo string) (string, error) {
	_, pf, err := parseFile(filepath.Join(repo, "rpc_policy.go"))
	if err != nil {
		return "", err
	}
	var entries []string
	found := false
	ast.Inspect(pf, func(n ast.Node) bool {
		vs, ok := n.(*ast.ValueSpec)
		if !ok || len(vs.Names) != 1 || vs.Names[0].Name != "DefaultRPCPolicy" || len(vs.Values) != 1 {
			return true
		}
		cl, ok := vs.Values[0].(*ast.CompositeLit)
		if !ok {
			return true
		}
		found = true
		for _, e := range cl.Elts {
			kv, ok := e.(*ast.KeyValueExpr)
			if !ok {
				entries = append(entries, "(\"?\", Open)")
				continue
			}
			k, ok1 := kv.Key.(*ast.BasicLit)
			v, ok2 := kv.Value.(*ast.Ident)
			if !ok1 || !ok2 {
				// something the walk cannot follow: emit the most permissive type so obligations fail
				entries = append(entries, "(\"?\", Open)")
				continue
			}
			key, _ := strconv.Unquote(k.Value)
			t := map[string]string{"RPCClosed": "Closed", "RPCTrusted": "Trusted", "RPCOpen": "Open"}[v.Name]
			if t == "" {
				t = "Open"
			}
			entries = append(entries, fmt.Sprintf("(%s, %s)", coqStr(key), t))
		}
		return false
	})
	if !found {
		return "", fmt.Errorf("DefaultRPCPolicy literal not found")
	}
	_, af, err := parseFile(filepath.Join(repo, "rpc_api.go"))
	if err != nil {
		return "", err
	}
	// RPCServiceID type switch: receiver type -> service name
	svc := map[string]string{}
	ast.Inspect(af, func(n ast.Node) bool {
		fd, ok := n.(*ast.FuncDecl)
		if !ok || fd.Name.Name != "RPCServiceID" {
			return true
		}
		ast.Inspect(fd.Body, func(m ast.Node) bool {
			cc, ok := m.(*ast.CaseClause)
			if !ok || len(cc.List) != 1 || len(cc.Body) != 1 {
				return true
			}
			st, ok1 := cc.List[0].(*ast.StarExpr)
			rs, ok2 := cc.Body[0].(*ast.ReturnStmt)
			if !ok1 || !ok2 || len(rs.Results) != 1 {
				return true
			}
			id, ok3 := st.X.(*ast.Ident)
			lit, ok4 := rs.Results[0].(*ast.BasicLit)
			if ok3 && ok4 {
				s, _ := strconv.Unquote(lit.Value)
				svc[id.Name] = s
			}
			return true
		})
		return false
	})
	var methods []string
	for _, d := range af.Decls {
		fd, ok := d.(*ast.FuncDecl)
		if !ok || fd.Recv == nil || len(fd.Recv.List) != 1 || !fd.Name.IsExported() {
			continue
		}
		st, ok := fd.Recv.List[0].Type.(*ast.StarExpr)
		if !ok {
			continue
		}
		id, ok := st.X.(*ast.Ident)
		if !ok {
			continue
		}
		s, ok := svc[id.Name]
		if !ok {
			continue
		}
		methods = append(methods, s+"."+fd.Name.Name)
	}
	sort.Strings(methods)
	// the services registered by newRPCServer (RegisterName(RPCServiceID(x), x))
	nreg := 0
	ast.Inspect(af, func(n ast.Node) bool {
		fd, ok := n.(*ast.FuncDecl)
		if !ok || fd.Name.Name != "newRPCServer" {
			return true
		}
		ast.Inspect(fd.Body, func(m ast.Node) bool {
			if ce, ok := m.(*ast.CallExpr); ok {
				if se, ok := ce.Fun.(*ast.SelectorExpr); ok && se.Sel.Name == "RegisterName" {
					nreg++
				}
			}
			return true
		})
		return false
	})
	var b strings.Builder
	b.WriteString(genHeader)
	b.WriteString("From V Require Import Base.Rpc.\n\n")
	b.WriteString("Definition policy : list (string * ept) := [\n  " + strings.Join(entries, ";\n  ") + "\n].\n\n")
	b.WriteString("Definition rpc_methods : list string := " + coqStrList(methods) + ".\n\n")
	b.WriteString(fmt.Sprintf("Definition registered_services : nat := %d.\nDefinition known_services : nat := %d.\n", nreg, len(svc)))
	return b.String(), nil
}
