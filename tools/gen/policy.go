package main

import (
	"fmt"
	"go/ast"
	"go/parser"
	"go/token"
	"path/filepath"
	"sort"
	"strconv"
	"strings"
)

// Gen/Policy.v: the DefaultRPCPolicy map literal (rpc_policy.go) as `policy : list (string * ept)` and the
// decision function handed to rpc.WithAuthorizeFunc on every path to every rpc.NewServer call of newRPCServer
// (rpc_api.go) as `authf_gen` (second half of this file). Anything the walk cannot follow is an error naming file:line
// (the runner then reports the table as not regenerable).
func init() { register("Policy", genPolicy) }

var eptNames = map[string]string{"RPCClosed": "Closed", "RPCTrusted": "Trusted", "RPCOpen": "Open"}

func genPolicy(repo string) (string, error) {
	fset, pf, err := parseFile(filepath.Join(repo, "rpc_policy.go"))
	if err != nil {
		return "", err
	}
	var entries []string
	found := 0
	var werr error
	ast.Inspect(pf, func(n ast.Node) bool {
		vs, ok := n.(*ast.ValueSpec)
		if !ok {
			return true
		}
		for i, nm := range vs.Names {
			if nm.Name != "DefaultRPCPolicy" {
				continue
			}
			found++
			if len(vs.Values) != len(vs.Names) {
				werr = fmt.Errorf("DefaultRPCPolicy is not initialised by a literal")
				return false
			}
			cl, ok := vs.Values[i].(*ast.CompositeLit)
			if !ok {
				werr = fmt.Errorf("DefaultRPCPolicy is not a composite literal")
				return false
			}
			for _, e := range cl.Elts {
				kv, ok := e.(*ast.KeyValueExpr)
				if !ok {
					werr = fmt.Errorf("%s: policy element is not key: value", fset.Position(e.Pos()))
					return false
				}
				k, ok1 := kv.Key.(*ast.BasicLit)
				v, ok2 := kv.Value.(*ast.Ident)
				if !ok1 || k.Kind != token.STRING || !ok2 {
					werr = fmt.Errorf("%s: policy entry is not \"literal\": RPCxxx", fset.Position(e.Pos()))
					return false
				}
				key, err := strconv.Unquote(k.Value)
				if err != nil {
					werr = err
					return false
				}
				t := eptNames[v.Name]
				if t == "" {
					werr = fmt.Errorf("%s: unknown endpoint type %s", fset.Position(e.Pos()), v.Name)
					return false
				}
				entries = append(entries, fmt.Sprintf("(%s, %s)", coqStr(key), t))
			}
		}
		return true
	})
	if werr != nil {
		return "", werr
	}
	if found != 1 {
		return "", fmt.Errorf("DefaultRPCPolicy literal found %d times in rpc_policy.go", found)
	}
	// any other assignment to DefaultRPCPolicy / to an element of it in the root package would make the literal stale
	files, err := filepath.Glob(filepath.Join(repo, "*.go"))
	if err != nil {
		return "", err
	}
	for _, fn := range files {
		if strings.HasSuffix(fn, "_test.go") {
			continue
		}
		fs2, f, err := parseFile(fn)
		if err != nil {
			return "", err
		}
		ast.Inspect(f, func(n ast.Node) bool {
			as, ok := n.(*ast.AssignStmt)
			if !ok {
				return true
			}
			for _, l := range as.Lhs {
				if mentions(l, "DefaultRPCPolicy") {
					werr = fmt.Errorf("%s: DefaultRPCPolicy is written outside its literal", fs2.Position(as.Pos()))
				}
			}
			return true
		})
	}
	if werr != nil {
		return "", werr
	}

	authf, err := genAuthF(repo)
	if err != nil {
		return "", err
	}
	var b strings.Builder
	b.WriteString(genHeader)
	b.WriteString("From V Require Import Base.Rpc.\n\n")
	b.WriteString("Definition policy : list (string * ept) := [\n  " + strings.Join(entries, ";\n  ") + "\n].\n\n")
	b.WriteString(authf)
	return b.String(), nil
}

func mentions(e ast.Expr, name string) bool {
	r := false
	ast.Inspect(e, func(n ast.Node) bool {
		if id, ok := n.(*ast.Ident); ok && id.Name == name {
			r = true
		}
		return true
	})
	return r
}

// ---------------------------------------------------------------------------------------------------------------
// authf_gen: which function decides, and what it decides.
//
// 1. polFlow walks newRPCServer path by path (if / else fork the state; a return ends a path) and keeps, per path,
//    what the local variables hold that matter: a function (literal, or copy of one), one rpc.WithAuthorizeFunc(f)
//    option, or a slice of server options (`var opts []rpc.ServerOption`, a composite literal, `append(opts, ...)`).
//    At every rpc.NewServer call, on every path reaching it, the options (written out, or `opts...`) must hold
//    exactly one rpc.WithAuthorizeFunc(f). A call reachable with none (or two) is an error naming the call.
// 2. f is resolved to a declaration: a function literal, a local variable holding one, a method value `c.m`
//    (c a parameter of newRPCServer of a named type of this package) or a package-level function.
// 3. polEval runs the body of f on the eight concrete inputs (entry missing / Closed / Trusted / Open) x (caller
//    trusted or not): lookups in <...>.RPCPolicy with the key svc+"."+method (with or without `ok`), if / else,
//    switch (with or without tag), ==, !=, !, &&, ||, return; IsTrustedPeer(<ctx>, pid) is the trust oracle and its
//    second argument must be the pid parameter. Every other statement, call or operand is an error naming file:line.
//    The eight results are written as today's table: per entry `true`, `false`, `trusted` (or `negb trusted`).
// Several distinct functions reaching NewServer calls must give the same table.

type polPkg struct {
	fset  *token.FileSet
	files []*ast.File
}

func (p *polPkg) at(n ast.Node) string { return p.fset.Position(n.Pos()).String() }

func polLoad(repo string) (*polPkg, error) {
	names, err := filepath.Glob(filepath.Join(repo, "*.go"))
	if err != nil {
		return nil, err
	}
	p := &polPkg{fset: token.NewFileSet()}
	for _, fn := range names {
		if strings.HasSuffix(fn, "_test.go") {
			continue
		}
		f, err := parser.ParseFile(p.fset, fn, nil, 0)
		if err != nil {
			return nil, err
		}
		p.files = append(p.files, f)
	}
	return p, nil
}

func polParseSrc(src string) (*polPkg, error) {
	p := &polPkg{fset: token.NewFileSet()}
	f, err := parser.ParseFile(p.fset, "selftest.go", src, 0)
	if err != nil {
		return nil, err
	}
	p.files = []*ast.File{f}
	return p, nil
}

func genAuthF(repo string) (string, error) {
	if err := polSelfTest(); err != nil {
		return "", fmt.Errorf("self-test of the authorisation-function translator: %v", err)
	}
	p, err := polLoad(repo)
	if err != nil {
		return "", err
	}
	return polAuthTable(p)
}

// a function that may be handed to rpc.WithAuthorizeFunc
type polFn struct {
	what string
	typ  *ast.FuncType
	body *ast.BlockStmt
	node ast.Node
}

func (p *polPkg) funcDecls(recv, name string) []*ast.FuncDecl {
	var r []*ast.FuncDecl
	for _, f := range p.files {
		for _, d := range f.Decls {
			fd, ok := d.(*ast.FuncDecl)
			if !ok || fd.Name.Name != name {
				continue
			}
			if recv == "" {
				if fd.Recv == nil {
					r = append(r, fd)
				}
				continue
			}
			if fd.Recv == nil || len(fd.Recv.List) != 1 {
				continue
			}
			t := fd.Recv.List[0].Type
			if st, ok := t.(*ast.StarExpr); ok {
				t = st.X
			}
			if id, ok := t.(*ast.Ident); ok && id.Name == recv {
				r = append(r, fd)
			}
		}
	}
	return r
}

const (
	pvFn = iota + 1
	pvOpt
	pvSlice
)

type polOpt struct{ fn *polFn } // fn == nil: an option other than WithAuthorizeFunc

type polVal struct {
	kind  int
	fn    *polFn
	slice []polOpt
	depth int // block depth of the declaration
}

type polState struct{ env map[string]polVal }

func (s *polState) clone() *polState {
	n := &polState{env: map[string]polVal{}}
	for k, v := range s.env {
		n.env[k] = v
	}
	return n
}

func (s *polState) key() string {
	var ks []string
	for k, v := range s.env {
		x := fmt.Sprintf("%s@%d=%d:", k, v.depth, v.kind)
		if v.fn != nil {
			x += fmt.Sprint(v.fn.node.Pos())
		}
		for _, o := range v.slice {
			if o.fn == nil {
				x += "-,"
			} else {
				x += fmt.Sprint(o.fn.node.Pos()) + ","
			}
		}
		ks = append(ks, x)
	}
	sort.Strings(ks)
	return strings.Join(ks, ";")
}

type polFlow struct {
	p        *polPkg
	paramTyp map[string]string // parameter of newRPCServer -> named type (pointer stripped)
	fns      []*polFn          // distinct functions found in WithAuthorizeFunc on some path to NewServer
	servers  map[token.Pos]bool
}

func polAuthTable(p *polPkg) (string, error) {
	var fn *ast.FuncDecl
	n := 0
	for _, fd := range p.funcDecls("", "newRPCServer") {
		fn = fd
		n++
	}
	if n != 1 || fn.Body == nil {
		return "", fmt.Errorf("newRPCServer found %d times in the root package", n)
	}
	fl := &polFlow{p: p, paramTyp: map[string]string{}, servers: map[token.Pos]bool{}}
	for _, f := range fn.Type.Params.List {
		t := f.Type
		if st, ok := t.(*ast.StarExpr); ok {
			t = st.X
		}
		if id, ok := t.(*ast.Ident); ok {
			for _, nm := range f.Names {
				fl.paramTyp[nm.Name] = id.Name
			}
		}
	}
	if _, err := fl.exec(fn.Body.List, []*polState{{env: map[string]polVal{}}}, 0); err != nil {
		return "", err
	}
	if len(fl.servers) == 0 {
		return "", fmt.Errorf("%s: newRPCServer: no rpc.NewServer call found", p.at(fn))
	}
	table := ""
	for i, f := range fl.fns {
		t, err := polDecisionTable(p, f)
		if err != nil {
			return "", err
		}
		if i > 0 && t != table {
			return "", fmt.Errorf("%s: newRPCServer installs different authorisation functions on different paths (%s and %s decide differently)",
				p.at(f.node), fl.fns[0].what, f.what)
		}
		table = t
	}
	return table, nil
}

func polIsSel(e ast.Expr, name string) (*ast.CallExpr, bool) {
	ce, ok := e.(*ast.CallExpr)
	if !ok {
		return nil, false
	}
	se, ok := ce.Fun.(*ast.SelectorExpr)
	if !ok || se.Sel.Name != name {
		return nil, false
	}
	return ce, true
}

// touches: the first node under n that the flow walk would have to understand: a tracked variable, a NewServer /
// WithAuthorizeFunc call.
func (fl *polFlow) touches(n ast.Node, s *polState) ast.Node { return fl.touches2(n, s, true) }

// touchesCalls: the same without the variables (a followed variable may be returned, for instance)
func (fl *polFlow) touchesCalls(n ast.Node, s *polState) ast.Node { return fl.touches2(n, s, false) }

func (fl *polFlow) touches2(n ast.Node, s *polState, idents bool) ast.Node {
	if n == nil {
		return nil
	}
	var r ast.Node
	ast.Inspect(n, func(x ast.Node) bool {
		if r != nil {
			return false
		}
		switch y := x.(type) {
		case *ast.Ident:
			if _, ok := s.env[y.Name]; ok && idents {
				r = y
			}
		case *ast.SelectorExpr:
			if y.Sel.Name == "NewServer" || y.Sel.Name == "WithAuthorizeFunc" {
				r = y
			}
		}
		return r == nil
	})
	return r
}

func (fl *polFlow) notFollowed(n ast.Node, ctx string) error {
	return fmt.Errorf("%s: newRPCServer: %s: the translator does not follow this use of the server options / authorisation function", fl.p.at(n), ctx)
}

func (fl *polFlow) exec(stmts []ast.Stmt, states []*polState, depth int) ([]*polState, error) {
	for _, st := range stmts {
		var next []*polState
		seen := map[string]bool{}
		for _, s := range states {
			out, err := fl.step(st, s, depth)
			if err != nil {
				return nil, err
			}
			for _, o := range out {
				if k := o.key(); !seen[k] {
					seen[k] = true
					next = append(next, o)
				}
			}
		}
		if len(next) > 256 {
			return nil, fmt.Errorf("%s: newRPCServer: too many paths to follow", fl.p.at(st))
		}
		states = next
	}
	// leaving the block: its own declarations go out of scope
	if depth > 0 {
		for _, s := range states {
			for k, v := range s.env {
				if v.depth >= depth {
					delete(s.env, k)
				}
			}
		}
	}
	return states, nil
}

func (fl *polFlow) step(st ast.Stmt, s *polState, depth int) ([]*polState, error) {
	switch x := st.(type) {
	case *ast.EmptyStmt:
		return []*polState{s}, nil
	case *ast.BlockStmt:
		return fl.exec(x.List, []*polState{s.clone()}, depth+1)
	case *ast.ReturnStmt:
		for _, r := range x.Results {
			if ce, ok := polIsSel(r, "NewServer"); ok {
				if err := fl.server(ce, s); err != nil {
					return nil, err
				}
			} else if t := fl.touchesCalls(r, s); t != nil {
				return nil, fl.notFollowed(t, "return")
			}
		}
		return nil, nil
	case *ast.ExprStmt:
		if ce, ok := polIsSel(x.X, "NewServer"); ok {
			return []*polState{s}, fl.server(ce, s)
		}
		if t := fl.touches(x, s); t != nil {
			return nil, fl.notFollowed(t, "statement")
		}
		return []*polState{s}, nil
	case *ast.DeclStmt:
		gd, ok := x.Decl.(*ast.GenDecl)
		if !ok || gd.Tok != token.VAR {
			if t := fl.touches(x, s); t != nil {
				return nil, fl.notFollowed(t, "declaration")
			}
			return []*polState{s}, nil
		}
		n := s.clone()
		for _, sp := range gd.Specs {
			vs := sp.(*ast.ValueSpec)
			if len(vs.Values) == 0 {
				for _, nm := range vs.Names {
					if polIsOptSlice(vs.Type) {
						if err := fl.bind(n, nm, polVal{kind: pvSlice}, true, depth); err != nil {
							return nil, err
						}
					} else if _, tracked := n.env[nm.Name]; tracked {
						return nil, fl.notFollowed(nm, "declaration hides a followed variable")
					}
				}
				continue
			}
			if len(vs.Values) != len(vs.Names) {
				if t := fl.touches(vs, s); t != nil {
					return nil, fl.notFollowed(t, "declaration")
				}
				continue
			}
			lhs := make([]ast.Expr, len(vs.Names))
			for i, nm := range vs.Names {
				lhs[i] = nm
			}
			if err := fl.assign(lhs, vs.Values, true, s, n, depth); err != nil {
				return nil, err
			}
		}
		return []*polState{n}, nil
	case *ast.AssignStmt:
		if (x.Tok != token.ASSIGN && x.Tok != token.DEFINE) || len(x.Lhs) != len(x.Rhs) {
			if t := fl.touches(x, s); t != nil {
				return nil, fl.notFollowed(t, "assignment")
			}
			return []*polState{s}, nil
		}
		n := s.clone()
		if err := fl.assign(x.Lhs, x.Rhs, x.Tok == token.DEFINE, s, n, depth); err != nil {
			return nil, err
		}
		return []*polState{n}, nil
	case *ast.IfStmt:
		cur := s.clone()
		if x.Init != nil {
			out, err := fl.step(x.Init, cur, depth+1)
			if err != nil {
				return nil, err
			}
			if len(out) != 1 {
				return nil, fl.notFollowed(x.Init, "if initialiser")
			}
			cur = out[0]
		}
		if t := fl.touches(x.Cond, cur); t != nil {
			return nil, fl.notFollowed(t, "if condition")
		}
		res, err := fl.exec(x.Body.List, []*polState{cur.clone()}, depth+2)
		if err != nil {
			return nil, err
		}
		switch e := x.Else.(type) {
		case nil:
			res = append(res, cur.clone())
		case *ast.BlockStmt:
			r2, err := fl.exec(e.List, []*polState{cur.clone()}, depth+2)
			if err != nil {
				return nil, err
			}
			res = append(res, r2...)
		default: // else if
			r2, err := fl.exec([]ast.Stmt{e}, []*polState{cur.clone()}, depth+2)
			if err != nil {
				return nil, err
			}
			res = append(res, r2...)
		}
		// the initialiser's declarations go out of scope
		for _, r := range res {
			for k, v := range r.env {
				if v.depth >= depth+1 {
					delete(r.env, k)
				}
			}
		}
		return res, nil
	default:
		// loops, switches, go, defer, ...: fine as long as they stay away from what is followed
		if t := fl.touches(st, s); t != nil {
			return nil, fl.notFollowed(t, fmt.Sprintf("%T", st))
		}
		return []*polState{s}, nil
	}
}

func polIsOptSlice(t ast.Expr) bool {
	at, ok := t.(*ast.ArrayType)
	if !ok || at.Len != nil {
		return false
	}
	switch e := at.Elt.(type) {
	case *ast.SelectorExpr:
		return e.Sel.Name == "ServerOption"
	case *ast.Ident:
		return e.Name == "ServerOption"
	}
	return false
}

func (fl *polFlow) bind(n *polState, id *ast.Ident, v polVal, define bool, depth int) error {
	if id.Name == "_" {
		return nil
	}
	old, had := n.env[id.Name]
	switch {
	case had && define && old.depth < depth:
		return fl.notFollowed(id, "a followed variable is declared again in an inner block")
	case had:
		v.depth = old.depth
	default:
		// first binding (a plain assignment to a variable the walk did not follow so far, e.g. `var f func(...) bool`
		// declared earlier, is treated as declared here: conservative for the scope rule above)
		v.depth = depth
	}
	n.env[id.Name] = v
	return nil
}

// assign: rhs evaluated in the state before the statement (old), bindings written to n
func (fl *polFlow) assign(lhs, rhs []ast.Expr, define bool, old, n *polState, depth int) error {
	for i, r := range rhs {
		id, isId := lhs[i].(*ast.Ident)
		var v polVal
		switch e := r.(type) {
		case *ast.FuncLit:
			if t := fl.touches(e.Body, old); t != nil {
				return fl.notFollowed(t, "function literal")
			}
			v = polVal{kind: pvFn, fn: &polFn{what: "the function literal at " + fl.p.at(e), typ: e.Type, body: e.Body, node: e}}
		case *ast.CompositeLit:
			if !polIsOptSlice(e.Type) {
				if t := fl.touches(e, old); t != nil {
					return fl.notFollowed(t, "composite literal")
				}
			} else {
				v = polVal{kind: pvSlice}
				for _, el := range e.Elts {
					o, err := fl.option(el, old)
					if err != nil {
						return err
					}
					v.slice = append(v.slice, o...)
				}
			}
		case *ast.Ident:
			if tv, ok := old.env[e.Name]; ok {
				if tv.kind != pvFn {
					return fl.notFollowed(e, "copy of a followed variable")
				}
				v = polVal{kind: pvFn, fn: tv.fn}
			}
		case *ast.CallExpr:
			if ce, ok := polIsSel(r, "NewServer"); ok {
				if err := fl.server(ce, old); err != nil {
					return err
				}
			} else if _, ok := polIsSel(r, "WithAuthorizeFunc"); ok {
				o, err := fl.option(r, old)
				if err != nil {
					return err
				}
				v = polVal{kind: pvOpt, fn: o[0].fn}
			} else if fid, ok := e.Fun.(*ast.Ident); ok && fid.Name == "append" && len(e.Args) >= 1 {
				base, ok := e.Args[0].(*ast.Ident)
				tv, tracked := polVal{}, false
				if ok {
					tv, tracked = old.env[base.Name]
				}
				if !tracked || tv.kind != pvSlice || e.Ellipsis.IsValid() {
					if t := fl.touches(e, old); t != nil {
						return fl.notFollowed(t, "append")
					}
				} else {
					v = polVal{kind: pvSlice, slice: append([]polOpt{}, tv.slice...)}
					for _, a := range e.Args[1:] {
						o, err := fl.option(a, old)
						if err != nil {
							return err
						}
						v.slice = append(v.slice, o...)
					}
				}
			} else if t := fl.touches(r, old); t != nil {
				return fl.notFollowed(t, "call")
			}
		default:
			if t := fl.touches(r, old); t != nil {
				return fl.notFollowed(t, "assignment")
			}
		}
		if v.kind == 0 {
			// nothing followed on the right: the left side must not be (or contain) a followed variable
			if t := fl.touches(lhs[i], old); t != nil {
				return fl.notFollowed(t, "a followed variable is overwritten with something else")
			}
			continue
		}
		if !isId {
			return fl.notFollowed(lhs[i], "followed value stored somewhere else than a local variable")
		}
		if err := fl.bind(n, id, v, define, depth); err != nil {
			return err
		}
	}
	return nil
}

// option: one argument of NewServer / element appended to the options
func (fl *polFlow) option(e ast.Expr, s *polState) ([]polOpt, error) {
	if ce, ok := polIsSel(e, "WithAuthorizeFunc"); ok {
		if len(ce.Args) != 1 || ce.Ellipsis.IsValid() {
			return nil, fl.notFollowed(ce, "WithAuthorizeFunc")
		}
		f, err := fl.resolve(ce.Args[0], s)
		if err != nil {
			return nil, err
		}
		return []polOpt{{fn: f}}, nil
	}
	if id, ok := e.(*ast.Ident); ok {
		if tv, ok := s.env[id.Name]; ok {
			if tv.kind != pvOpt {
				return nil, fl.notFollowed(e, "server option")
			}
			return []polOpt{{fn: tv.fn}}, nil
		}
	}
	// any other option must be a plain <pkg>.WithXxx(...) call that involves nothing followed
	if ce, ok := e.(*ast.CallExpr); ok {
		if se, ok := ce.Fun.(*ast.SelectorExpr); ok && strings.HasPrefix(se.Sel.Name, "With") {
			if _, ok := se.X.(*ast.Ident); ok && fl.touches(e, s) == nil {
				return []polOpt{{}}, nil
			}
		}
	}
	return nil, fmt.Errorf("%s: newRPCServer: server option is neither rpc.WithAuthorizeFunc(f) nor another <pkg>.WithXxx(...) call: it could carry an authorisation function the translator does not see", fl.p.at(e))
}

func (fl *polFlow) server(ce *ast.CallExpr, s *polState) error {
	fl.servers[ce.Pos()] = true
	if len(ce.Args) < 2 {
		return fl.notFollowed(ce, "NewServer")
	}
	for _, a := range ce.Args[:2] {
		if t := fl.touches(a, s); t != nil {
			return fl.notFollowed(t, "NewServer")
		}
	}
	var opts []polOpt
	for i, a := range ce.Args[2:] {
		if ce.Ellipsis.IsValid() && i == len(ce.Args)-3 {
			id, ok := a.(*ast.Ident)
			tv, tracked := polVal{}, false
			if ok {
				tv, tracked = s.env[id.Name]
			}
			if !tracked || tv.kind != pvSlice {
				return fmt.Errorf("%s: newRPCServer: rpc.NewServer is given `%s...`, which is not a local options slice the translator followed from its declaration", fl.p.at(a), polText(a))
			}
			opts = append(opts, tv.slice...)
			continue
		}
		o, err := fl.option(a, s)
		if err != nil {
			return err
		}
		opts = append(opts, o...)
	}
	var auth []*polFn
	for _, o := range opts {
		if o.fn != nil {
			auth = append(auth, o.fn)
		}
	}
	if len(auth) != 1 {
		return fmt.Errorf("%s: newRPCServer: this rpc.NewServer call is reachable on a path where its options hold %d rpc.WithAuthorizeFunc(...) (exactly one is required on every path: without it every remote call is served)", fl.p.at(ce), len(auth))
	}
	for _, f := range fl.fns {
		if f.node == auth[0].node {
			return nil
		}
	}
	fl.fns = append(fl.fns, auth[0])
	return nil
}

func polText(e ast.Expr) string {
	switch x := e.(type) {
	case *ast.Ident:
		return x.Name
	case *ast.SelectorExpr:
		return polText(x.X) + "." + x.Sel.Name
	}
	return fmt.Sprintf("%T", e)
}

// resolve the argument of WithAuthorizeFunc to a declaration with a body
func (fl *polFlow) resolve(e ast.Expr, s *polState) (*polFn, error) {
	switch x := e.(type) {
	case *ast.ParenExpr:
		return fl.resolve(x.X, s)
	case *ast.FuncLit:
		return &polFn{what: "the function literal at " + fl.p.at(x), typ: x.Type, body: x.Body, node: x}, nil
	case *ast.Ident:
		if tv, ok := s.env[x.Name]; ok {
			if tv.kind != pvFn {
				return nil, fmt.Errorf("%s: newRPCServer: WithAuthorizeFunc(%s): %s does not hold a function here", fl.p.at(x), x.Name, x.Name)
			}
			return tv.fn, nil
		}
		ds := fl.p.funcDecls("", x.Name)
		if len(ds) != 1 || ds[0].Body == nil {
			return nil, fmt.Errorf("%s: newRPCServer: WithAuthorizeFunc(%s): %s is neither a local variable assigned from a function literal on this path nor a package-level function (%d declarations)", fl.p.at(x), x.Name, x.Name, len(ds))
		}
		return &polFn{what: "func " + x.Name, typ: ds[0].Type, body: ds[0].Body, node: ds[0]}, nil
	case *ast.SelectorExpr:
		id, ok := x.X.(*ast.Ident)
		if !ok {
			break
		}
		if _, tracked := s.env[id.Name]; tracked {
			break
		}
		typ := fl.paramTyp[id.Name]
		if typ == "" {
			return nil, fmt.Errorf("%s: newRPCServer: WithAuthorizeFunc(%s): %s is not a parameter of newRPCServer of a named type of this package", fl.p.at(x), polText(x), id.Name)
		}
		ds := fl.p.funcDecls(typ, x.Sel.Name)
		if len(ds) != 1 || ds[0].Body == nil {
			return nil, fmt.Errorf("%s: newRPCServer: WithAuthorizeFunc(%s): %d declarations of method %s.%s in the root package (a field holding a function is not followed)", fl.p.at(x), polText(x), len(ds), typ, x.Sel.Name)
		}
		return &polFn{what: "method " + typ + "." + x.Sel.Name, typ: ds[0].Type, body: ds[0].Body, node: ds[0]}, nil
	}
	return nil, fmt.Errorf("%s: newRPCServer: the argument of WithAuthorizeFunc is not a function literal, a local variable holding one, a method value or a package-level function", fl.p.at(e))
}

// ---- evaluation of the decision function -------------------------------------------------------------------

const (
	evBool = iota + 1
	evEpt
	evMap
	evKey
)

type polV struct {
	k int
	b bool
	e string // Closed / Trusted / Open
}

type polEv struct {
	p                *polPkg
	pid, svc, method string
	entry            string // "" = no entry in the map
	trusted          bool
	zero             string // the endpoint type whose value is 0 ("" = not determined)
	scopes           []map[string]polV
}

func (ev *polEv) errAt(n ast.Node, f string, a ...interface{}) error {
	return fmt.Errorf("%s: authorisation function: %s", ev.p.at(n), fmt.Sprintf(f, a...))
}

// the constant of RPCEndpointType with value 0: `const ( A RPCEndpointType = iota; B; C )`
func (p *polPkg) zeroEpt() string {
	for _, f := range p.files {
		for _, d := range f.Decls {
			gd, ok := d.(*ast.GenDecl)
			if !ok || gd.Tok != token.CONST || len(gd.Specs) == 0 {
				continue
			}
			vs := gd.Specs[0].(*ast.ValueSpec)
			t, ok := vs.Type.(*ast.Ident)
			if !ok || t.Name != "RPCEndpointType" || len(vs.Names) != 1 || len(vs.Values) != 1 {
				continue
			}
			if v, ok := vs.Values[0].(*ast.Ident); ok && v.Name == "iota" {
				return eptNames[vs.Names[0].Name]
			}
		}
	}
	return ""
}

func polDecisionTable(p *polPkg, f *polFn) (string, error) {
	var params []string
	for _, fld := range f.typ.Params.List {
		for _, n := range fld.Names {
			params = append(params, n.Name)
		}
	}
	if len(params) != 3 || f.typ.Results == nil || len(f.typ.Results.List) != 1 {
		return "", fmt.Errorf("%s: %s: expected three named parameters (caller, service, method) and one result", p.at(f.node), f.what)
	}
	if id, ok := f.typ.Results.List[0].Type.(*ast.Ident); !ok || id.Name != "bool" || len(f.typ.Results.List[0].Names) != 0 {
		return "", fmt.Errorf("%s: %s: the result is not an unnamed bool", p.at(f.node), f.what)
	}
	// the parameters are never written
	var werr error
	ast.Inspect(f.body, func(n ast.Node) bool {
		var lhs []ast.Expr
		switch x := n.(type) {
		case *ast.AssignStmt:
			lhs = x.Lhs
		case *ast.IncDecStmt:
			lhs = []ast.Expr{x.X}
		case *ast.UnaryExpr:
			if x.Op == token.AND {
				lhs = []ast.Expr{x.X}
			}
		case *ast.ValueSpec:
			for _, nm := range x.Names {
				lhs = append(lhs, nm)
			}
		case *ast.RangeStmt:
			lhs = []ast.Expr{x.Key, x.Value}
		}
		for _, l := range lhs {
			if id, ok := l.(*ast.Ident); ok && id.Name != "_" && (id.Name == params[0] || id.Name == params[1] || id.Name == params[2]) {
				werr = fmt.Errorf("%s: authorisation function: parameter %s is written or declared again", p.at(id), id.Name)
			}
		}
		return true
	})
	if werr != nil {
		return "", werr
	}
	zero := p.zeroEpt()
	rows := map[string]string{}
	for _, entry := range []string{"", "Closed", "Trusted", "Open"} {
		var r [2]bool
		for i, tr := range []bool{false, true} {
			ev := &polEv{p: p, pid: params[0], svc: params[1], method: params[2], entry: entry, trusted: tr, zero: zero}
			v, done, err := ev.block(f.body.List)
			if err != nil {
				return "", err
			}
			if !done {
				return "", ev.errAt(f.body, "the body can end without a return")
			}
			r[i] = v.b
		}
		switch {
		case r[0] == r[1]:
			rows[entry] = strconv.FormatBool(r[0])
		case r[1]:
			rows[entry] = "trusted"
		default:
			rows[entry] = "negb trusted"
		}
	}
	var b strings.Builder
	b.WriteString("(* authF of newRPCServer: entry found in the policy map (or not) and consensus.IsTrustedPeer(caller) -> allow *)\n")
	b.WriteString("Definition authf_gen (e : option ept) (trusted : bool) : bool :=\n  match e with\n")
	b.WriteString("  | None => " + rows[""] + "\n")
	for _, t := range []string{"Closed", "Trusted", "Open"} {
		b.WriteString("  | Some " + t + " => " + rows[t] + "\n")
	}
	b.WriteString("  end.\n")
	return b.String(), nil
}

func (ev *polEv) lookup(name string) (polV, bool) {
	for i := len(ev.scopes) - 1; i >= 0; i-- {
		if v, ok := ev.scopes[i][name]; ok {
			return v, true
		}
	}
	return polV{}, false
}

func (ev *polEv) set(id *ast.Ident, v polV, define bool) error {
	if id.Name == "_" {
		return nil
	}
	if define {
		ev.scopes[len(ev.scopes)-1][id.Name] = v
		return nil
	}
	for i := len(ev.scopes) - 1; i >= 0; i-- {
		if _, ok := ev.scopes[i][id.Name]; ok {
			ev.scopes[i][id.Name] = v
			return nil
		}
	}
	return ev.errAt(id, "assignment to %s, which is not a local variable of the function", id.Name)
}

func (ev *polEv) block(stmts []ast.Stmt) (polV, bool, error) {
	ev.scopes = append(ev.scopes, map[string]polV{})
	defer func() { ev.scopes = ev.scopes[:len(ev.scopes)-1] }()
	for _, st := range stmts {
		v, done, err := ev.stmt(st)
		if err != nil || done {
			return v, done, err
		}
	}
	return polV{}, false, nil
}

func (ev *polEv) stmt(st ast.Stmt) (polV, bool, error) {
	none := polV{}
	switch x := st.(type) {
	case *ast.EmptyStmt:
		return none, false, nil
	case *ast.BlockStmt:
		return ev.block(x.List)
	case *ast.ReturnStmt:
		if len(x.Results) != 1 {
			return none, false, ev.errAt(x, "return without exactly one value")
		}
		v, err := ev.eval(x.Results[0])
		if err != nil {
			return none, false, err
		}
		if v.k != evBool {
			return none, false, ev.errAt(x, "the returned value is not a boolean the translator can evaluate")
		}
		return v, true, nil
	case *ast.AssignStmt:
		if x.Tok != token.DEFINE && x.Tok != token.ASSIGN {
			return none, false, ev.errAt(x, "assignment operator %s is not evaluated", x.Tok)
		}
		ids := make([]*ast.Ident, len(x.Lhs))
		for i, l := range x.Lhs {
			id, ok := l.(*ast.Ident)
			if !ok {
				return none, false, ev.errAt(l, "assignment to something else than a local variable")
			}
			ids[i] = id
		}
		if len(x.Lhs) == 2 && len(x.Rhs) == 1 {
			ix, ok := x.Rhs[0].(*ast.IndexExpr)
			if !ok {
				return none, false, ev.errAt(x, "two-value assignment that is not a map lookup")
			}
			v, err := ev.index(ix, true)
			if err != nil {
				return none, false, err
			}
			if err := ev.set(ids[0], v, x.Tok == token.DEFINE); err != nil {
				return none, false, err
			}
			return none, false, ev.set(ids[1], polV{k: evBool, b: ev.entry != ""}, x.Tok == token.DEFINE)
		}
		if len(x.Lhs) != len(x.Rhs) {
			return none, false, ev.errAt(x, "assignment shape not evaluated")
		}
		vals := make([]polV, len(x.Rhs))
		for i, r := range x.Rhs {
			v, err := ev.eval(r)
			if err != nil {
				return none, false, err
			}
			vals[i] = v
		}
		for i, id := range ids {
			if err := ev.set(id, vals[i], x.Tok == token.DEFINE); err != nil {
				return none, false, err
			}
		}
		return none, false, nil
	case *ast.IfStmt:
		ev.scopes = append(ev.scopes, map[string]polV{})
		defer func() { ev.scopes = ev.scopes[:len(ev.scopes)-1] }()
		if x.Init != nil {
			if _, done, err := ev.stmt(x.Init); err != nil || done {
				return none, false, firstErr(err, ev.errAt(x.Init, "if initialiser not evaluated"))
			}
		}
		c, err := ev.eval(x.Cond)
		if err != nil {
			return none, false, err
		}
		if c.k != evBool {
			return none, false, ev.errAt(x.Cond, "condition is not a boolean the translator can evaluate")
		}
		if c.b {
			return ev.block(x.Body.List)
		}
		if x.Else != nil {
			return ev.stmt(x.Else)
		}
		return none, false, nil
	case *ast.SwitchStmt:
		ev.scopes = append(ev.scopes, map[string]polV{})
		defer func() { ev.scopes = ev.scopes[:len(ev.scopes)-1] }()
		if x.Init != nil {
			if _, done, err := ev.stmt(x.Init); err != nil || done {
				return none, false, firstErr(err, ev.errAt(x.Init, "switch initialiser not evaluated"))
			}
		}
		tag := polV{k: evBool, b: true}
		if x.Tag != nil {
			t, err := ev.eval(x.Tag)
			if err != nil {
				return none, false, err
			}
			tag = t
		}
		var chosen, def *ast.CaseClause
	clauses:
		for _, c := range x.Body.List {
			cc := c.(*ast.CaseClause)
			if cc.List == nil {
				def = cc
				continue
			}
			for _, e := range cc.List {
				v, err := ev.eval(e)
				if err != nil {
					return none, false, err
				}
				eq, err := ev.equal(e, tag, v)
				if err != nil {
					return none, false, err
				}
				if eq {
					chosen = cc
					break clauses
				}
			}
		}
		if chosen == nil {
			chosen = def
		}
		if chosen == nil {
			return none, false, nil
		}
		return ev.block(chosen.Body) // break / fallthrough inside are refused by stmt
	case *ast.ExprStmt:
		return none, false, ev.errAt(x, "statement `%s(...)` is not evaluated (only lookups in the policy map, if, switch and return are)", polCallName(x.X))
	}
	return none, false, ev.errAt(st, "statement of kind %T is not evaluated (only lookups in the policy map, if, switch and return are)", st)
}

func firstErr(a, b error) error {
	if a != nil {
		return a
	}
	return b
}

func polCallName(e ast.Expr) string {
	if ce, ok := e.(*ast.CallExpr); ok {
		return polText(ce.Fun)
	}
	return polText(e)
}

func (ev *polEv) equal(at ast.Node, a, b polV) (bool, error) {
	if a.k != b.k || (a.k != evBool && a.k != evEpt) {
		return false, ev.errAt(at, "comparison of operands the translator cannot evaluate")
	}
	if a.k == evBool {
		return a.b == b.b, nil
	}
	return a.e == b.e, nil
}

// index: <policy map>[svc+"."+method]
func (ev *polEv) index(ix *ast.IndexExpr, commaOk bool) (polV, error) {
	m, err := ev.eval(ix.X)
	if err != nil {
		return polV{}, err
	}
	if m.k != evMap {
		return polV{}, ev.errAt(ix.X, "the map looked up is not <config>.RPCPolicy")
	}
	k, err := ev.eval(ix.Index)
	if err != nil {
		return polV{}, err
	}
	if k.k != evKey {
		return polV{}, ev.errAt(ix.Index, "the lookup key is not %s+\".\"+%s", ev.svc, ev.method)
	}
	if ev.entry != "" {
		return polV{k: evEpt, e: ev.entry}, nil
	}
	if ev.zero == "" {
		return polV{}, ev.errAt(ix, "the value of a missing entry (the zero RPCEndpointType) could not be determined from the const block")
	}
	return polV{k: evEpt, e: ev.zero}, nil
}

func (ev *polEv) eval(e ast.Expr) (polV, error) {
	switch x := e.(type) {
	case *ast.ParenExpr:
		return ev.eval(x.X)
	case *ast.Ident:
		if v, ok := ev.lookup(x.Name); ok {
			return v, nil
		}
		switch x.Name {
		case "true", "false":
			return polV{k: evBool, b: x.Name == "true"}, nil
		}
		if t := eptNames[x.Name]; t != "" {
			return polV{k: evEpt, e: t}, nil
		}
		return polV{}, ev.errAt(x, "identifier %s is not a value the translator can evaluate", x.Name)
	case *ast.UnaryExpr:
		if x.Op != token.NOT {
			break
		}
		v, err := ev.eval(x.X)
		if err != nil {
			return polV{}, err
		}
		if v.k != evBool {
			return polV{}, ev.errAt(x, "! applied to something that is not a boolean")
		}
		return polV{k: evBool, b: !v.b}, nil
	case *ast.BinaryExpr:
		switch x.Op {
		case token.LAND, token.LOR:
			l, err := ev.eval(x.X)
			if err != nil {
				return polV{}, err
			}
			if l.k != evBool {
				return polV{}, ev.errAt(x.X, "operand of %s is not a boolean", x.Op)
			}
			if l.b == (x.Op == token.LOR) { // short circuit, as Go does
				return l, nil
			}
			r, err := ev.eval(x.Y)
			if err != nil {
				return polV{}, err
			}
			if r.k != evBool {
				return polV{}, ev.errAt(x.Y, "operand of %s is not a boolean", x.Op)
			}
			return r, nil
		case token.EQL, token.NEQ:
			l, err := ev.eval(x.X)
			if err != nil {
				return polV{}, err
			}
			r, err := ev.eval(x.Y)
			if err != nil {
				return polV{}, err
			}
			eq, err := ev.equal(x, l, r)
			if err != nil {
				return polV{}, err
			}
			return polV{k: evBool, b: eq == (x.Op == token.EQL)}, nil
		case token.ADD:
			if isSvcDotMethod(x, ev.svc, ev.method) {
				return polV{k: evKey}, nil
			}
			return polV{}, ev.errAt(x, "string expression is not %s+\".\"+%s", ev.svc, ev.method)
		}
	case *ast.SelectorExpr:
		if x.Sel.Name == "RPCPolicy" {
			return polV{k: evMap}, nil
		}
		return polV{}, ev.errAt(x, "%s is not a value the translator can evaluate", polText(x))
	case *ast.IndexExpr:
		return ev.index(x, false)
	case *ast.CallExpr:
		se, ok := x.Fun.(*ast.SelectorExpr)
		if !ok || se.Sel.Name != "IsTrustedPeer" {
			return polV{}, ev.errAt(x, "call of %s is not evaluated (only IsTrustedPeer(ctx, %s) is)", polText(x.Fun), ev.pid)
		}
		if len(x.Args) != 2 || x.Ellipsis.IsValid() {
			return polV{}, ev.errAt(x, "IsTrustedPeer is not called with (ctx, %s)", ev.pid)
		}
		if id, ok := x.Args[1].(*ast.Ident); !ok || id.Name != ev.pid {
			return polV{}, ev.errAt(x.Args[1], "IsTrustedPeer is asked about something else than the caller (%s)", ev.pid)
		} else if _, shadowed := ev.lookup(id.Name); shadowed {
			return polV{}, ev.errAt(x.Args[1], "IsTrustedPeer is asked about a local variable hiding the caller parameter")
		}
		return polV{k: evBool, b: ev.trusted}, nil
	}
	return polV{}, ev.errAt(e, "expression of kind %T is not evaluated", e)
}

func isSvcDotMethod(e ast.Expr, svc, method string) bool {
	b1, ok := e.(*ast.BinaryExpr)
	if !ok || b1.Op != token.ADD {
		return false
	}
	m, ok := b1.Y.(*ast.Ident)
	if !ok || m.Name != method {
		return false
	}
	b2, ok := b1.X.(*ast.BinaryExpr)
	if !ok || b2.Op != token.ADD {
		return false
	}
	s, ok1 := b2.X.(*ast.Ident)
	dot, ok2 := b2.Y.(*ast.BasicLit)
	return ok1 && ok2 && s.Name == svc && dot.Value == "\".\""
}
