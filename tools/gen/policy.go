package main

import (
	"fmt"
	"go/ast"
	"go/token"
	"path/filepath"
	"strconv"
	"strings"
)

// Gen/Policy.v: the DefaultRPCPolicy map literal (rpc_policy.go) as `policy : list (string * ept)` and the
// decision function installed by newRPCServer (rpc_api.go, the `authF` literal) as `authf_gen`.
// Anything the walk cannot follow is an error (the runner then reports the table as not regenerable).
func init() { register("Policy", genPolicy) }

var eptNames = map[string]string{"RPCClosed": "Closed", "RPCTrusted": "Trusted", "RPCOpen": "Open"}

func genPolicy(repo string) (string, error) {
	fset, pf, err := parseFile(filepath.Join(repo, "rpc_policy.go"))
	if err != nil {
		return "", err
	}
	var entries []string
	found := 0
	var werr error
	ast.Inspect(pf, func(n ast.Node) bool {
		vs, ok := n.(*ast.ValueSpec)
		if !ok {
			return true
		}
		for i, nm := range vs.Names {
			if nm.Name != "DefaultRPCPolicy" {
				continue
			}
			found++
			if len(vs.Values) != len(vs.Names) {
				werr = fmt.Errorf("DefaultRPCPolicy is not initialised by a literal")
				return false
			}
			cl, ok := vs.Values[i].(*ast.CompositeLit)
			if !ok {
				werr = fmt.Errorf("DefaultRPCPolicy is not a composite literal")
				return false
			}
			for _, e := range cl.Elts {
				kv, ok := e.(*ast.KeyValueExpr)
				if !ok {
					werr = fmt.Errorf("%s: policy element is not key: value", fset.Position(e.Pos()))
					return false
				}
				k, ok1 := kv.Key.(*ast.BasicLit)
				v, ok2 := kv.Value.(*ast.Ident)
				if !ok1 || k.Kind != token.STRING || !ok2 {
					werr = fmt.Errorf("%s: policy entry is not \"literal\": RPCxxx", fset.Position(e.Pos()))
					return false
				}
				key, err := strconv.Unquote(k.Value)
				if err != nil {
					werr = err
					return false
				}
				t := eptNames[v.Name]
				if t == "" {
					werr = fmt.Errorf("%s: unknown endpoint type %s", fset.Position(e.Pos()), v.Name)
					return false
				}
				entries = append(entries, fmt.Sprintf("(%s, %s)", coqStr(key), t))
			}
		}
		return true
	})
	if werr != nil {
		return "", werr
	}
	if found != 1 {
		return "", fmt.Errorf("DefaultRPCPolicy literal found %d times in rpc_policy.go", found)
	}
	// any other assignment to DefaultRPCPolicy / to an element of it in the root package would make the literal stale
	files, err := filepath.Glob(filepath.Join(repo, "*.go"))
	if err != nil {
		return "", err
	}
	for _, fn := range files {
		if strings.HasSuffix(fn, "_test.go") {
			continue
		}
		fs2, f, err := parseFile(fn)
		if err != nil {
			return "", err
		}
		ast.Inspect(f, func(n ast.Node) bool {
			as, ok := n.(*ast.AssignStmt)
			if !ok {
				return true
			}
			for _, l := range as.Lhs {
				if mentions(l, "DefaultRPCPolicy") {
					werr = fmt.Errorf("%s: DefaultRPCPolicy is written outside its literal", fs2.Position(as.Pos()))
				}
			}
			return true
		})
	}
	if werr != nil {
		return "", werr
	}

	authf, err := genAuthF(repo)
	if err != nil {
		return "", err
	}
	var b strings.Builder
	b.WriteString(genHeader)
	b.WriteString("From V Require Import Base.Rpc.\n\n")
	b.WriteString("Definition policy : list (string * ept) := [\n  " + strings.Join(entries, ";\n  ") + "\n].\n\n")
	b.WriteString(authf)
	return b.String(), nil
}

func mentions(e ast.Expr, name string) bool {
	r := false
	ast.Inspect(e, func(n ast.Node) bool {
		if id, ok := n.(*ast.Ident); ok && id.Name == name {
			r = true
		}
		return true
	})
	return r
}

// genAuthF follows exactly this shape of the literal assigned to `authF` in newRPCServer:
//
//	func(pid peer.ID, svc, method string) bool {
//		t, ok := c.config.RPCPolicy[svc+"."+method]
//		if !ok { return <bool> }
//		switch t { case RPCxxx[, ...]: return <r> ... default: return <r> }
//	}
//
// where <r> is true, false or <something>.IsTrustedPeer(<ctx>, pid). It also requires that the literal is
// what is handed to rpc.WithAuthorizeFunc at every rpc.NewServer call of newRPCServer.
func genAuthF(repo string) (string, error) {
	fset, af, err := parseFile(filepath.Join(repo, "rpc_api.go"))
	if err != nil {
		return "", err
	}
	var fn *ast.FuncDecl
	for _, d := range af.Decls {
		if fd, ok := d.(*ast.FuncDecl); ok && fd.Recv == nil && fd.Name.Name == "newRPCServer" {
			fn = fd
		}
	}
	if fn == nil {
		return "", fmt.Errorf("newRPCServer not found in rpc_api.go")
	}
	var lit *ast.FuncLit
	nAssign := 0
	ast.Inspect(fn.Body, func(n ast.Node) bool {
		as, ok := n.(*ast.AssignStmt)
		if !ok {
			return true
		}
		for i, l := range as.Lhs {
			if id, ok := l.(*ast.Ident); ok && id.Name == "authF" {
				nAssign++
				if len(as.Rhs) == len(as.Lhs) {
					lit, _ = as.Rhs[i].(*ast.FuncLit)
				}
			}
		}
		return true
	})
	if nAssign != 1 || lit == nil {
		return "", fmt.Errorf("newRPCServer: authF is not assigned exactly once from a function literal")
	}
	// every rpc.NewServer call carries rpc.WithAuthorizeFunc(authF)
	nServers, nWith := 0, 0
	ast.Inspect(fn.Body, func(n ast.Node) bool {
		ce, ok := n.(*ast.CallExpr)
		if !ok {
			return true
		}
		se, ok := ce.Fun.(*ast.SelectorExpr)
		if !ok || se.Sel.Name != "NewServer" {
			return true
		}
		nServers++
		for _, a := range ce.Args {
			if c2, ok := a.(*ast.CallExpr); ok {
				if s2, ok := c2.Fun.(*ast.SelectorExpr); ok && s2.Sel.Name == "WithAuthorizeFunc" && len(c2.Args) == 1 {
					if id, ok := c2.Args[0].(*ast.Ident); ok && id.Name == "authF" {
						nWith++
					}
				}
			}
		}
		return true
	})
	if nServers == 0 || nServers != nWith {
		return "", fmt.Errorf("newRPCServer: %d rpc.NewServer calls but %d carry rpc.WithAuthorizeFunc(authF)", nServers, nWith)
	}
	// parameters
	var params []string
	for _, f := range lit.Type.Params.List {
		for _, n := range f.Names {
			params = append(params, n.Name)
		}
	}
	if len(params) != 3 {
		return "", fmt.Errorf("authF: expected 3 named parameters")
	}
	pid, svc, method := params[0], params[1], params[2]
	st := lit.Body.List
	if len(st) != 3 {
		return "", fmt.Errorf("%s: authF body has %d statements, expected lookup; if !ok; switch", fset.Position(lit.Pos()), len(st))
	}
	// 1. t, ok := <...>.RPCPolicy[svc+"."+method]
	as, ok := st[0].(*ast.AssignStmt)
	if !ok || len(as.Lhs) != 2 || len(as.Rhs) != 1 {
		return "", fmt.Errorf("authF: first statement is not a two-value map lookup")
	}
	tv, ok1 := as.Lhs[0].(*ast.Ident)
	okv, ok2 := as.Lhs[1].(*ast.Ident)
	ix, ok3 := as.Rhs[0].(*ast.IndexExpr)
	if !ok1 || !ok2 || !ok3 {
		return "", fmt.Errorf("authF: first statement is not a two-value map lookup")
	}
	if sel, ok := ix.X.(*ast.SelectorExpr); !ok || sel.Sel.Name != "RPCPolicy" {
		return "", fmt.Errorf("authF: the map looked up is not <config>.RPCPolicy")
	}
	if !isSvcDotMethod(ix.Index, svc, method) {
		return "", fmt.Errorf("authF: the lookup key is not %s+\".\"+%s", svc, method)
	}
	// 2. if !ok { return <bool> }
	ifs, ok := st[1].(*ast.IfStmt)
	if !ok || ifs.Init != nil || ifs.Else != nil || len(ifs.Body.List) != 1 {
		return "", fmt.Errorf("authF: second statement is not `if !ok { return ... }`")
	}
	un, ok := ifs.Cond.(*ast.UnaryExpr)
	if !ok || un.Op != token.NOT {
		return "", fmt.Errorf("authF: second statement does not test !ok")
	}
	if id, ok := un.X.(*ast.Ident); !ok || id.Name != okv.Name {
		return "", fmt.Errorf("authF: second statement does not test !ok")
	}
	missing, err := authRet(ifs.Body.List[0], pid)
	if err != nil {
		return "", err
	}
	// 3. switch t { ... }
	sw, ok := st[2].(*ast.SwitchStmt)
	if !ok || sw.Init != nil {
		return "", fmt.Errorf("authF: third statement is not a switch")
	}
	if id, ok := sw.Tag.(*ast.Ident); !ok || id.Name != tv.Name {
		return "", fmt.Errorf("authF: the switch is not on the looked-up endpoint type")
	}
	res := map[string]string{}
	def := ""
	for _, c := range sw.Body.List {
		cc := c.(*ast.CaseClause)
		if len(cc.Body) != 1 {
			return "", fmt.Errorf("%s: authF: a case body is not a single return", fset.Position(cc.Pos()))
		}
		r, err := authRet(cc.Body[0], pid)
		if err != nil {
			return "", err
		}
		if cc.List == nil {
			def = r
			continue
		}
		for _, e := range cc.List {
			id, ok := e.(*ast.Ident)
			if !ok || eptNames[id.Name] == "" {
				return "", fmt.Errorf("%s: authF: case label is not an RPC endpoint type", fset.Position(e.Pos()))
			}
			if _, dup := res[eptNames[id.Name]]; !dup {
				res[eptNames[id.Name]] = r
			}
		}
	}
	var b strings.Builder
	b.WriteString("(* authF of newRPCServer: entry found in the policy map (or not) and consensus.IsTrustedPeer(caller) -> allow *)\n")
	b.WriteString("Definition authf_gen (e : option ept) (trusted : bool) : bool :=\n  match e with\n")
	b.WriteString("  | None => " + missing + "\n")
	for _, t := range []string{"Closed", "Trusted", "Open"} {
		r, ok := res[t]
		if !ok {
			r = def
		}
		if r == "" {
			return "", fmt.Errorf("authF: no case and no default covers %s", t)
		}
		b.WriteString("  | Some " + t + " => " + r + "\n")
	}
	b.WriteString("  end.\n")
	return b.String(), nil
}

func isSvcDotMethod(e ast.Expr, svc, method string) bool {
	b1, ok := e.(*ast.BinaryExpr)
	if !ok || b1.Op != token.ADD {
		return false
	}
	m, ok := b1.Y.(*ast.Ident)
	if !ok || m.Name != method {
		return false
	}
	b2, ok := b1.X.(*ast.BinaryExpr)
	if !ok || b2.Op != token.ADD {
		return false
	}
	s, ok1 := b2.X.(*ast.Ident)
	dot, ok2 := b2.Y.(*ast.BasicLit)
	return ok1 && ok2 && s.Name == svc && dot.Value == "\".\""
}

func authRet(s ast.Stmt, pid string) (string, error) {
	rs, ok := s.(*ast.ReturnStmt)
	if !ok || len(rs.Results) != 1 {
		return "", fmt.Errorf("authF: statement is not a single-value return")
	}
	switch e := rs.Results[0].(type) {
	case *ast.Ident:
		if e.Name == "true" || e.Name == "false" {
			return e.Name, nil
		}
	case *ast.CallExpr:
		if se, ok := e.Fun.(*ast.SelectorExpr); ok && se.Sel.Name == "IsTrustedPeer" && len(e.Args) == 2 {
			if id, ok := e.Args[1].(*ast.Ident); ok && id.Name == pid {
				return "trusted", nil
			}
		}
	}
	return "", fmt.Errorf("authF: a return value is neither true, false nor IsTrustedPeer(ctx, %s)", pid)
}
