package main

// Gen/Locksets.v (property C18): for the concurrent structures the property names, every syntactic access
// (type, field, slot|contents, function, Read|Write|Escape, lockset, position) found by an intraprocedural
// walk that tracks X.Lock/RLock/Unlock/RUnlock and `defer X.Unlock()` on the mutex fields of the same
// instance expression; local variables assigned from a tracked reference field (or from something reached
// through it) are aliases of the field's contents and a later use of the alias is an access of the contents
// with the lockset held at that point; a same-package function that receives an alias as an argument is
// walked in place with the caller's lockset. Plus: the nesting pairs (held, acquired) of the lock-order
// graph (calls are followed through a per-function summary of the locks a callee may acquire), lock leaks
// (a return while a lock is held with no deferred unlock), and the list of value-returning functions.
// Whatever the walk cannot follow marks the whole function `unknown` (treated as unguarded by the theorem).
// Wait tracking (the wait-for graph of the deadlock obligation): every `X.Wait()` on a sync.WaitGroup (struct field of a
// loaded package, or local variable) and every plain receive `<-x.ch` from a channel field (outside a multi-way select)
// is listed with the locks held there: (function, held locks, waits-for); calls made while locks are held contribute the
// waits their callees may perform (same closure as for the nesting pairs). The code units a group covers - a `go func`
// literal or a function that calls `X.Done()` (resp. closes / sends on the channel) - are listed with the locks they may
// acquire and the groups they may wait for, transitively through the calls they make. A `go func` literal is a thread of
// its own: it starts with nothing held, may lock and unlock, and what it acquires is not charged to the function that
// starts it.
// Syntactic; go/parser + go/ast (+ go/types.ExprString, go/token) only; no type checker, no build.

import (
	"fmt"
	"go/ast"
	"go/parser"
	"go/token"
	"go/types"
	"os"
	"path/filepath"
	"regexp"
	"sort"
	"strings"
)

func init() { register("Locksets", genLocksets) }

type lsTarget struct {
	dir    string
	typ    string
	fields []string
}

// the structures of the property (DESIGN C18). Mutex fields are detected from the struct declaration.
var lsTargets = []lsTarget{
	{"", "Cluster", []string{"alerts", "shutdownB", "removed", "readyB"}},
	{"pintracker/optracker", "OperationTracker", []string{"operations"}},
	{"pintracker/optracker", "Operation", []string{"phase", "error", "ts"}},
	{"monitor/metrics", "Store", []string{"byName"}},
	{"monitor/metrics", "Window", []string{"window"}},
	{"monitor/metrics", "Checker", []string{"failedPeers"}},
	{"informer/disk", "Informer", []string{"rpcClient"}},
	{"informer/numpin", "Informer", []string{"rpcClient"}},
	{"pintracker/stateless", "Tracker", []string{"shutdown"}},
	{"consensus/crdt", "Consensus", []string{"shutdown", "crdt"}},
}

func genLocksets(repo string) (string, error) {
	if err := lsSelfTest(); err != nil {
		return "", fmt.Errorf("self-test: %v", err)
	}
	mod := ""
	if b, err := os.ReadFile(filepath.Join(repo, "go.mod")); err == nil {
		for _, l := range strings.Split(string(b), "\n") {
			if strings.HasPrefix(l, "module ") {
				mod = strings.TrimSpace(strings.TrimPrefix(l, "module "))
				break
			}
		}
	}
	if mod == "" {
		return "", fmt.Errorf("module path not found in go.mod")
	}
	srcs := map[string]map[string]string{}
	for _, t := range lsTargets {
		if srcs[t.dir] != nil {
			continue
		}
		m := map[string]string{}
		ents, err := os.ReadDir(filepath.Join(repo, t.dir))
		if err != nil {
			return "", err
		}
		for _, e := range ents {
			n := e.Name()
			if e.IsDir() || !strings.HasSuffix(n, ".go") || strings.HasSuffix(n, "_test.go") {
				continue
			}
			b, err := os.ReadFile(filepath.Join(repo, t.dir, n))
			if err != nil {
				return "", err
			}
			m[n] = string(b)
		}
		srcs[t.dir] = m
	}
	out, err := lsAnalyze(mod, lsTargets, srcs)
	if err != nil {
		return "", err
	}
	return out.coq(), nil
}

// ---------------------------------------------------------------------------------------------------
// package registry
// ---------------------------------------------------------------------------------------------------

type lsPkg struct {
	dir, name string
	fset      *token.FileSet
	files     []*ast.File
	types     map[string]ast.Expr          // declared type name -> type expression
	funcs     map[string]*ast.FuncDecl     // "F" or "T.M"
	imports   map[string]string            // local name -> import path
	vars      map[string]*lsType           // package-level variables
	locks     map[string]map[string]string // struct name -> mutex field -> "Mutex"|"RWMutex"
	tracked   map[string]map[string]bool   // target struct name -> tracked field names
	fieldSet  map[string]bool              // all tracked field names of this package
	lockSet   map[string]bool              // all mutex field names of this package
	wgs       map[string]map[string]bool   // struct name -> sync.WaitGroup fields
	chans     map[string]map[string]bool   // struct name -> channel fields
	loose     map[string]map[string]string // owner (target) struct name -> map/slice field that is NOT tracked -> "map"|"slice"
	looseSet  map[string]bool
}

type lsType struct {
	pkg *lsPkg
	e   ast.Expr
	ext bool // a type of a package that is not loaded (opaque; its methods are assumed not to take tracked locks)
}

var lsExt = &lsType{ext: true}

var lsBasic = map[string]bool{"bool": true, "string": true, "int": true, "int8": true, "int16": true, "int32": true, "int64": true,
	"uint": true, "uint8": true, "uint16": true, "uint32": true, "uint64": true, "uintptr": true, "byte": true, "rune": true,
	"float32": true, "float64": true, "complex64": true, "complex128": true, "error": true}

// a named type that is not declared in a loaded package (or a predeclared one)
func (a *lsAnalysis) isExternal(t *lsType) bool {
	if t == nil {
		return false
	}
	if t.ext {
		return true
	}
	if p, _ := a.namedOf(t); p != nil {
		return false
	}
	switch x := lsStrip(t.e).(type) {
	case *ast.SelectorExpr:
		if _, ok := x.X.(*ast.Ident); ok {
			return true
		}
	case *ast.Ident:
		return lsBasic[x.Name]
	}
	return false
}

type lsAnalysis struct {
	module                   string
	pkgs                     map[string]*lsPkg // by dir
	byPath                   map[string]*lsPkg // by import path
	order                    []*lsPkg
	direct                   map[string]map[string]bool // fn key -> locks acquired directly ("pkg.Type.lock")
	calls                    map[string]map[string]bool // fn key -> callee fn keys
	acq                      map[string]map[string]bool // closure (second pass)
	waitsD                   map[string]map[string]bool // unit key -> groups waited for directly
	waitsC                   map[string]map[string]bool // closure (second pass)
	labels                   map[string]string          // unit key -> printable name
	direct1, calls1, waitsD1 map[string]map[string]bool // the complete first-pass maps (for printing call chains)
	pass                     int
	out                      *lsOut
	heldSites                map[string][2]int // (pass 1) unexported method key -> {call sites seen by call(), of which with a lock of the receiver's instance held}
	heldHelper               map[string]bool   // (pass 2) methods walked only in place, under their callers' locksets
}

type lsAccess struct {
	typ, field, part, fn, via, kind string
	unknown                         bool
	locks                           []lsHeld
	pos                             string
	line                            int
	fnIdx                           int
}
type lsNest struct{ held, acquired, where string }
type lsLeak struct{ fn, lock, what, pos string }
type lsWait struct {
	fn     string
	held   []string
	group  string
	pos    string
	conds  []string // the conditions the wait sits under
	direct bool     // performed here (not by a callee)
}
type lsMember struct {
	group, unit, label, pos string
	sure                    bool // channel groups: the close / send is reached whenever the unit runs
}
type lsLaunch struct { // a `go` statement
	unit, by string   // the code unit it starts, the code unit that executes it
	key      string   // the key of the code unit it starts
	ctor     bool     // executed by a constructor-like function (no receiver): its early returns hand out no object
	conds    []string // the conditions it sits under
	exits    []string // the return statements of the launcher that lie before it
	pos      string
}
type lsUse struct { // a use of an untracked map/slice field of an owner type
	typ, field, fkind string
	kind              string // read | write | mutate | escape
	unit, who, pos    string
	ctor              bool
}
type lsShared struct {
	typ, field, fkind string
	entries, sites    []string
}
type lsCover struct{ group, target, where string } // a unit the group covers may acquire the lock / wait for the group `target`
type lsOut struct {
	accs      []lsAccess
	nests     []lsNest
	leaks     []lsLeak
	accessors []string
	tracked   []string
	locks     []string
	waits     []lsWait
	members   []lsMember
	covers    []lsCover
	launches  []lsLaunch
	uses      []lsUse
	shared    []lsShared
}

func lsAnalyze(module string, targets []lsTarget, srcs map[string]map[string]string) (*lsOut, error) {
	a := &lsAnalysis{module: module, pkgs: map[string]*lsPkg{}, byPath: map[string]*lsPkg{}}
	var dirs []string
	for d := range srcs {
		dirs = append(dirs, d)
	}
	sort.Strings(dirs)
	for _, d := range dirs {
		p := &lsPkg{dir: d, fset: token.NewFileSet(), types: map[string]ast.Expr{}, funcs: map[string]*ast.FuncDecl{},
			imports: map[string]string{}, vars: map[string]*lsType{}, locks: map[string]map[string]string{}, tracked: map[string]map[string]bool{},
			fieldSet: map[string]bool{}, lockSet: map[string]bool{}, wgs: map[string]map[string]bool{}, chans: map[string]map[string]bool{},
			loose: map[string]map[string]string{}, looseSet: map[string]bool{}}
		var names []string
		for n := range srcs[d] {
			names = append(names, n)
		}
		sort.Strings(names)
		for _, n := range names {
			f, err := parser.ParseFile(p.fset, n, srcs[d][n], 0)
			if err != nil {
				return nil, err
			}
			p.files = append(p.files, f)
			p.name = f.Name.Name
			for _, im := range f.Imports {
				path := strings.Trim(im.Path.Value, "\"")
				local := path[strings.LastIndex(path, "/")+1:]
				if im.Name != nil {
					local = im.Name.Name
				}
				p.imports[local] = path
			}
			for _, dcl := range f.Decls {
				switch x := dcl.(type) {
				case *ast.GenDecl:
					for _, s := range x.Specs {
						if ts, ok := s.(*ast.TypeSpec); ok {
							p.types[ts.Name.Name] = ts.Type
						}
						if vs, ok := s.(*ast.ValueSpec); ok && x.Tok == token.VAR {
							for i, nm := range vs.Names {
								switch {
								case vs.Type != nil:
									p.vars[nm.Name] = &lsType{pkg: p, e: vs.Type}
								case i < len(vs.Values):
									if c, ok := vs.Values[i].(*ast.CallExpr); ok {
										if se, ok := c.Fun.(*ast.SelectorExpr); ok {
											if _, ok := se.X.(*ast.Ident); ok {
												p.vars[nm.Name] = lsExt // v = otherpkg.F(...)
											}
										}
									}
								}
							}
						}
					}
				case *ast.FuncDecl:
					if x.Body == nil {
						continue
					}
					if x.Recv == nil {
						p.funcs[x.Name.Name] = x
					} else if tn := lsRecvType(x); tn != "" {
						p.funcs[tn+"."+x.Name.Name] = x
					}
				}
			}
		}
		for tn, te := range p.types {
			st, ok := te.(*ast.StructType)
			if !ok {
				continue
			}
			for _, fl := range st.Fields.List {
				if lsIsWaitGroup(fl.Type) {
					for _, nm := range fl.Names {
						if p.wgs[tn] == nil {
							p.wgs[tn] = map[string]bool{}
						}
						p.wgs[tn][nm.Name] = true
					}
				}
				if _, isChan := fl.Type.(*ast.ChanType); isChan {
					for _, nm := range fl.Names {
						if p.chans[tn] == nil {
							p.chans[tn] = map[string]bool{}
						}
						p.chans[tn][nm.Name] = true
					}
				}
				k := lsMutexKind(fl.Type)
				if k == "" {
					continue
				}
				for _, nm := range fl.Names {
					if p.locks[tn] == nil {
						p.locks[tn] = map[string]string{}
					}
					p.locks[tn][nm.Name] = k
					p.lockSet[nm.Name] = true
				}
			}
		}
		a.pkgs[d] = p
		path := module
		if d != "" {
			path = module + "/" + d
		}
		a.byPath[path] = p
		a.order = append(a.order, p)
	}
	out := &lsOut{}
	for _, t := range targets {
		p := a.pkgs[t.dir]
		if p == nil {
			return nil, fmt.Errorf("package %q not loaded", t.dir)
		}
		st, ok := p.types[t.typ].(*ast.StructType)
		if !ok {
			return nil, fmt.Errorf("struct %s not found in %q", t.typ, t.dir)
		}
		p.tracked[t.typ] = map[string]bool{}
		for _, f := range t.fields {
			var ft ast.Expr
			for _, fl := range st.Fields.List {
				for _, nm := range fl.Names {
					if nm.Name == f {
						ft = fl.Type
					}
				}
			}
			if ft == nil {
				return nil, fmt.Errorf("field %s.%s not found in %q", t.typ, f, t.dir)
			}
			p.tracked[t.typ][f] = true
			p.fieldSet[f] = true
			out.tracked = append(out.tracked, fmt.Sprintf("(%s, %s, %s)", coqStr(p.name+"."+t.typ), coqStr(f), coqStr(a.kindOf(&lsType{pkg: p, e: ft}))))
		}
		// every other map- or slice-typed field of an owner type is watched for becoming shared state
		for _, fl := range st.Fields.List {
			k := a.kindOf(&lsType{pkg: p, e: fl.Type})
			if k != "map" && k != "slice" {
				continue
			}
			for _, nm := range fl.Names {
				if !p.tracked[t.typ][nm.Name] {
					if p.loose[t.typ] == nil {
						p.loose[t.typ] = map[string]string{}
					}
					p.loose[t.typ][nm.Name] = k
					p.looseSet[nm.Name] = true
				}
			}
		}
		var ls []string
		for l := range p.locks[t.typ] {
			ls = append(ls, l)
		}
		sort.Strings(ls)
		for _, l := range ls {
			out.locks = append(out.locks, fmt.Sprintf("(%s, %s, %s)", coqStr(p.name+"."+t.typ), coqStr(l), coqStr(p.locks[t.typ][l])))
		}
	}
	// two passes: the first collects, per function, the locks it acquires and the functions it calls;
	// the second emits the tables, using the transitive closure for the nesting pairs of calls
	for pass := 1; pass <= 2; pass++ {
		a.pass = pass
		a.direct = map[string]map[string]bool{}
		a.calls = map[string]map[string]bool{}
		a.waitsD = map[string]map[string]bool{}
		a.labels = map[string]string{}
		a.out = &lsOut{tracked: out.tracked, locks: out.locks}
		if pass == 1 {
			a.heldSites = map[string][2]int{}
			a.heldHelper = map[string]bool{}
		}
		for _, p := range a.order {
			var keys []string
			for k := range p.funcs {
				keys = append(keys, k)
			}
			sort.Slice(keys, func(i, j int) bool { return p.funcs[keys[i]].Pos() < p.funcs[keys[j]].Pos() })
			for _, k := range keys {
				if pass == 2 && a.heldHelper[p.dir+"|"+k] {
					continue // walked in place at each of its call sites, under the caller's lockset
				}
				a.walkFunc(p, k, p.funcs[k])
			}
		}
		if pass == 1 {
			a.findHeldHelpers()
			a.acq = lsClosure(a.direct, a.calls)
			a.waitsC = lsClosure(a.waitsD, a.calls)
			a.direct1, a.calls1, a.waitsD1 = a.direct, a.calls, a.waitsD
		}
	}
	a.coverEdges()
	a.sharedFields()
	return a.out, nil
}

// An unexported method of a lock-bearing struct that is only ever CALLED (never used as a value, never started with `go` or
// deferred), on a plain identifier of its own type, and every one of whose call sites holds a lock of that very instance, is
// a "lock-held helper" (`func (s *Store) lockedGet(..)`, documented "must be called with s.mux held"). Walking it on its own,
// with nothing held, would report its accesses as unguarded although no execution reaches them without the lock. It is
// instead walked in place at each call site with the caller's locks on that instance (as the parameter-passing inliner does
// for guarded structures handed to a callee). Anything that does not fit - one call site without the lock, a method value, a
// `go` statement, a name shared with another selector in the package - leaves the method walked on its own as before.
func (a *lsAnalysis) findHeldHelpers() {
	for _, p := range a.order {
		sel := map[string]int{} // selector name -> occurrences anywhere in the package's function bodies
		for _, fd := range p.funcs {
			if fd.Body == nil {
				continue
			}
			ast.Inspect(fd.Body, func(n ast.Node) bool {
				if s, ok := n.(*ast.SelectorExpr); ok {
					sel[s.Sel.Name]++
				}
				return true
			})
		}
		for k, fd := range p.funcs {
			if fd.Recv == nil || fd.Body == nil {
				continue
			}
			tn := lsRecvType(fd)
			name := fd.Name.Name
			if tn == "" || len(p.locks[tn]) == 0 || name == "" || !(name[0] >= 'a' && name[0] <= 'z') || lsRecvName(fd) == "" {
				continue
			}
			s := a.heldSites[p.dir+"|"+k]
			if s[0] >= 1 && s[0] == s[1] && sel[name] == s[0] {
				a.heldHelper[p.dir+"|"+k] = true
			}
		}
	}
}

// per unit: what it does directly, plus what everything it may call does
func lsClosure(direct, calls map[string]map[string]bool) map[string]map[string]bool {
	r := map[string]map[string]bool{}
	for k, d := range direct {
		r[k] = map[string]bool{}
		for l := range d {
			r[k][l] = true
		}
	}
	for changed := true; changed; {
		changed = false
		for k, cs := range calls {
			for c := range cs {
				for l := range r[c] {
					if r[k] == nil {
						r[k] = map[string]bool{}
					}
					if !r[k][l] {
						r[k][l] = true
						changed = true
					}
				}
			}
		}
	}
	return r
}

// Untracked shared state: a map/slice field of an owner type that is not in the table, that is mutated, assigned or
// handed on somewhere outside a constructor, and whose uses are reachable from two different goroutine entry points (a
// code unit started by a `go` statement, an exported method or function that is not a constructor).
func (a *lsAnalysis) sharedFields() {
	entry := map[string]string{} // unit key -> label
	for _, l := range a.out.launches {
		entry[l.key] = "go " + l.unit
	}
	for _, p := range a.order {
		for k, fd := range p.funcs {
			name := fd.Name.Name
			if !ast.IsExported(name) || (fd.Recv == nil && strings.HasPrefix(name, "New")) {
				continue
			}
			if fd.Recv != nil {
				if tn := lsRecvType(fd); tn == "" || !ast.IsExported(tn) {
					continue
				}
			}
			entry[p.dir+"|"+k] = p.name + "." + k
		}
	}
	reach := map[string]map[string]bool{} // unit -> entry labels that reach it
	var eks []string
	for k := range entry {
		eks = append(eks, k)
	}
	sort.Strings(eks)
	for _, e := range eks {
		seen := map[string]bool{e: true}
		q := []string{e}
		for len(q) > 0 {
			n := q[0]
			q = q[1:]
			if reach[n] == nil {
				reach[n] = map[string]bool{}
			}
			reach[n][entry[e]] = true
			for c := range a.calls1[n] {
				if !seen[c] {
					seen[c] = true
					q = append(q, c)
				}
			}
		}
	}
	type acc struct {
		fkind   string
		live    bool
		entries map[string]bool
		sites   []string
	}
	by := map[string]*acc{}
	var keys []string
	for _, u := range a.out.uses {
		if u.ctor {
			continue
		}
		k := u.typ + "|" + u.field
		if by[k] == nil {
			by[k] = &acc{fkind: u.fkind, entries: map[string]bool{}}
			keys = append(keys, k)
		}
		x := by[k]
		if u.kind != "read" {
			x.live = true
		}
		for e := range reach[u.unit] {
			x.entries[e] = true
		}
		x.sites = append(x.sites, u.pos+" "+u.who+" ("+u.kind+")")
	}
	sort.Strings(keys)
	for _, k := range keys {
		x := by[k]
		if os.Getenv("VERIF_LS_VERBOSE") != "" {
			fmt.Fprintf(os.Stderr, "untracked %s (%s): live=%v entries=%d sites=%v\n", k, x.fkind, x.live, len(x.entries), x.sites)
		}
		if !x.live || len(x.entries) < 2 {
			continue
		}
		var es []string
		for e := range x.entries {
			es = append(es, e)
		}
		sort.Strings(es)
		// entry points of different kinds first: a goroutine and an exported method say more than two methods
		sort.SliceStable(es, func(i, j int) bool { return strings.HasPrefix(es[i], "go ") && !strings.HasPrefix(es[j], "go ") })
		if len(es) > 4 {
			es = append(es[:4], fmt.Sprintf("... %d more", len(es)-4))
		}
		sites := x.sites
		if len(sites) > 8 {
			sites = append(sites[:8:8], fmt.Sprintf("... %d more", len(x.sites)-8))
		}
		i := strings.Index(k, "|")
		a.out.shared = append(a.out.shared, lsShared{k[:i], k[i+1:], x.fkind, es, sites})
	}
}

// the call chain from a unit to a function that does `what` directly (breadth first), for the reader
func (a *lsAnalysis) chain(unit, what string, direct map[string]map[string]bool) string {
	type node struct{ k, path string }
	seen := map[string]bool{unit: true}
	q := []node{{unit, ""}}
	for len(q) > 0 {
		n := q[0]
		q = q[1:]
		if direct[n.k][what] {
			return n.path
		}
		var cs []string
		for c := range a.calls1[n.k] {
			cs = append(cs, c)
		}
		sort.Strings(cs)
		for _, c := range cs {
			if !seen[c] {
				seen[c] = true
				q = append(q, node{c, n.path + " > " + c[strings.Index(c, "|")+1:]})
			}
		}
	}
	return " > ..."
}

// group -> lock and group -> group edges: what the code units a group covers may acquire / wait for
func (a *lsAnalysis) coverEdges() {
	// only groups somebody waits for can lie on a cycle; the others (channels that are only ever received from inside
	// multi-way selects, ...) are left out of the table
	awaited := map[string]bool{}
	for _, x := range a.out.waits {
		awaited[x.group] = true
	}
	var ms []lsMember
	for _, m := range a.out.members {
		if awaited[m.group] {
			ms = append(ms, m)
		}
	}
	a.out.members = ms
	seen := map[string]bool{}
	for _, m := range a.out.members {
		if seen[m.group+"|"+m.unit] {
			continue
		}
		seen[m.group+"|"+m.unit] = true
		var ls, gs []string
		for l := range a.acq[m.unit] {
			ls = append(ls, l)
		}
		for g := range a.waitsC[m.unit] {
			gs = append(gs, g)
		}
		sort.Strings(ls)
		sort.Strings(gs)
		for _, l := range ls {
			a.out.covers = append(a.out.covers, lsCover{m.group, l, m.label + a.chain(m.unit, l, a.direct1)})
		}
		for _, g := range gs {
			a.out.covers = append(a.out.covers, lsCover{m.group, g, m.label + a.chain(m.unit, g, a.waitsD1)})
		}
	}
}

func lsRecvName(fd *ast.FuncDecl) string {
	if fd.Recv != nil && len(fd.Recv.List) == 1 && len(fd.Recv.List[0].Names) == 1 {
		return fd.Recv.List[0].Names[0].Name
	}
	return ""
}

// the return statements of a body (function literals excluded) that lie before p
func lsReturnsBefore(fset *token.FileSet, body *ast.BlockStmt, p token.Pos) []string {
	var r []string
	if body == nil {
		return r
	}
	ast.Inspect(body, func(n ast.Node) bool {
		switch x := n.(type) {
		case *ast.FuncLit:
			return false
		case *ast.ReturnStmt:
			if x.Pos() < p {
				q := fset.Position(x.Pos())
				r = append(r, fmt.Sprintf("%s:%d", q.Filename, q.Line))
			}
		}
		return true
	})
	return r
}

func lsRecvType(fd *ast.FuncDecl) string {
	if fd.Recv == nil || len(fd.Recv.List) != 1 {
		return ""
	}
	t := fd.Recv.List[0].Type
	if s, ok := t.(*ast.StarExpr); ok {
		t = s.X
	}
	if id, ok := t.(*ast.Ident); ok {
		return id.Name
	}
	return ""
}

func lsIsWaitGroup(t ast.Expr) bool {
	if s, ok := t.(*ast.StarExpr); ok {
		t = s.X
	}
	if se, ok := t.(*ast.SelectorExpr); ok {
		if id, ok := se.X.(*ast.Ident); ok && id.Name == "sync" && se.Sel.Name == "WaitGroup" {
			return true
		}
	}
	return false
}

func lsMutexKind(t ast.Expr) string {
	if s, ok := t.(*ast.StarExpr); ok {
		t = s.X
	}
	if se, ok := t.(*ast.SelectorExpr); ok {
		if id, ok := se.X.(*ast.Ident); ok && id.Name == "sync" && (se.Sel.Name == "Mutex" || se.Sel.Name == "RWMutex") {
			return se.Sel.Name
		}
	}
	return ""
}

// ---------------------------------------------------------------------------------------------------
// a little type inference (declared types only)
// ---------------------------------------------------------------------------------------------------

func lsStrip(e ast.Expr) ast.Expr {
	for {
		switch x := e.(type) {
		case *ast.ParenExpr:
			e = x.X
		case *ast.StarExpr:
			e = x.X
		default:
			return e
		}
	}
}

// named type (after stripping pointers) declared in one of the loaded packages
func (a *lsAnalysis) namedOf(t *lsType) (*lsPkg, string) {
	if t == nil || t.e == nil {
		return nil, ""
	}
	switch x := lsStrip(t.e).(type) {
	case *ast.Ident:
		if _, ok := t.pkg.types[x.Name]; ok {
			return t.pkg, x.Name
		}
	case *ast.SelectorExpr:
		if id, ok := x.X.(*ast.Ident); ok {
			if p2 := a.byPath[t.pkg.imports[id.Name]]; p2 != nil {
				if _, ok := p2.types[x.Sel.Name]; ok {
					return p2, x.Sel.Name
				}
			}
		}
	}
	return nil, ""
}

// the type with declared names of loaded packages unfolded (pointers kept)
func (a *lsAnalysis) underlying(t *lsType) *lsType {
	for i := 0; i < 10 && t != nil && t.e != nil; i++ {
		e := t.e
		if pe, ok := e.(*ast.ParenExpr); ok {
			t = &lsType{pkg: t.pkg, e: pe.X}
			continue
		}
		switch x := e.(type) {
		case *ast.Ident:
			if d, ok := t.pkg.types[x.Name]; ok {
				t = &lsType{pkg: t.pkg, e: d}
				continue
			}
		case *ast.SelectorExpr:
			if id, ok := x.X.(*ast.Ident); ok {
				if p2 := a.byPath[t.pkg.imports[id.Name]]; p2 != nil {
					if d, ok := p2.types[x.Sel.Name]; ok {
						t = &lsType{pkg: p2, e: d}
						continue
					}
				}
			}
		}
		return t
	}
	return t
}

func (a *lsAnalysis) elemOf(t *lsType) *lsType {
	u := a.underlying(t)
	if u == nil {
		return nil
	}
	switch x := u.e.(type) {
	case *ast.MapType:
		return &lsType{pkg: u.pkg, e: x.Value}
	case *ast.ArrayType:
		return &lsType{pkg: u.pkg, e: x.Elt}
	case *ast.ChanType:
		return &lsType{pkg: u.pkg, e: x.Value}
	case *ast.Ellipsis:
		return &lsType{pkg: u.pkg, e: x.Elt}
	case *ast.StarExpr:
		if uu := a.underlying(&lsType{pkg: u.pkg, e: x.X}); uu != nil {
			if at, ok := uu.e.(*ast.ArrayType); ok {
				return &lsType{pkg: uu.pkg, e: at.Elt}
			}
		}
	}
	return nil
}

func (a *lsAnalysis) keyOf(t *lsType) *lsType {
	u := a.underlying(t)
	if u == nil {
		return nil
	}
	if m, ok := u.e.(*ast.MapType); ok {
		return &lsType{pkg: u.pkg, e: m.Key}
	}
	if _, ok := u.e.(*ast.ArrayType); ok {
		return &lsType{pkg: u.pkg, e: ast.NewIdent("int")}
	}
	return nil
}

func (a *lsAnalysis) fieldOf(t *lsType, f string) *lsType {
	p, n := a.namedOf(t)
	if p == nil {
		return nil
	}
	u := a.underlying(&lsType{pkg: p, e: ast.NewIdent(n)})
	st, ok := u.e.(*ast.StructType)
	if !ok {
		return nil
	}
	for _, fl := range st.Fields.List {
		for _, nm := range fl.Names {
			if nm.Name == f {
				return &lsType{pkg: u.pkg, e: fl.Type}
			}
		}
	}
	return nil
}

// "value" | "slice" | "map" | "ptr" | "ref" (chan, func, interface, unknown)
func (a *lsAnalysis) kindOf(t *lsType) string {
	u := a.underlying(t)
	if u == nil || u.e == nil {
		return "ref"
	}
	switch x := u.e.(type) {
	case *ast.MapType:
		return "map"
	case *ast.ArrayType:
		if x.Len == nil {
			return "slice"
		}
		return "value"
	case *ast.StarExpr:
		return "ptr"
	case *ast.ChanType, *ast.FuncType, *ast.InterfaceType:
		return "ref"
	case *ast.StructType:
		return "value"
	case *ast.Ident:
		switch x.Name {
		case "bool", "string", "int", "int8", "int16", "int32", "int64", "uint", "uint8", "uint16", "uint32", "uint64",
			"uintptr", "byte", "rune", "float32", "float64", "complex64", "complex128":
			return "value"
		}
	case *ast.SelectorExpr:
		if id, ok := x.X.(*ast.Ident); ok && id.Name == "time" && (x.Sel.Name == "Time" || x.Sel.Name == "Duration") {
			return "value"
		}
	}
	return "ref"
}

// does a value of this type, read out of a guarded container, still point into the guarded structure?
// maps, slices, channels and pointers to foreign types do; pointers to structs of the loaded packages are
// separate objects (with their own locks); interfaces and basic values are payload.
func (a *lsAnalysis) isStructure(t *lsType) bool {
	if t == nil || t.e == nil {
		return true // unknown or opaque: conservative
	}
	e := t.e
	for {
		pe, ok := e.(*ast.ParenExpr)
		if !ok {
			break
		}
		e = pe.X
	}
	if p, _ := a.namedOf(&lsType{pkg: t.pkg, e: e}); p != nil {
		// (pointer to) a declared type of a loaded package
		u := a.underlying(&lsType{pkg: t.pkg, e: lsStrip(e)})
		if u != nil {
			switch u.e.(type) {
			case *ast.StructType, *ast.InterfaceType:
				return false
			}
		}
	}
	if _, isPtr := e.(*ast.StarExpr); !isPtr && a.isExternal(&lsType{pkg: t.pkg, e: e}) {
		return false // a value of a foreign named type (or a predeclared type) is copied out
	}
	u := a.underlying(&lsType{pkg: t.pkg, e: e})
	switch x := u.e.(type) {
	case *ast.MapType, *ast.ChanType, *ast.StarExpr:
		return true
	case *ast.ArrayType:
		return x.Len == nil
	case *ast.InterfaceType, *ast.FuncType, *ast.StructType:
		return false
	}
	return a.kindOf(u) != "value"
}

// ---------------------------------------------------------------------------------------------------
// walker
// ---------------------------------------------------------------------------------------------------

type lsLoc struct {
	inst    string // instance expression, as written
	pkg     *lsPkg
	typ     string
	field   string
	unknown bool // the type of the instance expression could not be resolved
}

type lsHeld struct {
	inst, lock string // lock = "pkg.Type.field"
	pkg        *lsPkg
	typ, field string
	excl       bool
	sec        int
	deferred   bool
}

type lsFrame struct {
	held   []lsHeld
	isLoop bool
}

type lsFn struct { // per top-level function
	key, label string
	unknown    bool
	why        string
	sec        int
	accIdx     []int
	units      []string // the function itself and the `go func` literals in it
	report     bool     // report the function as not followed even if it touches nothing else that is tracked
}

type lsWalker struct {
	a       *lsAnalysis
	pkg     *lsPkg
	top     *lsFn
	label   string
	env     map[string]*lsType
	alias   map[string]*lsLoc
	held    []lsHeld
	loops   []lsFrame
	stack   []string       // inlined callees
	inLit   int            // > 0 inside a function literal
	unit    string         // the thread-level code unit being walked: the function, or a `go func` literal in it
	noWait  int            // > 0 inside the communication clause of a multi-way select: a receive there is not a wait
	inDefer int            // > 0 inside a deferred function literal: the locks held when it runs are not known
	conds   []string       // the conditions of the enclosing if statements (receiver written as _), a marker for loops and cases
	body    *ast.BlockStmt // the body of the code unit (for the return statements that precede a go / close statement)
	recv    string         // name of the receiver of the function being walked
}

func (a *lsAnalysis) walkFunc(p *lsPkg, key string, fd *ast.FuncDecl) {
	top := &lsFn{key: p.dir + "|" + key, label: p.name + "." + key}
	top.units = []string{top.key}
	a.labels[top.key] = top.label
	w := &lsWalker{a: a, pkg: p, top: top, label: "", env: map[string]*lsType{}, alias: map[string]*lsLoc{}, unit: top.key}
	w.bindParams(fd, nil, nil)
	w.body = fd.Body
	w.recv = lsRecvName(fd)
	if fd.Type.Results != nil && len(fd.Type.Results.List) > 0 {
		a.out.accessors = append(a.out.accessors, p.name+"."+key)
	}
	w.block(fd.Body)
	w.checkLeaks(fd.Body.End(), "end of function")
	if top.unknown {
		for _, i := range top.accIdx {
			a.out.accs[i].unknown = true
		}
		touches := len(top.accIdx) > 0 || top.report
		for _, u := range top.units {
			if a.direct[u] != nil || a.waitsD[u] != nil {
				touches = true
			}
		}
		if touches {
			a.out.leaks = append(a.out.leaks, lsLeak{top.label, "", "not followed: " + top.why, ""})
		}
	}
}

func (w *lsWalker) bindParams(fd *ast.FuncDecl, args []ast.Expr, caller *lsWalker) {
	if fd.Recv != nil {
		for _, fl := range fd.Recv.List {
			for _, nm := range fl.Names {
				w.env[nm.Name] = &lsType{pkg: w.pkg, e: fl.Type}
			}
		}
	}
	i := 0
	for _, fl := range fd.Type.Params.List {
		if len(fl.Names) == 0 {
			i++
			continue
		}
		for _, nm := range fl.Names {
			t := fl.Type
			if el, ok := t.(*ast.Ellipsis); ok {
				t = &ast.ArrayType{Elt: el.Elt}
			}
			w.env[nm.Name] = &lsType{pkg: w.pkg, e: t}
			if caller != nil && i < len(args) {
				if l := caller.aliasOf(args[i]); l != nil {
					w.alias[nm.Name] = l
				}
			}
			i++
		}
	}
	if fd.Type.Results != nil {
		for _, fl := range fd.Type.Results.List {
			for _, nm := range fl.Names {
				w.env[nm.Name] = &lsType{pkg: w.pkg, e: fl.Type}
			}
		}
	}
}

func (w *lsWalker) pos(p token.Pos) (string, int) {
	q := w.pkg.fset.Position(p)
	d := w.pkg.dir
	if d != "" {
		d += "/"
	}
	return fmt.Sprintf("%s%s:%d", d, q.Filename, q.Line), q.Line
}

func (w *lsWalker) giveUp(why string, p token.Pos) {
	if !w.top.unknown {
		s, _ := w.pos(p)
		w.top.unknown = true
		w.top.why = why + " at " + s
	}
}

func lsCopyHeld(h []lsHeld) []lsHeld { return append([]lsHeld{}, h...) }

func lsSameHeld(a, b []lsHeld) bool {
	if len(a) != len(b) {
		return false
	}
	for i := range a {
		if a[i].inst != b[i].inst || a[i].lock != b[i].lock || a[i].excl != b[i].excl {
			return false
		}
	}
	return true
}

func lsMeet(a, b []lsHeld) []lsHeld {
	var r []lsHeld
	for _, x := range a {
		for _, y := range b {
			if x.inst == y.inst && x.lock == y.lock && x.excl == y.excl {
				z := x
				if y.sec != x.sec {
					z.sec = 0
				}
				z.deferred = x.deferred && y.deferred
				r = append(r, z)
				break
			}
		}
	}
	return r
}

// ----- types of expressions

func (w *lsWalker) typeOf(e ast.Expr) *lsType {
	a := w.a
	switch x := e.(type) {
	case *ast.Ident:
		if t := w.env[x.Name]; t != nil {
			return t
		}
		return w.pkg.vars[x.Name]
	case *ast.ParenExpr:
		return w.typeOf(x.X)
	case *ast.SelectorExpr:
		if id, ok := x.X.(*ast.Ident); ok && w.env[id.Name] == nil && w.pkg.vars[id.Name] == nil {
			if path, isImp := w.pkg.imports[id.Name]; isImp {
				if p2 := a.byPath[path]; p2 != nil {
					return p2.vars[x.Sel.Name]
				}
				return lsExt // otherpkg.Var
			}
			return nil
		}
		bt := w.typeOf(x.X)
		if a.isExternal(bt) {
			return lsExt
		}
		return a.fieldOf(bt, x.Sel.Name)
	case *ast.IndexExpr:
		bt := w.typeOf(x.X)
		if a.isExternal(bt) {
			return lsExt
		}
		return a.elemOf(bt)
	case *ast.SliceExpr:
		return w.typeOf(x.X)
	case *ast.StarExpr:
		t := a.underlying(w.typeOf(x.X))
		if t != nil {
			if s, ok := t.e.(*ast.StarExpr); ok {
				return &lsType{pkg: t.pkg, e: s.X}
			}
		}
		return nil
	case *ast.UnaryExpr:
		t := w.typeOf(x.X)
		if t == nil {
			return nil
		}
		switch x.Op {
		case token.AND:
			return &lsType{pkg: t.pkg, e: &ast.StarExpr{X: t.e}}
		case token.ARROW:
			return a.elemOf(t)
		}
		return t
	case *ast.CompositeLit:
		if x.Type != nil {
			return &lsType{pkg: w.pkg, e: x.Type}
		}
	case *ast.TypeAssertExpr:
		if x.Type != nil {
			return &lsType{pkg: w.pkg, e: x.Type}
		}
	case *ast.FuncLit:
		return &lsType{pkg: w.pkg, e: x.Type}
	case *ast.CallExpr:
		if id, ok := x.Fun.(*ast.Ident); ok {
			switch id.Name {
			case "make":
				if len(x.Args) > 0 {
					return &lsType{pkg: w.pkg, e: x.Args[0]}
				}
			case "new":
				if len(x.Args) > 0 {
					return &lsType{pkg: w.pkg, e: &ast.StarExpr{X: x.Args[0]}}
				}
			case "append":
				if len(x.Args) > 0 {
					return w.typeOf(x.Args[0])
				}
			case "len", "cap", "copy":
				return &lsType{pkg: w.pkg, e: ast.NewIdent("int")}
			}
			if w.env[id.Name] == nil {
				if _, ok := w.pkg.types[id.Name]; ok {
					return &lsType{pkg: w.pkg, e: id} // conversion
				}
			}
		}
		if _, fd, p := w.callee(x); fd != nil && fd.Type.Results != nil && len(fd.Type.Results.List) > 0 {
			return &lsType{pkg: p, e: fd.Type.Results.List[0].Type}
		}
		if w.externalCall(x) {
			return lsExt
		}
	}
	return nil
}

// a call of a function of a package that is not loaded, or of a method of a value of such a package's type
func (w *lsWalker) externalCall(c *ast.CallExpr) bool {
	f, ok := c.Fun.(*ast.SelectorExpr)
	if !ok {
		return false
	}
	if id, ok := f.X.(*ast.Ident); ok && w.env[id.Name] == nil && w.pkg.vars[id.Name] == nil {
		path, isImp := w.pkg.imports[id.Name]
		return isImp && w.a.byPath[path] == nil
	}
	return w.a.isExternal(w.typeOf(f.X))
}

// result types of a call, by position
func (w *lsWalker) resultTypes(c *ast.CallExpr) []*lsType {
	_, fd, p := w.callee(c)
	if fd == nil || fd.Type.Results == nil {
		return nil
	}
	var r []*lsType
	for _, fl := range fd.Type.Results.List {
		n := len(fl.Names)
		if n == 0 {
			n = 1
		}
		for i := 0; i < n; i++ {
			r = append(r, &lsType{pkg: p, e: fl.Type})
		}
	}
	return r
}

// resolve a call to a function declaration of a loaded package
func (w *lsWalker) callee(c *ast.CallExpr) (string, *ast.FuncDecl, *lsPkg) {
	switch f := c.Fun.(type) {
	case *ast.Ident:
		if w.env[f.Name] == nil {
			if fd := w.pkg.funcs[f.Name]; fd != nil {
				return w.pkg.dir + "|" + f.Name, fd, w.pkg
			}
		}
	case *ast.SelectorExpr:
		if id, ok := f.X.(*ast.Ident); ok && w.env[id.Name] == nil && w.pkg.vars[id.Name] == nil {
			if p2 := w.a.byPath[w.pkg.imports[id.Name]]; p2 != nil {
				if fd := p2.funcs[f.Sel.Name]; fd != nil {
					return p2.dir + "|" + f.Sel.Name, fd, p2
				}
			}
			return "", nil, nil
		}
		if p2, tn := w.a.namedOf(w.typeOf(f.X)); p2 != nil {
			if fd := p2.funcs[tn+"."+f.Sel.Name]; fd != nil {
				return p2.dir + "|" + tn + "." + f.Sel.Name, fd, p2
			}
		}
	}
	return "", nil, nil
}

// all functions a call may reach, for the lock-acquisition summary
func (w *lsWalker) calleeKeys(c *ast.CallExpr) []string {
	if k, _, _ := w.callee(c); k != "" {
		return []string{k}
	}
	f, ok := c.Fun.(*ast.SelectorExpr)
	if !ok {
		return nil
	}
	if w.externalCall(c) {
		return nil // code of a package that is not loaded: assumed not to take the tracked locks
	}
	t := w.typeOf(f.X)
	var need []string // method names required by a declared interface type
	if t != nil {
		if u := w.a.underlying(t); u != nil {
			switch x := u.e.(type) {
			case *ast.InterfaceType:
				need = w.a.ifaceMethods(&lsType{pkg: u.pkg, e: x}, 0)
				if need == nil {
					need = []string{f.Sel.Name}
				}
			case *ast.Ident:
				if x.Name == "error" {
					return nil
				}
			}
		}
		if p, _ := w.a.namedOf(t); p == nil && need == nil {
			return nil // a type of a package that is not loaded
		}
	}
	// unknown static type or interface: every method of that name (of a type implementing the interface, by method names)
	var r []string
	for _, p := range w.a.order {
		for k := range p.funcs {
			i := strings.Index(k, ".")
			if i < 0 || k[i+1:] != f.Sel.Name {
				continue
			}
			ok := true
			for _, m := range need {
				if p.funcs[k[:i]+"."+m] == nil {
					ok = false
					break
				}
			}
			if ok {
				r = append(r, p.dir+"|"+k)
			}
		}
	}
	sort.Strings(r)
	return r
}

func (a *lsAnalysis) ifaceMethods(t *lsType, depth int) []string {
	it, ok := t.e.(*ast.InterfaceType)
	if !ok || depth > 5 {
		return nil
	}
	var r []string
	for _, m := range it.Methods.List {
		if len(m.Names) > 0 {
			for _, n := range m.Names {
				r = append(r, n.Name)
			}
			continue
		}
		u := a.underlying(&lsType{pkg: t.pkg, e: m.Type})
		if u == nil {
			return nil
		}
		sub := a.ifaceMethods(u, depth+1)
		if sub == nil {
			return nil
		}
		r = append(r, sub...)
	}
	return r
}

// ----- tracked selectors, lock selectors, aliases

func (w *lsWalker) trackedSel(e ast.Expr) *lsLoc {
	se, ok := e.(*ast.SelectorExpr)
	if !ok || !w.pkg.fieldSet[se.Sel.Name] {
		return nil
	}
	if id, ok := se.X.(*ast.Ident); ok && w.env[id.Name] == nil && w.pkg.vars[id.Name] == nil {
		if _, isImp := w.pkg.imports[id.Name]; isImp {
			return nil
		}
	}
	t := w.typeOf(se.X)
	if w.a.isExternal(t) {
		return nil
	}
	if t == nil {
		// cannot tell whose field this is: charge every tracked struct of the package that has a field of this name
		for tn, fs := range w.pkg.tracked {
			if fs[se.Sel.Name] {
				return &lsLoc{inst: types.ExprString(se.X), pkg: w.pkg, typ: tn, field: se.Sel.Name, unknown: true}
			}
		}
		return nil
	}
	p, tn := w.a.namedOf(t)
	if p == nil || p.tracked[tn] == nil || !p.tracked[tn][se.Sel.Name] {
		return nil
	}
	return &lsLoc{inst: types.ExprString(se.X), pkg: p, typ: tn, field: se.Sel.Name}
}

func (w *lsWalker) isRefLoc(l *lsLoc) bool {
	return w.a.kindOf(w.a.fieldOf(&lsType{pkg: l.pkg, e: ast.NewIdent(l.typ)}, l.field)) != "value"
}

func (w *lsWalker) aliasIdent(e ast.Expr) *lsLoc {
	if id, ok := e.(*ast.Ident); ok {
		return w.alias[id.Name]
	}
	return nil
}

// base expression that denotes (part of) a guarded structure: a tracked reference field or an alias
func (w *lsWalker) baseLoc(e ast.Expr) (*lsLoc, bool) {
	if pe, ok := e.(*ast.ParenExpr); ok {
		return w.baseLoc(pe.X)
	}
	if l := w.trackedSel(e); l != nil {
		return l, true
	}
	if l := w.aliasIdent(e); l != nil {
		return l, false
	}
	return nil, false
}

// is the value of e a reference into a guarded structure?
func (w *lsWalker) aliasOf(e ast.Expr) *lsLoc {
	switch x := e.(type) {
	case *ast.ParenExpr:
		return w.aliasOf(x.X)
	case *ast.Ident:
		return w.alias[x.Name]
	case *ast.SelectorExpr:
		if l := w.trackedSel(x); l != nil && w.isRefLoc(l) {
			return l
		}
	case *ast.SliceExpr:
		return w.aliasOf(x.X)
	case *ast.IndexExpr:
		if l := w.aliasOf(x.X); l != nil && w.a.isStructure(w.a.elemOf(w.typeOf(x.X))) {
			return l
		}
	case *ast.UnaryExpr:
		if x.Op == token.AND {
			switch y := x.X.(type) {
			case *ast.IndexExpr:
				return w.aliasOf(y.X)
			case *ast.SelectorExpr:
				if l, _ := w.baseLoc(y.X); l != nil {
					return l
				}
			}
		}
	case *ast.CallExpr:
		if f, ok := x.Fun.(*ast.SelectorExpr); ok {
			if l := w.aliasOf(f.X); l != nil {
				if rt := w.typeOf(x); w.a.isStructure(rt) {
					return l
				}
			}
		}
		if id, ok := x.Fun.(*ast.Ident); ok && id.Name == "append" && len(x.Args) > 0 {
			return w.aliasOf(x.Args[0])
		}
	}
	return nil
}

func (w *lsWalker) lockSel(e ast.Expr) (inst string, p *lsPkg, tn, field string, ok bool) {
	se, ok2 := e.(*ast.SelectorExpr)
	if !ok2 || !w.lockFieldName(se.Sel.Name) {
		return
	}
	t := w.typeOf(se.X)
	p, tn = w.a.namedOf(t)
	if p == nil || p.locks[tn] == nil || p.locks[tn][se.Sel.Name] == "" {
		return "", nil, "", "", false
	}
	return types.ExprString(se.X), p, tn, se.Sel.Name, true
}

func (w *lsWalker) lockFieldName(n string) bool {
	for _, p := range w.a.order {
		if p.lockSet[n] {
			return true
		}
	}
	return false
}

func (w *lsWalker) lockCall(c *ast.CallExpr) (h lsHeld, op string, ok bool) {
	s, ok2 := c.Fun.(*ast.SelectorExpr)
	if !ok2 {
		return
	}
	switch s.Sel.Name {
	case "Lock", "Unlock", "RLock", "RUnlock", "TryLock", "TryRLock", "RLocker":
	default:
		return
	}
	inst, p, tn, f, ok3 := w.lockSel(s.X)
	if !ok3 {
		return
	}
	return lsHeld{inst: inst, lock: p.name + "." + tn + "." + f, pkg: p, typ: tn, field: f}, s.Sel.Name, true
}

// ----- emitting

func (w *lsWalker) emit(l *lsLoc, part, kind string, p token.Pos) {
	if part == "Cont" && !l.unknown && !w.isRefLoc(l) {
		return // value fields have no separate contents
	}
	var ls []lsHeld
	if !l.unknown {
		for _, h := range w.held {
			if h.inst == l.inst && h.pkg == l.pkg && h.typ == l.typ {
				ls = append(ls, h)
			}
		}
	}
	ps, line := w.pos(p)
	w.top.accIdx = append(w.top.accIdx, len(w.a.out.accs))
	w.a.out.accs = append(w.a.out.accs, lsAccess{typ: l.pkg.name + "." + l.typ, field: l.field, part: part, fn: w.top.label, via: w.label, kind: kind,
		unknown: l.unknown, locks: ls, pos: ps, line: line})
}

func (w *lsWalker) acquire(h lsHeld, p token.Pos) {
	ps, _ := w.pos(p)
	for _, x := range w.held {
		w.a.out.nests = append(w.a.out.nests, lsNest{x.lock, h.lock, w.top.label + w.label + " " + ps})
	}
	if w.a.direct[w.unit] == nil {
		w.a.direct[w.unit] = map[string]bool{}
	}
	w.a.direct[w.unit][h.lock] = true
	w.top.sec++
	h.sec = w.top.sec
	w.held = append(w.held, h)
}

func (w *lsWalker) release(h lsHeld, excl bool, p token.Pos) {
	for i := len(w.held) - 1; i >= 0; i-- {
		x := w.held[i]
		if x.inst == h.inst && x.lock == h.lock {
			if x.excl != excl {
				w.giveUp("unlock mode does not match the lock held ("+h.lock+")", p)
			}
			if x.deferred {
				w.giveUp("explicit unlock of a lock whose unlock is deferred ("+h.lock+")", p)
			}
			w.held = append(lsCopyHeld(w.held[:i]), w.held[i+1:]...)
			return
		}
	}
	ps, _ := w.pos(p)
	w.a.out.leaks = append(w.a.out.leaks, lsLeak{w.top.label + w.label, h.lock, "unlock of a lock that is not held", ps})
	w.giveUp("unlock of a lock that is not held ("+h.lock+")", p)
}

func (w *lsWalker) checkLeaks(p token.Pos, what string) {
	if len(w.stack) > 0 {
		return
	}
	for _, h := range w.held {
		if !h.deferred {
			ps, _ := w.pos(p)
			w.a.out.leaks = append(w.a.out.leaks, lsLeak{w.top.label + w.label, h.lock, "still held at " + what, ps})
		}
	}
}

// a selector of a map/slice field of an owner type that the table does not track
func (w *lsWalker) looseSel(e ast.Expr) (typ, field, fkind string, ok bool) {
	for {
		switch x := e.(type) {
		case *ast.ParenExpr:
			e = x.X
			continue
		case *ast.UnaryExpr:
			if x.Op == token.AND {
				e = x.X
				continue
			}
		}
		break
	}
	se, ok2 := e.(*ast.SelectorExpr)
	if !ok2 {
		return
	}
	any := false
	for _, p := range w.a.order {
		any = any || p.looseSet[se.Sel.Name]
	}
	if !any {
		return
	}
	p, tn := w.a.namedOf(w.typeOf(se.X))
	if p == nil || p.loose[tn] == nil || p.loose[tn][se.Sel.Name] == "" {
		return
	}
	return p.name + "." + tn, se.Sel.Name, p.loose[tn][se.Sel.Name], true
}

// record a use of kind `kind` when e is such a selector; reports whether it was
func (w *lsWalker) noteLoose(e ast.Expr, kind string) bool {
	typ, field, fk, ok := w.looseSel(e)
	if !ok {
		return false
	}
	if w.a.pass == 2 {
		ps, _ := w.pos(e.Pos())
		w.a.out.uses = append(w.a.out.uses, lsUse{typ: typ, field: field, fkind: fk, kind: kind, unit: w.unit, who: w.who(), pos: ps,
			ctor: w.unit == w.top.key && w.recv == "" && strings.HasPrefix(w.top.label[strings.LastIndex(w.top.label, ".")+1:], "New")})
	}
	return true
}

// read e; when e itself is an untracked map/slice field the use is of kind `kind` (escape, mutate) rather than a plain read
func (w *lsWalker) rdAs(e ast.Expr, kind string) {
	if typ, _, _, ok := w.looseSel(e); ok && typ != "" {
		w.noteLoose(e, kind)
		for {
			switch x := e.(type) {
			case *ast.ParenExpr:
				e = x.X
				continue
			case *ast.UnaryExpr:
				e = x.X
				continue
			}
			break
		}
		w.rd(e.(*ast.SelectorExpr).X)
		return
	}
	w.rd(e)
}

// who is executing: the function, or the `go func` literal in it
func (w *lsWalker) who() string {
	if w.unit != w.top.key {
		return w.a.labels[w.unit] + w.label
	}
	return w.top.label + w.label
}

func (w *lsWalker) heldNames() []string {
	var r []string
	for _, h := range w.held {
		r = append(r, h.lock)
	}
	return r
}

// the thread group a sync.WaitGroup expression stands for: a WaitGroup field of a struct of a loaded package
// ("wg:pkg.Type.field"), or a local WaitGroup variable ("wg:pkg.Func.var")
func (w *lsWalker) wgGroup(e ast.Expr) (string, bool) {
	if pe, ok := e.(*ast.ParenExpr); ok {
		return w.wgGroup(pe.X)
	}
	if u, ok := e.(*ast.UnaryExpr); ok && u.Op == token.AND {
		return w.wgGroup(u.X)
	}
	switch x := e.(type) {
	case *ast.SelectorExpr:
		if p, tn := w.a.namedOf(w.typeOf(x.X)); p != nil && p.wgs[tn][x.Sel.Name] {
			return "wg:" + p.name + "." + tn + "." + x.Sel.Name, true
		}
	case *ast.Ident:
		if t := w.env[x.Name]; t != nil && t.e != nil && lsIsWaitGroup(t.e) {
			return "wg:" + w.top.label + "." + x.Name, true
		}
	}
	return "", false
}

// the group of a channel field of a struct of a loaded package: its members are the code units that close it or send on it
func (w *lsWalker) chanGroup(e ast.Expr) (string, bool) {
	if pe, ok := e.(*ast.ParenExpr); ok {
		return w.chanGroup(pe.X)
	}
	if x, ok := e.(*ast.SelectorExpr); ok {
		if p, tn := w.a.namedOf(w.typeOf(x.X)); p != nil && p.chans[tn][x.Sel.Name] {
			return "ch:" + p.name + "." + tn + "." + x.Sel.Name, true
		}
	}
	return "", false
}

// X.Wait() / X.Done() / X.Add(n) on a WaitGroup
func (w *lsWalker) syncCall(c *ast.CallExpr) bool {
	s, ok := c.Fun.(*ast.SelectorExpr)
	if !ok {
		return false
	}
	switch s.Sel.Name {
	case "Wait", "Done", "Add":
	default:
		return false
	}
	g, ok := w.wgGroup(s.X)
	if !ok {
		return false
	}
	for _, a := range c.Args {
		w.rd(a)
	}
	switch s.Sel.Name {
	case "Wait":
		w.wait(g, c.Pos())
	case "Done":
		w.member(g, c.Pos())
	}
	return true
}

// this code unit blocks here until the group has finished
func (w *lsWalker) wait(group string, p token.Pos) {
	if w.inDefer > 0 {
		w.giveUp("wait inside a deferred function literal (the locks held when it runs are not followed)", p)
	}
	ps, _ := w.pos(p)
	if w.a.waitsD[w.unit] == nil {
		w.a.waitsD[w.unit] = map[string]bool{}
	}
	w.a.waitsD[w.unit][group] = true
	w.a.out.waits = append(w.a.out.waits, lsWait{w.who(), w.heldNames(), group, ps, append([]string{}, w.conds...), true})
}

// this code unit is one of the threads the group covers
func (w *lsWalker) member(group string, p token.Pos) {
	ps, _ := w.pos(p)
	// reached whenever the unit runs: under no condition, not in an inlined callee or a literal, and no return statement
	// before it (a `defer close(ch)` that is the first thing the unit does qualifies)
	sure := len(w.conds) == 0 && len(w.stack) == 0 && w.inLit == 0 && len(lsReturnsBefore(w.pkg.fset, w.body, p)) == 0
	w.a.out.members = append(w.a.out.members, lsMember{group, w.unit, w.a.labels[w.unit], ps, sure})
}

var lsWordRe = map[string]*regexp.Regexp{}

func (w *lsWalker) condText(e ast.Expr) string {
	t := types.ExprString(e)
	if w.recv != "" {
		// the same condition written in two methods must compare equal: the receiver is spelled _
		re := lsWordRe[w.recv]
		if re == nil {
			re = regexp.MustCompile(`\b` + regexp.QuoteMeta(w.recv) + `\b`)
			lsWordRe[w.recv] = re
		}
		t = re.ReplaceAllString(t, "_")
	}
	return t
}

// a `go` statement starts `unit`
func (w *lsWalker) launch(unit, key string, p token.Pos) {
	ps, _ := w.pos(p)
	w.a.out.launches = append(w.a.out.launches, lsLaunch{unit: unit, key: key, by: w.a.labels[w.unit], ctor: w.unit == w.top.key && w.recv == "" && len(w.stack) == 0,
		conds: append([]string{}, w.conds...), exits: lsReturnsBefore(w.pkg.fset, w.body, p), pos: ps})
}

// `go func(...) {...}(...)`: a thread of its own. It starts with nothing held and may lock and unlock like a function;
// what it acquires, calls and waits for is recorded under its own unit, not under the function that starts it
// (its accesses stay in the function's part of the access table, with the locks the literal itself holds).
func (w *lsWalker) goLit(f *ast.FuncLit, c *ast.CallExpr) {
	for _, a := range c.Args {
		w.rd(a)
	}
	ps, line := w.pos(f.Pos())
	unit := fmt.Sprintf("%s$go%d", w.top.key, line)
	w.top.units = append(w.top.units, unit)
	w.a.labels[unit] = "goroutine " + w.top.label + w.label + " " + ps
	cw := &lsWalker{a: w.a, pkg: w.pkg, top: w.top, label: w.label, env: map[string]*lsType{}, alias: map[string]*lsLoc{},
		stack: w.stack, unit: unit, body: f.Body, recv: w.recv}
	w.launch(w.a.labels[unit], unit, f.Pos())
	for k, v := range w.env {
		cw.env[k] = v
	}
	for k, v := range w.alias {
		cw.alias[k] = v
	}
	for _, fl := range f.Type.Params.List {
		for _, nm := range fl.Names {
			cw.env[nm.Name] = &lsType{pkg: w.pkg, e: fl.Type}
		}
	}
	cw.block(f.Body)
	// a lock still held when the literal ends, with no deferred unlock, is a leak of that thread
	for _, h := range cw.held {
		if !h.deferred {
			pe, _ := w.pos(f.Body.End())
			w.a.out.leaks = append(w.a.out.leaks, lsLeak{w.a.labels[unit], h.lock, "still held at end of goroutine", pe})
		}
	}
}

// a call made while locks are held: nesting pairs towards everything the callee may acquire
func (w *lsWalker) noteCall(c *ast.CallExpr) {
	keys := w.calleeKeys(c)
	if len(keys) == 0 {
		return
	}
	if w.a.calls[w.unit] == nil {
		w.a.calls[w.unit] = map[string]bool{}
	}
	ps, _ := w.pos(c.Pos())
	for _, k := range keys {
		w.a.calls[w.unit][k] = true
		if w.a.pass == 2 {
			// the waits the callee may perform happen with the caller's locks held
			var gs []string
			for g := range w.a.waitsC[k] {
				gs = append(gs, g)
			}
			sort.Strings(gs)
			if len(gs) > 0 && w.inDefer > 0 {
				w.giveUp("call that may wait inside a deferred function literal (the locks held when it runs are not followed)", c.Pos())
			}
			for _, g := range gs {
				w.a.out.waits = append(w.a.out.waits, lsWait{w.who() + " -> " + k[strings.Index(k, "|")+1:] + w.a.chain(k, g, w.a.waitsD1), w.heldNames(), g, ps, nil, false})
			}
		}
		if w.a.pass == 2 && len(w.held) > 0 {
			var ls []string
			for l := range w.a.acq[k] {
				ls = append(ls, l)
			}
			sort.Strings(ls)
			for _, x := range w.held {
				for _, l := range ls {
					w.a.out.nests = append(w.a.out.nests, lsNest{x.lock, l, w.top.label + w.label + " " + ps + " -> " + k[strings.Index(k, "|")+1:]})
				}
			}
		}
	}
}

// ----- statements

func (w *lsWalker) block(b *ast.BlockStmt) {
	if b == nil {
		return
	}
	for _, s := range b.List {
		w.stmt(s)
	}
}

func lsTerminates(s ast.Stmt) bool {
	switch x := s.(type) {
	case *ast.BlockStmt:
		if len(x.List) == 0 {
			return false
		}
		return lsTerminates(x.List[len(x.List)-1])
	case *ast.ReturnStmt, *ast.BranchStmt:
		return true
	case *ast.ExprStmt:
		if c, ok := x.X.(*ast.CallExpr); ok {
			if id, ok := c.Fun.(*ast.Ident); ok && id.Name == "panic" {
				return true
			}
		}
	case *ast.IfStmt:
		return x.Else != nil && lsTerminates(x.Body) && lsTerminates(x.Else)
	}
	return false
}

func (w *lsWalker) stmt(s ast.Stmt) {
	switch st := s.(type) {
	case nil:
	case *ast.BlockStmt:
		w.block(st)
	case *ast.ExprStmt:
		if c, ok := st.X.(*ast.CallExpr); ok {
			if h, op, ok := w.lockCall(c); ok {
				if w.inLit > 0 {
					w.giveUp("lock operation inside a function literal", c.Pos())
				}
				switch op {
				case "Lock":
					h.excl = true
					w.acquire(h, c.Pos())
				case "RLock":
					w.acquire(h, c.Pos())
				case "Unlock":
					w.release(h, true, c.Pos())
				case "RUnlock":
					w.release(h, false, c.Pos())
				default:
					w.giveUp(op+" is not followed", c.Pos())
				}
				return
			}
		}
		w.rd(st.X)
	case *ast.DeferStmt:
		if h, op, ok := w.lockCall(st.Call); ok {
			if w.inLit > 0 {
				w.giveUp("deferred lock operation inside a function literal", st.Pos())
				return
			}
			found := false
			for i := len(w.held) - 1; i >= 0; i-- {
				x := &w.held[i]
				if x.inst == h.inst && x.lock == h.lock && !x.deferred &&
					((op == "Unlock" && x.excl) || (op == "RUnlock" && !x.excl)) {
					x.deferred = true
					found = true
					break
				}
			}
			if !found {
				w.giveUp("deferred "+op+" with no matching lock held ("+h.lock+")", st.Pos())
			}
			return
		}
		if w.syncCall(st.Call) {
			return
		}
		if id, ok := st.Call.Fun.(*ast.Ident); ok && id.Name == "close" && w.env["close"] == nil && len(st.Call.Args) == 1 {
			if g, ok := w.chanGroup(st.Call.Args[0]); ok {
				w.member(g, st.Pos()) // closed when the unit returns
				return
			}
		}
		w.deferredOrGo(st.Call)
	case *ast.GoStmt:
		if fl, ok := st.Call.Fun.(*ast.FuncLit); ok {
			w.goLit(fl, st.Call)
		} else {
			if k, _, _ := w.callee(st.Call); k != "" {
				if p2 := w.a.pkgs[k[:strings.Index(k, "|")]]; p2 != nil {
					w.launch(p2.name+"."+k[strings.Index(k, "|")+1:], k, st.Pos())
				}
			}
			w.deferredOrGo(st.Call) // go f(...): f runs as a thread of its own; nothing of it is charged to this function
		}
	case *ast.AssignStmt:
		w.assign(st)
	case *ast.IncDecStmt:
		w.rd(st.X)
		w.wr(st.X)
	case *ast.SendStmt:
		if g, ok := w.chanGroup(st.Chan); ok {
			w.member(g, st.Pos()) // a send releases a receiver
		}
		w.rd(st.Chan)
		w.rdAs(st.Value, "escape")
	case *ast.DeclStmt:
		if gd, ok := st.Decl.(*ast.GenDecl); ok {
			for _, sp := range gd.Specs {
				vs, ok := sp.(*ast.ValueSpec)
				if !ok {
					continue
				}
				for _, v := range vs.Values {
					w.rd(v)
				}
				for i, nm := range vs.Names {
					var rhs ast.Expr
					if i < len(vs.Values) {
						rhs = vs.Values[i]
					}
					w.bind(nm, vs.Type, rhs, nil)
				}
			}
		}
	case *ast.ReturnStmt:
		for _, r := range st.Results {
			w.rdAs(r, "escape")
			if l := w.aliasOf(r); l != nil && len(w.stack) == 0 {
				w.emit(l, "Cont", "KEsc", r.Pos()) // a reference into the guarded structure leaves the function
			}
		}
		w.checkLeaks(st.Pos(), "return")
	case *ast.BranchStmt:
		switch st.Tok {
		case token.GOTO:
			w.giveUp("goto", st.Pos())
		case token.BREAK, token.CONTINUE:
			if st.Label != nil {
				w.giveUp("labelled break/continue", st.Pos())
			} else {
				// break leaves the innermost loop/switch/select, continue re-enters the innermost loop
				for i := len(w.loops) - 1; i >= 0; i-- {
					if st.Tok == token.CONTINUE && !w.loops[i].isLoop {
						continue
					}
					if !lsSameHeld(w.held, w.loops[i].held) {
						w.giveUp("break/continue with a lockset different from the one at entry of the statement it leaves", st.Pos())
					}
					break
				}
			}
		}
	case *ast.LabeledStmt:
		w.stmt(st.Stmt)
	case *ast.IfStmt:
		w.stmt(st.Init)
		w.rd(st.Cond)
		entry := lsCopyHeld(w.held)
		ct := w.condText(st.Cond)
		savedConds := w.conds
		w.conds = append(append([]string{}, savedConds...), ct)
		w.block(st.Body)
		w.conds = savedConds
		thenH, thenT := w.held, lsTerminates(st.Body)
		w.held = lsCopyHeld(entry)
		elseT := false
		if st.Else != nil {
			w.conds = append(append([]string{}, savedConds...), "!("+ct+")")
			w.stmt(st.Else)
			w.conds = savedConds
			elseT = lsTerminates(st.Else)
		}
		switch {
		case thenT && elseT:
			w.held = entry
		case thenT:
		case elseT:
			w.held = thenH
		default:
			if !lsSameHeld(thenH, w.held) {
				w.giveUp("lockset differs between the branches of an if", st.Pos())
			}
			w.held = lsMeet(thenH, w.held)
		}
	case *ast.ForStmt:
		w.stmt(st.Init)
		w.loop(func() {
			if st.Cond != nil {
				w.rd(st.Cond)
			}
			w.block(st.Body)
			w.stmt(st.Post)
		}, st.Pos())
	case *ast.RangeStmt:
		w.rangeHead(st)
		w.loop(func() { w.block(st.Body) }, st.Pos())
	case *ast.SwitchStmt:
		w.stmt(st.Init)
		if st.Tag != nil {
			w.rd(st.Tag)
		}
		w.clauses(st.Body, false)
	case *ast.TypeSwitchStmt:
		w.stmt(st.Init)
		switch a := st.Assign.(type) {
		case *ast.ExprStmt:
			w.rd(a.X)
		case *ast.AssignStmt:
			for _, r := range a.Rhs {
				w.rd(r)
			}
		}
		w.clauses(st.Body, false)
	case *ast.SelectStmt:
		w.clauses(st.Body, true)
	case *ast.EmptyStmt:
	default:
		w.giveUp(fmt.Sprintf("statement %T", s), s.Pos())
	}
}

func (w *lsWalker) loop(body func(), p token.Pos) {
	entry := lsCopyHeld(w.held)
	w.loops = append(w.loops, lsFrame{entry, true})
	ps, _ := w.pos(p)
	savedConds := w.conds
	w.conds = append(append([]string{}, savedConds...), "loop@"+ps) // the body may run no time at all
	body()
	w.conds = savedConds
	w.loops = w.loops[:len(w.loops)-1]
	if !lsSameHeld(w.held, entry) {
		w.giveUp("lockset at the end of a loop body differs from the one at entry", p)
	}
	w.held = entry
}

func (w *lsWalker) clauses(b *ast.BlockStmt, isSelect bool) {
	entry := lsCopyHeld(w.held)
	var exits [][]lsHeld
	hasDefault := false
	// `break` inside a switch/select leaves the statement, not an enclosing loop: give it its own frame
	w.loops = append(w.loops, lsFrame{entry, false})
	for _, c := range b.List {
		w.held = lsCopyHeld(entry)
		var body []ast.Stmt
		switch cc := c.(type) {
		case *ast.CaseClause:
			if cc.List == nil {
				hasDefault = true
			}
			for _, e := range cc.List {
				w.rd(e)
			}
			body = cc.Body
		case *ast.CommClause:
			if cc.Comm == nil {
				hasDefault = true
			}
			if len(b.List) > 1 {
				w.noWait++ // one of several alternatives: not a wait for this channel
			}
			w.stmt(cc.Comm)
			if len(b.List) > 1 {
				w.noWait--
			}
			body = cc.Body
		}
		term := false
		cps, _ := w.pos(c.Pos())
		savedConds := w.conds
		w.conds = append(append([]string{}, savedConds...), "case@"+cps)
		for _, s := range body {
			w.stmt(s)
			term = lsTerminates(s)
		}
		w.conds = savedConds
		if bs, ok := lastStmt(body).(*ast.BranchStmt); ok && bs.Tok == token.BREAK {
			term = false
		}
		if !term {
			exits = append(exits, w.held)
		}
	}
	w.loops = w.loops[:len(w.loops)-1]
	if !hasDefault && !isSelect {
		exits = append(exits, entry)
	}
	if len(exits) == 0 {
		w.held = entry
		return
	}
	r := exits[0]
	for _, e := range exits[1:] {
		if !lsSameHeld(r, e) {
			w.giveUp("lockset differs between the clauses of a switch/select", b.Pos())
		}
		r = lsMeet(r, e)
	}
	w.held = r
}

func (w *lsWalker) inLoop() bool {
	for _, f := range w.loops {
		if f.isLoop {
			return true
		}
	}
	return false
}

func lastStmt(b []ast.Stmt) ast.Stmt {
	if len(b) == 0 {
		return nil
	}
	return b[len(b)-1]
}

func (w *lsWalker) deferredOrGo(c *ast.CallExpr) {
	for _, a := range c.Args {
		w.rd(a)
	}
	switch f := c.Fun.(type) {
	case *ast.FuncLit:
		// runs later (at function exit): nothing is known to be held
		saved, savedLoops := w.held, w.loops
		w.held, w.loops = nil, nil
		w.inLit++
		w.inDefer++
		w.block(f.Body)
		w.inDefer--
		w.inLit--
		w.held, w.loops = saved, savedLoops
	case *ast.SelectorExpr:
		w.rd(f.X)
	}
}

func (w *lsWalker) rangeHead(st *ast.RangeStmt) {
	l, isField := w.baseLoc(st.X)
	if l != nil {
		if isField {
			w.emit(l, "Slot", "KRd", st.X.Pos())
		}
		w.emit(l, "Cont", "KRd", st.X.Pos())
	} else {
		w.rd(st.X)
	}
	t := w.typeOf(st.X)
	if id, ok := st.Key.(*ast.Ident); ok && id.Name != "_" {
		w.env[id.Name] = w.a.keyOf(t)
	}
	if id, ok := st.Value.(*ast.Ident); ok && id.Name != "_" {
		et := w.a.elemOf(t)
		w.env[id.Name] = et
		if al := w.aliasOf(st.X); al != nil && w.a.isStructure(et) {
			w.alias[id.Name] = al
		}
	}
}

func (w *lsWalker) bind(nm *ast.Ident, declared ast.Expr, rhs ast.Expr, rt *lsType) {
	if nm.Name == "_" {
		return
	}
	for _, h := range w.held {
		if h.inst == nm.Name || strings.HasPrefix(h.inst, nm.Name+".") {
			w.giveUp("variable "+nm.Name+" reassigned while its lock is held", nm.Pos())
		}
	}
	var t *lsType
	if declared != nil {
		t = &lsType{pkg: w.pkg, e: declared}
	} else if rt != nil {
		t = rt
	} else if rhs != nil {
		t = w.typeOf(rhs)
	}
	if (t == nil || t.ext) && nm.Name == "err" {
		t = &lsType{pkg: w.pkg, e: ast.NewIdent("error")}
	}
	if t != nil || w.env[nm.Name] == nil {
		w.env[nm.Name] = t
	}
	if rhs != nil && nm.Name != "err" { // (an error value is never part of the guarded structure)
		if l := w.aliasOf(rhs); l != nil {
			w.alias[nm.Name] = l // may-alias: never dropped afterwards
		}
	}
}

func (w *lsWalker) assign(st *ast.AssignStmt) {
	for _, r := range st.Rhs {
		w.rdAs(r, "escape") // a second name for the map / the slice
	}
	if st.Tok != token.ASSIGN && st.Tok != token.DEFINE {
		for _, l := range st.Lhs {
			w.rd(l) // x op= y reads x
		}
	}
	for _, l := range st.Lhs {
		w.wr(l)
	}
	var rts []*lsType
	if len(st.Rhs) == 1 && len(st.Lhs) > 1 {
		if c, ok := st.Rhs[0].(*ast.CallExpr); ok {
			rts = w.resultTypes(c)
		}
	}
	for i, l := range st.Lhs {
		id, ok := l.(*ast.Ident)
		if !ok {
			// storing a reference into the guarded structure somewhere else makes it escape
			if i < len(st.Rhs) && len(st.Lhs) == len(st.Rhs) {
				if al := w.aliasOf(st.Rhs[i]); al != nil {
					if bl, _ := w.baseLoc(lsRoot(l)); bl == nil {
						w.emit(al, "Cont", "KEsc", st.Rhs[i].Pos())
					}
				}
			}
			continue
		}
		var rhs ast.Expr
		var rt *lsType
		if len(st.Lhs) == len(st.Rhs) {
			rhs = st.Rhs[i]
		} else if len(st.Rhs) == 1 {
			if i == 0 {
				switch st.Rhs[0].(type) {
				case *ast.IndexExpr, *ast.TypeAssertExpr, *ast.UnaryExpr:
					rhs = st.Rhs[0] // v, ok := m[k] / x.(T) / <-ch
				}
			}
			if i < len(rts) {
				rt = rts[i]
			} else if i > 0 && rts == nil {
				if _, isCall := st.Rhs[0].(*ast.CallExpr); !isCall {
					rt = &lsType{pkg: w.pkg, e: ast.NewIdent("bool")}
				}
			}
		}
		w.bind(id, nil, rhs, rt)
	}
}

// the expression whose storage an assignment target lives in (a.b[c].d -> a.b)
func lsRoot(e ast.Expr) ast.Expr {
	for {
		switch x := e.(type) {
		case *ast.IndexExpr:
			e = x.X
		case *ast.ParenExpr:
			e = x.X
		case *ast.StarExpr:
			e = x.X
		case *ast.SelectorExpr:
			if _, ok := x.X.(*ast.Ident); ok {
				return e
			}
			return lsRootSel(x)
		default:
			return e
		}
	}
}
func lsRootSel(x *ast.SelectorExpr) ast.Expr {
	// x.f.g... : keep peeling selectors until the base is `ident.field`
	for {
		inner, ok := x.X.(*ast.SelectorExpr)
		if !ok {
			return lsRoot(x.X)
		}
		if _, ok := inner.X.(*ast.Ident); ok {
			return inner
		}
		x = inner
	}
}

// ----- expressions

// write through an assignment target
func (w *lsWalker) wr(e ast.Expr) {
	switch x := e.(type) {
	case *ast.ParenExpr:
		w.wr(x.X)
	case *ast.Ident:
	case *ast.SelectorExpr:
		if l := w.trackedSel(x); l != nil {
			w.emit(l, "Slot", "KWr", x.Pos())
			return
		}
		if _, _, _, _, ok := w.lockSel(x); ok {
			w.giveUp("mutex field assigned", x.Pos())
			return
		}
		if w.noteLoose(x, "write") {
			w.rd(x.X)
			return
		}
		if l, isField := w.baseLoc(x.X); l != nil {
			if isField {
				w.emit(l, "Slot", "KRd", x.Pos())
			}
			w.emit(l, "Cont", "KWr", x.Pos())
			return
		}
		w.rd(x.X)
	case *ast.IndexExpr:
		w.rd(x.Index)
		if l, isField := w.baseLoc(x.X); l != nil {
			if isField {
				w.emit(l, "Slot", "KRd", x.Pos())
			}
			w.emit(l, "Cont", "KWr", x.Pos())
			return
		}
		w.rdAs(x.X, "mutate")
	case *ast.StarExpr:
		if l, isField := w.baseLoc(x.X); l != nil {
			if isField {
				w.emit(l, "Slot", "KRd", x.Pos())
			}
			w.emit(l, "Cont", "KWr", x.Pos())
			return
		}
		w.rd(x.X)
	default:
		w.rd(e)
	}
}

// use of a structure base (field or alias) whose contents are read or written
func (w *lsWalker) useBase(e ast.Expr, kind string) bool {
	l, isField := w.baseLoc(e)
	if l == nil {
		return false
	}
	if isField {
		w.emit(l, "Slot", "KRd", e.Pos())
	}
	w.emit(l, "Cont", kind, e.Pos())
	return true
}

func (w *lsWalker) rd(e ast.Expr) {
	switch x := e.(type) {
	case nil:
	case *ast.Ident, *ast.BasicLit:
	case *ast.ParenExpr:
		w.rd(x.X)
	case *ast.SelectorExpr:
		if l := w.trackedSel(x); l != nil {
			w.emit(l, "Slot", "KRd", x.Pos())
			return
		}
		if _, _, _, _, ok := w.lockSel(x); ok {
			w.giveUp("mutex field used other than by Lock/Unlock/RLock/RUnlock statements", x.Pos())
			return
		}
		w.noteLoose(x, "read")
		if p, tn := w.a.namedOf(w.typeOf(x.X)); p != nil && p.wgs[tn][x.Sel.Name] {
			w.giveUp("WaitGroup field used other than by Add/Done/Wait calls", x.Pos())
			w.top.report = true
			return
		}
		if w.useBase(x.X, "KRd") {
			return
		}
		w.rd(x.X)
	case *ast.IndexExpr:
		w.rd(x.Index)
		if w.useBase(x.X, "KRd") {
			return
		}
		w.rd(x.X)
	case *ast.SliceExpr:
		w.rd(x.Low)
		w.rd(x.High)
		w.rd(x.Max)
		if l, isField := w.baseLoc(x.X); l != nil {
			if isField {
				w.emit(l, "Slot", "KRd", x.Pos())
			}
			return
		}
		w.rd(x.X)
	case *ast.StarExpr:
		if w.useBase(x.X, "KRd") {
			return
		}
		w.rd(x.X)
	case *ast.UnaryExpr:
		if x.Op == token.AND {
			if l := w.trackedSel(x.X); l != nil {
				w.emit(l, "Slot", "KEsc", x.Pos()) // address of a tracked field
				return
			}
			if _, _, _, _, ok := w.lockSel(x.X); ok {
				w.giveUp("address of a mutex field taken", x.Pos())
				return
			}
		}
		if x.Op == token.ARROW && w.noWait == 0 {
			if g, ok := w.chanGroup(x.X); ok {
				w.wait(g, x.Pos())
			}
		}
		w.rd(x.X)
	case *ast.BinaryExpr:
		w.rd(x.X)
		w.rd(x.Y)
	case *ast.KeyValueExpr:
		if _, ok := x.Key.(*ast.Ident); !ok {
			w.rd(x.Key)
		}
		w.rdAs(x.Value, "escape") // stored in another structure
	case *ast.CompositeLit:
		for _, el := range x.Elts {
			w.rdAs(el, "escape")
		}
	case *ast.TypeAssertExpr:
		w.rd(x.X)
	case *ast.FuncLit:
		// assumed to be invoked synchronously by whoever receives it (e.g. ring.Do): current lockset
		w.inLit++
		for _, fl := range x.Type.Params.List {
			for _, nm := range fl.Names {
				w.env[nm.Name] = &lsType{pkg: w.pkg, e: fl.Type}
			}
		}
		saved := w.loops
		w.loops = nil
		w.block(x.Body)
		w.loops = saved
		w.inLit--
	case *ast.CallExpr:
		w.call(x)
	case *ast.ArrayType, *ast.MapType, *ast.ChanType, *ast.FuncType, *ast.InterfaceType, *ast.StructType, *ast.Ellipsis:
	default:
		w.giveUp(fmt.Sprintf("expression %T", e), e.Pos())
	}
}

func (w *lsWalker) call(c *ast.CallExpr) {
	if _, op, ok := w.lockCall(c); ok {
		w.giveUp("lock operation "+op+" used inside an expression", c.Pos())
		return
	}
	if w.syncCall(c) {
		return
	}
	if id, ok := c.Fun.(*ast.Ident); ok && w.env[id.Name] == nil {
		switch id.Name {
		case "close":
			if len(c.Args) == 1 {
				if g, ok := w.chanGroup(c.Args[0]); ok {
					w.member(g, c.Pos()) // whoever closes the channel is whom its receivers wait for
				}
			}
		case "len", "cap":
			if len(c.Args) == 1 {
				if _, _, _, ok := w.looseSel(c.Args[0]); ok {
					w.rdAs(c.Args[0], "read")
					return
				}
				if l, isField := w.baseLoc(c.Args[0]); l != nil {
					k := w.a.kindOf(w.typeOf(c.Args[0]))
					if isField {
						w.emit(l, "Slot", "KRd", c.Pos())
					}
					if k != "slice" { // a slice's length lives in its header; a map's or channel's in the shared object
						w.emit(l, "Cont", "KRd", c.Pos())
					}
					return
				}
			}
		case "append":
			if len(c.Args) > 0 {
				if !w.useBase(c.Args[0], "KWr") { // may write the shared backing array
					w.rdAs(c.Args[0], "mutate")
				}
				for _, a := range c.Args[1:] {
					w.rd(a)
				}
				return
			}
		case "delete":
			if len(c.Args) == 2 {
				if !w.useBase(c.Args[0], "KWr") {
					w.rdAs(c.Args[0], "mutate")
				}
				w.rd(c.Args[1])
				return
			}
		case "copy":
			if len(c.Args) == 2 {
				if !w.useBase(c.Args[0], "KWr") {
					w.rdAs(c.Args[0], "mutate")
				}
				if !w.useBase(c.Args[1], "KRd") {
					w.rd(c.Args[1])
				}
				return
			}
		case "make", "new":
			for _, a := range c.Args[1:] {
				w.rd(a)
			}
			return
		}
	}
	// receiver / function expression
	switch f := c.Fun.(type) {
	case *ast.SelectorExpr:
		if !w.useBase(f.X, "KRd") { // a method called on the structure reads it
			w.rd(f.X)
		}
	case *ast.Ident:
	default:
		w.rd(c.Fun)
	}
	key, fd, p2 := w.callee(c)
	var passed []int
	for i, a := range c.Args {
		w.rdAs(a, "escape") // handed to a callee
		if l := w.aliasOf(a); l != nil {
			passed = append(passed, i)
			if fd == nil || p2 != w.pkg {
				// handed to code that is not walked: assumed to be used synchronously, under the current lockset
				w.emit(l, "Cont", "KRd", a.Pos())
			}
		}
	}
	w.noteCall(c)
	if fd != nil && p2 == w.pkg && fd.Recv != nil && w.inLit == 0 && w.inDefer == 0 {
		if x, ok := c.Fun.(*ast.SelectorExpr); ok {
			if id, ok := x.X.(*ast.Ident); ok {
				if w.a.pass == 1 {
					s := w.a.heldSites[key]
					s[0]++
					for _, h := range w.held {
						if h.inst == id.Name && h.pkg == p2 && h.typ == lsRecvType(fd) {
							s[1]++
							break
						}
					}
					w.a.heldSites[key] = s
				} else if w.a.heldHelper[key] {
					w.inlineHeld(key, fd, c, id.Name)
					return
				}
			}
		}
	}
	if fd != nil && p2 == w.pkg && len(passed) > 0 {
		w.inline(key, fd, c)
	}
}

// walk a lock-held helper (findHeldHelpers) in place: the caller's locks on the instance it is called on are the locks held
// on the helper's receiver
func (w *lsWalker) inlineHeld(key string, fd *ast.FuncDecl, c *ast.CallExpr, inst string) {
	sig := key + "#held"
	for _, s := range w.stack {
		if s == sig {
			return
		}
	}
	if len(w.stack) >= 5 {
		w.giveUp("call chain too deep to follow", c.Pos())
		return
	}
	name := key[strings.Index(key, "|")+1:]
	rn := lsRecvName(fd)
	var held []lsHeld
	for _, h := range w.held {
		if h.inst == inst {
			h2 := h
			h2.inst = rn
			held = append(held, h2)
		}
	}
	cw := &lsWalker{a: w.a, pkg: w.pkg, top: w.top, label: w.label + ">" + name, env: map[string]*lsType{}, alias: map[string]*lsLoc{},
		held: held, stack: append(append([]string{}, w.stack...), sig), inLit: w.inLit, unit: w.unit, noWait: w.noWait, inDefer: w.inDefer, conds: w.conds, body: fd.Body, recv: rn}
	cw.bindParams(fd, c.Args, w)
	n := len(cw.held)
	cw.block(fd.Body)
	if len(cw.held) != n {
		w.giveUp("callee changes the caller's lockset", c.Pos())
	}
}

// walk a same-package callee in place, its parameters aliased to the guarded structure passed in
func (w *lsWalker) inline(key string, fd *ast.FuncDecl, c *ast.CallExpr) {
	sig := key
	for i, a := range c.Args {
		if l := w.aliasOf(a); l != nil {
			sig += fmt.Sprintf("#%d=%s.%s", i, l.typ, l.field)
		}
	}
	for _, s := range w.stack {
		if s == sig {
			return // already being walked with the same aliasing
		}
	}
	if len(w.stack) >= 5 {
		w.giveUp("call chain too deep to follow", c.Pos())
		return
	}
	name := key[strings.Index(key, "|")+1:]
	cw := &lsWalker{a: w.a, pkg: w.pkg, top: w.top, label: w.label + ">" + name, env: map[string]*lsType{}, alias: map[string]*lsLoc{},
		held: lsCopyHeld(w.held), stack: append(append([]string{}, w.stack...), sig), inLit: w.inLit, unit: w.unit, noWait: w.noWait, inDefer: w.inDefer, conds: w.conds, body: fd.Body, recv: lsRecvName(fd)}
	cw.bindParams(fd, c.Args, w)
	n := len(cw.held)
	cw.block(fd.Body)
	if len(cw.held) != n {
		w.giveUp("callee changes the caller's lockset", c.Pos())
	}
}

// ---------------------------------------------------------------------------------------------------
// the wait-for graph (the Coq obligation wait_graph_acyclic recomputes it from the tables; this copy serves the
// self-test and a comment in the generated file)
// ---------------------------------------------------------------------------------------------------

type lsEdge struct{ from, to, where string }

func (o *lsOut) waitEdges() []lsEdge {
	var es []lsEdge
	for _, n := range o.nests {
		es = append(es, lsEdge{n.held, n.acquired, n.where})
	}
	for _, w := range o.waits {
		for _, h := range w.held {
			es = append(es, lsEdge{h, w.group, w.fn + " " + w.pos})
		}
	}
	for _, c := range o.covers {
		es = append(es, lsEdge{c.group, c.target, c.where})
	}
	return es
}

// some cycle of the graph (as its edges), or nil
func lsFindCycle(es []lsEdge) []lsEdge {
	out := map[string][]lsEdge{}
	var nodes []string
	for _, e := range es {
		if out[e.from] == nil {
			nodes = append(nodes, e.from)
		}
		out[e.from] = append(out[e.from], e)
	}
	state := map[string]int{} // 1 = on the stack, 2 = finished
	var stack []lsEdge
	var found []lsEdge
	var dfs func(n string) bool
	dfs = func(n string) bool {
		state[n] = 1
		for _, e := range out[n] {
			if state[e.to] == 1 {
				i := 0
				for j, s := range stack {
					if s.from == e.to {
						i = j
						break
					}
				}
				if n == e.to {
					found = []lsEdge{e}
				} else {
					found = append(append([]lsEdge{}, stack[i:]...), e)
				}
				return true
			}
			if state[e.to] == 0 {
				stack = append(stack, e)
				if dfs(e.to) {
					return true
				}
				stack = stack[:len(stack)-1]
			}
		}
		state[n] = 2
		return false
	}
	for _, n := range nodes {
		if state[n] == 0 {
			stack = nil
			if dfs(n) {
				return found
			}
		}
	}
	return nil
}

// ---------------------------------------------------------------------------------------------------
// output
// ---------------------------------------------------------------------------------------------------

func (o *lsOut) coq() string {
	var b strings.Builder
	b.WriteString("(* GENERATED by tools/gen/locksets.go from the Go source at every check run. Do not edit. *)\n")
	b.WriteString("From V Require Import Model.C18_Table.\nLocal Open Scope string_scope.\nLocal Open Scope N_scope.\n\n")
	b.WriteString("(* (type, field, kind of the field) the translator was asked to follow and found *)\n")
	b.WriteString("Definition tracked : list (string * string * string) := [\n  " + strings.Join(o.tracked, ";\n  ") + "].\n\n")
	b.WriteString("(* mutex fields of those types *)\n")
	b.WriteString("Definition locks : list (string * string * string) := [\n  " + strings.Join(o.locks, ";\n  ") + "].\n\n")
	var as []string
	dup := map[string]bool{}
	for _, a := range o.accs {
		var ls []string
		for _, h := range a.locks {
			ls = append(ls, fmt.Sprintf("L %s %v %d", coqStr(h.field), h.excl, h.sec))
		}
		line := fmt.Sprintf("A %s %s %s %s %s %s %v [%s] %s", coqStr(a.typ), coqStr(a.field), a.part, coqStr(a.fn), coqStr(a.via), a.kind, a.unknown,
			strings.Join(ls, "; "), coqStr(a.pos))
		if !dup[line] {
			dup[line] = true
			as = append(as, line)
		}
	}
	b.WriteString("Definition accesses : list access := [\n  " + strings.Join(as, ";\n  ") + "].\n\n")
	seen := map[string]bool{}
	var ns []string
	for _, n := range o.nests {
		k := n.held + ">" + n.acquired
		if seen[k] {
			continue
		}
		seen[k] = true
		ns = append(ns, fmt.Sprintf("(%s, %s, %s)", coqStr(n.held), coqStr(n.acquired), coqStr(n.where)))
	}
	b.WriteString("(* (held, acquired, first place seen) *)\n")
	b.WriteString("Definition nesting : list (string * string * string) := [\n  " + strings.Join(ns, ";\n  ") + "].\n\n")
	var lk []string
	for _, l := range o.leaks {
		lk = append(lk, fmt.Sprintf("(%s, %s, %s, %s)", coqStr(l.fn), coqStr(l.lock), coqStr(l.what), coqStr(l.pos)))
	}
	b.WriteString("(* locks still held at a return with no deferred unlock, unmatched unlocks, functions not followed *)\n")
	b.WriteString("Definition leaks : list (string * string * string * string) := [\n  " + strings.Join(lk, ";\n  ") + "].\n\n")
	b.WriteString("(* waits: (function [-> callee chain], locks held there, group waited for, position). wg:T.f = the goroutines covered by the\n")
	b.WriteString("   sync.WaitGroup field f of T (X.Wait()); ch:T.f = whoever closes / sends on the channel field f (plain receive) *)\n")
	var ws []string
	dupw := map[string]bool{}
	for _, x := range o.waits {
		line := fmt.Sprintf("(%s, %s, %s, %s)", coqStr(x.fn), coqStrList(x.held), coqStr(x.group), coqStr(x.pos))
		if !dupw[line] {
			dupw[line] = true
			ws = append(ws, line)
		}
	}
	b.WriteString("Definition waits : list (string * list string * string * string) := [\n  " + strings.Join(ws, ";\n  ") + "].\n\n")
	b.WriteString("(* the code units each group covers: a `go func` literal or a function that calls X.Done() (closes / sends on the channel) *)\n")
	var ms []string
	dupm := map[string]bool{}
	for _, m := range o.members {
		line := fmt.Sprintf("(%s, %s, %s)", coqStr(m.group), coqStr(m.label), coqStr(m.pos))
		if !dupm[m.group+"|"+m.unit] {
			dupm[m.group+"|"+m.unit] = true
			ms = append(ms, line)
		}
	}
	b.WriteString("Definition members : list (string * string * string) := [\n  " + strings.Join(ms, ";\n  ") + "].\n\n")
	b.WriteString("(* plain receives from channel fields: (function, group, locks held, conditions it sits under, position) *)\n")
	var cws []string
	awaitedCh := map[string]bool{}
	for _, x := range o.waits {
		if x.direct && strings.HasPrefix(x.group, "ch:") {
			awaitedCh[x.group] = true
			cws = append(cws, fmt.Sprintf("(%s, %s, %s, %s, %s)", coqStr(x.fn), coqStr(x.group), coqStrList(x.held), coqStrList(x.conds), coqStr(x.pos)))
		}
	}
	b.WriteString("Definition chan_waits : list (string * string * list string * list string * string) := [\n  " + strings.Join(cws, ";\n  ") + "].\n\n")
	b.WriteString("(* who closes (or sends on) an awaited channel: (group, code unit, is the close reached whenever the unit runs, position) *)\n")
	var cls []string
	for _, m := range o.members {
		if awaitedCh[m.group] {
			cls = append(cls, fmt.Sprintf("(%s, %s, %v, %s)", coqStr(m.group), coqStr(m.label), m.sure, coqStr(m.pos)))
		}
	}
	b.WriteString("Definition closers : list (string * string * bool * string) := [\n  " + strings.Join(cls, ";\n  ") + "].\n\n")
	b.WriteString("(* go statements: (code unit started, code unit that executes the go statement, is that a constructor-like function,\n")
	b.WriteString("   conditions the go statement sits under, return statements of the launcher that precede it, position) *)\n")
	var lns []string
	for _, l := range o.launches {
		lns = append(lns, fmt.Sprintf("(%s, %s, %v, %s, %s, %s)", coqStr(l.unit), coqStr(l.by), l.ctor, coqStrList(l.conds), coqStrList(l.exits), coqStr(l.pos)))
	}
	b.WriteString("Definition launches : list (string * string * bool * list string * list string * string) := [\n  " + strings.Join(lns, ";\n  ") + "].\n\n")
	b.WriteString("(* map / slice fields of the owner types that are not in the table, are mutated, assigned or handed on outside a constructor,\n")
	b.WriteString("   and are used by code reachable from two different goroutine entry points: (type, field, kind, entry points, use sites) *)\n")
	var shs []string
	for _, x := range o.shared {
		shs = append(shs, fmt.Sprintf("(%s, %s, %s, %s, %s)", coqStr(x.typ), coqStr(x.field), coqStr(x.fkind), coqStrList(x.entries), coqStrList(x.sites)))
	}
	b.WriteString("Definition shared_untracked : list (string * string * string * list string * list string) := [\n  " + strings.Join(shs, ";\n  ") + "].\n\n")
	b.WriteString("(* (group, lock a covered unit may acquire | group a covered unit may wait for, the unit and the call chain) *)\n")
	var cs []string
	for _, c := range o.covers {
		cs = append(cs, fmt.Sprintf("(%s, %s, %s)", coqStr(c.group), coqStr(c.target), coqStr(c.where)))
	}
	b.WriteString("Definition covers : list (string * string * string) := [\n  " + strings.Join(cs, ";\n  ") + "].\n\n")
	if cyc := lsFindCycle(o.waitEdges()); cyc != nil {
		b.WriteString("(* the translator's own search finds a cycle in the wait-for graph (the obligation wait_graph_acyclic decides):\n")
		for _, e := range cyc {
			b.WriteString("     " + strings.ReplaceAll(e.from+" -> "+e.to+"   ["+e.where+"]", "*)", "* )") + "\n")
		}
		b.WriteString("*)\n\n")
	}
	b.WriteString("(* functions that return values *)\n")
	hasAcc := map[string]bool{}
	for _, a := range o.accs {
		hasAcc[a.fn] = true
	}
	var acs []string
	for _, f := range o.accessors {
		if hasAcc[f] {
			acs = append(acs, f)
		}
	}
	b.WriteString("Definition accessors : list string := " + coqStrList(acs) + ".\n")
	return b.String()
}
