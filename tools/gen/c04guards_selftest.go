package main

// Self-test of the guard-chain translator, run before every generation: a reduced setupPin / Unpin in the statement
// styles of cluster.go must give exactly the expected step lists; hand-made variants (two guards swapped, a guard dropped,
// `||` for `&&`, the expiry comparison flipped, a new refusal added) must give the correspondingly different lists; and
// shapes the walk does not know must be refused.

import (
	"fmt"
	"strings"
)

const c04SelfBase = `package p

func (c *Cluster) setupPin(ctx context.Context, pin, existing *api.Pin) error {
	_, span := trace.StartSpan(ctx, "cluster/setupPin")
	defer span.End()

	err := c.setupReplicationFactor(pin)
	if err != nil {
		return err
	}

	if !pin.ExpireAt.IsZero() && pin.ExpireAt.Before(time.Now()) {
		return errors.New("pin.ExpireAt set before current time")
	}

	if existing == nil {
		return nil
	}

	if existing.Type != pin.Type {
		msg := "cannot repin CID with different tracking method, "
		msg += "clear state with pin rm to proceed. "
		return fmt.Errorf(msg, pin.Type, existing.Type)
	}

	if existing.Mode == api.PinModeRecursive && pin.Mode != api.PinModeRecursive {
		return fmt.Errorf("cannot repin a CID which is already pinned in recursive mode (new pin is pinned as %s)", pin.Mode)
	}

	return checkPinType(pin)
}

func (c *Cluster) Unpin(ctx context.Context, h cid.Cid) (*api.Pin, error) {
	if c.config.FollowerMode {
		return nil, errFollowerMode
	}

	logger.Info("IPFS cluster unpinning:", h)
	pin, err := c.PinGet(ctx, h)
	if err != nil {
		return nil, err
	}

	switch pin.Type {
	case api.DataType:
		return pin, c.consensus.LogUnpin(ctx, pin)
	case api.MetaType:
		err := c.unpinClusterDag(pin)
		if err != nil {
			return pin, err
		}
		return pin, c.consensus.LogUnpin(ctx, pin)
	default:
		return pin, errors.New("unrecognized pin type")
	}
}

func (c *Cluster) grow(pin *api.Pin) error {
	n := pin.ReplicationFactorMin
	if n == 0 {
		n = c.config.ReplicationFactorMin
		pin.ReplicationFactorMin = n
	}
	if n < -1 {
		return errors.New("cluster.replication_factor_min is wrong")
	}
	return nil
}
`

func c04SelfSteps(src, fn string) ([]string, error) {
	cf, err := c15LoadSrc(src)
	if err != nil {
		return nil, err
	}
	st, err := c04Translate("", cf, fn)
	if err != nil {
		return nil, err
	}
	var out []string
	for _, s := range st {
		out = append(out, s.coq)
	}
	return out, nil
}

func c04SelfTest() error {
	want := map[string][]string{
		"setupPin": {
			`SCall "setupReplicationFactor"`,
			`SGuard (GAnd (GNot GExpireZero) GExpireBefore) (Refuse "EExpired")`,
			`SGuard (GIsNil WExisting) Accept`,
			`SGuard (GNot GTypeSame) (Refuse "ETypeChange")`,
			`SGuard (GAnd (GModeRec WExisting) (GNot (GModeRec WPin))) (Refuse "EDowngrade")`,
			`STail "checkPinType"`},
		"Unpin": {
			`SGuard GFollower (Refuse "EFollower")`,
			`SGuard (GFails "PinGet") (Refuse "ENotFound")`,
			`SGuard (GTypeIs WPin DataT) (Commit "LogUnpin")`,
			`SGuard (GAnd (GTypeIs WPin MetaT) (GFails "unpinClusterDag")) (Refuse "EMeta")`,
			`SGuard (GTypeIs WPin MetaT) (Commit "LogUnpin")`,
			`SGuard (GNot (GOr (GTypeIs WPin DataT) (GTypeIs WPin MetaT))) (Refuse "EUnpinType")`},
		"grow": {
			`SEffect (GBool true) [ESetLocal "n" (ZPin FRmin)]`,
			`SEffect (GEq (ZLocal "n") (ZK 0)) [ESetLocal "n" (ZCfg FRmin); ESetPinZ FRmin (ZLocal "n")]`,
			`SGuard (GLt (ZLocal "n") (ZK (-1))) (Refuse "EBadFactors")`,
			`SGuard (GBool true) Accept`},
	}
	for fn, w := range want {
		got, err := c04SelfSteps(c04SelfBase, fn)
		if err != nil {
			return fmt.Errorf("base %s: %v", fn, err)
		}
		if strings.Join(got, "\n") != strings.Join(w, "\n") {
			return fmt.Errorf("base %s: got\n%s", fn, strings.Join(got, "\n"))
		}
	}
	expiry := "\tif !pin.ExpireAt.IsZero() && pin.ExpireAt.Before(time.Now()) {\n\t\treturn errors.New(\"pin.ExpireAt set before current time\")\n\t}\n\n"
	nilchk := "\tif existing == nil {\n\t\treturn nil\n\t}\n\n"
	muts := []c04SelfMut{
		{"two guards swapped", "setupPin", expiry + nilchk, nilchk + expiry, `SGuard (GIsNil WExisting) Accept`, "", "", 1},
		{"follower guard dropped", "Unpin", "\tif c.config.FollowerMode {\n\t\treturn nil, errFollowerMode\n\t}\n", "", `SGuard (GFails "PinGet") (Refuse "ENotFound")`, "GFollower", "", 0},
		{"or for and", "setupPin", "existing.Mode == api.PinModeRecursive && pin.Mode", "existing.Mode == api.PinModeRecursive || pin.Mode",
			`SGuard (GOr (GModeRec WExisting) (GNot (GModeRec WPin))) (Refuse "EDowngrade")`, "", "", 4},
		{"expiry comparison flipped", "setupPin", "pin.ExpireAt.Before(time.Now())", "pin.ExpireAt.After(time.Now())",
			`SGuard (GAnd (GNot GExpireZero) GExpireAfter) (Refuse "EExpired")`, "GExpireBefore", "", 1},
		{"downgrade allowed", "setupPin", "\tif existing.Mode == api.PinModeRecursive && pin.Mode != api.PinModeRecursive {\n\t\treturn fmt.Errorf(\"cannot repin a CID which is already pinned in recursive mode (new pin is pinned as %s)\", pin.Mode)\n\t}\n", "",
			`STail "checkPinType"`, "EDowngrade", "", 4},
		{"new refusal", "setupPin", nilchk, nilchk + "\tif pin.MaxDepth > 1 {\n\t\treturn errors.New(\"too deep\")\n\t}\n\n",
			`SGuard (GLt (ZK 1) (ZPin FDepth)) (Refuse "EOther")`, "", "", 3},
		{"case dropped", "Unpin", "\tcase api.DataType:\n\t\treturn pin, c.consensus.LogUnpin(ctx, pin)\n", "", `SGuard (GNot (GTypeIs WPin MetaT)) (Refuse "EUnpinType")`, "DataT", "", -1},
		{"loop", "Unpin", "\tlogger.Info(", "\tfor i := 0; i < 3; i++ {\n\t}\n\tlogger.Info(", "", "", "statement not understood", 0},
		{"unknown leaf", "setupPin", "if existing == nil {", "if existing.Name == \"\" {", "", "", "condition not followed", 0},
		{"unknown assignment", "grow", "\t\tpin.ReplicationFactorMin = n\n", "\t\tpin.Name = \"x\"\n", "", "", "assignment not understood", 0},
		{"step after an effect in a block", "grow", "\t\tpin.ReplicationFactorMin = n\n", "\t\tpin.ReplicationFactorMin = n\n\t\tif n == 0 {\n\t\t\treturn errors.New(\"zero\")\n\t\t}\n", "", "", "after an effect inside a conditional block", 0},
		{"unknown return", "Unpin", "return pin, errors.New(\"unrecognized pin type\")", "return pin, wrap(h)", "", "", "return not understood", 0},
		{"message not followed", "Unpin", "errors.New(\"unrecognized pin type\")", "errors.New(describe(h))", "", "", "error message not followed", 0},
		{"call not followed by the error check", "setupPin", "\terr := c.setupReplicationFactor(pin)\n\tif err != nil {\n\t\treturn err\n\t}\n", "\terr := c.setupReplicationFactor(pin)\n\tlogger.Info(err)\n", "", "", "not followed by", 0},
		{"switch over something else", "Unpin", "switch pin.Type {", "switch pin.Mode {", "", "", "switch over something else", 0},
		{"goto", "Unpin", "\tlogger.Info(", "\tgoto end\n\tlogger.Info(", "", "", "statement not understood", 0},
	}
	if err := c04SelfMutants(c04SelfBase, want, muts); err != nil {
		return err
	}
	return c04SelfTestHelpers()
}

type c04SelfMut struct {
	name, fn, old, new   string
	has, hasNot, wantErr string
	at                   int // index where `has` must be (-1: anywhere)
}

func c04SelfMutants(src string, want map[string][]string, muts []c04SelfMut) error {
	for _, m := range muts {
		if strings.Count(src, m.old) != 1 {
			return fmt.Errorf("mutant %q: anchor not unique (%d)", m.name, strings.Count(src, m.old))
		}
		got, err := c04SelfSteps(strings.Replace(src, m.old, m.new, 1), m.fn)
		if m.wantErr != "" {
			if err == nil {
				return fmt.Errorf("mutant %q: accepted", m.name)
			}
			if !strings.Contains(err.Error(), m.wantErr) {
				return fmt.Errorf("mutant %q: failed for another reason: %v", m.name, err)
			}
			continue
		}
		if err != nil {
			return fmt.Errorf("mutant %q: %v", m.name, err)
		}
		all := strings.Join(got, "\n")
		if all == strings.Join(want[m.fn], "\n") {
			return fmt.Errorf("mutant %q: same steps as the base", m.name)
		}
		ok := false
		for i, g := range got {
			if g == m.has && (m.at < 0 || m.at == i) {
				ok = true
			}
		}
		if !ok || (m.hasNot != "" && strings.Contains(all, m.hasNot)) {
			return fmt.Errorf("mutant %q: got\n%s", m.name, all)
		}
	}
	return nil
}

// Extracted helpers: pinEx is pinIn with the follower guard, the same-options condition and the allocation block moved into
// a method, a package-level predicate and a method (parameters renamed). Both must give exactly the same steps; a helper or
// a call site that is changed must give different steps or be refused.
const c04SelfHelpers = `package p

func (c *Cluster) pinIn(ctx context.Context, pin, existing *api.Pin, blacklist []peer.ID) (*api.Pin, bool, error) {
	if c.config.FollowerMode {
		return nil, false, errFollowerMode
	}
	if existing != nil && pin.PinOptions.Equals(&existing.PinOptions) && len(blacklist) == 0 {
		pin = existing
	}
	if len(pin.Allocations) == 0 {
		allocs, err := c.allocate(ctx, pin.Cid, existing, blacklist)
		if err != nil {
			return pin, false, err
		}
		pin.Allocations = allocs
	}
	return pin, true, c.consensus.LogPin(ctx, pin)
}

func (c *Cluster) pinEx(ctx context.Context, pin, existing *api.Pin, blacklist []peer.ID) (*api.Pin, bool, error) {
	err := c.writable()
	if err != nil {
		return nil, false, err
	}
	if sameRequest(pin, existing, blacklist) {
		pin = existing
	}
	err = c.fillAllocations(ctx, pin, existing, blacklist)
	if err != nil {
		return pin, false, err
	}
	return pin, true, c.consensus.LogPin(ctx, pin)
}

func (c *Cluster) writable() error {
	if c.config.FollowerMode {
		return errFollowerMode
	}
	return nil
}

func sameRequest(p, old *api.Pin, avoid []peer.ID) bool {
	if old == nil {
		return false
	}
	return p.PinOptions.Equals(&old.PinOptions) && len(avoid) == 0
}

func (cl *Cluster) fillAllocations(ctx context.Context, p, old *api.Pin, avoid []peer.ID) error {
	if len(p.Allocations) != 0 {
		return nil
	}
	allocs, err := cl.allocate(ctx, p.Cid, old, avoid)
	if err != nil {
		return err
	}
	p.Allocations = allocs
	return nil
}
`

func c04SelfTestHelpers() error {
	inline := []string{
		`SGuard GFollower (Refuse "EFollower")`,
		`SEffect (GAnd (GAnd (GNot (GIsNil WExisting)) GOptsEqual) (GEq ZLenBlacklist (ZK 0))) [EUseExisting]`,
		`SGuard (GAnd (GEq ZLenAllocs (ZK 0)) (GFails "allocate")) (Refuse "EAlloc")`,
		`SEffect (GEq ZLenAllocs (ZK 0)) [ESetAllocs]`,
		`SGuard (GBool true) (Commit "LogPin")`}
	want := map[string][]string{"pinIn": inline, "pinEx": inline}
	for fn, w := range want {
		got, err := c04SelfSteps(c04SelfHelpers, fn)
		if err != nil {
			return fmt.Errorf("helpers %s: %v", fn, err)
		}
		if strings.Join(got, "\n") != strings.Join(w, "\n") {
			return fmt.Errorf("helpers %s: got\n%s", fn, strings.Join(got, "\n"))
		}
	}
	call := "\terr = c.fillAllocations(ctx, pin, existing, blacklist)\n\tif err != nil {\n\t\treturn pin, false, err\n\t}\n"
	muts := []c04SelfMut{
		{"predicate body: or for and", "pinEx", "&old.PinOptions) && len(avoid)", "&old.PinOptions) || len(avoid)",
			`SEffect (GAnd (GNot (GIsNil WExisting)) (GOr GOptsEqual (GEq ZLenBlacklist (ZK 0)))) [EUseExisting]`, "", "", 1},
		{"predicate body: conjunct dropped", "pinEx", "&old.PinOptions) && len(avoid) == 0", "&old.PinOptions)",
			`SEffect (GAnd (GNot (GIsNil WExisting)) GOptsEqual) [EUseExisting]`, "ZLenBlacklist", "", 1},
		{"predicate body: nil test dropped", "pinEx", "\tif old == nil {\n\t\treturn false\n\t}\n", "",
			`SEffect (GAnd GOptsEqual (GEq ZLenBlacklist (ZK 0))) [EUseExisting]`, "GIsNil", "", 1},
		{"predicate body: nil test returns true", "pinEx", "\tif old == nil {\n\t\treturn false\n", "\tif old == nil {\n\t\treturn true\n",
			`SEffect (GOr (GIsNil WExisting) (GAnd GOptsEqual (GEq ZLenBlacklist (ZK 0)))) [EUseExisting]`, "", "", 1},
		{"predicate call negated", "pinEx", "if sameRequest(pin, existing, blacklist) {", "if !sameRequest(pin, existing, blacklist) {",
			`SEffect (GNot (GAnd (GAnd (GNot (GIsNil WExisting)) GOptsEqual) (GEq ZLenBlacklist (ZK 0)))) [EUseExisting]`, "", "", 1},
		{"predicate arguments swapped at the call", "pinEx", "sameRequest(pin, existing, blacklist)", "sameRequest(existing, pin, blacklist)", "", "", "condition not followed", 0},
		{"helper drops the follower guard", "pinEx", "\tif c.config.FollowerMode {\n\t\treturn errFollowerMode\n\t}\n", "",
			`SEffect (GAnd (GAnd (GNot (GIsNil WExisting)) GOptsEqual) (GEq ZLenBlacklist (ZK 0))) [EUseExisting]`, "GFollower", "", 0},
		{"helper drops the allocations guard", "pinEx", "\tif len(p.Allocations) != 0 {\n\t\treturn nil\n\t}\n", "",
			`SGuard (GFails "allocate") (Refuse "EAlloc")`, "ZLenAllocs", "", 2},
		{"helper guard negated", "pinEx", "if len(p.Allocations) != 0 {", "if len(p.Allocations) == 0 {",
			`SGuard (GAnd (GNot (GEq ZLenAllocs (ZK 0))) (GFails "allocate")) (Refuse "EAlloc")`, "", "", 2},
		{"helper forgets to store the allocations", "pinEx", "\tp.Allocations = allocs\n", "", `SGuard (GBool true) (Commit "LogPin")`, "ESetAllocs", "", 3},
		{"helper called with pin and existing swapped", "pinEx", "c.fillAllocations(ctx, pin, existing, blacklist)", "c.fillAllocations(ctx, existing, pin, blacklist)", "", "", "condition not followed", 0},
		{"caller ignores the helper's error (call statement)", "pinEx", call, "\tc.fillAllocations(ctx, pin, existing, blacklist)\n", "", "", "its error is not bound to err", 0},
		{"caller ignores the helper's error (blank)", "pinEx", call, "\t_ = c.fillAllocations(ctx, pin, existing, blacklist)\n", "", "", "its error is not bound to err", 0},
		{"caller does not check the helper's error at once", "pinEx", call, "\terr = c.fillAllocations(ctx, pin, existing, blacklist)\n\tlogger.Info(err)\n", "", "", "not followed by", 0},
		{"caller checks the helper's error but goes on", "pinEx", call, "\terr = c.fillAllocations(ctx, pin, existing, blacklist)\n\tif err != nil {\n\t\tlogger.Info(err)\n\t}\n", "", "", "not followed by", 0},
		{"helper called under a condition", "pinEx", call, "\tif !pin.IsPinEverywhere() {\n\t" + strings.ReplaceAll(call, "\n\t", "\n\t\t") + "\t}\n", "", "", "under a condition", 0},
		{"recursive predicate", "pinEx", "return p.PinOptions.Equals(&old.PinOptions) && len(avoid) == 0", "return sameRequest(old, p, avoid)", "", "", "recursive", 0},
		{"predicate with a side effect", "pinEx", "\tif old == nil {\n", "\tlogger.Info(p)\n\tif old == nil {\n", "", "", "cannot see through", 0},
		{"predicate with a loop", "pinEx", "\tif old == nil {\n", "\tfor range avoid {\n\t}\n\tif old == nil {\n", "", "", "cannot see through", 0},
		{"argument with a call", "pinEx", "sameRequest(pin, existing, blacklist)", "sameRequest(pin, c.lookup(pin), blacklist)", "", "", "contains a call", 0},
		{"helper assigns its parameter", "pinEx", "\tp.Allocations = allocs\n", "\tp = old\n", "", "", "assignment to its parameter", 0},
		{"helper commits", "pinEx", "\tif len(p.Allocations) != 0 {\n\t\treturn nil\n", "\tif len(p.Allocations) != 0 {\n\t\treturn cl.consensus.LogPin(ctx, p)\n", "", "", "neither an error exit nor nil", 0},
		{"helper with an error exit after its effect", "pinEx", "\tp.Allocations = allocs\n\treturn nil\n", "\tp.Allocations = allocs\n\treturn errors.New(\"late\")\n", "", "", "after an effect inside a conditional block", 0},
		{"helper returns err unchecked", "pinEx", "\tif err != nil {\n\t\treturn err\n\t}\n\tp.Allocations = allocs\n\treturn nil\n", "\tp.Allocations = allocs\n\treturn err\n", "", "", "after an effect inside a conditional block", 0},
		{"helper returns an err nobody set", "pinEx", "\t\treturn errFollowerMode\n\t}\n\treturn nil\n", "\t\treturn errFollowerMode\n\t}\n\treturn err\n", "", "", "not followed", 0},
		{"helper with a loop", "pinEx", "\tp.Allocations = allocs\n", "\tfor range avoid {\n\t}\n\tp.Allocations = allocs\n", "", "", "the substitution does not copy", 0},
		{"helper with a goto", "pinEx", "\tp.Allocations = allocs\n", "\tgoto end\n\tp.Allocations = allocs\n", "", "", "statement not understood", 0},
		{"helper declares a name of the caller", "pinEx", "\terr := c.writable()\n", "\tallocs := 0\n\terr := c.writable()\n", "", "", "", 0},
	}
	// the last one: refused for either reason (the assignment or the clash)
	last := muts[len(muts)-1]
	muts = muts[:len(muts)-1]
	if _, err := c04SelfSteps(strings.Replace(c04SelfHelpers, last.old, last.new, 1), last.fn); err == nil {
		return fmt.Errorf("mutant %q: accepted", last.name)
	}
	return c04SelfMutants(c04SelfHelpers, want, muts)
}
