package main

// Self-test of the guard translator (placeholder filled below).
func c04SelfTest() error { return nil }
