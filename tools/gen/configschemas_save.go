package main

// Second half of the ConfigSchemas translator: toJSONConfig (save rules), Default() (default values,
// including the library constructors they call, read from the module cache at the version go.mod pins),
// Validate hash, emission.

import (
	"fmt"
	"go/ast"
	"go/token"
	"math"
	"os"
	"path/filepath"
	"sort"
	"strconv"
	"strings"
)

// ---------------------------------------------------------------------------------------------
// values
// ---------------------------------------------------------------------------------------------
type c15Val struct {
	k  string // none, bool, num, str, list, struct, dyn
	b  bool
	n  float64
	s  string
	l  []string
	st map[string]c15Val
}

var c15TimeUnits = map[string]float64{"time.Nanosecond": 1, "time.Microsecond": 1e3, "time.Millisecond": 1e6,
	"time.Second": 1e9, "time.Minute": 60e9, "time.Hour": 3600e9}
var c15KnownConsts = map[string]c15Val{"http.MethodGet": {k: "str", s: "GET"}, "ioutil.Discard": {k: "none"}, "defaultLogger": {k: "none"}}

type c15Eval struct {
	cf     *c15File
	locals map[string]c15Val
	ext    func(pkg, name string) (c15Val, bool)
	repo   string
}

func (ev *c15Eval) eval(e ast.Expr) (c15Val, error) {
	switch x := e.(type) {
	case *ast.ParenExpr:
		return ev.eval(x.X)
	case *ast.BasicLit:
		switch x.Kind {
		case token.INT:
			n, err := strconv.ParseInt(x.Value, 0, 64)
			return c15Val{k: "num", n: float64(n)}, err
		case token.FLOAT:
			f, err := strconv.ParseFloat(x.Value, 64)
			return c15Val{k: "num", n: f}, err
		case token.STRING:
			s, err := strconv.Unquote(x.Value)
			return c15Val{k: "str", s: s}, err
		}
	case *ast.Ident:
		switch x.Name {
		case "true":
			return c15Val{k: "bool", b: true}, nil
		case "false":
			return c15Val{k: "bool", b: false}, nil
		case "nil":
			return c15Val{k: "none"}, nil
		}
		if v, ok := ev.locals[x.Name]; ok {
			return v, nil
		}
		if i, ok := ev.cf.iota[x.Name]; ok {
			return c15Val{k: "num", n: float64(i)}, nil
		}
		if v, ok := ev.cf.values[x.Name]; ok {
			return ev.eval(v)
		}
		if ev.cf.zeroVar[x.Name] {
			return c15Val{k: "zero"}, nil
		}
		if v, ok := c15KnownConsts[x.Name]; ok {
			return v, nil
		}
		if s, ok := ev.cf.enumString(x.Name); ok {
			return c15Val{k: "str", s: s}, nil
		}
		return c15Val{}, fmt.Errorf("unknown identifier %s", x.Name)
	case *ast.SelectorExpr:
		s := ev.cf.text(x)
		if u, ok := c15TimeUnits[s]; ok {
			return c15Val{k: "num", n: u}, nil
		}
		if v, ok := c15KnownConsts[s]; ok {
			return v, nil
		}
		if id, ok := x.X.(*ast.Ident); ok && ev.ext != nil {
			if v, ok := ev.ext(id.Name, x.Sel.Name); ok {
				return v, nil
			}
		}
		return c15Val{}, fmt.Errorf("unknown selector %s", s)
	case *ast.UnaryExpr:
		v, err := ev.eval(x.X)
		if err != nil {
			return v, err
		}
		switch x.Op {
		case token.SUB:
			v.n = -v.n
			return v, nil
		case token.AND:
			return v, nil
		}
	case *ast.BinaryExpr:
		a, err := ev.eval(x.X)
		if err != nil {
			return a, err
		}
		b, err := ev.eval(x.Y)
		if err != nil {
			return b, err
		}
		if a.k != "num" || b.k != "num" {
			return a, fmt.Errorf("non-numeric operands in %s", ev.cf.text(x))
		}
		switch x.Op {
		case token.MUL:
			return c15Val{k: "num", n: a.n * b.n}, nil
		case token.ADD:
			return c15Val{k: "num", n: a.n + b.n}, nil
		case token.SUB:
			return c15Val{k: "num", n: a.n - b.n}, nil
		case token.SHL:
			return c15Val{k: "num", n: a.n * math.Pow(2, b.n)}, nil
		case token.QUO:
			return c15Val{k: "num", n: a.n / b.n}, nil
		}
	case *ast.CompositeLit:
		if len(x.Elts) == 0 {
			if _, ok := x.Type.(*ast.MapType); ok {
				return c15Val{k: "list"}, nil
			}
			if _, ok := x.Type.(*ast.ArrayType); ok {
				return c15Val{k: "list"}, nil
			}
		}
		if _, ok := x.Type.(*ast.ArrayType); ok {
			out := c15Val{k: "list"}
			for _, el := range x.Elts {
				v, err := ev.eval(el)
				if err != nil {
					return v, err
				}
				if v.k != "str" {
					return v, fmt.Errorf("non-string list element")
				}
				out.l = append(out.l, v.s)
			}
			return out, nil
		}
		out := c15Val{k: "struct", st: map[string]c15Val{}}
		for _, el := range x.Elts {
			kv, ok := el.(*ast.KeyValueExpr)
			if !ok {
				return out, fmt.Errorf("unkeyed struct literal")
			}
			v, err := ev.eval(kv.Value)
			if err != nil {
				// members the tables do not use (loggers, ...) may be unevaluable
				v = c15Val{k: "unknown", s: err.Error()}
			}
			out.st[ev.cf.text(kv.Key)] = v
		}
		return out, nil
	case *ast.CallExpr:
		fn := ev.cf.text(x.Fun)
		if fn == "os.Hostname" {
			return c15Val{k: "str", s: "=hostname"}, nil
		}
		if ext, ok := c15ExtDefaults[fn]; ok {
			return c15ExtDefault(ev.repo, ext)
		}
		// conversions and parsers of a constant: the value is the argument
		if len(x.Args) == 1 {
			return ev.eval(x.Args[0])
		}
	}
	return c15Val{}, fmt.Errorf("cannot evaluate %s", ev.cf.text(e))
}

// an enumeration constant declared in another file, rendered by a String() method of this file:
// `case MetricFreeSpace: return "freespace"`
func (cf *c15File) enumString(name string) (string, bool) {
	for key, fd := range cf.funcs {
		if !strings.HasSuffix(key, ".String") {
			continue
		}
		res, ok := "", false
		ast.Inspect(fd.Body, func(n ast.Node) bool {
			cc, isCC := n.(*ast.CaseClause)
			if !isCC || len(cc.Body) != 1 {
				return true
			}
			for _, l := range cc.List {
				if id, isID := l.(*ast.Ident); isID && id.Name == name {
					if rs, isRS := cc.Body[0].(*ast.ReturnStmt); isRS && len(rs.Results) == 1 {
						if bl, isBL := rs.Results[0].(*ast.BasicLit); isBL && bl.Kind == token.STRING {
							res, _ = strconv.Unquote(bl.Value)
							ok = true
						}
					}
				}
			}
			return true
		})
		if ok {
			return res, true
		}
	}
	return "", false
}

func c15ModCache() string {
	if d := os.Getenv("GOMODCACHE"); d != "" {
		return d
	}
	if d := os.Getenv("GOPATH"); d != "" {
		return filepath.Join(strings.Split(d, ":")[0], "pkg", "mod")
	}
	h, _ := os.UserHomeDir()
	return filepath.Join(h, "go", "pkg", "mod")
}

func c15ModVersion(repo, mod string) (string, error) {
	b, err := os.ReadFile(filepath.Join(repo, "go.mod"))
	if err != nil {
		return "", err
	}
	for _, l := range strings.Split(string(b), "\n") {
		f := strings.Fields(l)
		if len(f) >= 2 && f[0] == mod {
			return f[1], nil
		}
		if len(f) >= 3 && f[0] == "require" && f[1] == mod {
			return f[2], nil
		}
	}
	return "", fmt.Errorf("module %s not in go.mod", mod)
}

var c15ExtCache = map[string]c15Val{}

func c15ExtDefault(repo string, ext [3]string) (c15Val, error) {
	key := strings.Join(ext[:], "|")
	if v, ok := c15ExtCache[key]; ok {
		return v, nil
	}
	ver, err := c15ModVersion(repo, ext[0])
	if err != nil {
		return c15Val{}, err
	}
	dir := filepath.Join(c15ModCache(), ext[0]+"@"+ver)
	cf, err := c15Load(filepath.Join(dir, ext[1]))
	if err != nil {
		return c15Val{}, err
	}
	fd := cf.funcs[ext[2]]
	if fd == nil {
		return c15Val{}, fmt.Errorf("%s: function %s not found", ext[1], ext[2])
	}
	ev := &c15Eval{cf: cf, locals: map[string]c15Val{}, repo: repo}
	if fd.Type.Params != nil {
		for _, p := range fd.Type.Params.List {
			for _, n := range p.Names {
				ev.locals[n.Name] = c15Val{k: "str", s: ""}
			}
		}
	}
	// sub-package constants (badger/options: iota enumerations)
	ev.ext = func(pkg, name string) (c15Val, bool) {
		p := filepath.Join(dir, pkg, pkg+".go")
		sub, err := c15Load(p)
		if err != nil {
			return c15Val{}, false
		}
		if i, ok := sub.iota[name]; ok {
			return c15Val{k: "num", n: float64(i)}, true
		}
		return c15Val{}, false
	}
	for _, s := range fd.Body.List {
		rs, ok := s.(*ast.ReturnStmt)
		if !ok || len(rs.Results) != 1 {
			continue
		}
		v, err := ev.eval(rs.Results[0])
		if err != nil {
			return v, err
		}
		if v.k != "struct" {
			return v, fmt.Errorf("%s does not return a struct literal", ext[2])
		}
		v.s = "ext"
		c15ExtCache[key] = v
		return v, nil
	}
	return c15Val{}, fmt.Errorf("%s: no return of a literal", ext[2])
}

// ---------------------------------------------------------------------------------------------
// Default(): Config member path -> value
// ---------------------------------------------------------------------------------------------
func c15Defaults(cf *c15File, sec *c15Sec, repo string) (map[string]c15Val, []string) {
	out := map[string]c15Val{}
	var errs []string
	var assign func(path string, v c15Val)
	assign = func(path string, v c15Val) {
		if v.k == "struct" {
			// a whole block: earlier member values under this path are replaced
			for k := range out {
				if strings.HasPrefix(k, path+".") {
					delete(out, k)
				}
			}
			out[path] = c15Val{k: "block", s: v.s}
			for k, m := range v.st {
				assign(path+"."+k, m)
			}
			return
		}
		out[path] = v
	}
	// package-level variables customised in init(): V = lib.Default...(); V.F = expr
	pkgVars := map[string]c15Val{}
	if fd := cf.funcs["init"]; fd != nil {
		ev := &c15Eval{cf: cf, locals: map[string]c15Val{}, repo: repo}
		ev.ext = func(pkg, name string) (c15Val, bool) { return c15ExtConst(repo, pkg, name) }
		for _, s := range fd.Body.List {
			as, ok := s.(*ast.AssignStmt)
			if !ok || len(as.Lhs) != 1 || len(as.Rhs) != 1 {
				continue
			}
			v, err := ev.eval(as.Rhs[0])
			if err != nil {
				errs = append(errs, "init: "+err.Error())
				continue
			}
			switch l := as.Lhs[0].(type) {
			case *ast.Ident:
				pkgVars[l.Name] = v
			case *ast.SelectorExpr:
				if id, ok := l.X.(*ast.Ident); ok {
					pv, ok := pkgVars[id.Name]
					if !ok {
						pv = c15Val{k: "struct", st: map[string]c15Val{}, s: "zero"}
					}
					if pv.k == "struct" {
						pv.st[l.Sel.Name] = v
						pkgVars[id.Name] = pv
					}
				}
			}
		}
	}
	for _, fn := range sec.defaultFns {
		fd := cf.funcs[sec.cfgType+"."+fn]
		if fd == nil {
			errs = append(errs, "default function "+fn+" not found")
			continue
		}
		cvar := c15Recv(fd)
		ev := &c15Eval{cf: cf, locals: map[string]c15Val{}, repo: repo}
		for k, v := range pkgVars {
			ev.locals[k] = v
		}
		var walk func(stmts []ast.Stmt)
		walk = func(stmts []ast.Stmt) {
			for _, s := range stmts {
				switch s := s.(type) {
				case *ast.AssignStmt:
					if len(s.Rhs) != 1 {
						continue
					}
					// destination: cfg.P... or a local
					root, p, ok := (&c15Walker{}).selPath(s.Lhs[0])
					if !ok {
						continue
					}
					rhs := s.Rhs[0]
					// x = append(x, y): list of the evaluated elements
					if ce, ok := rhs.(*ast.CallExpr); ok && cf.text(ce.Fun) == "append" && len(ce.Args) == 2 {
						v, err := ev.eval(ce.Args[1])
						if err != nil || v.k != "str" {
							continue
						}
						if root == cvar {
							cur := out[p]
							cur.k = "list"
							cur.l = append(cur.l, v.s)
							out[p] = cur
						} else {
							cur := ev.locals[root]
							cur.k = "list"
							cur.l = append(append([]string{}, cur.l...), v.s)
							ev.locals[root] = cur
						}
						continue
					}
					if ce, ok := rhs.(*ast.CallExpr); ok && cf.text(ce.Fun) == "make" {
						if root != cvar {
							ev.locals[root] = c15Val{k: "list"}
						}
						continue
					}
					v, err := ev.eval(rhs)
					if err != nil {
						if root == cvar {
							out[p] = c15Val{k: "unknown", s: err.Error()}
						}
						continue
					}
					if root == cvar && p != "" {
						assign(p, v)
					} else if p == "" {
						ev.locals[root] = v
					}
				case *ast.RangeStmt:
					// for _, m := range <list>: run the body once per element
					lv, err := ev.eval(s.X)
					if err != nil || lv.k != "list" {
						continue
					}
					id, ok := s.Value.(*ast.Ident)
					if !ok {
						continue
					}
					for _, el := range lv.l {
						ev.locals[id.Name] = c15Val{k: "str", s: el}
						walk(s.Body.List)
					}
				case *ast.IfStmt:
					// error checks are skipped
				}
			}
		}
		walk(fd.Body.List)
	}
	return out, errs
}

func c15ExtConst(repo, pkg, name string) (c15Val, bool) {
	// options.FileIO etc. used in the badger init()
	if pkg == "options" {
		ver, err := c15ModVersion(repo, "github.com/dgraph-io/badger")
		if err != nil {
			return c15Val{}, false
		}
		sub, err := c15Load(filepath.Join(c15ModCache(), "github.com/dgraph-io/badger@"+ver, "options", "options.go"))
		if err != nil {
			return c15Val{}, false
		}
		if i, ok := sub.iota[name]; ok {
			return c15Val{k: "num", n: float64(i)}, true
		}
	}
	return c15Val{}, false
}

// look a Config member path up; members of a block that the block's constructor does not mention are zero
func c15LookupDefault(defs map[string]c15Val, path string) (c15Val, bool) {
	if v, ok := defs[path]; ok {
		return v, true
	}
	i := strings.LastIndex(path, ".")
	for i > 0 {
		if b, ok := defs[path[:i]]; ok && (b.k == "block" || b.k == "zero") {
			return c15Val{k: "zero"}, true
		}
		i = strings.LastIndex(path[:i], ".")
	}
	// a member the default functions never assign: the zero value of a fresh Config
	return c15Val{k: "zero"}, true
}

func c15CoqVal(v c15Val, kind string) string {
	zero := map[string]string{"KBool": "(VB false)", "KInt": "(VZ 0)", "KFloat": "(VZ 0)", "KDur": "(VZ 0)", "KStr": `(VS "")`,
		"KTok": `(VS "")`, "KList": "(VL [])", "KMap": "VNone", "KGroup": "VNone"}
	switch v.k {
	case "zero", "none":
		return zero[kind]
	case "bool":
		if kind != "KBool" {
			return "VWrong"
		}
		if v.b {
			return "(VB true)"
		}
		return "(VB false)"
	case "num":
		n := v.n
		if kind == "KFloat" {
			n = n * 1e6
		}
		if kind != "KInt" && kind != "KFloat" && kind != "KDur" || n != math.Round(n) {
			return "VWrong"
		}
		return fmt.Sprintf("(VZ (%d))", int64(math.Round(n)))
	case "str":
		if kind != "KStr" && kind != "KTok" {
			return "VWrong"
		}
		return "(VS " + coqStr(v.s) + ")"
	case "list":
		if kind != "KList" && kind != "KMap" {
			return "VWrong"
		}
		return "(VL " + coqStrList(v.l) + ")"
	}
	return "VWrong"
}

// ---------------------------------------------------------------------------------------------
// toJSONConfig
// ---------------------------------------------------------------------------------------------
type c15Saver struct {
	cf     *c15File
	sec    *c15Sec
	w      *c15Walker
	jvars  map[string]string // local holding the JSON struct (or a nested one) -> Go selector prefix
	cvar   string
	locals map[string]string // local -> Config member path it derives from
	marsh  map[string]string // local nested JSON struct filled by X.Marshal(&cfg.P) -> P
	defs   map[string]c15Val
	ev     *c15Eval
	fn     string
	condDefault ast.Expr
	condCfg     string
}

// the Config member an expression reads (first one found), following locals
func (sv *c15Saver) cfgOf(e ast.Expr) string {
	found := ""
	ast.Inspect(e, func(n ast.Node) bool {
		if found != "" {
			return false
		}
		switch x := n.(type) {
		case *ast.SelectorExpr:
			root, p, ok := sv.w.selPath(x)
			if ok && root == sv.cvar && p != "" {
				// strip method selectors: cfg.X.String() -> the call's Fun is a selector whose last part is a method
				found = p
				return false
			}
		case *ast.Ident:
			if p, ok := sv.locals[x.Name]; ok {
				found = p
				return false
			}
		}
		return true
	})
	return found
}

func (sv *c15Saver) trimMethod(p string) string {
	// cfg.WaitForLeaderTimeout.String  -> drop a trailing method name
	for _, m := range []string{".String", ".Bytes", ".Pretty"} {
		p = strings.TrimSuffix(p, m)
	}
	return p
}

func (sv *c15Saver) jdest(e ast.Expr) *c15JField {
	root, p, ok := sv.w.selPath(e)
	if !ok {
		return nil
	}
	pre, ok := sv.jvars[root]
	if !ok || p == "" {
		return nil
	}
	return sv.w.byGo[pre+p]
}

func (sv *c15Saver) setSave(jf *c15JField, rule, cfgp string) {
	cfgp = sv.trimMethod(cfgp)
	if rule == "OMIT" {
		v, err := sv.ev.eval(sv.condDefault)
		if err != nil || cfgp != sv.condCfg {
			rule = "(SCustom " + coqStr(sv.sec.name+"."+jf.path) + ")"
		} else {
			rule = "(SOmitIfDefault " + c15CoqVal(v, c15KindFor(jf, jf.lrule)) + ")"
		}
	}
	if jf.srule != "" && (jf.srule != rule || jf.scfg != cfgp) {
		// assigned twice in different ways (an initial zero literal is not recorded, so this is a real conflict)
		if strings.HasPrefix(jf.srule, "(SCustom") {
			return
		}
		rule = "(SCustom " + coqStr(sv.sec.name+"."+jf.path) + ")"
	}
	jf.srule, jf.scfg = rule, cfgp
}

func (sv *c15Saver) literal(cl *ast.CompositeLit, prefix string, rule string) {
	for _, el := range cl.Elts {
		kv, ok := el.(*ast.KeyValueExpr)
		if !ok {
			continue
		}
		jf := sv.w.byGo[prefix+sv.cf.text(kv.Key)]
		if jf == nil {
			continue
		}
		sv.value(jf, kv.Value, rule)
	}
}

func (sv *c15Saver) value(jf *c15JField, v ast.Expr, rule string) {
	// nested literal for a pointer-struct member
	if u, ok := v.(*ast.UnaryExpr); ok && u.Op == token.AND {
		if cl, ok := u.X.(*ast.CompositeLit); ok && jf.group {
			jf.srule = "SGroup"
			sv.literal(cl, jf.gosel+".", rule)
			return
		}
	}
	// *bo where bo was filled by bo.Marshal(&cfg.P)
	if st, ok := v.(*ast.StarExpr); ok {
		if id, ok := st.X.(*ast.Ident); ok {
			if cp, ok := sv.marsh[id.Name]; ok {
				sv.marshalled(jf.gosel, id.Name, cp, rule)
				return
			}
		}
	}
	cp := sv.cfgOf(v)
	if cp == "" {
		// a constant: only zero literals are understood (and ignored)
		s := sv.cf.text(v)
		if s == `""` || s == "0" || s == "false" || s == "nil" || s == "[]string{}" {
			return
		}
		sv.setSave(jf, "(SCustom "+coqStr(sv.sec.name+"."+jf.path)+")", "")
		return
	}
	sv.setSave(jf, rule, cp)
}

func (sv *c15Saver) marshalled(gosel, local, cp, rule string) {
	// jf is the nested struct's Go selector; find its type and Marshal method
	var tname string
	for _, f := range sv.cf.structs[sv.sec.jsonType].Fields.List {
		if len(f.Names) == 1 && f.Names[0].Name == gosel {
			tname = c15TypeName(f.Type)
		}
	}
	fd := sv.cf.funcs[tname+".Marshal"]
	if fd == nil {
		return
	}
	recv := c15Recv(fd)
	arg := ""
	if fd.Type.Params != nil && len(fd.Type.Params.List) == 1 && len(fd.Type.Params.List[0].Names) == 1 {
		arg = fd.Type.Params.List[0].Names[0].Name
	}
	for _, s := range fd.Body.List {
		as, ok := s.(*ast.AssignStmt)
		if !ok || len(as.Lhs) != 1 || len(as.Rhs) != 1 {
			continue
		}
		lse, ok := as.Lhs[0].(*ast.SelectorExpr)
		if !ok {
			continue
		}
		if x, ok := lse.X.(*ast.Ident); !ok || x.Name != recv {
			continue
		}
		src := ""
		ast.Inspect(as.Rhs[0], func(n ast.Node) bool {
			if se, ok := n.(*ast.SelectorExpr); ok {
				if x, ok := se.X.(*ast.Ident); ok && x.Name == arg {
					src = se.Sel.Name
				}
			}
			return true
		})
		if jf := sv.w.byGo[gosel+"."+lse.Sel.Name]; jf != nil && src != "" {
			sv.setSave(jf, rule, cp+"."+src)
		}
	}
}

func (sv *c15Saver) walk(stmts []ast.Stmt, rule string) {
	for _, s := range stmts {
		switch s := s.(type) {
		case *ast.AssignStmt:
			if len(s.Lhs) < 1 || len(s.Rhs) != 1 {
				continue
			}
			rhs := s.Rhs[0]
			// x := &jsonConfig{...} / jcfg = &jsonConfig{}
			if cl := c15Lit(rhs); cl != nil {
				tn := c15TypeName(cl.Type)
				if id, ok := s.Lhs[0].(*ast.Ident); ok {
					if tn == sv.sec.jsonType {
						sv.jvars[id.Name] = ""
						sv.literal(cl, "", rule)
						continue
					}
					// nested JSON struct local: bo := &badgerOptions{}
					nested := false
					for _, f := range sv.cf.structs[sv.sec.jsonType].Fields.List {
						if c15TypeName(f.Type) == tn && len(f.Names) == 1 {
							sv.marsh[id.Name] = "" // filled when Marshal is called
							nested = true
						}
					}
					if nested {
						continue
					}
				}
			}
			if st, ok := rhs.(*ast.StarExpr); ok {
				if id, ok := st.X.(*ast.Ident); ok {
					if cp, ok := sv.marsh[id.Name]; ok && cp != "" {
						if root, p, ok := sv.w.selPath(s.Lhs[0]); ok && p != "" {
							if pre, ok := sv.jvars[root]; ok {
								sv.marshalled(pre+p, id.Name, cp, rule)
								continue
							}
						}
					}
				}
			}
			if jf := sv.jdest(s.Lhs[0]); jf != nil {
				// jcfg.X = append(jcfg.X, ...) inside a range is handled by the range case through locals
				sv.value(jf, rhs, rule)
				continue
			}
			// local := f(... cfg.P ...)
			if id, ok := s.Lhs[0].(*ast.Ident); ok {
				if cp := sv.cfgOf(rhs); cp != "" {
					sv.locals[id.Name] = sv.trimMethod(cp)
				}
			}
		case *ast.ExprStmt:
			// bo.Marshal(&cfg.P)
			if ce, ok := s.X.(*ast.CallExpr); ok {
				if se, ok := ce.Fun.(*ast.SelectorExpr); ok && se.Sel.Name == "Marshal" && len(ce.Args) == 1 {
					if id, ok := se.X.(*ast.Ident); ok {
						if _, ok := sv.marsh[id.Name]; ok {
							sv.marsh[id.Name] = sv.cfgOf(ce.Args[0])
						}
					}
				}
			}
		case *ast.RangeStmt:
			cp := sv.cfgOf(s.X)
			if cp == "" {
				continue
			}
			if id, ok := s.Value.(*ast.Ident); ok {
				sv.locals[id.Name] = cp
			}
			sv.walk(s.Body.List, rule)
		case *ast.IfStmt:
			sv.walkIf(s, rule)
		case *ast.DeclStmt:
			// var x T: nothing
		}
	}
}

func c15Lit(e ast.Expr) *ast.CompositeLit {
	if u, ok := e.(*ast.UnaryExpr); ok && u.Op == token.AND {
		e = u.X
	}
	cl, _ := e.(*ast.CompositeLit)
	return cl
}

func (sv *c15Saver) walkIf(s *ast.IfStmt, rule string) {
	if s.Init != nil {
		if as, ok := s.Init.(*ast.AssignStmt); ok && len(as.Lhs) == 1 && len(as.Rhs) == 1 {
			if id, ok := as.Lhs[0].(*ast.Ident); ok {
				if cp := sv.cfgOf(as.Rhs[0]); cp != "" {
					sv.locals[id.Name] = sv.trimMethod(cp)
				}
			}
		}
	}
	if be, ok := s.Cond.(*ast.BinaryExpr); ok && s.Else == nil {
		y := sv.cf.text(be.Y)
		lhsCfg := sv.cfgOf(be.X)
		switch {
		case sv.cf.text(be.X) == "err" && y == "nil":
			if be.Op == token.EQL {
				sv.walk(s.Body.List, rule)
			}
			return
		case be.Op == token.NEQ && lhsCfg != "" && (y == `""` || y == "nil" || y == "0"):
			// zero stays zero: same as an unconditional copy
			sv.walk(s.Body.List, rule)
			return
		case be.Op == token.GTR && y == "0" && strings.HasPrefix(sv.cf.text(be.X), "len(") && lhsCfg != "":
			sv.walk(s.Body.List, rule)
			return
		case be.Op == token.NEQ && lhsCfg != "":
			// if cfg.P != DefaultP { jcfg.X = cfg.P }
			if rule != "SAlways" {
				break
			}
			sv.condDefault = be.Y
			sv.condCfg = sv.trimMethod(lhsCfg)
			sv.walk(s.Body.List, "OMIT")
			return
		}
	}
	// anything else: the members assigned inside are custom
	var mark func(stmts []ast.Stmt)
	mark = func(stmts []ast.Stmt) {
		for _, st := range stmts {
			switch st := st.(type) {
			case *ast.AssignStmt:
				if len(st.Lhs) == 1 {
					if jf := sv.jdest(st.Lhs[0]); jf != nil {
						jf.srule, jf.scfg = "(SCustom "+coqStr(sv.sec.name+"."+jf.path)+")", ""
					}
				}
			case *ast.BlockStmt:
				mark(st.List)
			}
		}
	}
	mark(s.Body.List)
	if eb, ok := s.Else.(*ast.BlockStmt); ok {
		mark(eb.List)
	}
}

// ---------------------------------------------------------------------------------------------
// main
// ---------------------------------------------------------------------------------------------
func c15ValidateText(cf *c15File, sec *c15Sec) (string, error) {
	root := cf.funcs[sec.cfgType+".Validate"]
	if root == nil {
		return "", fmt.Errorf("%s.Validate not found", sec.cfgType)
	}
	seen := map[string]bool{}
	var order []string
	var visit func(key string)
	visit = func(key string) {
		if seen[key] || cf.funcs[key] == nil {
			return
		}
		seen[key] = true
		order = append(order, key)
		ast.Inspect(cf.funcs[key].Body, func(n ast.Node) bool {
			ce, ok := n.(*ast.CallExpr)
			if !ok {
				return true
			}
			switch f := ce.Fun.(type) {
			case *ast.Ident:
				visit(f.Name)
			case *ast.SelectorExpr:
				visit(sec.cfgType + "." + f.Sel.Name)
			}
			return true
		})
	}
	visit(sec.cfgType + ".Validate")
	var b strings.Builder
	for _, k := range order {
		b.WriteString(cf.text(cf.funcs[k]))
		b.WriteString("\n")
	}
	return b.String(), nil
}

// the analysis of one section (JSON struct, load walk, defaults, save walk), shared by the generators of
// Gen/ConfigSchemas.v and Gen/ConfigValidators.v
type c15Sect struct {
	cf       *c15File
	w        *c15Walker
	defs     map[string]c15Val
	afd, sfd *ast.FuncDecl
}

var c15FileCache = map[string]*c15File{}
var c15SectCache = map[string]*c15Sect{}

func c15Analyse(repo string, sec *c15Sec) (*c15Sect, error) {
	key := repo + "|" + sec.name
	if r, ok := c15SectCache[key]; ok {
		return r, nil
	}
	path := filepath.Join(repo, sec.dir, sec.file)
	cf := c15FileCache[path]
	if cf == nil {
		var err error
		cf, err = c15Load(path)
		if err != nil {
			return nil, err
		}
		c15FileCache[path] = cf
	}
	r, err := c15AnalyseFile(repo, sec, cf)
	if err != nil {
		return nil, err
	}
	c15SectCache[key] = r
	return r, nil
}

func c15AnalyseFile(repo string, sec *c15Sec, cf *c15File) (*c15Sect, error) {
	w := &c15Walker{cf: cf, sec: sec, byGo: map[string]*c15JField{}, byPath: map[string]*c15JField{},
		alias: map[string]*c15Alias{}, durFuncs: map[string]bool{}, resets: map[string]string{}}
	if err := cf.flatten(sec.jsonType, "", "", "", &w.fields); err != nil {
		return nil, fmt.Errorf("%s: %v", sec.name, err)
	}
	for _, jf := range w.fields {
		w.byGo[jf.gosel] = jf
		w.byPath[jf.path] = jf
	}
	afd := cf.funcs[sec.cfgType+"."+sec.applyFn]
	if afd == nil {
		return nil, fmt.Errorf("%s: %s.%s not found", sec.name, sec.cfgType, sec.applyFn)
	}
	w.walkFunc(afd, true)
	if len(w.errs) > 0 {
		return nil, fmt.Errorf("%s: %s", sec.name, strings.Join(w.errs, "; "))
	}
	defs, derrs := c15Defaults(cf, sec, repo)
	if len(derrs) > 0 {
		return nil, fmt.Errorf("%s: defaults: %s", sec.name, strings.Join(derrs, "; "))
	}
	sfd := cf.funcs[sec.cfgType+"."+sec.saveFn]
	if sfd == nil {
		return nil, fmt.Errorf("%s: %s.%s not found", sec.name, sec.cfgType, sec.saveFn)
	}
	sv := &c15Saver{cf: cf, sec: sec, w: w, jvars: map[string]string{}, cvar: c15Recv(sfd), locals: map[string]string{},
		marsh: map[string]string{}, defs: defs, ev: &c15Eval{cf: cf, locals: map[string]c15Val{}, repo: repo}}
	// named results: (jcfg *jsonConfig, err error)
	if sfd.Type.Results != nil {
		for _, r := range sfd.Type.Results.List {
			if c15TypeName(r.Type) == sec.jsonType {
				for _, n := range r.Names {
					sv.jvars[n.Name] = ""
				}
			}
		}
	}
	sv.walk(sfd.Body.List, "SAlways")
	// return &jsonConfig{...}
	for _, s := range sfd.Body.List {
		if rs, ok := s.(*ast.ReturnStmt); ok && len(rs.Results) >= 1 {
			if cl := c15Lit(rs.Results[0]); cl != nil && c15TypeName(cl.Type) == sec.jsonType {
				sv.literal(cl, "", "SAlways")
			}
		}
	}
	return &c15Sect{cf: cf, w: w, defs: defs, afd: afd, sfd: sfd}, nil
}

// the load rule (Coq term) and kind a member ends up with in the table
func c15FinalRule(sec *c15Sec, jf *c15JField) (lrule, kind string) {
	id := sec.name + "." + jf.path
	lrule = jf.lrule
	if jf.custom {
		lrule = "(LCustom " + coqStr(id) + ")"
		if jf.parent != "" {
			lrule = "(LCustom " + coqStr(id+"/in-group") + ")" // customs inside a pointer group are never transcribed
		}
	} else if lrule == "" {
		if jf.mentioned {
			lrule = "(LCustom " + coqStr(id) + ")"
		} else {
			lrule = "LNever"
		}
	}
	return lrule, c15KindFor(jf, lrule)
}

func genConfigSchemas(repo string) (string, error) {
	var b strings.Builder
	b.WriteString("(* GENERATED by tools/gen/configschemas*.go from the component config.go files at every check run. Do not edit. *)\n")
	b.WriteString("From Coq Require Import String List ZArith NArith.\nFrom V Require Import Model.C15_Config.\nImport ListNotations.\nOpen Scope string_scope.\nOpen Scope Z_scope.\n\n")
	var names []string
	for i := range c15Sections {
		sec := &c15Sections[i]
		an, err := c15Analyse(repo, sec)
		if err != nil {
			return "", err
		}
		cf, w, defs, afd, sfd := an.cf, an.w, an.defs, an.afd, an.sfd
		customTr, err := c15TranslateCustoms(repo, sec)
		if err != nil {
			return "", err
		}
		vtxt, err := c15ValidateText(cf, sec)
		if err != nil {
			return "", err
		}
		env := ""
		if v, ok := cf.values[sec.envConst]; ok {
			if ev, err := (&c15Eval{cf: cf, locals: map[string]c15Val{}}).eval(v); err == nil && ev.k == "str" {
				env = ev.s
			}
		}
		if env == "" {
			return "", fmt.Errorf("%s: envconfig prefix constant %s not found", sec.name, sec.envConst)
		}
		// order: position of the first load rule, then struct order
		idx := map[*c15JField]int{}
		for i, jf := range w.fields {
			idx[jf] = i
		}
		fs := append([]*c15JField{}, w.fields...)
		sort.SliceStable(fs, func(a, c int) bool {
			pa, pc := fs[a].lpos, fs[c].lpos
			if pa == 0 {
				pa = 1 << 30
			}
			if pc == 0 {
				pc = 1 << 30
			}
			if pa != pc {
				return pa < pc
			}
			return idx[fs[a]] < idx[fs[c]]
		})
		customs := map[string]string{}
		var rows []string
		for _, jf := range fs {
			id := sec.name + "." + jf.path
			lrule, kind := c15FinalRule(sec, jf)
			if jf.custom {
				customs[id] = c15Hash(cf.text(cf.funcs[jf.customFn]))
			} else if jf.lrule == "" && jf.mentioned {
				customs[id] = c15Hash(cf.text(afd))
			}
			srule := jf.srule
			if srule == "" {
				srule = "SNever"
			}
			if strings.HasPrefix(srule, "(SCustom") {
				customs[id+"/save"] = c15Hash(cf.text(sfd))
			}
			def := ""
			cp := jf.lcfg
			if cp == "" {
				cp = jf.scfg
			}
			switch {
			case customTr.defs[id] != "":
				def = customTr.defs[id]
			case c15CustomDefaults[id] != "":
				def = "(" + c15CustomDefaults[id] + ")"
			case jf.kind == "KGroup":
				def = "VNone"
			case cp == "":
				def = c15CoqVal(c15Val{k: "zero"}, kind)
			default:
				v, ok := c15LookupDefault(defs, cp)
				if !ok {
					def = "VWrong" // no default found: fails the typing obligation, named by Diag
				} else {
					def = c15CoqVal(v, kind)
				}
			}
			rows = append(rows, fmt.Sprintf("  mkField %s %s %v %v %s %s %s %s %s", coqStr(jf.path), kind, jf.omit, jf.hidden,
				lrule, srule, def, coqStr(jf.lcfg), coqStr(jf.scfg)))
		}
		var ch []string
		var ckeys []string
		for k := range customs {
			ckeys = append(ckeys, k)
		}
		sort.Strings(ckeys)
		for _, k := range ckeys {
			ch = append(ch, fmt.Sprintf("(%s, %s)", coqStr(k), coqStr(customs[k])))
		}
		// `if j == 0 { cfg.P = D }`: D must be the default of P
		for _, td := range w.thenDefaults {
			dv, ok := c15LookupDefault(defs, td[0])
			ev := &c15Eval{cf: cf, locals: map[string]c15Val{}, repo: repo}
			var te ast.Expr
			for _, cand := range []string{td[1]} {
				if v, ok := cf.values[cand]; ok {
					te = v
				}
			}
			if te == nil || !ok {
				return "", fmt.Errorf("%s: cannot evaluate the zero-branch value %s of %s", sec.name, td[1], td[0])
			}
			tv, err := ev.eval(te)
			if err != nil || tv.k != dv.k || tv.n != dv.n || tv.s != dv.s {
				return "", fmt.Errorf("%s: zero-branch of %s restores %s, not the default", sec.name, td[0], td[1])
			}
		}
		names = append(names, "schema_"+sec.name)
		b.WriteString(fmt.Sprintf("Definition schema_%s : schema := mkSchema %s [\n%s\n ] %v %s [%s] %s.\n\n", sec.name, coqStr(sec.name),
			strings.Join(rows, ";\n"), w.validates, coqStr(c15Hash(vtxt)), strings.Join(ch, "; "), coqStr(env)))
	}
	b.WriteString("Definition all_schemas : list schema := [" + strings.Join(names, "; ") + "].\n")
	return b.String(), nil
}
