package main

// Gen/ConfigCustoms.v (property C15): load/save rules the generic walk of configschemas.go classifies as LCustom /
// SCustom, TRANSLATED when their statements have a shape known here; the others stay pinned by a source hash
// (Proofs/C15_Tables.v `customs_pinned` accepts a custom rule only if it is translated to the model's rule or its hash is
// the one recorded next to the hand transcription).
//
// Shape known: the "trust everybody" list (crdt trusted_peers)
//
//	cfg.F = false                      // both members reset before the loop
//	cfg.L = []T{}
//	for _, p := range jcfg.X {
//		if p == LIT { cfg.F = true; cfg.L = []T{}; break }
//		v, err := PARSER(p)
//		if err != nil { return ... }
//		cfg.L = append(cfg.L, v)
//	}
//
// and on the save side `if cfg.F { jcfg.X = []string{LIT'} } else { jcfg.X = RENDER(cfg.L) }`, no other statement of the
// two functions touching cfg.F, cfg.L or jcfg.X. Emitted: CRStarLoad LIT "F" "L" and CRStarSave LIT' "F" "L"; the Coq side
// gives both their meaning on the pair (F, L) and proves that save-after-load is the model's rule for the member.
// Any deviation (a `continue` for the `break`, the literal compared after parsing, a third statement in the then-branch,
// a missing reset ...) is not recognised: the member then has no translation and no pinned hash, which fails the obligation.

import (
	"fmt"
	"go/ast"
	"go/token"
	"sort"
	"strconv"
	"strings"
)

func init() { register("ConfigCustoms", genConfigCustoms) }

// renderers of a parsed list, element by element, in the parser's canonical form
var c15ListRenderers = map[string]bool{"api.PeersToStrings": true}

type c15StarRule struct {
	lit, flag, list string
}

func c15StrLit(e ast.Expr) (string, bool) {
	bl, ok := e.(*ast.BasicLit)
	if !ok || bl.Kind != token.STRING {
		return "", false
	}
	s, err := strconv.Unquote(bl.Value)
	return s, err == nil
}

func c15EmptyLit(e ast.Expr) bool {
	cl, ok := e.(*ast.CompositeLit)
	if !ok || len(cl.Elts) != 0 {
		return false
	}
	_, ok = cl.Type.(*ast.ArrayType)
	return ok
}

// cfg.P = <rhs>: returns P
func c15CfgAssign(w *c15Walker, cvar string, s ast.Stmt) (string, ast.Expr, bool) {
	as, ok := s.(*ast.AssignStmt)
	if !ok || as.Tok != token.ASSIGN || len(as.Lhs) != 1 || len(as.Rhs) != 1 {
		return "", nil, false
	}
	root, p, ok := w.selPath(as.Lhs[0])
	if !ok || root != cvar || p == "" {
		return "", nil, false
	}
	return p, as.Rhs[0], true
}

func c15Mentions(cf *c15File, n ast.Node, texts ...string) bool {
	found := false
	ast.Inspect(n, func(m ast.Node) bool {
		if se, ok := m.(*ast.SelectorExpr); ok {
			t := cf.text(se)
			for _, x := range texts {
				if t == x {
					found = true
				}
			}
		}
		return true
	})
	return found
}

// the load side, in the body of the apply function
func c15StarLoad(an *c15Sect, jf *c15JField) (*c15StarRule, string) {
	cf, w := an.cf, an.w
	fd := an.afd
	cvar := c15Recv(fd)
	if fd.Type.Params == nil || len(fd.Type.Params.List) != 1 || len(fd.Type.Params.List[0].Names) != 1 {
		return nil, "apply function signature"
	}
	jvar := fd.Type.Params.List[0].Names[0].Name
	jx := jvar + "." + jf.gosel
	var rule *c15StarRule
	idx := -1
	for i, s := range fd.Body.List {
		rs, ok := s.(*ast.RangeStmt)
		if !ok || cf.text(rs.X) != jx {
			continue
		}
		if idx >= 0 {
			return nil, "two loops over the member"
		}
		idx = i
		if k, ok := rs.Key.(*ast.Ident); !ok || k.Name != "_" {
			return nil, "loop uses the index"
		}
		v, ok := rs.Value.(*ast.Ident)
		if !ok || len(rs.Body.List) != 4 {
			return nil, "loop body is not the four known statements"
		}
		// 1. if p == LIT { cfg.F = true; cfg.L = []T{}; break }
		is, ok := rs.Body.List[0].(*ast.IfStmt)
		if !ok || is.Init != nil || is.Else != nil || len(is.Body.List) != 3 {
			return nil, "first statement is not the literal test"
		}
		be, ok := is.Cond.(*ast.BinaryExpr)
		if !ok || be.Op != token.EQL || cf.text(be.X) != v.Name {
			return nil, "literal test"
		}
		lit, ok := c15StrLit(be.Y)
		if !ok {
			return nil, "literal test"
		}
		fp, frhs, ok1 := c15CfgAssign(w, cvar, is.Body.List[0])
		lp, lrhs, ok2 := c15CfgAssign(w, cvar, is.Body.List[1])
		br, ok3 := is.Body.List[2].(*ast.BranchStmt)
		if !ok1 || !ok2 || !ok3 || cf.text(frhs) != "true" || !c15EmptyLit(lrhs) || br.Tok != token.BREAK || br.Label != nil {
			return nil, "then-branch of the literal test"
		}
		// 2. y, err := PARSER(p)   3. if err != nil { return }   4. cfg.L = append(cfg.L, y)
		a1, ok := rs.Body.List[1].(*ast.AssignStmt)
		if !ok || a1.Tok != token.DEFINE || len(a1.Lhs) != 2 || len(a1.Rhs) != 1 || cf.text(a1.Lhs[1]) != "err" {
			return nil, "parse statement"
		}
		ce, ok := a1.Rhs[0].(*ast.CallExpr)
		if !ok || len(ce.Args) != 1 || cf.text(ce.Args[0]) != v.Name {
			return nil, "parse statement"
		}
		if !isErrCheck(rs.Body.List[2]) {
			return nil, "parse error not returned"
		}
		lp2, arhs, ok := c15CfgAssign(w, cvar, rs.Body.List[3])
		ap, ok2 := arhs.(*ast.CallExpr)
		if !ok || !ok2 || lp2 != lp || cf.text(ap.Fun) != "append" || len(ap.Args) != 2 ||
			cf.text(ap.Args[0]) != cvar+"."+lp || cf.text(ap.Args[1]) != cf.text(a1.Lhs[0]) {
			return nil, "append statement"
		}
		rule = &c15StarRule{lit: lit, flag: fp, list: lp}
	}
	if rule == nil {
		return nil, "no loop over the member"
	}
	// before the loop: cfg.F = false and cfg.L = []T{}; nothing else in the function touches F, L or the JSON member
	resetF, resetL := false, false
	for i, s := range fd.Body.List {
		if i == idx {
			continue
		}
		if !c15Mentions(cf, s, cvar+"."+rule.flag, cvar+"."+rule.list, jx) {
			continue
		}
		p, rhs, ok := c15CfgAssign(w, cvar, s)
		switch {
		case ok && i < idx && p == rule.flag && cf.text(rhs) == "false" && !resetF:
			resetF = true
		case ok && i < idx && p == rule.list && c15EmptyLit(rhs) && !resetL:
			resetL = true
		default:
			return nil, "another statement touches the members: " + cf.text(s)
		}
	}
	if !resetF || !resetL {
		return nil, "members not reset before the loop"
	}
	return rule, ""
}

// the save side, in the body of the toJSON function
func c15StarSave(an *c15Sect, jf *c15JField, load *c15StarRule) (*c15StarRule, string) {
	cf := an.cf
	fd := an.sfd
	cvar := c15Recv(fd)
	var rule *c15StarRule
	for _, s := range fd.Body.List {
		// which local holds the JSON struct is not tracked here: any selector ending in the member's Go name counts
		touches := false
		ast.Inspect(s, func(n ast.Node) bool {
			if se, ok := n.(*ast.SelectorExpr); ok && se.Sel.Name == jf.gosel {
				if _, isID := se.X.(*ast.Ident); isID {
					touches = true
				}
			}
			if kv, ok := n.(*ast.KeyValueExpr); ok && cf.text(kv.Key) == jf.gosel {
				touches = true
			}
			return true
		})
		if !touches && !c15Mentions(cf, s, cvar+"."+load.flag, cvar+"."+load.list) {
			continue
		}
		if rule != nil {
			return nil, "a second statement touches the member: " + cf.text(s)
		}
		is, ok := s.(*ast.IfStmt)
		if !ok || is.Init != nil || cf.text(is.Cond) != cvar+"."+load.flag || len(is.Body.List) != 1 {
			return nil, "not `if cfg." + load.flag + "`"
		}
		eb, ok := is.Else.(*ast.BlockStmt)
		if !ok || len(eb.List) != 1 {
			return nil, "else branch"
		}
		a1, ok1 := is.Body.List[0].(*ast.AssignStmt)
		a2, ok2 := eb.List[0].(*ast.AssignStmt)
		if !ok1 || !ok2 || len(a1.Lhs) != 1 || len(a1.Rhs) != 1 || len(a2.Lhs) != 1 || len(a2.Rhs) != 1 || cf.text(a1.Lhs[0]) != cf.text(a2.Lhs[0]) {
			return nil, "branches"
		}
		dst, ok := a1.Lhs[0].(*ast.SelectorExpr)
		if !ok || dst.Sel.Name != jf.gosel {
			return nil, "destination"
		}
		cl, ok := a1.Rhs[0].(*ast.CompositeLit)
		if !ok || len(cl.Elts) != 1 || cf.text(cl.Type) != "[]string" {
			return nil, "then-branch is not a one-element string list"
		}
		lit, ok := c15StrLit(cl.Elts[0])
		if !ok {
			return nil, "then-branch literal"
		}
		ce, ok := a2.Rhs[0].(*ast.CallExpr)
		if !ok || !c15ListRenderers[cf.text(ce.Fun)] || len(ce.Args) != 1 || cf.text(ce.Args[0]) != cvar+"."+load.list {
			return nil, "else-branch is not a known rendering of cfg." + load.list
		}
		rule = &c15StarRule{lit: lit, flag: load.flag, list: load.list}
	}
	if rule == nil {
		return nil, "no statement writes the member"
	}
	return rule, ""
}

type c15CustomTr struct {
	rules map[string]string // custom id -> Coq term
	defs  map[string]string // custom id -> default value (Coq term)
	notes []string
}

var c15CustomCache = map[string]*c15CustomTr{}

// translations of the custom rules of one section
func c15TranslateCustoms(repo string, sec *c15Sec) (*c15CustomTr, error) {
	key := repo + "|" + sec.name
	if r, ok := c15CustomCache[key]; ok {
		return r, nil
	}
	an, err := c15Analyse(repo, sec)
	if err != nil {
		return nil, err
	}
	out := c15TranslateCustomsOf(an, sec)
	c15CustomCache[key] = out
	return out, nil
}

func c15TranslateCustomsOf(an *c15Sect, sec *c15Sec) *c15CustomTr {
	out := &c15CustomTr{rules: map[string]string{}, defs: map[string]string{}}
	for _, jf := range an.w.fields {
		if !jf.custom || jf.parent != "" || jf.kind != "KList" {
			continue
		}
		id := sec.name + "." + jf.path
		if !strings.HasPrefix(jf.srule, "(SCustom") {
			out.notes = append(out.notes, id+": the save side is not a custom rule ("+jf.srule+")")
			continue
		}
		load, why := c15StarLoad(an, jf)
		if load == nil {
			out.notes = append(out.notes, id+": load side not recognised ("+why+")")
			continue
		}
		save, why := c15StarSave(an, jf, load)
		if save == nil {
			out.notes = append(out.notes, id+": save side not recognised ("+why+")")
			continue
		}
		// default: the pair (F, L) after Default(), rendered as the save side renders it
		df, ok1 := c15LookupDefault(an.defs, load.flag)
		dl, ok2 := c15LookupDefault(an.defs, load.list)
		if !ok1 || !ok2 || (df.k != "bool" && df.k != "zero") || (dl.k != "list" && dl.k != "zero" && dl.k != "none") {
			out.notes = append(out.notes, fmt.Sprintf("%s: default of cfg.%s / cfg.%s not evaluated (%s, %s)", id, load.flag, load.list, df.k, dl.k))
			continue
		}
		if df.k == "bool" && df.b {
			out.defs[id] = "(VL " + coqStrList([]string{save.lit}) + ")"
		} else {
			out.defs[id] = "(VL " + coqStrList(dl.l) + ")"
		}
		out.rules[id] = fmt.Sprintf("(CRStarLoad %s %s %s)", coqStr(load.lit), coqStr(load.flag), coqStr(load.list))
		out.rules[id+"/save"] = fmt.Sprintf("(CRStarSave %s %s %s)", coqStr(save.lit), coqStr(save.flag), coqStr(save.list))
	}
	return out
}

func genConfigCustoms(repo string) (string, error) {
	if err := c15CustomSelfTest(); err != nil {
		return "", fmt.Errorf("self-test of the custom-rule translator: %v", err)
	}
	var b strings.Builder
	b.WriteString("(* GENERATED by tools/gen/configcustoms.go from the component config.go files at every check run. Do not edit.\n")
	b.WriteString("   Load / save rules outside the generic rule set whose statements have a known shape, by custom rule id. *)\n")
	b.WriteString("From Coq Require Import String List.\nFrom V Require Import Model.C15_Config Model.C15_Custom.\nImport ListNotations.\nOpen Scope string_scope.\n\n")
	var rows, notes []string
	for i := range c15Sections {
		tr, err := c15TranslateCustoms(repo, &c15Sections[i])
		if err != nil {
			return "", err
		}
		var ids []string
		for id := range tr.rules {
			ids = append(ids, id)
		}
		sort.Strings(ids)
		for _, id := range ids {
			rows = append(rows, fmt.Sprintf("  (%s, %s)", coqStr(id), tr.rules[id]))
		}
		notes = append(notes, tr.notes...)
	}
	b.WriteString("Definition gen_custom_rules : list (string * crule) := [\n" + strings.Join(rows, ";\n") + "\n].\n\n")
	b.WriteString("(* custom members of list kind the translator looked at and did not recognise *)\nDefinition gen_custom_notes : list string := " + coqStrList(notes) + ".\n")
	return b.String(), nil
}
