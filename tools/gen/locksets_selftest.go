package main

// Self-test of the lockset translator, run before every generation: a small correct package and hand-made
// mutants of it (removed Lock, read moved out of the critical section, early return before Unlock, alias
// dereferenced after the unlock, length read before the lock, nested locks in both orders, a structure
// handed to a helper, an owner whose type cannot be resolved, a mutex used in an unfollowable way).
// If the walk stops telling them apart the generator fails, and with it the check.

import (
	"fmt"
	"os"
	"strings"
)

const lsSelfBase = `package p

import (
	"container/ring"
	"sync"
)

type Item struct{ v int }

type Box struct {
	mu    sync.RWMutex
	items []Item
	byKey map[string]map[string]int
	ring  *ring.Ring
	n     int
	other *Box
}

func (b *Box) Put(i Item) {
	b.mu.Lock()
	if len(b.items) > 3 {
		b.items = b.items[:0]
	}
	b.items = append(b.items, i)
	b.n++
	b.mu.Unlock()
}

func (b *Box) All() []Item {
	b.mu.RLock()
	defer b.mu.RUnlock()
	out := make([]Item, len(b.items))
	for i, it := range b.items {
		out[len(out)-1-i] = it
	}
	return out
}

func (b *Box) Count() int {
	b.mu.RLock()
	n := b.n
	b.mu.RUnlock()
	return n
}

func (b *Box) Last() interface{} {
	b.mu.RLock()
	prev := b.ring.Prev()
	v := prev.Value
	b.mu.RUnlock()
	return v
}

func (b *Box) Set(k, k2 string) {
	b.mu.Lock()
	defer b.mu.Unlock()
	inner, ok := b.byKey[k]
	if !ok {
		inner = make(map[string]int)
		b.byKey[k] = inner
	}
	inner[k2]++
}

func (b *Box) Sum(k string) int {
	b.mu.RLock()
	defer b.mu.RUnlock()
	return sum(b.byKey[k])
}

func sum(m map[string]int) int {
	t := 0
	for _, v := range m {
		t += v
	}
	return t
}

func (b *Box) Both() int {
	b.mu.RLock()
	defer b.mu.RUnlock()
	return b.n + b.other.Count()
}
`

// the wait tracking: a server whose goroutines are covered by a WaitGroup and which has a done channel
const lsSelfWait = `package p

import "sync"

type Srv struct {
	mu      sync.Mutex
	wg      sync.WaitGroup
	done    chan struct{}
	quit    chan struct{}
	n       int
	stopped bool
}

func (s *Srv) Start() {
	s.wg.Add(1)
	go func() {
		defer s.wg.Done()
		s.loop()
	}()
	s.wg.Add(1)
	go s.worker()
}

func (s *Srv) loop() {
	s.mu.Lock()
	s.n++
	s.mu.Unlock()
}

func (s *Srv) worker() {
	defer s.wg.Done()
	s.tick()
}

func (s *Srv) tick() {
	select {
	case <-s.quit:
	case <-s.done:
	}
}

func (s *Srv) finish() {
	s.mu.Lock()
	s.n = 0
	s.mu.Unlock()
	close(s.done)
}

func (s *Srv) join() {
	s.wg.Wait()
}

func (s *Srv) Stop() {
	s.mu.Lock()
	s.stopped = true
	s.mu.Unlock()
	s.join()
}

func (s *Srv) Await() {
	s.mu.Lock()
	n := s.n
	s.mu.Unlock()
	_ = n
	<-s.done
}
`

func lsRunWaitSnippet(src string) (*lsOut, error) {
	return lsAnalyze("m", []lsTarget{{"", "Srv", []string{"n", "stopped"}}}, map[string]map[string]string{"": {"p.go": src}})
}

func lsHasWait(o *lsOut, fn, held, group string) bool {
	for _, w := range o.waits {
		if strings.HasPrefix(w.fn, fn) && w.group == group && strings.Join(w.held, ",") == held {
			return true
		}
	}
	return false
}

func lsHasCover(o *lsOut, group, target, whereHas string) bool {
	for _, c := range o.covers {
		if c.group == group && c.target == target && strings.Contains(c.where, whereHas) {
			return true
		}
	}
	return false
}

func lsCycleText(c []lsEdge) string {
	var r []string
	for _, e := range c {
		r = append(r, e.from+" -> "+e.to+" ["+e.where+"]")
	}
	return strings.Join(r, "; ")
}

func lsWaitSelfTest() error {
	base, err := lsRunWaitSnippet(lsSelfWait)
	if err != nil {
		return err
	}
	// the correct server: the waits are listed with nothing held, the covered units with what they acquire, no cycle
	if len(base.leaks) != 0 {
		return fmt.Errorf("wait base: leaks reported: %+v", base.leaks)
	}
	for _, a := range base.accs {
		if a.unknown || len(a.locks) != 1 {
			return fmt.Errorf("wait base: access not guarded: %+v", a)
		}
	}
	if !lsHasWait(base, "p.Srv.join", "", "wg:p.Srv.wg") || !lsHasWait(base, "p.Srv.Stop -> Srv.join", "", "wg:p.Srv.wg") {
		return fmt.Errorf("wait base: wg.Wait() of join / of Stop through join not listed: %+v", base.waits)
	}
	if !lsHasWait(base, "p.Srv.Await", "", "ch:p.Srv.done") {
		return fmt.Errorf("wait base: plain receive from the done channel not listed: %+v", base.waits)
	}
	for _, w := range base.waits {
		if w.group == "ch:p.Srv.quit" || strings.HasPrefix(w.fn, "p.Srv.tick") {
			return fmt.Errorf("wait base: a receive inside a multi-way select was taken for a wait: %+v", w)
		}
	}
	if !lsHasCover(base, "wg:p.Srv.wg", "p.Srv.mu", "goroutine p.Srv.Start") || !lsHasCover(base, "wg:p.Srv.wg", "p.Srv.mu", "> Srv.loop") {
		return fmt.Errorf("wait base: the go literal of Start is not listed as a covered unit acquiring mu through loop: %+v", base.covers)
	}
	if !lsHasCover(base, "ch:p.Srv.done", "p.Srv.mu", "p.Srv.finish") {
		return fmt.Errorf("wait base: the closer of the done channel is not listed with the lock it takes: %+v", base.covers)
	}
	nWorker := 0
	for _, m := range base.members {
		if m.group == "wg:p.Srv.wg" && m.label == "p.Srv.worker" {
			nWorker++
		}
	}
	if nWorker != 1 {
		return fmt.Errorf("wait base: the function worker (defer wg.Done()) is not listed as a covered unit: %+v", base.members)
	}
	if c := lsFindCycle(base.waitEdges()); c != nil {
		return fmt.Errorf("wait base: cycle reported on the correct server: %s", lsCycleText(c))
	}
	type wm struct {
		name, old, new string
		cyclic         bool   // must the wait-for graph have a cycle?
		through        string // ... through this node
	}
	muts := []wm{
		{"waits under the lock the awaited goroutine takes", "\ts.stopped = true\n\ts.mu.Unlock()\n\ts.join()\n", "\ts.stopped = true\n\ts.join()\n\ts.mu.Unlock()\n", true, "wg:p.Srv.wg"},
		{"waits under the lock, unlock deferred", "func (s *Srv) Stop() {\n\ts.mu.Lock()\n\ts.stopped = true\n\ts.mu.Unlock()\n\ts.join()\n", "func (s *Srv) Stop() {\n\ts.mu.Lock()\n\tdefer s.mu.Unlock()\n\ts.stopped = true\n\ts.wg.Wait()\n", true, "wg:p.Srv.wg"},
		{"hand-off: loop no longer locks in the covered goroutine", "func (s *Srv) loop() {\n\ts.mu.Lock()\n\ts.n++\n\ts.mu.Unlock()\n}", "func (s *Srv) loop() {\n\tgo func() {\n\t\ts.mu.Lock()\n\t\ts.n++\n\t\ts.mu.Unlock()\n\t}()\n}\n\nfunc (s *Srv) StopLocked() {\n\ts.mu.Lock()\n\tdefer s.mu.Unlock()\n\ts.wg.Wait()\n}", false, ""},
		{"a covered goroutine waits for its own group", "func (s *Srv) tick() {\n", "func (s *Srv) tick() {\n\ts.Stop()\n", true, "wg:p.Srv.wg"},
		{"named covered function takes the lock, waiter holds it", "func (s *Srv) tick() {\n\tselect {", "func (s *Srv) StopLocked() {\n\ts.mu.Lock()\n\tdefer s.mu.Unlock()\n\ts.wg.Wait()\n}\n\nfunc (s *Srv) tick() {\n\ts.loop()\n\tselect {", true, "p.Srv.mu"},
		{"receives from the done channel under the lock its closer takes", "\tn := s.n\n\ts.mu.Unlock()\n\t_ = n\n\t<-s.done\n", "\tn := s.n\n\t_ = n\n\t<-s.done\n\ts.mu.Unlock()\n", true, "ch:p.Srv.done"},
		{"releases before receiving (the base order, written with defer in a helper)", "\t_ = n\n\t<-s.done\n", "\t_ = n\n\ts.recv()\n}\n\nfunc (s *Srv) recv() {\n\t<-s.done\n", false, ""},
	}
	// what the wait tracking cannot follow must be reported, not skipped
	for _, u := range []struct{ name, old, new, fn string }{
		{"WaitGroup handed to a helper", "func (s *Srv) join() {\n\ts.wg.Wait()\n}", "func (s *Srv) join() {\n\twaitFor(&s.wg)\n}\n\nfunc waitFor(g *sync.WaitGroup) {\n\tg.Wait()\n}", "p.Srv.join"},
		{"wait inside a deferred literal", "func (s *Srv) join() {\n\ts.wg.Wait()\n}", "func (s *Srv) join() {\n\tdefer func() {\n\t\ts.wg.Wait()\n\t}()\n}", "p.Srv.join"},
	} {
		if strings.Count(lsSelfWait, u.old) != 1 {
			return fmt.Errorf("wait mutant %q: anchor not unique", u.name)
		}
		o, err := lsRunWaitSnippet(strings.Replace(lsSelfWait, u.old, u.new, 1))
		if err != nil {
			return fmt.Errorf("wait mutant %q: %v", u.name, err)
		}
		if !lsHasLeak(o, u.fn, "not followed") {
			return fmt.Errorf("wait mutant %q: not reported as not followed: %+v", u.name, o.leaks)
		}
	}
	for _, m := range muts {
		if strings.Count(lsSelfWait, m.old) != 1 {
			return fmt.Errorf("wait mutant %q: anchor not unique", m.name)
		}
		o, err := lsRunWaitSnippet(strings.Replace(lsSelfWait, m.old, m.new, 1))
		if err != nil {
			return fmt.Errorf("wait mutant %q: %v", m.name, err)
		}
		if len(o.leaks) != 0 {
			return fmt.Errorf("wait mutant %q: leaks reported: %+v", m.name, o.leaks)
		}
		for _, a := range o.accs {
			if a.unknown || len(a.locks) != 1 {
				return fmt.Errorf("wait mutant %q: access not guarded: %+v", m.name, a)
			}
		}
		c := lsFindCycle(o.waitEdges())
		if os.Getenv("VERIF_LS_VERBOSE") != "" {
			fmt.Fprintf(os.Stderr, "wait mutant %q: cycle: %s\n", m.name, lsCycleText(c))
		}
		if m.cyclic {
			on := false
			for _, e := range c {
				if e.from == m.through || e.to == m.through {
					on = true
				}
			}
			if c == nil || !on {
				return fmt.Errorf("wait mutant %q: expected a cycle through %s, found: %s", m.name, m.through, lsCycleText(c))
			}
		} else if c != nil {
			return fmt.Errorf("wait mutant %q: flagged although it cannot deadlock: %s", m.name, lsCycleText(c))
		}
	}
	return nil
}

// the "awaited goroutines are always started" tables: a component whose Stop waits for a done channel its worker closes
const lsSelfStart = `package p

import "sync"

type Comp struct {
	mu      sync.Mutex
	done    chan struct{}
	ready   chan struct{}
	enabled bool
	stopped bool
}

func NewComp(on bool) (*Comp, error) {
	if !on {
		return nil, nil
	}
	c := &Comp{done: make(chan struct{}), ready: make(chan struct{}, 1), enabled: on}
	go c.setup()
	return c, nil
}

func (c *Comp) setup() {
	if c.enabled {
		go c.worker()
	}
	select {
	case <-c.ready:
	default:
		return
	}
}

func (c *Comp) worker() {
	defer close(c.done)
	c.mu.Lock()
	c.mu.Unlock()
}

func (c *Comp) Stop() {
	c.mu.Lock()
	c.stopped = true
	c.mu.Unlock()
	if c.enabled {
		<-c.done
	}
}
`

// the decision Model/C18_Table.v started_okb takes on the emitted tables (mirrored here for the self-test only)
func lsStartedOK(o *lsOut) (bool, string) {
	sub := func(xs, ys []string) bool {
		for _, x := range xs {
			f := false
			for _, y := range ys {
				f = f || x == y
			}
			if !f {
				return false
			}
		}
		return true
	}
	var started func(fuel int, u string, conds []string) bool
	started = func(fuel int, u string, conds []string) bool {
		if fuel == 0 {
			return false
		}
		for _, l := range o.launches {
			if l.unit == u && sub(l.conds, conds) && (l.ctor || (len(l.exits) == 0 && started(fuel-1, l.by, conds))) {
				return true
			}
		}
		return false
	}
	for _, w := range o.waits {
		if !w.direct || !strings.HasPrefix(w.group, "ch:") {
			continue
		}
		ok := false
		for _, m := range o.members {
			if m.group == w.group && m.sure && started(6, m.label, w.conds) {
				ok = true
			}
		}
		if !ok {
			return false, w.fn + " " + w.group
		}
	}
	return true, ""
}

func lsStartSelfTest() error {
	run := func(src string) (*lsOut, error) {
		return lsAnalyze("m", []lsTarget{{"", "Comp", []string{"stopped"}}}, map[string]map[string]string{"": {"p.go": src}})
	}
	base, err := run(lsSelfStart)
	if err != nil {
		return err
	}
	if ok, why := lsStartedOK(base); !ok {
		return fmt.Errorf("start base: flagged although the worker is started on every path: %s (launches %+v, members %+v)", why, base.launches, base.members)
	}
	if len(base.leaks) != 0 {
		return fmt.Errorf("start base: leaks: %+v", base.leaks)
	}
	muts := []struct{ name, old, new string }{
		{"worker launched after an early return of its launcher", "\tif c.enabled {\n\t\tgo c.worker()\n\t}\n\tselect {\n\tcase <-c.ready:\n\tdefault:\n\t\treturn\n\t}\n", "\tselect {\n\tcase <-c.ready:\n\tdefault:\n\t\treturn\n\t}\n\tif c.enabled {\n\t\tgo c.worker()\n\t}\n"},
		{"worker launched under a condition the wait is not under", "\tif c.enabled {\n\t\t<-c.done\n\t}\n", "\t<-c.done\n"},
		{"launcher itself never started", "\tgo c.setup()\n", "\t_ = c.setup\n"},
		{"close not deferred and behind a return", "\tdefer close(c.done)\n\tc.mu.Lock()\n\tc.mu.Unlock()\n", "\tc.mu.Lock()\n\tif c.stopped {\n\t\tc.mu.Unlock()\n\t\treturn\n\t}\n\tc.mu.Unlock()\n\tclose(c.done)\n"},
	}
	for _, m := range muts {
		if strings.Count(lsSelfStart, m.old) != 1 {
			return fmt.Errorf("start mutant %q: anchor not unique", m.name)
		}
		o, err := run(strings.Replace(lsSelfStart, m.old, m.new, 1))
		if err != nil {
			return fmt.Errorf("start mutant %q: %v", m.name, err)
		}
		if ok, _ := lsStartedOK(o); ok {
			return fmt.Errorf("start mutant %q: not flagged (launches %+v, members %+v)", m.name, o.launches, o.members)
		}
	}
	return nil
}

// untracked shared state: an owner type with a map field the table was not told about
const lsSelfShared = `package p

import "sync"

type Hub struct {
	mu    sync.Mutex
	n     int
	names []string
	cache map[string]int
}

type helper struct{ m map[string]int }

func (h helper) get(k string) int {
	v, ok := h.m[k]
	if !ok {
		v = len(k)
		h.m[k] = v
	}
	return v
}

func NewHub() *Hub {
	h := &Hub{names: []string{"a"}, cache: map[string]int{}}
	h.cache["a"] = 1
	go h.loop()
	return h
}

func (h *Hub) loop() {
	h.mu.Lock()
	h.n += len(h.names)
	h.mu.Unlock()
	h.work("x")
}

func (h *Hub) work(k string) int {
	return helper{m: make(map[string]int)}.get(k)
}

func (h *Hub) Lookup(k string) int {
	for _, n := range h.names {
		_ = n
	}
	return h.work(k)
}
`

func lsSharedSelfTest() error {
	run := func(src string) (*lsOut, error) {
		return lsAnalyze("m", []lsTarget{{"", "Hub", []string{"n"}}}, map[string]map[string]string{"": {"p.go": src}})
	}
	has := func(o *lsOut, field string) bool {
		for _, x := range o.shared {
			if x.typ == "p.Hub" && x.field == field {
				return true
			}
		}
		return false
	}
	base, err := run(lsSelfShared)
	if err != nil {
		return err
	}
	if len(base.shared) != 0 {
		return fmt.Errorf("shared base: reported although names is only read and cache only touched by the constructor: %+v", base.shared)
	}
	muts := []struct{ name, old, new, field string }{
		{"the private map of every call becomes the owner's map", "helper{m: make(map[string]int)}", "helper{m: h.cache}", "cache"},
		{"the owner's map is written by a goroutine and an exported method", "func (h *Hub) work(k string) int {\n", "func (h *Hub) work(k string) int {\n\th.cache[k]++\n", "cache"},
		{"the slice is appended to", "func (h *Hub) work(k string) int {\n", "func (h *Hub) work(k string) int {\n\th.names = append(h.names, k)\n", "names"},
	}
	for _, m := range muts {
		if strings.Count(lsSelfShared, m.old) != 1 {
			return fmt.Errorf("shared mutant %q: anchor not unique", m.name)
		}
		o, err := run(strings.Replace(lsSelfShared, m.old, m.new, 1))
		if err != nil {
			return fmt.Errorf("shared mutant %q: %v", m.name, err)
		}
		if !has(o, m.field) {
			return fmt.Errorf("shared mutant %q: Hub.%s not reported: %+v", m.name, m.field, o.shared)
		}
	}
	// used by one entry point only (the goroutine): not shared
	o, err := run(strings.Replace(strings.Replace(lsSelfShared, "helper{m: make(map[string]int)}", "helper{m: h.cache}", 1), "\treturn h.work(k)\n", "\treturn len(k)\n", 1))
	if err != nil {
		return err
	}
	if has(o, "cache") {
		return fmt.Errorf("shared: a map only the goroutine uses was reported: %+v", o.shared)
	}
	return nil
}

type lsMutant struct {
	name     string
	old, new string
	check    func(o *lsOut) error
}

func lsRunSnippet(src string) (*lsOut, error) {
	return lsAnalyze("m", []lsTarget{{"", "Box", []string{"items", "byKey", "ring", "n"}}}, map[string]map[string]string{"": {"p.go": src}})
}

func lsFind(o *lsOut, fn, field, part, kind string) []lsAccess {
	var r []lsAccess
	for _, a := range o.accs {
		if a.fn == fn && a.field == field && (part == "" || a.part == part) && (kind == "" || a.kind == kind) {
			r = append(r, a)
		}
	}
	return r
}

func lsAllGuarded(as []lsAccess) bool {
	for _, a := range as {
		if a.unknown || len(a.locks) == 0 {
			return false
		}
	}
	return len(as) > 0
}

func lsSomeUnguarded(as []lsAccess) bool {
	for _, a := range as {
		if a.unknown || len(a.locks) == 0 {
			return true
		}
	}
	return false
}

func lsHasLeak(o *lsOut, fn, what string) bool {
	for _, l := range o.leaks {
		if l.fn == fn && strings.Contains(l.what, what) {
			return true
		}
	}
	return false
}

func lsHasNest(o *lsOut, held, acq string) bool {
	for _, n := range o.nests {
		if n.held == held && n.acquired == acq {
			return true
		}
	}
	return false
}

func lsSelfTest() error {
	if err := lsWaitSelfTest(); err != nil {
		return err
	}
	if err := lsStartSelfTest(); err != nil {
		return err
	}
	if err := lsSharedSelfTest(); err != nil {
		return err
	}
	if err := lsHeldHelperSelfTest(); err != nil {
		return err
	}
	base, err := lsRunSnippet(lsSelfBase)
	if err != nil {
		return err
	}
	// the correct package: every access guarded, in the right mode, no leaks, aliases and helpers followed
	for _, a := range base.accs {
		if a.unknown || len(a.locks) != 1 || a.kind == "KEsc" {
			return fmt.Errorf("base: access not guarded: %+v", a)
		}
		if a.kind == "KWr" && !a.locks[0].excl {
			return fmt.Errorf("base: write under a read lock: %+v", a)
		}
	}
	if len(base.leaks) != 0 {
		return fmt.Errorf("base: leaks reported: %+v", base.leaks)
	}
	need := []struct{ fn, field, part, kind string }{
		{"p.Box.Put", "items", "Slot", "KWr"}, {"p.Box.Put", "items", "Cont", "KWr"}, {"p.Box.Put", "n", "Slot", "KWr"},
		{"p.Box.All", "items", "Slot", "KRd"}, {"p.Box.All", "items", "Cont", "KRd"},
		{"p.Box.Last", "ring", "Cont", "KRd"}, {"p.Box.Set", "byKey", "Cont", "KWr"}, {"p.Box.Sum", "byKey", "Cont", "KRd"},
	}
	for _, n := range need {
		if len(lsFind(base, n.fn, n.field, n.part, n.kind)) == 0 {
			return fmt.Errorf("base: missing access %v", n)
		}
	}
	if as := lsFind(base, "p.Box.Last", "ring", "Cont", "KRd"); len(as) < 2 {
		return fmt.Errorf("base: alias dereference prev.Value not listed")
	}
	viaHelper := false
	for _, a := range lsFind(base, "p.Box.Sum", "byKey", "Cont", "KRd") {
		if a.via == ">sum" {
			viaHelper = true
		}
	}
	if !viaHelper {
		return fmt.Errorf("base: helper sum() was not walked with the caller's lockset")
	}
	if !lsHasNest(base, "p.Box.mu", "p.Box.mu") {
		return fmt.Errorf("base: nesting pair of Both() -> Count() not found")
	}
	mutants := []lsMutant{
		{"removed Lock", "func (b *Box) Count() int {\n\tb.mu.RLock()\n", "func (b *Box) Count() int {\n", func(o *lsOut) error {
			if !lsSomeUnguarded(lsFind(o, "p.Box.Count", "n", "", "")) || !lsHasLeak(o, "p.Box.Count", "not held") {
				return fmt.Errorf("not detected")
			}
			return nil
		}},
		{"moved read", "\tn := b.n\n\tb.mu.RUnlock()\n", "\tb.mu.RUnlock()\n\tn := b.n\n", func(o *lsOut) error {
			if !lsSomeUnguarded(lsFind(o, "p.Box.Count", "n", "Slot", "KRd")) {
				return fmt.Errorf("not detected")
			}
			return nil
		}},
		{"early return before Unlock", "\tb.items = append(b.items, i)\n", "\tif i.v == 0 {\n\t\treturn\n\t}\n\tb.items = append(b.items, i)\n", func(o *lsOut) error {
			if !lsHasLeak(o, "p.Box.Put", "still held at return") {
				return fmt.Errorf("not detected")
			}
			return nil
		}},
		{"alias dereferenced after unlock", "\tv := prev.Value\n\tb.mu.RUnlock()\n", "\tb.mu.RUnlock()\n\tv := prev.Value\n", func(o *lsOut) error {
			if !lsSomeUnguarded(lsFind(o, "p.Box.Last", "ring", "Cont", "KRd")) {
				return fmt.Errorf("not detected")
			}
			return nil
		}},
		{"length read before the lock", "\tb.mu.RLock()\n\tdefer b.mu.RUnlock()\n\tout := make([]Item, len(b.items))\n",
			"\tout := make([]Item, len(b.items))\n\tb.mu.RLock()\n\tdefer b.mu.RUnlock()\n", func(o *lsOut) error {
				if !lsSomeUnguarded(lsFind(o, "p.Box.All", "items", "Slot", "KRd")) || !lsAllGuarded(lsFind(o, "p.Box.All", "items", "Cont", "KRd")) {
					return fmt.Errorf("not detected")
				}
				return nil
			}},
		{"write under a read lock", "func (b *Box) Put(i Item) {\n\tb.mu.Lock()\n", "func (b *Box) Put(i Item) {\n\tb.mu.RLock()\n", func(o *lsOut) error {
			as := lsFind(o, "p.Box.Put", "items", "Slot", "KWr")
			if len(as) == 0 || !as[0].unknown {
				return fmt.Errorf("mode mismatch not detected")
			}
			return nil
		}},
		{"helper called without the lock", "func (b *Box) Sum(k string) int {\n\tb.mu.RLock()\n\tdefer b.mu.RUnlock()\n", "func (b *Box) Sum(k string) int {\n", func(o *lsOut) error {
			as := lsFind(o, "p.Box.Sum", "byKey", "Cont", "KRd")
			if !lsSomeUnguarded(as) {
				return fmt.Errorf("not detected")
			}
			return nil
		}},
		{"reference returned", "\treturn sum(b.byKey[k])\n", "\t_ = sum(b.byKey[k])\n\treturn len(b.byKey[k])\n}\n\nfunc (b *Box) Raw() []Item {\n\tb.mu.RLock()\n\tdefer b.mu.RUnlock()\n\treturn b.items\n", func(o *lsOut) error {
			if len(lsFind(o, "p.Box.Raw", "items", "Cont", "KEsc")) == 0 {
				return fmt.Errorf("escape not detected")
			}
			return nil
		}},
		{"owner of unknown type", "func sum(m map[string]int) int {\n", "func peek(x interface{ get() *Box }) int {\n\ty := x.get2()\n\treturn y.n\n}\n\nfunc sum(m map[string]int) int {\n", func(o *lsOut) error {
			as := lsFind(o, "p.peek", "n", "", "")
			if len(as) == 0 || !as[0].unknown {
				return fmt.Errorf("unresolved owner not charged")
			}
			return nil
		}},
		{"mutex used through a pointer", "func (b *Box) Count() int {\n\tb.mu.RLock()\n\tn := b.n\n\tb.mu.RUnlock()\n", "func (b *Box) Count() int {\n\tm := &b.mu\n\tm.RLock()\n\tn := b.n\n\tm.RUnlock()\n", func(o *lsOut) error {
			as := lsFind(o, "p.Box.Count", "n", "", "")
			if len(as) == 0 || !as[0].unknown {
				return fmt.Errorf("unfollowable locking not marked unknown")
			}
			return nil
		}},
		{"unlock in one branch only", "\tb.n++\n\tb.mu.Unlock()\n", "\tb.n++\n\tif b.n > 1 {\n\t\tb.mu.Unlock()\n\t}\n", func(o *lsOut) error {
			if !lsHasLeak(o, "p.Box.Put", "still held at end of function") && !lsHasLeak(o, "p.Box.Put", "not followed") {
				return fmt.Errorf("not detected")
			}
			return nil
		}},
	}
	for _, m := range mutants {
		if strings.Count(lsSelfBase, m.old) != 1 {
			return fmt.Errorf("mutant %q: anchor not unique", m.name)
		}
		o, err := lsRunSnippet(strings.Replace(lsSelfBase, m.old, m.new, 1))
		if err != nil {
			return fmt.Errorf("mutant %q: %v", m.name, err)
		}
		if err := m.check(o); err != nil {
			return fmt.Errorf("mutant %q: %v", m.name, err)
		}
	}
	return nil
}


// ---------------------------------------------------------------------------------------------------
// lock-held helpers (findHeldHelpers / inlineHeld): a helper that takes no lock and is only ever called with the lock of its
// receiver's instance held is walked in place; one bare call site, a method value or a `go` statement puts it back on its own
// ---------------------------------------------------------------------------------------------------

const lsHeldSrc = `package p

import "sync"

type Reg struct {
	mu     sync.RWMutex
	byName map[string]map[string]int
}

func (r *Reg) lockedGet(a, b string) (int, bool) {
	m, ok := r.byName[a]
	if !ok {
		return 0, false
	}
	v, ok := m[b]
	return v, ok
}

func (r *Reg) Get(a, b string) int {
	r.mu.RLock()
	defer r.mu.RUnlock()
	v, _ := r.lockedGet(a, b)
	return v
}

func (x *Reg) Has(a, b string) bool {
	x.mu.RLock()
	_, ok := x.lockedGet(a, b)
	x.mu.RUnlock()
	return ok
}
`

func lsHeldHelperSelfTest() error {
	run := func(src string) (*lsOut, error) {
		return lsAnalyze("m", []lsTarget{{"", "Reg", []string{"byName"}}}, map[string]map[string]string{"": {"p.go": src}})
	}
	base, err := run(lsHeldSrc)
	if err != nil {
		return err
	}
	n := 0
	for _, a := range base.accs {
		if a.fn == "p.Reg.lockedGet" {
			return fmt.Errorf("held helper: the helper was walked on its own: %+v", a)
		}
		if a.unknown || len(a.locks) != 1 {
			return fmt.Errorf("held helper: access not guarded in the base: %+v", a)
		}
		if a.via == ">Reg.lockedGet" {
			n++
		}
	}
	if n < 2 || len(lsFind(base, "p.Reg.Get", "byName", "", "")) == 0 || len(lsFind(base, "p.Reg.Has", "byName", "", "")) == 0 {
		return fmt.Errorf("held helper: the helper's accesses are not listed under both callers (%d in place)", n)
	}
	mutants := []struct{ name, old, new string }{
		{"one call site without the lock", "\tx.mu.RLock()\n\t_, ok := x.lockedGet(a, b)\n\tx.mu.RUnlock()\n", "\t_, ok := x.lockedGet(a, b)\n"},
		{"used as a method value", "func (x *Reg) Has(", "func (r *Reg) Getter() func(string, string) (int, bool) {\n\treturn r.lockedGet\n}\n\nfunc (x *Reg) Has("},
		{"started as a goroutine", "func (x *Reg) Has(", "func (r *Reg) Warm() {\n\tgo r.lockedGet(\"a\", \"b\")\n}\n\nfunc (x *Reg) Has("},
		{"lock of another instance held", "\tx.mu.RLock()\n\t_, ok := x.lockedGet(a, b)\n\tx.mu.RUnlock()\n", "\ty := &Reg{}\n\ty.mu.RLock()\n\t_, ok := x.lockedGet(a, b)\n\ty.mu.RUnlock()\n"},
	}
	for _, m := range mutants {
		if !strings.Contains(lsHeldSrc, m.old) {
			return fmt.Errorf("held helper mutant %q: pattern not found", m.name)
		}
		o, err := run(strings.Replace(lsHeldSrc, m.old, m.new, 1))
		if err != nil {
			return fmt.Errorf("held helper mutant %q: %v", m.name, err)
		}
		bad := false
		for _, a := range o.accs {
			if a.field == "byName" && (a.unknown || len(a.locks) == 0) {
				bad = true
			}
		}
		if !bad {
			return fmt.Errorf("held helper mutant %q: no unguarded access reported", m.name)
		}
	}
	return nil
}
