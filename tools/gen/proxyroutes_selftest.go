package main

// Self-test of the proxy route translator (Gen/ProxyRoutes.v, C12), run before every generation: a reduced
// ipfsproxy.New in its chained form (one registration statement per route) and in its table-driven form (a local
// table of {name, path, handler} ranged over by one registration) must give the same table, and hand-made
// mutants of the table-driven form (rows swapped, slashHandler dropped, another handler, a path typo,
// registration on the router, a condition in the loop, a row appended later, ...) must give another table or
// be refused with a position. If the walk stops telling them apart the generator fails, and with it the check.

import (
	"fmt"
	"go/parser"
	"go/token"
	"strings"
)

const prSelfHead = `package ipfsproxy

type namedRoute struct {
	name, path string
	handler    http.HandlerFunc
}

func New(cfg *Config) (*Server, error) {
	var listeners []net.Listener
	for _, addr := range cfg.ListenAddr {
		listeners = append(listeners, listen(addr))
	}
	var handler http.Handler
	router := mux.NewRouter()
	handler = router
	if cfg.Tracing {
		handler = &ochttp.Handler{Handler: router}
	}
	proxy := &Server{listeners: listeners, handler: handler}
	hijackSubrouter := router.
		Methods(http.MethodPost, http.MethodGet, http.MethodPut).
		PathPrefix("/api/v0").
		Subrouter()
`

const prSelfTail = `
	// Everything else goes to the IPFS daemon.
	router.PathPrefix("/").Handler(reverseProxy)

	go proxy.run()
	return proxy, nil
}

func (proxy *Server) pinHandler(w http.ResponseWriter, r *http.Request) {
	proxy.pinOpHandler("PinPath", w, r)
}

func (proxy *Server) unpinHandler(w http.ResponseWriter, r *http.Request) {
	proxy.pinOpHandler("UnpinPath", w, r)
}

func (proxy *Server) pinOpHandler(op string, w http.ResponseWriter, r *http.Request) {
	var pin api.Pin
	err := proxy.rpcClient.CallContext(r.Context(), "", "Cluster", op, r.URL.Query().Get("arg"), &pin)
	if err != nil {
		ipfsErrorResponder(w, err.Error(), -1)
		return
	}
	w.WriteHeader(http.StatusOK)
}

func (proxy *Server) repoGCHandler(w http.ResponseWriter, r *http.Request) {
	err := proxy.rpcClient.Call("", "Cluster", "RepoGC", struct{}{}, &out)
	if err != nil {
		ipfsErrorResponder(w, err.Error(), -1)
		return
	}
}
`

const prSelfChained = `	hijackSubrouter.
		Path("/pin/add/{arg}").
		HandlerFunc(slashHandler(proxy.pinHandler)).
		Name("PinAddSlash") // supports people using the API wrong.
	hijackSubrouter.
		Path("/pin/add").
		HandlerFunc(proxy.pinHandler).
		Name("PinAdd")
	hijackSubrouter.
		Path("/pin/rm").
		HandlerFunc(proxy.unpinHandler).
		Name("PinRm")
	hijackSubrouter.
		Path("/repo/gc").
		HandlerFunc(proxy.repoGCHandler).
		Name("RepoGC")
`

const prSelfRows = `		{"PinAddSlash", "/pin/add/{arg}", slashHandler(proxy.pinHandler)},
		{"PinAdd", "/pin/add", proxy.pinHandler},
		{"PinRm", "/pin/rm", proxy.unpinHandler},
		{"RepoGC", "/repo/gc", proxy.repoGCHandler},
`

const prSelfLoop = `	for _, hr := range hijackedRoutes {
		hijackSubrouter.Path(hr.path).HandlerFunc(hr.handler).Name(hr.name)
	}
`

const prSelfTable = `	hijackedRoutes := []struct {
		name    string
		path    string
		handler http.HandlerFunc
	}{
` + prSelfRows + `	}
` + prSelfLoop

const prSelfKeyedRows = `		{name: "PinAddSlash", path: "/pin/add/{arg}", handler: slashHandler(proxy.pinHandler)},
		{handler: proxy.pinHandler, name: "PinAdd", path: "/pin/add"},
		{name: "PinRm", path: "/pin/rm", handler: proxy.unpinHandler},
		namedRoute{name: "RepoGC", path: "/repo/gc", handler: proxy.repoGCHandler},
`

func prSelfRun(routes string) (string, error) {
	fset := token.NewFileSet()
	f, err := parser.ParseFile(fset, "selftest.go", prSelfHead+routes+prSelfTail, 0)
	if err != nil {
		return "", fmt.Errorf("self-test source does not parse: %v", err)
	}
	return prTable(fset, f, nil)
}

// the hijack_routes rows of a generated table
func prSelfRoutesOf(table string) string {
	i := strings.Index(table, "Definition hijack_routes")
	j := strings.Index(table, "Definition catch_all")
	if i < 0 || j < i {
		return "?"
	}
	return table[i:j]
}

type prSelfCase struct {
	name     string
	base     string // the registration part of New
	old, new string // one textual replacement in it
	same     bool   // the table of the chained form, byte for byte
	want     string // else: a row (or rows) the table must contain ...
	gone     string // ... and text it must no longer contain
	wantErr  string // else: refused, the message contains this and a selftest.go:<line> position
}

func prSelfTest() error {
	ref, err := prSelfRun(prSelfChained)
	if err != nil {
		return fmt.Errorf("chained form: refused: %v", err)
	}
	wantRows := "  (\"PinAddSlash\", \"/pin/add/{arg}\", \"pinHandler\", true);\n  (\"PinAdd\", \"/pin/add\", \"pinHandler\", false);\n" +
		"  (\"PinRm\", \"/pin/rm\", \"unpinHandler\", false);\n  (\"RepoGC\", \"/repo/gc\", \"repoGCHandler\", false)\n]."
	for _, s := range []string{wantRows, "hijack_methods : list string := [\"POST\"; \"GET\"; \"PUT\"]", "hijack_prefix : string := \"/api/v0\"",
		"catch_all : list (string * string) := [(\"/\", \"reverseProxy\")]", "(\"pinHandler\", [(\"Cluster\", \"PinPath\")])",
		"(\"unpinHandler\", [(\"Cluster\", \"UnpinPath\")])", "(\"repoGCHandler\", [(\"Cluster\", \"RepoGC\")])", "(\"unpinHandler\", [true])"} {
		if !strings.Contains(ref, s) {
			return fmt.Errorf("chained form: the table lacks %q:\n%s", s, ref)
		}
	}
	swapped := "  (\"PinAdd\", \"/pin/add\", \"pinHandler\", false);\n  (\"PinAddSlash\", \"/pin/add/{arg}\", \"pinHandler\", true);\n"
	inOrder := "  (\"PinAddSlash\", \"/pin/add/{arg}\", \"pinHandler\", true);\n  (\"PinAdd\", \"/pin/add\", \"pinHandler\", false);\n"
	rowAdd := "\t\t{\"PinAdd\", \"/pin/add\", proxy.pinHandler},\n"
	rowAddSlash := "\t\t{\"PinAddSlash\", \"/pin/add/{arg}\", slashHandler(proxy.pinHandler)},\n"
	rowGC := "\t\t{\"RepoGC\", \"/repo/gc\", proxy.repoGCHandler},\n"
	body := "\t\thijackSubrouter.Path(hr.path).HandlerFunc(hr.handler).Name(hr.name)\n"
	chainedGC := "\thijackSubrouter.\n\t\tPath(\"/repo/gc\").\n\t\tHandlerFunc(proxy.repoGCHandler).\n\t\tName(\"RepoGC\")\n"
	cases := []prSelfCase{
		// equivalent spellings: the same table
		{name: "table-driven, anonymous struct, positional rows", base: prSelfTable, same: true},
		{name: "keyed rows in any field order, package-level element type", base: prSelfTable,
			old: "[]struct {\n\t\tname    string\n\t\tpath    string\n\t\thandler http.HandlerFunc\n\t}{\n" + prSelfRows, new: "[]namedRoute{\n" + prSelfKeyedRows, same: true},
		{name: "var declaration", base: prSelfTable, old: "hijackedRoutes := []struct", new: "var hijackedRoutes = []struct", same: true},
		{name: "range over the literal itself", base: "\tfor _, hr := range []namedRoute{\n" + prSelfRows + "\t} {\n" + body + "\t}\n", same: true},
		{name: "element type declared in New", base: "\ttype hroute struct {\n\t\tname, path string\n\t\th          http.HandlerFunc\n\t}\n\tfor _, hr := range []hroute{\n" + prSelfRows + "\t} {\n\t\thijackSubrouter.Path(hr.path).HandlerFunc(hr.h).Name(hr.name)\n\t}\n", same: true},
		{name: "registration calls in another order", base: prSelfTable, old: body, new: "\t\thijackSubrouter.Name(hr.name).Path(hr.path).HandlerFunc(hr.handler)\n", same: true},
		{name: "mixed: table for three routes, then a chained statement", base: strings.Replace(prSelfTable, rowGC, "", 1) + chainedGC, same: true},
		{name: "mixed: a chained statement, then a table", base: "\thijackSubrouter.Path(\"/pin/add/{arg}\").HandlerFunc(slashHandler(proxy.pinHandler)).Name(\"PinAddSlash\")\n" + strings.Replace(prSelfTable, rowAddSlash, "", 1), same: true},
		{name: "mixed: two tables", base: strings.Replace(prSelfTable, rowGC, "", 1) + "\tfor _, r := range []namedRoute{{\"RepoGC\", \"/repo/gc\", proxy.repoGCHandler}} {\n\t\thijackSubrouter.Path(r.path).HandlerFunc(r.handler).Name(r.name)\n\t}\n", same: true},

		// defects: another table (mux tries routes in registration order: order is part of the table)
		{name: "two rows swapped", base: prSelfTable, old: rowAddSlash + rowAdd, new: rowAdd + rowAddSlash, want: swapped, gone: inOrder},
		{name: "two chained statements swapped", base: strings.Replace(prSelfChained, "\thijackSubrouter.\n\t\tPath(\"/pin/add\").\n\t\tHandlerFunc(proxy.pinHandler).\n\t\tName(\"PinAdd\")\n", "", 1),
			old: "\thijackSubrouter.\n\t\tPath(\"/pin/add/{arg}\")", new: "\thijackSubrouter.Path(\"/pin/add\").HandlerFunc(proxy.pinHandler).Name(\"PinAdd\")\n\thijackSubrouter.\n\t\tPath(\"/pin/add/{arg}\")", want: swapped, gone: inOrder},
		{name: "mixed: the chained statement before the table instead of after", base: chainedGC + strings.Replace(prSelfTable, rowGC, "", 1),
			want: "[\n  (\"RepoGC\", \"/repo/gc\", \"repoGCHandler\", false);\n  (\"PinAddSlash\"", gone: "(\"RepoGC\", \"/repo/gc\", \"repoGCHandler\", false)\n]"},
		{name: "slashHandler dropped", base: prSelfTable, old: "slashHandler(proxy.pinHandler)", new: "proxy.pinHandler", want: "(\"PinAddSlash\", \"/pin/add/{arg}\", \"pinHandler\", false)", gone: "\"pinHandler\", true)"},
		{name: "slashHandler added", base: prSelfTable, old: "\"/pin/rm\", proxy.unpinHandler", new: "\"/pin/rm\", slashHandler(proxy.unpinHandler)", want: "(\"PinRm\", \"/pin/rm\", \"unpinHandler\", true)"},
		{name: "row bound to another handler", base: prSelfTable, old: "\"/pin/rm\", proxy.unpinHandler", new: "\"/pin/rm\", proxy.pinHandler", want: "(\"PinRm\", \"/pin/rm\", \"pinHandler\", false)", gone: "unpinHandler"},
		{name: "path typo", base: prSelfTable, old: "\"/repo/gc\"", new: "\"/repo/gcx\"", want: "(\"RepoGC\", \"/repo/gcx\", \"repoGCHandler\", false)", gone: "\"/repo/gc\""},
		{name: "row dropped", base: prSelfTable, old: rowGC, new: "", want: "(\"PinRm\", \"/pin/rm\", \"unpinHandler\", false)\n]", gone: "RepoGC"},
		{name: "row duplicated", base: prSelfTable, old: rowGC, new: rowGC + rowGC, want: "(\"RepoGC\", \"/repo/gc\", \"repoGCHandler\", false);\n  (\"RepoGC\", \"/repo/gc\", \"repoGCHandler\", false)\n]"},
		{name: "loop registers path under the name field", base: prSelfTable, old: "Path(hr.path).HandlerFunc(hr.handler).Name(hr.name)", new: "Path(hr.name).HandlerFunc(hr.handler).Name(hr.path)", want: "(\"/repo/gc\", \"RepoGC\", \"repoGCHandler\", false)"},
		{name: "keyed rows with name and path exchanged", base: prSelfTable, old: rowGC, new: "\t\t{path: \"RepoGC\", name: \"/repo/gc\", handler: proxy.repoGCHandler},\n", want: "(\"/repo/gc\", \"RepoGC\", \"repoGCHandler\", false)"},
		{name: "the table is ranged over twice", base: prSelfTable + prSelfLoop, want: "(\"RepoGC\", \"/repo/gc\", \"repoGCHandler\", false);\n  (\"PinAddSlash\""},

		// defects / shapes that must be refused
		{name: "loop body registers on the router", base: prSelfTable, old: "\t\thijackSubrouter.Path(hr.path)", new: "\t\trouter.Path(hr.path)", wantErr: "does not register on the hijack subrouter"},
		{name: "condition in the loop", base: prSelfTable, old: body, new: "\t\tif hr.name == \"RepoGC\" {\n\t\t\tcontinue\n\t\t}\n" + body, wantErr: "not exactly one registration"},
		{name: "registration under a condition in the loop", base: prSelfTable, old: body, new: "\t\tif hr.name != \"RepoGC\" {\n\t" + body + "\t\t}\n", wantErr: "is not a registration"},
		{name: "extra statement in the loop", base: prSelfTable, old: body, new: body + "\t\thr.path += \"/\"\n", wantErr: "not exactly one registration"},
		{name: "row appended after the literal", base: prSelfTable, old: prSelfLoop, new: "\thijackedRoutes = append(hijackedRoutes, namedRoute{\"Add\", \"/add\", proxy.addHandler})\n" + prSelfLoop, wantErr: "used outside its definition"},
		{name: "row appended under a condition", base: prSelfTable, old: prSelfLoop, new: "\tif cfg.Tracing {\n\t\thijackedRoutes = append(hijackedRoutes, hijackedRoutes[0])\n\t}\n" + prSelfLoop, wantErr: "used outside its definition"},
		{name: "row modified after the literal", base: prSelfTable, old: prSelfLoop, new: "\thijackedRoutes[1].path = \"/pin/addx\"\n" + prSelfLoop, wantErr: "used outside its definition"},
		{name: "table truncated by a reslice in the range expression", base: prSelfTable, old: "range hijackedRoutes {", new: "range hijackedRoutes[:3] {", wantErr: "neither a composite literal nor a local variable"},
		{name: "table passed to a helper", base: prSelfTable, old: prSelfLoop, new: "\ttune(hijackedRoutes)\n" + prSelfLoop, wantErr: "used outside its definition"},
		{name: "table built by a function", base: "\thijackedRoutes := proxy.routes()\n" + prSelfLoop, wantErr: "not assigned from a composite literal"},
		{name: "table declared empty and filled later", base: "\tvar hijackedRoutes []namedRoute\n\thijackedRoutes = append(hijackedRoutes, namedRoute{\"RepoGC\", \"/repo/gc\", proxy.repoGCHandler})\n" + prSelfLoop, wantErr: "not assigned from a composite literal"},
		{name: "table is a package-level variable", base: prSelfLoop, wantErr: "not a local variable of New"},
		{name: "table is a field", base: "\tfor _, hr := range proxy.routes {\n" + body + "\t}\n", wantErr: "neither a composite literal nor a local variable"},
		{name: "table defined twice", base: prSelfTable + "\thijackedRoutes, ok := more()\n" + prSelfLoop, wantErr: "2 definitions"},
		{name: "path is a constant", base: prSelfTable, old: "\"RepoGC\", \"/repo/gc\"", new: "\"RepoGC\", repoGCPath", wantErr: "neither a string literal nor proxy.h"},
		{name: "path is computed", base: prSelfTable, old: "\"RepoGC\", \"/repo/gc\"", new: "\"RepoGC\", \"/repo\" + \"/gc\"", wantErr: "neither a string literal nor proxy.h"},
		{name: "handler is a closure", base: prSelfTable, old: "\"/repo/gc\", proxy.repoGCHandler", new: "\"/repo/gc\", func(w http.ResponseWriter, r *http.Request) {}", wantErr: "neither a string literal nor proxy.h"},
		{name: "handler under another wrapper", base: prSelfTable, old: "\"/repo/gc\", proxy.repoGCHandler", new: "\"/repo/gc\", logged(proxy.repoGCHandler)", wantErr: "unrecognised handler wrapper"},
		{name: "handler field holds a string", base: prSelfTable, old: "Path(hr.path).HandlerFunc(hr.handler)", new: "Path(hr.path).HandlerFunc(hr.name)", wantErr: "handler is not a method value"},
		{name: "path field holds a handler", base: prSelfTable, old: "Path(hr.path).HandlerFunc(hr.handler)", new: "Path(hr.handler).HandlerFunc(hr.handler)", wantErr: "path or name is not a literal"},
		{name: "keyed row without a path", base: prSelfTable, old: rowGC, new: "\t\t{name: \"RepoGC\", handler: proxy.repoGCHandler},\n", wantErr: "at its zero value"},
		{name: "positional row too short", base: prSelfTable, old: rowGC, new: "\t\t{\"RepoGC\", \"/repo/gc\"},\n", wantErr: "2 values for 3 fields"},
		{name: "row is a variable", base: prSelfTable, old: rowGC, new: "\t\tgcRoute,\n", wantErr: "not a struct literal"},
		{name: "indexed row", base: prSelfTable, old: rowGC, new: "\t\t7: {\"RepoGC\", \"/repo/gc\", proxy.repoGCHandler},\n", wantErr: "not a struct literal"},
		{name: "fixed-size array", base: prSelfTable, old: "hijackedRoutes := []struct", new: "hijackedRoutes := [9]struct", wantErr: "not a slice"},
		{name: "unknown element type", base: prSelfTable, old: "[]struct {\n\t\tname    string\n\t\tpath    string\n\t\thandler http.HandlerFunc\n\t}{", new: "[]otherRoute{", wantErr: "0 declarations found"},
		{name: "pointer elements", base: prSelfTable, old: "[]struct {\n\t\tname    string\n\t\tpath    string\n\t\thandler http.HandlerFunc\n\t}{", new: "[]*namedRoute{", wantErr: "neither a struct type nor the name of one"},
		{name: "Methods in the looped chain", base: prSelfTable, old: ".Name(hr.name)", new: ".Name(hr.name).Methods(\"POST\")", wantErr: ".Methods(..) call in a route registration is not understood"},
		{name: "Queries in the looped chain", base: prSelfTable, old: ".Name(hr.name)", new: ".Queries(\"arg\", \"{arg}\").Name(hr.name)", wantErr: ".Queries(..) call in a route registration is not understood"},
		{name: "Host in a chained statement", base: prSelfChained, old: "\t\tName(\"RepoGC\")", new: "\t\tHost(\"localhost\").\n\t\tName(\"RepoGC\")", wantErr: ".Host(..) call in a route registration is not understood"},
		{name: "Handler instead of HandlerFunc", base: prSelfTable, old: ".HandlerFunc(hr.handler)", new: ".Handler(hr.handler)", wantErr: ".Handler(..) call in a route registration is not understood"},
		{name: "looped registration without a name", base: prSelfTable, old: ".Name(hr.name)", new: "", wantErr: "one of them is missing"},
		{name: "literal path in the loop", base: prSelfTable, old: "Path(hr.path)", new: "Path(\"/pin/add\")", wantErr: "not a field of the loop variable hr"},
		{name: "wrapper applied in the loop", base: prSelfTable, old: "HandlerFunc(hr.handler)", new: "HandlerFunc(slashHandler(hr.handler))", wantErr: "not a field of the loop variable hr"},
		{name: "field of something else than the loop variable", base: prSelfTable, old: "Path(hr.path)", new: "Path(cfg.path)", wantErr: "not a field of the loop variable hr"},
		{name: "unknown field", base: prSelfTable, old: "Path(hr.path)", new: "Path(hr.route)", wantErr: "no such field"},
		{name: "indexed loop", base: prSelfTable, old: prSelfLoop, new: "\tfor i := range hijackedRoutes {\n\t\thijackSubrouter.Path(hijackedRoutes[i].path).HandlerFunc(hijackedRoutes[i].handler).Name(hijackedRoutes[i].name)\n\t}\n", wantErr: "not of the form"},
		{name: "three-clause loop", base: prSelfTable, old: prSelfLoop, new: "\tfor i := 0; i < 3; i++ {\n\t\thr := namedRoute{\"RepoGC\", \"/repo/gc\", proxy.repoGCHandler}\n\t\thijackSubrouter.Path(hr.path).HandlerFunc(hr.handler).Name(hr.name)\n\t}\n", wantErr: "in a statement the translator does not follow"},
		{name: "loop over the table inside a condition", base: prSelfTable, old: prSelfLoop, new: "\tif !cfg.Tracing {\n" + prSelfLoop + "\t}\n", wantErr: "in a statement the translator does not follow"},
		{name: "loop over something else registering a route", base: prSelfTable + "\tfor _, p := range cfg.ExtraPaths {\n\t\thijackSubrouter.Path(p).HandlerFunc(proxy.pinHandler).Name(p)\n\t}\n", wantErr: "not a field of the loop variable p"},
		{name: "chained statement under a condition", base: prSelfChained, old: "\thijackSubrouter.\n\t\tPath(\"/repo/gc\").", new: "\tif cfg.GC {\n\t\thijackSubrouter.Path(\"/repo/gcx\").HandlerFunc(proxy.repoGCHandler).Name(\"GCX\")\n\t}\n\thijackSubrouter.\n\t\tPath(\"/repo/gc\").", wantErr: "in a statement the translator does not follow"},
		{name: "registration in a closure", base: prSelfTable + "\tfunc() {\n\t\thijackSubrouter.Path(\"/x\").HandlerFunc(proxy.pinHandler).Name(\"X\")\n\t}()\n", wantErr: "in a statement the translator does not follow"},
		{name: "subrouter handed to a helper", base: prSelfTable + "\tregisterMore(hijackSubrouter)\n", wantErr: "in a statement the translator does not follow"},
		{name: "route registered on the router under a condition", base: prSelfTable + "\tif cfg.Tracing {\n\t\trouter.Path(\"/api/v0/pin/add\").Handler(reverseProxy)\n\t}\n", wantErr: "a call on the router"},
		{name: "no routes at all", base: "", wantErr: "routes not found in New"},
	}
	for _, c := range cases {
		src := c.base
		if c.old != "" {
			if strings.Count(src, c.old) != 1 {
				return fmt.Errorf("%s: the text to replace occurs %d times in the self-test source", c.name, strings.Count(src, c.old))
			}
			src = strings.Replace(src, c.old, c.new, 1)
		}
		got, err := prSelfRun(src)
		switch {
		case c.wantErr == "" && err != nil:
			return fmt.Errorf("%s: refused: %v", c.name, err)
		case c.same && got != ref:
			return fmt.Errorf("%s: the table differs from that of the chained form:\n%s", c.name, got)
		case c.same:
		case c.wantErr == "" && (got == ref || prSelfRoutesOf(got) == prSelfRoutesOf(ref)):
			return fmt.Errorf("%s: the mutant is not told apart from the original", c.name)
		case c.wantErr == "" && !strings.Contains(prSelfRoutesOf(got), c.want):
			return fmt.Errorf("%s: the table lacks %q:\n%s", c.name, c.want, got)
		case c.wantErr == "" && c.gone != "" && strings.Contains(prSelfRoutesOf(got), c.gone):
			return fmt.Errorf("%s: the table still has %q:\n%s", c.name, c.gone, got)
		case c.wantErr == "":
		case err == nil:
			return fmt.Errorf("%s: accepted, table\n%s", c.name, got)
		case !strings.Contains(err.Error(), c.wantErr):
			return fmt.Errorf("%s: refused with an unexpected message: %v", c.name, err)
		case !strings.Contains(err.Error(), "selftest.go:"):
			return fmt.Errorf("%s: the refusal does not name a position: %v", c.name, err)
		}
	}
	return nil
}
