package main

import (
	"fmt"
	"go/ast"
	"go/parser"
	"go/token"
	"path/filepath"
	"strconv"
	"strings"
)

// Gen/ProxyRoutes.v (C12): the hijack subrouter of api/ipfsproxy/ipfsproxy.go:New (methods, prefix, one
// entry per route: name, path template, handler, wrapped in slashHandler or not), the catch-all, and per
// hijack handler the RPC calls it contains (in source order) and, for every ipfsErrorResponder call,
// whether the statement that follows it is a return. The registrations are read in their chained form (one statement per
// route) and in their table-driven form (a loop over a literal table of routes), see prWalk; proxyroutes_selftest.go.
func init() { register("ProxyRoutes", genProxyRoutes) }

var httpMethodConst = map[string]string{"MethodGet": "GET", "MethodPost": "POST", "MethodPut": "PUT", "MethodDelete": "DELETE",
	"MethodHead": "HEAD", "MethodOptions": "OPTIONS", "MethodPatch": "PATCH", "MethodConnect": "CONNECT", "MethodTrace": "TRACE"}

// flatten a call chain a.F(x).G(y) into root identifier and [(F,[x]),(G,[y])]
type chainCall struct {
	name string
	args []ast.Expr
}

func flattenChain(e ast.Expr) (string, []chainCall, bool) {
	var calls []chainCall
	for {
		ce, ok := e.(*ast.CallExpr)
		if !ok {
			break
		}
		se, ok := ce.Fun.(*ast.SelectorExpr)
		if !ok {
			return "", nil, false
		}
		calls = append([]chainCall{{se.Sel.Name, ce.Args}}, calls...)
		e = se.X
	}
	id, ok := e.(*ast.Ident)
	if !ok {
		return "", nil, false
	}
	return id.Name, calls, true
}

func strLit(e ast.Expr) (string, bool) {
	bl, ok := e.(*ast.BasicLit)
	if !ok || bl.Kind != token.STRING {
		return "", false
	}
	s, err := strconv.Unquote(bl.Value)
	return s, err == nil
}

func findFunc(f *ast.File, recv, name string) *ast.FuncDecl {
	for _, d := range f.Decls {
		fd, ok := d.(*ast.FuncDecl)
		if !ok || fd.Name.Name != name {
			continue
		}
		if recv == "" && fd.Recv == nil {
			return fd
		}
		if recv != "" && fd.Recv != nil && len(fd.Recv.List) == 1 {
			if st, ok := fd.Recv.List[0].Type.(*ast.StarExpr); ok {
				if id, ok := st.X.(*ast.Ident); ok && id.Name == recv {
					return fd
				}
			}
		}
	}
	return nil
}

// rpcCallSites lists ("Service","Method") of every <x>.rpcClient.Call / CallContext / MultiCall in body, in
// source order; a method given by an identifier is resolved through subst (parameter name -> literal).
func rpcCallSites(body ast.Node, subst map[string]string) ([][2]string, error) {
	var out [][2]string
	var err error
	ast.Inspect(body, func(n ast.Node) bool {
		ce, ok := n.(*ast.CallExpr)
		if !ok {
			return true
		}
		se, ok := ce.Fun.(*ast.SelectorExpr)
		if !ok {
			return true
		}
		inner, ok := se.X.(*ast.SelectorExpr)
		if !ok || inner.Sel.Name != "rpcClient" {
			return true
		}
		var svcIdx int
		switch se.Sel.Name {
		case "Call":
			svcIdx = 1
		case "CallContext", "MultiCall":
			svcIdx = 2
		default:
			err = fmt.Errorf("unknown rpcClient method %s", se.Sel.Name)
			return false
		}
		if len(ce.Args) < svcIdx+2 {
			err = fmt.Errorf("rpcClient.%s with too few arguments", se.Sel.Name)
			return false
		}
		get := func(e ast.Expr) (string, bool) {
			if s, ok := strLit(e); ok {
				return s, true
			}
			if id, ok := e.(*ast.Ident); ok {
				if s, ok := subst[id.Name]; ok {
					return s, true
				}
			}
			return "", false
		}
		svc, ok1 := get(ce.Args[svcIdx])
		m, ok2 := get(ce.Args[svcIdx+1])
		if !ok1 || !ok2 {
			err = fmt.Errorf("rpc call with a service/method the walk cannot resolve")
			return false
		}
		out = append(out, [2]string{svc, m})
		return true
	})
	return out, err
}

// errorSites: for every expression statement calling one of errFuncs, is the next statement of the same block a return?
func errorSites(body *ast.BlockStmt, isErrCall func(*ast.CallExpr) bool) []bool {
	var out []bool
	var walkBlock func(stmts []ast.Stmt)
	walkStmt := func(s ast.Stmt) {}
	walkBlock = func(stmts []ast.Stmt) {
		for i, s := range stmts {
			if es, ok := s.(*ast.ExprStmt); ok {
				if ce, ok := es.X.(*ast.CallExpr); ok && isErrCall(ce) {
					ret := false
					if i+1 < len(stmts) {
						_, ret = stmts[i+1].(*ast.ReturnStmt)
					}
					out = append(out, ret)
				}
			}
			walkStmt(s)
		}
	}
	walkStmt = func(s ast.Stmt) {
		switch x := s.(type) {
		case *ast.BlockStmt:
			walkBlock(x.List)
		case *ast.IfStmt:
			walkBlock(x.Body.List)
			if x.Else != nil {
				walkStmt(x.Else)
			}
		case *ast.ForStmt:
			walkBlock(x.Body.List)
		case *ast.RangeStmt:
			walkBlock(x.Body.List)
		case *ast.SwitchStmt:
			walkBlock(x.Body.List)
		case *ast.TypeSwitchStmt:
			walkBlock(x.Body.List)
		case *ast.SelectStmt:
			walkBlock(x.Body.List)
		case *ast.CaseClause:
			walkBlock(x.Body)
		case *ast.CommClause:
			walkBlock(x.Body)
		case *ast.LabeledStmt:
			walkStmt(x.Stmt)
		}
	}
	walkBlock(body.List)
	return out
}

func coqBoolList(bs []bool) string {
	xs := make([]string, len(bs))
	for i, b := range bs {
		if b {
			xs[i] = "true"
		} else {
			xs[i] = "false"
		}
	}
	return "[" + strings.Join(xs, "; ") + "]"
}

func coqPairList(ps [][2]string) string {
	xs := make([]string, len(ps))
	for i, p := range ps {
		xs[i] = "(" + coqStr(p[0]) + ", " + coqStr(p[1]) + ")"
	}
	return "[" + strings.Join(xs, "; ") + "]"
}

func genProxyRoutes(repo string) (string, error) {
	if err := prSelfTest(); err != nil {
		return "", fmt.Errorf("self-test of the proxy route translator: %v", err)
	}
	dir := filepath.Join(repo, "api", "ipfsproxy")
	fset, f, err := parseFile(filepath.Join(dir, "ipfsproxy.go"))
	if err != nil {
		return "", err
	}
	// the other files of the package are read only when a route table names its element type
	siblings := func() []*ast.File {
		var out []*ast.File
		names, _ := filepath.Glob(filepath.Join(dir, "*.go"))
		for _, n := range names {
			if strings.HasSuffix(n, "_test.go") || filepath.Base(n) == "ipfsproxy.go" {
				continue
			}
			if sf, err := parser.ParseFile(fset, n, nil, 0); err == nil {
				out = append(out, sf)
			}
		}
		return out
	}
	return prTable(fset, f, siblings)
}

type prRoute struct {
	name, tpl, handler string
	slash              bool
}

// prWalk reads the route registrations of New. Two shapes of a hijack registration are followed:
//
//	hijackSubrouter.Path("/x").HandlerFunc(h).Name("N")                                  (one statement per route)
//	for _, hr := range <table> { hijackSubrouter.Path(hr.path).HandlerFunc(hr.handler).Name(hr.name) }
//
// where <table> is a composite literal of struct literals, or a local variable of New assigned exactly once from such a
// literal and used nowhere else. Everything else that touches the router or the subrouter is refused with file:line.
type prWalk struct {
	fset     *token.FileSet
	f        *ast.File
	siblings func() []*ast.File
	newFn    *ast.FuncDecl
	err      error

	routerName, subName string
	methods             []string
	prefix              string
	routes              []prRoute
	catchAll            [][2]string
	consumed            map[ast.Stmt]bool
	tableUses           map[string]map[*ast.Ident]bool // table variable -> its identifiers the walk has accounted for
}

func (w *prWalk) at(n ast.Node) string {
	p := w.fset.Position(n.Pos())
	return fmt.Sprintf("%s:%d", p.Filename, p.Line)
}

func (w *prWalk) fail(n ast.Node, format string, a ...interface{}) {
	if w.err == nil {
		w.err = fmt.Errorf(w.at(n)+": "+format, a...)
	}
}

// prIdents calls visit for every identifier of n that is used as a name on its own (not the field / method name of a
// selector, not the key of a keyed struct literal field).
func prIdents(n ast.Node, visit func(*ast.Ident)) {
	if n == nil {
		return
	}
	ast.Inspect(n, func(m ast.Node) bool {
		switch v := m.(type) {
		case *ast.SelectorExpr:
			prIdents(v.X, visit)
			return false
		case *ast.Ident:
			visit(v)
		}
		return true
	})
}

func prMentions(n ast.Node, name string) *ast.Ident {
	var found *ast.Ident
	if name == "" {
		return nil
	}
	prIdents(n, func(id *ast.Ident) {
		if found == nil && id.Name == name {
			found = id
		}
	})
	return found
}

// prCallsOn: a method call <name>.M(...) somewhere in n
func prCallsOn(n ast.Node, name string) ast.Node {
	var found ast.Node
	if name == "" || n == nil {
		return nil
	}
	ast.Inspect(n, func(m ast.Node) bool {
		if ce, ok := m.(*ast.CallExpr); ok && found == nil {
			if se, ok := ce.Fun.(*ast.SelectorExpr); ok {
				if id, ok := se.X.(*ast.Ident); ok && id.Name == name {
					found = ce
				}
			}
		}
		return found == nil
	})
	return found
}

// prRegChain: the calls of one registration on the hijack subrouter, Path, HandlerFunc and Name, each exactly once with one
// argument (their order on a mux.Route is immaterial: a matcher, the handler, the name). Anything else (Methods, Queries,
// Host, Handler, Subrouter, ...) is not understood.
func prRegChain(chain []chainCall) (path, handler, name ast.Expr, problem string) {
	for _, c := range chain {
		var slot *ast.Expr
		switch c.name {
		case "Path":
			slot = &path
		case "HandlerFunc":
			slot = &handler
		case "Name":
			slot = &name
		default:
			return nil, nil, nil, "a ." + c.name + "(..) call in a route registration is not understood"
		}
		if *slot != nil {
			return nil, nil, nil, "." + c.name + "(..) twice in one route registration"
		}
		if len(c.args) != 1 {
			return nil, nil, nil, "." + c.name + "(..) does not have exactly one argument"
		}
		*slot = c.args[0]
	}
	if path == nil || handler == nil || name == nil {
		return nil, nil, nil, "a route registration is Path, HandlerFunc and Name, one of them is missing"
	}
	return path, handler, name, ""
}

// prHandlerExpr: proxy.h or slashHandler(proxy.h)
func prHandlerExpr(h ast.Expr) (handler string, slash bool, problem string) {
	if ce, ok := h.(*ast.CallExpr); ok {
		id, ok := ce.Fun.(*ast.Ident)
		if !ok || id.Name != "slashHandler" || len(ce.Args) != 1 {
			return "", false, "unrecognised handler wrapper"
		}
		slash = true
		h = ce.Args[0]
	}
	se, ok := h.(*ast.SelectorExpr)
	if !ok {
		return "", false, "handler is not a method value"
	}
	return se.Sel.Name, slash, ""
}

func (w *prWalk) addRoute(at ast.Node, pathE, handlerE, nameE ast.Expr) {
	tpl, ok1 := strLit(pathE)
	name, ok2 := strLit(nameE)
	if !ok1 || !ok2 {
		w.fail(at, "route path or name is not a literal")
		return
	}
	h, slash, problem := prHandlerExpr(handlerE)
	if problem != "" {
		w.fail(handlerE, "route %s: %s", name, problem)
		return
	}
	w.routes = append(w.routes, prRoute{name, tpl, h, slash})
}

// structFields resolves the element type of a route table to its ordered field names.
func (w *prWalk) structFields(elt ast.Expr) ([]string, bool) {
	var st *ast.StructType
	switch t := elt.(type) {
	case *ast.StructType:
		st = t
	case *ast.Ident:
		var specs []*ast.TypeSpec
		collect := func(d ast.Decl) {
			if gd, ok := d.(*ast.GenDecl); ok && gd.Tok == token.TYPE {
				for _, sp := range gd.Specs {
					if ts, ok := sp.(*ast.TypeSpec); ok && ts.Name.Name == t.Name {
						specs = append(specs, ts)
					}
				}
			}
		}
		ast.Inspect(w.newFn.Body, func(n ast.Node) bool { // a type declared inside New
			if ds, ok := n.(*ast.DeclStmt); ok {
				collect(ds.Decl)
			}
			return true
		})
		if len(specs) == 0 {
			for _, d := range w.f.Decls {
				collect(d)
			}
		}
		if len(specs) == 0 && w.siblings != nil {
			for _, sf := range w.siblings() {
				for _, d := range sf.Decls {
					collect(d)
				}
			}
		}
		if len(specs) != 1 {
			w.fail(elt, "route table element type %s: %d declarations found", t.Name, len(specs))
			return nil, false
		}
		s, ok := specs[0].Type.(*ast.StructType)
		if !ok || specs[0].Assign.IsValid() {
			w.fail(specs[0], "route table element type %s is not declared as a struct", t.Name)
			return nil, false
		}
		st = s
	default:
		w.fail(elt, "route table element type is neither a struct type nor the name of one")
		return nil, false
	}
	var fields []string
	for _, fl := range st.Fields.List {
		if len(fl.Names) == 0 {
			w.fail(fl, "route table element type has an embedded field")
			return nil, false
		}
		for _, n := range fl.Names {
			fields = append(fields, n.Name)
		}
	}
	return fields, true
}

// tableLiteral finds the composite literal a range expression stands for.
func (w *prWalk) tableLiteral(x ast.Expr) (*ast.CompositeLit, bool) {
	switch v := x.(type) {
	case *ast.CompositeLit:
		return v, true
	case *ast.Ident:
		// defined exactly once, by a top-level statement of New: v := <literal> or var v [T] = <literal>
		var defs []ast.Stmt
		var defIdent *ast.Ident
		var rhs ast.Expr
		for _, st := range w.newFn.Body.List {
			switch s := st.(type) {
			case *ast.AssignStmt:
				for i, l := range s.Lhs {
					if id, ok := l.(*ast.Ident); ok && id.Name == v.Name && s.Tok == token.DEFINE {
						defs = append(defs, st)
						defIdent = id
						rhs = nil
						if len(s.Lhs) == len(s.Rhs) {
							rhs = s.Rhs[i]
						}
					}
				}
			case *ast.DeclStmt:
				if gd, ok := s.Decl.(*ast.GenDecl); ok && gd.Tok == token.VAR {
					for _, sp := range gd.Specs {
						vs := sp.(*ast.ValueSpec)
						for i, id := range vs.Names {
							if id.Name == v.Name {
								defs = append(defs, st)
								defIdent = id
								rhs = nil
								if len(vs.Values) == len(vs.Names) {
									rhs = vs.Values[i]
								}
							}
						}
					}
				}
			}
		}
		if len(defs) != 1 {
			w.fail(x, "the loop ranges over %s, which is not a local variable of New defined once at the top level of its body (%d definitions)", v.Name, len(defs))
			return nil, false
		}
		lit, ok := rhs.(*ast.CompositeLit)
		if !ok {
			w.fail(defs[0], "route table %s is not assigned from a composite literal (built by a function, or filled later?)", v.Name)
			return nil, false
		}
		if defs[0].Pos() > x.Pos() {
			w.fail(x, "route table %s is defined after the loop", v.Name)
			return nil, false
		}
		if w.tableUses[v.Name] == nil {
			w.tableUses[v.Name] = map[*ast.Ident]bool{}
		}
		w.tableUses[v.Name][defIdent] = true
		w.tableUses[v.Name][v] = true
		w.consumed[defs[0]] = true
		return lit, true
	}
	w.fail(x, "the loop ranges over something that is neither a composite literal nor a local variable")
	return nil, false
}

// tableRows: the struct literals of a route table as field name -> value expression, in literal order.
func (w *prWalk) tableRows(lit *ast.CompositeLit) ([]map[string]ast.Expr, bool) {
	at, ok := lit.Type.(*ast.ArrayType)
	if ok && at.Len != nil {
		_, ok = at.Len.(*ast.Ellipsis)
	}
	if !ok {
		w.fail(lit, "route table is not a slice (or [...] array) literal")
		return nil, false
	}
	fields, ok := w.structFields(at.Elt)
	if !ok {
		return nil, false
	}
	isField := map[string]bool{}
	for _, fn := range fields {
		isField[fn] = true
	}
	var rows []map[string]ast.Expr
	for _, el := range lit.Elts {
		cl, ok := el.(*ast.CompositeLit)
		if !ok {
			w.fail(el, "route table element is not a struct literal (indexed, a variable or a call?)")
			return nil, false
		}
		if cl.Type != nil {
			a, ok1 := cl.Type.(*ast.Ident)
			b, ok2 := at.Elt.(*ast.Ident)
			if !ok1 || !ok2 || a.Name != b.Name {
				w.fail(cl, "route table element carries a type other than the element type")
				return nil, false
			}
		}
		row := map[string]ast.Expr{}
		keyed := 0
		for _, e := range cl.Elts {
			if _, ok := e.(*ast.KeyValueExpr); ok {
				keyed++
			}
		}
		switch {
		case keyed == 0:
			if len(cl.Elts) != len(fields) {
				w.fail(cl, "positional route table row has %d values for %d fields", len(cl.Elts), len(fields))
				return nil, false
			}
			for i, e := range cl.Elts {
				row[fields[i]] = e
			}
		case keyed == len(cl.Elts):
			for _, e := range cl.Elts {
				kv := e.(*ast.KeyValueExpr)
				k, ok := kv.Key.(*ast.Ident)
				if !ok || !isField[k.Name] || row[k.Name] != nil {
					w.fail(kv, "route table row: key is not a field of the element type, or is given twice")
					return nil, false
				}
				row[k.Name] = kv.Value
			}
		default:
			w.fail(cl, "route table row mixes keyed and positional values")
			return nil, false
		}
		// every value, used by the loop or not, is a string literal or a handler expression: nothing is computed
		for fn, e := range row {
			if _, ok := strLit(e); ok {
				continue
			}
			if _, _, problem := prHandlerExpr(e); problem != "" {
				w.fail(e, "route table row: value of field %s is neither a string literal nor proxy.h / slashHandler(proxy.h) (%s)", fn, problem)
				return nil, false
			}
		}
		rows = append(rows, row)
	}
	return rows, true
}

// rangeLoop: for _, x := range <table> { <sub>.Path(x.f1).HandlerFunc(x.f2).Name(x.f3) }
func (w *prWalk) rangeLoop(s *ast.RangeStmt) {
	if w.subName == "" {
		w.fail(s, "a loop uses the router before the hijack subrouter exists")
		return
	}
	key, _ := s.Key.(*ast.Ident)
	val, _ := s.Value.(*ast.Ident)
	if s.Tok != token.DEFINE || key == nil || key.Name != "_" || val == nil || val.Name == "_" {
		w.fail(s, "a loop touching the router is not of the form `for _, x := range <table>`")
		return
	}
	if len(s.Body.List) != 1 {
		w.fail(s.Body, "the body of a route registration loop is not exactly one registration (%d statements)", len(s.Body.List))
		return
	}
	es, ok := s.Body.List[0].(*ast.ExprStmt)
	if !ok {
		w.fail(s.Body.List[0], "the body of a route registration loop is not a registration (a condition, continue, assignment, ...)")
		return
	}
	root, chain, ok := flattenChain(es.X)
	if !ok || root != w.subName {
		w.fail(es, "the body of a loop touching the router does not register on the hijack subrouter %s", w.subName)
		return
	}
	pathE, handlerE, nameE, problem := prRegChain(chain)
	if problem != "" {
		w.fail(es, "unrecognised route registration on %s: %s", w.subName, problem)
		return
	}
	field := func(e ast.Expr, what string) string {
		se, ok := e.(*ast.SelectorExpr)
		if ok {
			if id, ok := se.X.(*ast.Ident); ok && id.Name == val.Name {
				return se.Sel.Name
			}
		}
		w.fail(e, "%s of a looped registration is not a field of the loop variable %s", what, val.Name)
		return ""
	}
	pf, hf, nf := field(pathE, "the path"), field(handlerE, "the handler"), field(nameE, "the name")
	if w.err != nil {
		return
	}
	lit, ok := w.tableLiteral(s.X)
	if !ok {
		return
	}
	rows, ok := w.tableRows(lit)
	if !ok {
		return
	}
	for i, row := range rows {
		p, h, n := row[pf], row[hf], row[nf]
		if p == nil || h == nil || n == nil {
			w.fail(lit.Elts[i], "route table row leaves a field the loop registers (%s, %s, %s) at its zero value, or the element type has no such field", pf, hf, nf)
			return
		}
		w.addRoute(lit.Elts[i], p, h, n)
	}
	w.consumed[s] = true
}

func prTable(fset *token.FileSet, f *ast.File, siblings func() []*ast.File) (string, error) {
	newFn := findFunc(f, "", "New")
	if newFn == nil {
		return "", fmt.Errorf("func New not found in ipfsproxy.go")
	}
	w := &prWalk{fset: fset, f: f, siblings: siblings, newFn: newFn, consumed: map[ast.Stmt]bool{}, tableUses: map[string]map[*ast.Ident]bool{}}
	for _, st := range newFn.Body.List {
		switch s := st.(type) {
		case *ast.AssignStmt:
			if len(s.Lhs) != 1 || len(s.Rhs) != 1 {
				continue
			}
			lhs, ok := s.Lhs[0].(*ast.Ident)
			if !ok {
				continue
			}
			// router := mux.NewRouter()
			if ce, ok := s.Rhs[0].(*ast.CallExpr); ok {
				if se, ok := ce.Fun.(*ast.SelectorExpr); ok && se.Sel.Name == "NewRouter" {
					if w.routerName != "" {
						w.fail(s, "more than one mux.NewRouter()")
					}
					if len(ce.Args) != 0 {
						w.fail(s, "NewRouter with arguments")
					}
					w.routerName = lhs.Name
					w.consumed[st] = true
					continue
				}
			}
			root, chain, ok := flattenChain(s.Rhs[0])
			if !ok || w.routerName == "" || root != w.routerName || len(chain) == 0 {
				continue // (a plain alias such as `handler = router` registers nothing)
			}
			// hijackSubrouter := router.Methods(...).PathPrefix("...").Subrouter()
			if len(chain) != 3 || chain[0].name != "Methods" || chain[1].name != "PathPrefix" || chain[2].name != "Subrouter" || w.subName != "" {
				w.fail(s, "unrecognised router chain assigned to %s", lhs.Name)
				continue
			}
			w.subName = lhs.Name
			w.consumed[st] = true
			for _, a := range chain[0].args {
				se, ok := a.(*ast.SelectorExpr)
				if !ok || httpMethodConst[se.Sel.Name] == "" {
					if s, ok := strLit(a); ok {
						w.methods = append(w.methods, strings.ToUpper(s)) // mux upper-cases the configured methods
						continue
					}
					w.fail(a, "unrecognised method expression in Methods(...)")
					continue
				}
				w.methods = append(w.methods, httpMethodConst[se.Sel.Name])
			}
			if len(chain[1].args) != 1 {
				w.fail(s, "PathPrefix arity")
				continue
			}
			p, ok := strLit(chain[1].args[0])
			if !ok {
				w.fail(chain[1].args[0], "PathPrefix argument is not a literal")
			}
			w.prefix = p
		case *ast.ExprStmt:
			root, chain, ok := flattenChain(s.X)
			if !ok || root == "" || (root != w.subName && root != w.routerName) || w.routerName == "" {
				continue
			}
			if root == w.subName {
				// hijackSubrouter.Path("/x").HandlerFunc(h).Name("N")
				pathE, handlerE, nameE, problem := prRegChain(chain)
				if problem != "" {
					w.fail(s, "unrecognised route registration on %s: %s", w.subName, problem)
					continue
				}
				w.addRoute(s, pathE, handlerE, nameE)
				w.consumed[st] = true
			} else {
				// router.PathPrefix("/").Handler(reverseProxy)
				if len(chain) != 2 || chain[0].name != "PathPrefix" || chain[1].name != "Handler" || len(chain[0].args) != 1 || len(chain[1].args) != 1 {
					w.fail(s, "unrecognised route registration on %s", w.routerName)
					continue
				}
				p, ok1 := strLit(chain[0].args[0])
				id, ok2 := chain[1].args[0].(*ast.Ident)
				if !ok1 || !ok2 {
					w.fail(s, "catch-all is not PathPrefix(literal).Handler(ident)")
					continue
				}
				w.catchAll = append(w.catchAll, [2]string{p, id.Name})
				w.consumed[st] = true
			}
		case *ast.RangeStmt:
			if prMentions(s, w.subName) == nil && prCallsOn(s, w.routerName) == nil {
				continue // (the listener loop: nothing to do with the router)
			}
			w.rangeLoop(s)
		}
	}
	// nothing else may touch the subrouter or call the router: a registration in a condition, in another kind of loop, in
	// a closure or a helper would be missing from the table
	for _, st := range newFn.Body.List {
		if w.consumed[st] {
			continue
		}
		if id := prMentions(st, w.subName); id != nil {
			w.fail(id, "the hijack subrouter %s is used in a statement the translator does not follow", w.subName)
		}
		if ce := prCallsOn(st, w.routerName); ce != nil {
			w.fail(ce, "a call on the router %s in a statement the translator does not follow", w.routerName)
		}
	}
	// a route table is only defined and ranged over: never appended to, indexed, assigned, passed on
	for name, allowed := range w.tableUses {
		prIdents(newFn.Body, func(id *ast.Ident) {
			if id.Name == name && !allowed[id] {
				w.fail(id, "route table %s is used outside its definition and its registration loop (appended to, modified or passed on?)", name)
			}
		})
	}
	if w.err != nil {
		return "", w.err
	}
	if w.routerName == "" || w.subName == "" || len(w.routes) == 0 {
		return "", fmt.Errorf("%s: router / hijack subrouter / routes not found in New", w.at(newFn))
	}
	methods, prefix, routes, catchAll := w.methods, w.prefix, w.routes, w.catchAll
	// handlers
	seen := map[string]bool{}
	var hnames []string
	for _, r := range routes {
		if !seen[r.handler] {
			seen[r.handler] = true
			hnames = append(hnames, r.handler)
		}
	}
	var rpcs, sites []string
	for _, hn := range hnames {
		fd := findFunc(f, "Server", hn)
		if fd == nil {
			return "", fmt.Errorf("handler %s not found", hn)
		}
		body := fd.Body
		subst := map[string]string{}
		// a pure delegation: proxy.other("Lit", w, r)
		if len(body.List) == 1 {
			if es, ok := body.List[0].(*ast.ExprStmt); ok {
				if ce, ok := es.X.(*ast.CallExpr); ok {
					if se, ok := ce.Fun.(*ast.SelectorExpr); ok {
						if target := findFunc(f, "Server", se.Sel.Name); target != nil {
							params := []string{}
							for _, p := range target.Type.Params.List {
								for _, n := range p.Names {
									params = append(params, n.Name)
								}
							}
							for i, a := range ce.Args {
								if s, ok := strLit(a); ok && i < len(params) {
									subst[params[i]] = s
								}
							}
							body = target.Body
						}
					}
				}
			}
		}
		calls, err := rpcCallSites(body, subst)
		if err != nil {
			return "", fmt.Errorf("handler %s: %v", hn, err)
		}
		// the adder helper issues its own RPCs (BlockAllocate / BlockPut / Pin): recorded as a pseudo call
		var ordered [][2]string
		ast.Inspect(body, func(n ast.Node) bool { return true })
		type posCall struct {
			pos  token.Pos
			call [2]string
		}
		var pcs []posCall
		ast.Inspect(body, func(n ast.Node) bool {
			ce, ok := n.(*ast.CallExpr)
			if !ok {
				return true
			}
			if se, ok := ce.Fun.(*ast.SelectorExpr); ok {
				if id, ok := se.X.(*ast.Ident); ok && id.Name == "adderutils" {
					pcs = append(pcs, posCall{ce.Pos(), [2]string{"adderutils", se.Sel.Name}})
				}
			}
			return true
		})
		// merge by position: recompute rpc call positions
		var rpcPos []token.Pos
		ast.Inspect(body, func(n ast.Node) bool {
			ce, ok := n.(*ast.CallExpr)
			if !ok {
				return true
			}
			if se, ok := ce.Fun.(*ast.SelectorExpr); ok {
				if inner, ok := se.X.(*ast.SelectorExpr); ok && inner.Sel.Name == "rpcClient" {
					rpcPos = append(rpcPos, ce.Pos())
				}
			}
			return true
		})
		if len(rpcPos) != len(calls) {
			return "", fmt.Errorf("handler %s: call site bookkeeping", hn)
		}
		for i, c := range calls {
			pcs = append(pcs, posCall{rpcPos[i], c})
		}
		for i := 0; i < len(pcs); i++ {
			for j := i + 1; j < len(pcs); j++ {
				if pcs[j].pos < pcs[i].pos {
					pcs[i], pcs[j] = pcs[j], pcs[i]
				}
			}
		}
		for _, pc := range pcs {
			ordered = append(ordered, pc.call)
		}
		rpcs = append(rpcs, "("+coqStr(hn)+", "+coqPairList(ordered)+")")
		es := errorSites(body, func(ce *ast.CallExpr) bool {
			id, ok := ce.Fun.(*ast.Ident)
			return ok && id.Name == "ipfsErrorResponder"
		})
		sites = append(sites, "("+coqStr(hn)+", "+coqBoolList(es)+")")
	}
	var b strings.Builder
	b.WriteString(genHeader)
	b.WriteString("\n(* api/ipfsproxy/ipfsproxy.go: New — hijack subrouter and catch-all *)\n")
	b.WriteString("Definition hijack_methods : list string := " + coqStrList(methods) + ".\n")
	b.WriteString("Definition hijack_prefix : string := " + coqStr(prefix) + ".\n")
	b.WriteString("(* (route name, path template, handler, wrapped in slashHandler) *)\n")
	b.WriteString("Definition hijack_routes : list (string * string * string * bool) := [\n")
	for i, r := range routes {
		sep := ";"
		if i == len(routes)-1 {
			sep = ""
		}
		sl := "false"
		if r.slash {
			sl = "true"
		}
		b.WriteString(fmt.Sprintf("  (%s, %s, %s, %s)%s\n", coqStr(r.name), coqStr(r.tpl), coqStr(r.handler), sl, sep))
	}
	b.WriteString("].\n")
	b.WriteString("Definition catch_all : list (string * string) := " + coqPairList(catchAll) + ".\n")
	b.WriteString("(* per handler: RPC call sites (service, method) in source order *)\n")
	b.WriteString("Definition handler_rpcs : list (string * list (string * string)) := [\n  " + strings.Join(rpcs, ";\n  ") + "\n].\n")
	b.WriteString("(* per handler: for each ipfsErrorResponder call, is the next statement a return *)\n")
	b.WriteString("Definition handler_error_sites : list (string * list bool) := [\n  " + strings.Join(sites, ";\n  ") + "\n].\n")
	return b.String(), nil
}
