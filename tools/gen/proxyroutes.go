package main

import (
	"fmt"
	"go/ast"
	"go/token"
	"path/filepath"
	"strconv"
	"strings"
)

// Gen/ProxyRoutes.v (C12): the hijack subrouter of api/ipfsproxy/ipfsproxy.go:New (methods, prefix, one
// entry per route: name, path template, handler, wrapped in slashHandler or not), the catch-all, and per
// hijack handler the RPC calls it contains (in source order) and, for every ipfsErrorResponder call,
// whether the statement that follows it is a return.
func init() { register("ProxyRoutes", genProxyRoutes) }

var httpMethodConst = map[string]string{"MethodGet": "GET", "MethodPost": "POST", "MethodPut": "PUT", "MethodDelete": "DELETE",
	"MethodHead": "HEAD", "MethodOptions": "OPTIONS", "MethodPatch": "PATCH", "MethodConnect": "CONNECT", "MethodTrace": "TRACE"}

// flatten a call chain a.F(x).G(y) into root identifier and [(F,[x]),(G,[y])]
type chainCall struct {
	name string
	args []ast.Expr
}

func flattenChain(e ast.Expr) (string, []chainCall, bool) {
	var calls []chainCall
	for {
		ce, ok := e.(*ast.CallExpr)
		if !ok {
			break
		}
		se, ok := ce.Fun.(*ast.SelectorExpr)
		if !ok {
			return "", nil, false
		}
		calls = append([]chainCall{{se.Sel.Name, ce.Args}}, calls...)
		e = se.X
	}
	id, ok := e.(*ast.Ident)
	if !ok {
		return "", nil, false
	}
	return id.Name, calls, true
}

func strLit(e ast.Expr) (string, bool) {
	bl, ok := e.(*ast.BasicLit)
	if !ok || bl.Kind != token.STRING {
		return "", false
	}
	s, err := strconv.Unquote(bl.Value)
	return s, err == nil
}

func findFunc(f *ast.File, recv, name string) *ast.FuncDecl {
	for _, d := range f.Decls {
		fd, ok := d.(*ast.FuncDecl)
		if !ok || fd.Name.Name != name {
			continue
		}
		if recv == "" && fd.Recv == nil {
			return fd
		}
		if recv != "" && fd.Recv != nil && len(fd.Recv.List) == 1 {
			if st, ok := fd.Recv.List[0].Type.(*ast.StarExpr); ok {
				if id, ok := st.X.(*ast.Ident); ok && id.Name == recv {
					return fd
				}
			}
		}
	}
	return nil
}

// rpcCallSites lists ("Service","Method") of every <x>.rpcClient.Call / CallContext / MultiCall in body, in
// source order; a method given by an identifier is resolved through subst (parameter name -> literal).
func rpcCallSites(body ast.Node, subst map[string]string) ([][2]string, error) {
	var out [][2]string
	var err error
	ast.Inspect(body, func(n ast.Node) bool {
		ce, ok := n.(*ast.CallExpr)
		if !ok {
			return true
		}
		se, ok := ce.Fun.(*ast.SelectorExpr)
		if !ok {
			return true
		}
		inner, ok := se.X.(*ast.SelectorExpr)
		if !ok || inner.Sel.Name != "rpcClient" {
			return true
		}
		var svcIdx int
		switch se.Sel.Name {
		case "Call":
			svcIdx = 1
		case "CallContext", "MultiCall":
			svcIdx = 2
		default:
			err = fmt.Errorf("unknown rpcClient method %s", se.Sel.Name)
			return false
		}
		if len(ce.Args) < svcIdx+2 {
			err = fmt.Errorf("rpcClient.%s with too few arguments", se.Sel.Name)
			return false
		}
		get := func(e ast.Expr) (string, bool) {
			if s, ok := strLit(e); ok {
				return s, true
			}
			if id, ok := e.(*ast.Ident); ok {
				if s, ok := subst[id.Name]; ok {
					return s, true
				}
			}
			return "", false
		}
		svc, ok1 := get(ce.Args[svcIdx])
		m, ok2 := get(ce.Args[svcIdx+1])
		if !ok1 || !ok2 {
			err = fmt.Errorf("rpc call with a service/method the walk cannot resolve")
			return false
		}
		out = append(out, [2]string{svc, m})
		return true
	})
	return out, err
}

// errorSites: for every expression statement calling one of errFuncs, is the next statement of the same block a return?
func errorSites(body *ast.BlockStmt, isErrCall func(*ast.CallExpr) bool) []bool {
	var out []bool
	var walkBlock func(stmts []ast.Stmt)
	walkStmt := func(s ast.Stmt) {}
	walkBlock = func(stmts []ast.Stmt) {
		for i, s := range stmts {
			if es, ok := s.(*ast.ExprStmt); ok {
				if ce, ok := es.X.(*ast.CallExpr); ok && isErrCall(ce) {
					ret := false
					if i+1 < len(stmts) {
						_, ret = stmts[i+1].(*ast.ReturnStmt)
					}
					out = append(out, ret)
				}
			}
			walkStmt(s)
		}
	}
	walkStmt = func(s ast.Stmt) {
		switch x := s.(type) {
		case *ast.BlockStmt:
			walkBlock(x.List)
		case *ast.IfStmt:
			walkBlock(x.Body.List)
			if x.Else != nil {
				walkStmt(x.Else)
			}
		case *ast.ForStmt:
			walkBlock(x.Body.List)
		case *ast.RangeStmt:
			walkBlock(x.Body.List)
		case *ast.SwitchStmt:
			walkBlock(x.Body.List)
		case *ast.TypeSwitchStmt:
			walkBlock(x.Body.List)
		case *ast.SelectStmt:
			walkBlock(x.Body.List)
		case *ast.CaseClause:
			walkBlock(x.Body)
		case *ast.CommClause:
			walkBlock(x.Body)
		case *ast.LabeledStmt:
			walkStmt(x.Stmt)
		}
	}
	walkBlock(body.List)
	return out
}

func coqBoolList(bs []bool) string {
	xs := make([]string, len(bs))
	for i, b := range bs {
		if b {
			xs[i] = "true"
		} else {
			xs[i] = "false"
		}
	}
	return "[" + strings.Join(xs, "; ") + "]"
}

func coqPairList(ps [][2]string) string {
	xs := make([]string, len(ps))
	for i, p := range ps {
		xs[i] = "(" + coqStr(p[0]) + ", " + coqStr(p[1]) + ")"
	}
	return "[" + strings.Join(xs, "; ") + "]"
}

func genProxyRoutes(repo string) (string, error) {
	_, f, err := parseFile(filepath.Join(repo, "api", "ipfsproxy", "ipfsproxy.go"))
	if err != nil {
		return "", err
	}
	newFn := findFunc(f, "", "New")
	if newFn == nil {
		return "", fmt.Errorf("func New not found in ipfsproxy.go")
	}
	var methods []string
	prefix := ""
	subName := ""
	routerName := ""
	type route struct {
		name, tpl, handler string
		slash             bool
	}
	var routes []route
	var catchAll [][2]string
	var walkErr error
	fail := func(format string, a ...interface{}) {
		if walkErr == nil {
			walkErr = fmt.Errorf(format, a...)
		}
	}
	for _, st := range newFn.Body.List {
		switch s := st.(type) {
		case *ast.AssignStmt:
			if len(s.Lhs) != 1 || len(s.Rhs) != 1 {
				continue
			}
			lhs, ok := s.Lhs[0].(*ast.Ident)
			if !ok {
				continue
			}
			// router := mux.NewRouter()
			if ce, ok := s.Rhs[0].(*ast.CallExpr); ok {
				if se, ok := ce.Fun.(*ast.SelectorExpr); ok && se.Sel.Name == "NewRouter" {
					if routerName != "" {
						fail("more than one mux.NewRouter()")
					}
					if len(ce.Args) != 0 {
						fail("NewRouter with arguments")
					}
					routerName = lhs.Name
					continue
				}
			}
			root, chain, ok := flattenChain(s.Rhs[0])
			if !ok || routerName == "" || root != routerName || len(chain) == 0 {
				continue // (a plain alias such as `handler = router` registers nothing)
			}
			// hijackSubrouter := router.Methods(...).PathPrefix("...").Subrouter()
			if len(chain) != 3 || chain[0].name != "Methods" || chain[1].name != "PathPrefix" || chain[2].name != "Subrouter" || subName != "" {
				fail("unrecognised router chain assigned to %s", lhs.Name)
				continue
			}
			subName = lhs.Name
			for _, a := range chain[0].args {
				se, ok := a.(*ast.SelectorExpr)
				if !ok || httpMethodConst[se.Sel.Name] == "" {
					if s, ok := strLit(a); ok {
						methods = append(methods, strings.ToUpper(s)) // mux upper-cases the configured methods
						continue
					}
					fail("unrecognised method expression in Methods(...)")
					continue
				}
				methods = append(methods, httpMethodConst[se.Sel.Name])
			}
			if len(chain[1].args) != 1 {
				fail("PathPrefix arity")
				continue
			}
			p, ok := strLit(chain[1].args[0])
			if !ok {
				fail("PathPrefix argument is not a literal")
			}
			prefix = p
		case *ast.ExprStmt:
			root, chain, ok := flattenChain(s.X)
			if !ok || root == "" || (root != subName && root != routerName) || routerName == "" {
				continue
			}
			if root == subName {
				// hijackSubrouter.Path("/x").HandlerFunc(h).Name("N")
				if len(chain) != 3 || chain[0].name != "Path" || chain[1].name != "HandlerFunc" || chain[2].name != "Name" ||
					len(chain[0].args) != 1 || len(chain[1].args) != 1 || len(chain[2].args) != 1 {
					fail("unrecognised route registration on %s", subName)
					continue
				}
				tpl, ok1 := strLit(chain[0].args[0])
				name, ok2 := strLit(chain[2].args[0])
				if !ok1 || !ok2 {
					fail("route path or name is not a literal")
					continue
				}
				h := chain[1].args[0]
				slash := false
				if ce, ok := h.(*ast.CallExpr); ok {
					id, ok := ce.Fun.(*ast.Ident)
					if !ok || id.Name != "slashHandler" || len(ce.Args) != 1 {
						fail("route %s: unrecognised handler wrapper", name)
						continue
					}
					slash = true
					h = ce.Args[0]
				}
				se, ok := h.(*ast.SelectorExpr)
				if !ok {
					fail("route %s: handler is not a method value", name)
					continue
				}
				routes = append(routes, route{name, tpl, se.Sel.Name, slash})
			} else {
				// router.PathPrefix("/").Handler(reverseProxy)
				if len(chain) != 2 || chain[0].name != "PathPrefix" || chain[1].name != "Handler" || len(chain[0].args) != 1 || len(chain[1].args) != 1 {
					fail("unrecognised route registration on %s", routerName)
					continue
				}
				p, ok1 := strLit(chain[0].args[0])
				id, ok2 := chain[1].args[0].(*ast.Ident)
				if !ok1 || !ok2 {
					fail("catch-all is not PathPrefix(literal).Handler(ident)")
					continue
				}
				catchAll = append(catchAll, [2]string{p, id.Name})
			}
		}
	}
	if walkErr != nil {
		return "", walkErr
	}
	if routerName == "" || subName == "" || len(routes) == 0 {
		return "", fmt.Errorf("router / hijack subrouter / routes not found in New")
	}
	// handlers
	seen := map[string]bool{}
	var hnames []string
	for _, r := range routes {
		if !seen[r.handler] {
			seen[r.handler] = true
			hnames = append(hnames, r.handler)
		}
	}
	var rpcs, sites []string
	for _, hn := range hnames {
		fd := findFunc(f, "Server", hn)
		if fd == nil {
			return "", fmt.Errorf("handler %s not found", hn)
		}
		body := fd.Body
		subst := map[string]string{}
		// a pure delegation: proxy.other("Lit", w, r)
		if len(body.List) == 1 {
			if es, ok := body.List[0].(*ast.ExprStmt); ok {
				if ce, ok := es.X.(*ast.CallExpr); ok {
					if se, ok := ce.Fun.(*ast.SelectorExpr); ok {
						if target := findFunc(f, "Server", se.Sel.Name); target != nil {
							params := []string{}
							for _, p := range target.Type.Params.List {
								for _, n := range p.Names {
									params = append(params, n.Name)
								}
							}
							for i, a := range ce.Args {
								if s, ok := strLit(a); ok && i < len(params) {
									subst[params[i]] = s
								}
							}
							body = target.Body
						}
					}
				}
			}
		}
		calls, err := rpcCallSites(body, subst)
		if err != nil {
			return "", fmt.Errorf("handler %s: %v", hn, err)
		}
		// the adder helper issues its own RPCs (BlockAllocate / BlockPut / Pin): recorded as a pseudo call
		var ordered [][2]string
		ast.Inspect(body, func(n ast.Node) bool { return true })
		type posCall struct {
			pos  token.Pos
			call [2]string
		}
		var pcs []posCall
		ast.Inspect(body, func(n ast.Node) bool {
			ce, ok := n.(*ast.CallExpr)
			if !ok {
				return true
			}
			if se, ok := ce.Fun.(*ast.SelectorExpr); ok {
				if id, ok := se.X.(*ast.Ident); ok && id.Name == "adderutils" {
					pcs = append(pcs, posCall{ce.Pos(), [2]string{"adderutils", se.Sel.Name}})
				}
			}
			return true
		})
		// merge by position: recompute rpc call positions
		var rpcPos []token.Pos
		ast.Inspect(body, func(n ast.Node) bool {
			ce, ok := n.(*ast.CallExpr)
			if !ok {
				return true
			}
			if se, ok := ce.Fun.(*ast.SelectorExpr); ok {
				if inner, ok := se.X.(*ast.SelectorExpr); ok && inner.Sel.Name == "rpcClient" {
					rpcPos = append(rpcPos, ce.Pos())
				}
			}
			return true
		})
		if len(rpcPos) != len(calls) {
			return "", fmt.Errorf("handler %s: call site bookkeeping", hn)
		}
		for i, c := range calls {
			pcs = append(pcs, posCall{rpcPos[i], c})
		}
		for i := 0; i < len(pcs); i++ {
			for j := i + 1; j < len(pcs); j++ {
				if pcs[j].pos < pcs[i].pos {
					pcs[i], pcs[j] = pcs[j], pcs[i]
				}
			}
		}
		for _, pc := range pcs {
			ordered = append(ordered, pc.call)
		}
		rpcs = append(rpcs, "("+coqStr(hn)+", "+coqPairList(ordered)+")")
		es := errorSites(body, func(ce *ast.CallExpr) bool {
			id, ok := ce.Fun.(*ast.Ident)
			return ok && id.Name == "ipfsErrorResponder"
		})
		sites = append(sites, "("+coqStr(hn)+", "+coqBoolList(es)+")")
	}
	var b strings.Builder
	b.WriteString(genHeader)
	b.WriteString("\n(* api/ipfsproxy/ipfsproxy.go: New — hijack subrouter and catch-all *)\n")
	b.WriteString("Definition hijack_methods : list string := " + coqStrList(methods) + ".\n")
	b.WriteString("Definition hijack_prefix : string := " + coqStr(prefix) + ".\n")
	b.WriteString("(* (route name, path template, handler, wrapped in slashHandler) *)\n")
	b.WriteString("Definition hijack_routes : list (string * string * string * bool) := [\n")
	for i, r := range routes {
		sep := ";"
		if i == len(routes)-1 {
			sep = ""
		}
		sl := "false"
		if r.slash {
			sl = "true"
		}
		b.WriteString(fmt.Sprintf("  (%s, %s, %s, %s)%s\n", coqStr(r.name), coqStr(r.tpl), coqStr(r.handler), sl, sep))
	}
	b.WriteString("].\n")
	b.WriteString("Definition catch_all : list (string * string) := " + coqPairList(catchAll) + ".\n")
	b.WriteString("(* per handler: RPC call sites (service, method) in source order *)\n")
	b.WriteString("Definition handler_rpcs : list (string * list (string * string)) := [\n  " + strings.Join(rpcs, ";\n  ") + "\n].\n")
	b.WriteString("(* per handler: for each ipfsErrorResponder call, is the next statement a return *)\n")
	b.WriteString("Definition handler_error_sites : list (string * list bool) := [\n  " + strings.Join(sites, ";\n  ") + "\n].\n")
	return b.String(), nil
}
