package main

import (
	"fmt"
	"go/ast"
	"go/token"
	"path/filepath"
	"sort"
	"strings"
)

// Gen/RestRoutes.v (C11): from api/rest/restapi.go the routes() table (name, method, pattern, handler), the
// handler chain built in NewAPIWithHost (basic auth wrapping CORS wrapping the router, StrictSlash), and per
// handler / parse helper: the RPC call sites in source order, the parse helpers it calls, and for every
// sendResponse with an explicit (non-autoStatus) status whether it is followed by a return (or ends the function).
// Gen/RestClient.v: for every method of defaultClient (api/rest/client/methods.go) the HTTP method and path format.
func init() {
	register("RestRoutes", genRestRoutes)
	register("RestClient", genRestClient)
}

func selectorName(e ast.Expr) (string, bool) {
	se, ok := e.(*ast.SelectorExpr)
	if !ok {
		return "", false
	}
	return se.Sel.Name, true
}

// chainOf renders nested calls f(a, g(h(x))) as the list of function names along the LAST argument: [f; g; h; x]
func chainOf(e ast.Expr) []string {
	switch x := e.(type) {
	case *ast.CallExpr:
		name := ""
		switch f := x.Fun.(type) {
		case *ast.Ident:
			name = f.Name
		case *ast.SelectorExpr:
			name = f.Sel.Name
			// cors.New(...).Handler(router): the receiver is itself a call; name it by its package
			if inner, ok := f.X.(*ast.CallExpr); ok {
				if is, ok := inner.Fun.(*ast.SelectorExpr); ok {
					if id, ok := is.X.(*ast.Ident); ok {
						name = id.Name + "." + is.Sel.Name + "." + f.Sel.Name
					}
				}
			} else if id, ok := f.X.(*ast.Ident); ok {
				name = id.Name + "." + f.Sel.Name
			}
		}
		if len(x.Args) == 0 {
			return []string{name}
		}
		return append([]string{name}, chainOf(x.Args[len(x.Args)-1])...)
	case *ast.Ident:
		return []string{x.Name}
	}
	return []string{"?"}
}

func genRestRoutes(repo string) (string, error) {
	_, f, err := parseFile(filepath.Join(repo, "api", "rest", "restapi.go"))
	if err != nil {
		return "", err
	}
	rf := findFunc(f, "API", "routes")
	if rf == nil {
		return "", fmt.Errorf("func (api *API) routes not found")
	}
	type route struct{ name, method, pattern, handler string }
	var routes []route
	var lit *ast.CompositeLit
	ast.Inspect(rf.Body, func(n ast.Node) bool {
		if rs, ok := n.(*ast.ReturnStmt); ok && len(rs.Results) == 1 {
			if cl, ok := rs.Results[0].(*ast.CompositeLit); ok {
				lit = cl
			}
		}
		return true
	})
	if lit == nil || len(rf.Body.List) != 1 {
		return "", fmt.Errorf("routes(): expected a single `return []route{...}`")
	}
	for _, e := range lit.Elts {
		cl, ok := e.(*ast.CompositeLit)
		if !ok || len(cl.Elts) != 4 {
			return "", fmt.Errorf("routes(): element is not a 4-field literal")
		}
		vals := make([]ast.Expr, 4)
		for i, el := range cl.Elts {
			if kv, ok := el.(*ast.KeyValueExpr); ok {
				k, _ := kv.Key.(*ast.Ident)
				idx := map[string]int{"Name": 0, "Method": 1, "Pattern": 2, "HandlerFunc": 3}
				if k == nil {
					return "", fmt.Errorf("routes(): unrecognised keyed field")
				}
				j, ok := idx[k.Name]
				if !ok {
					return "", fmt.Errorf("routes(): unknown field %s", k.Name)
				}
				vals[j] = kv.Value
			} else {
				vals[i] = el
			}
		}
		n, ok1 := strLit(vals[0])
		m, ok2 := strLit(vals[1])
		p, ok3 := strLit(vals[2])
		h, ok4 := selectorName(vals[3])
		if !(ok1 && ok2 && ok3 && ok4) {
			return "", fmt.Errorf("routes(): field the walk cannot follow")
		}
		routes = append(routes, route{n, m, p, h})
	}
	// addRoutes must register exactly Methods(route.Method).Path(route.Pattern) for every route and set the NotFoundHandler
	ar := findFunc(f, "API", "addRoutes")
	if ar == nil {
		return "", fmt.Errorf("addRoutes not found")
	}
	var regChain []string
	notFound := ""
	ast.Inspect(ar.Body, func(n ast.Node) bool {
		switch x := n.(type) {
		case *ast.ExprStmt:
			if root, chain, ok := flattenChain(x.X); ok && root == "router" {
				for _, c := range chain {
					regChain = append(regChain, c.name)
				}
			}
		case *ast.AssignStmt:
			if len(x.Lhs) == 1 {
				if se, ok := x.Lhs[0].(*ast.SelectorExpr); ok && se.Sel.Name == "NotFoundHandler" {
					ast.Inspect(x.Rhs[0], func(m ast.Node) bool {
						if s, ok := m.(*ast.SelectorExpr); ok && strings.HasSuffix(s.Sel.Name, "Handler") && s.Sel.Name != "HandlerFunc" {
							if id, ok := s.X.(*ast.Ident); ok && id.Name == "api" {
								notFound = s.Sel.Name
							}
						}
						return true
					})
				}
			}
		}
		return true
	})
	// NewAPIWithHost: router := mux.NewRouter().StrictSlash(true); handler := basicAuthHandler(creds, cors...Handler(router))
	nf := findFunc(f, "", "NewAPIWithHost")
	if nf == nil {
		return "", fmt.Errorf("NewAPIWithHost not found")
	}
	strict := "false"
	var chain []string
	serverHandler := []string{}
	reassigned := false
	for _, st := range nf.Body.List {
		switch s := st.(type) {
		case *ast.AssignStmt:
			if len(s.Lhs) != 1 || len(s.Rhs) != 1 {
				continue
			}
			id, ok := s.Lhs[0].(*ast.Ident)
			if !ok {
				continue
			}
			if id.Name == "router" {
				_, ch, ok := flattenChain(s.Rhs[0])
				if !ok {
					return "", fmt.Errorf("router initialisation the walk cannot follow")
				}
				for _, c := range ch {
					if c.name == "StrictSlash" && len(c.args) == 1 {
						if b, ok := c.args[0].(*ast.Ident); ok {
							strict = b.Name
						}
					}
				}
			}
			if id.Name == "handler" {
				if chain == nil {
					chain = chainOf(s.Rhs[0])
				} else {
					reassigned = true
				}
			}
			if id.Name == "s" {
				ast.Inspect(s.Rhs[0], func(n ast.Node) bool {
					if kv, ok := n.(*ast.KeyValueExpr); ok {
						if k, ok := kv.Key.(*ast.Ident); ok && k.Name == "Handler" {
							serverHandler = chainOf(kv.Value)
						}
					}
					return true
				})
			}
		case *ast.IfStmt:
			// `if cfg.Tracing { handler = &ochttp.Handler{... Handler: handler ...} }` wraps, never replaces
			ast.Inspect(s.Body, func(n ast.Node) bool {
				if as, ok := n.(*ast.AssignStmt); ok && len(as.Lhs) == 1 {
					if id, ok := as.Lhs[0].(*ast.Ident); ok && id.Name == "handler" {
						wraps := false
						ast.Inspect(as.Rhs[0], func(m ast.Node) bool {
							if kv, ok := m.(*ast.KeyValueExpr); ok {
								if k, ok := kv.Key.(*ast.Ident); ok && k.Name == "Handler" {
									if v, ok := kv.Value.(*ast.Ident); ok && v.Name == "handler" {
										wraps = true
									}
								}
							}
							return true
						})
						if !wraps {
							reassigned = true
						}
					}
				}
				return true
			})
		}
	}
	if reassigned {
		chain = append([]string{"REASSIGNED"}, chain...)
	}
	// per function facts
	isSend := func(ce *ast.CallExpr) bool {
		se, ok := ce.Fun.(*ast.SelectorExpr)
		return ok && se.Sel.Name == "sendResponse"
	}
	explicitErr := func(ce *ast.CallExpr) bool {
		if !isSend(ce) || len(ce.Args) < 2 {
			return false
		}
		if id, ok := ce.Args[1].(*ast.Ident); ok && id.Name == "autoStatus" {
			return false
		}
		return true
	}
	funcs := map[string]bool{}
	var order []string
	for _, r := range routes {
		if !funcs[r.handler] {
			funcs[r.handler] = true
			order = append(order, r.handler)
		}
	}
	if notFound != "" && !funcs[notFound] {
		funcs[notFound] = true
		order = append(order, notFound)
	}
	var facts []string
	helperSeen := map[string]bool{}
	var helpers []string
	emit := func(name string) error {
		fd := findFunc(f, "API", name)
		if fd == nil {
			return fmt.Errorf("function %s not found", name)
		}
		calls, err := rpcCallSites(fd.Body, nil)
		if err != nil {
			return fmt.Errorf("%s: %v", name, err)
		}
		// adder helper = pseudo call, in source position
		type pc struct {
			pos token.Pos
			c   [2]string
		}
		var pcs []pc
		var rpcPos []token.Pos
		var used []string
		ast.Inspect(fd.Body, func(n ast.Node) bool {
			ce, ok := n.(*ast.CallExpr)
			if !ok {
				return true
			}
			if se, ok := ce.Fun.(*ast.SelectorExpr); ok {
				if id, ok := se.X.(*ast.Ident); ok && id.Name == "adderutils" {
					pcs = append(pcs, pc{ce.Pos(), [2]string{"adderutils", se.Sel.Name}})
				}
				if inner, ok := se.X.(*ast.SelectorExpr); ok && inner.Sel.Name == "rpcClient" {
					rpcPos = append(rpcPos, ce.Pos())
				}
				if id, ok := se.X.(*ast.Ident); ok && id.Name == "api" && strings.HasPrefix(se.Sel.Name, "parse") && strings.HasSuffix(se.Sel.Name, "OrError") {
					used = append(used, se.Sel.Name)
					if !helperSeen[se.Sel.Name] {
						helperSeen[se.Sel.Name] = true
						helpers = append(helpers, se.Sel.Name)
					}
				}
			}
			return true
		})
		if len(rpcPos) != len(calls) {
			return fmt.Errorf("%s: call site bookkeeping", name)
		}
		for i, c := range calls {
			pcs = append(pcs, pc{rpcPos[i], c})
		}
		sort.Slice(pcs, func(i, j int) bool { return pcs[i].pos < pcs[j].pos })
		var ordered [][2]string
		for _, p := range pcs {
			ordered = append(ordered, p.c)
		}
		// explicit-status sendResponse: followed by return, or the last statement of the function body
		sites := errorSites(fd.Body, explicitErr)
		if n := len(fd.Body.List); n > 0 {
			if es, ok := fd.Body.List[n-1].(*ast.ExprStmt); ok {
				if ce, ok := es.X.(*ast.CallExpr); ok && explicitErr(ce) && len(sites) > 0 {
					sites[len(sites)-1] = true
				}
			}
		}
		facts = append(facts, fmt.Sprintf("(%s, %s, %s, %s)", coqStr(name), coqPairList(ordered), coqStrList(used), coqBoolList(sites)))
		return nil
	}
	for _, h := range order {
		if err := emit(h); err != nil {
			return "", err
		}
	}
	for i := 0; i < len(helpers); i++ {
		if err := emit(helpers[i]); err != nil {
			return "", err
		}
	}
	var b strings.Builder
	b.WriteString(genHeader)
	b.WriteString("\n(* api/rest/restapi.go: routes() *)\n")
	b.WriteString("Definition rest_routes : list (string * string * string * string) := [\n")
	for i, r := range routes {
		sep := ";"
		if i == len(routes)-1 {
			sep = ""
		}
		b.WriteString(fmt.Sprintf("  (%s, %s, %s, %s)%s\n", coqStr(r.name), coqStr(r.method), coqStr(r.pattern), coqStr(r.handler), sep))
	}
	b.WriteString("].\n")
	b.WriteString("Definition rest_registration : list string := " + coqStrList(regChain) + ".\n")
	b.WriteString("Definition rest_not_found : string := " + coqStr(notFound) + ".\n")
	b.WriteString("Definition rest_strict_slash : bool := " + strict + ".\n")
	b.WriteString("(* handler := basicAuthHandler(creds, cors.New(..).Handler(router)); http.Server{Handler: LoggingHandler(writer, handler)} *)\n")
	b.WriteString("Definition rest_handler_chain : list string := " + coqStrList(chain) + ".\n")
	b.WriteString("Definition rest_server_handler : list string := " + coqStrList(serverHandler) + ".\n")
	b.WriteString("(* (function, RPC call sites in source order, parse helpers called, per explicit-status sendResponse: followed by return / last) *)\n")
	b.WriteString("Definition rest_funcs : list (string * list (string * string) * list string * list bool) := [\n  " + strings.Join(facts, ";\n  ") + "\n].\n")
	return b.String(), nil
}

func genRestClient(repo string) (string, error) {
	_, f, err := parseFile(filepath.Join(repo, "api", "rest", "client", "methods.go"))
	if err != nil {
		return "", err
	}
	var rows []string
	for _, d := range f.Decls {
		fd, ok := d.(*ast.FuncDecl)
		if !ok || fd.Recv == nil || len(fd.Recv.List) != 1 || !fd.Name.IsExported() {
			continue
		}
		st, ok := fd.Recv.List[0].Type.(*ast.StarExpr)
		if !ok {
			continue
		}
		if id, ok := st.X.(*ast.Ident); !ok || id.Name != "defaultClient" {
			continue
		}
		found := 0
		var ferr error
		ast.Inspect(fd.Body, func(n ast.Node) bool {
			ce, ok := n.(*ast.CallExpr)
			if !ok {
				return true
			}
			se, ok := ce.Fun.(*ast.SelectorExpr)
			if !ok {
				return true
			}
			recv, ok := se.X.(*ast.Ident)
			if !ok || recv.Name != "c" {
				return true
			}
			switch se.Sel.Name {
			case "do", "doStream":
				if len(ce.Args) < 3 {
					ferr = fmt.Errorf("%s: c.%s arity", fd.Name.Name, se.Sel.Name)
					return false
				}
				m, ok := strLit(ce.Args[1])
				if !ok {
					ferr = fmt.Errorf("%s: HTTP method is not a literal", fd.Name.Name)
					return false
				}
				format := ""
				switch p := ce.Args[2].(type) {
				case *ast.BasicLit:
					format, _ = strLit(p)
				case *ast.CallExpr:
					if name, ok := selectorName(p.Fun); ok && name == "Sprintf" && len(p.Args) >= 1 {
						format, ok = strLit(p.Args[0])
						if !ok {
							ferr = fmt.Errorf("%s: Sprintf format is not a literal", fd.Name.Name)
							return false
						}
					} else {
						ferr = fmt.Errorf("%s: path expression the walk cannot follow", fd.Name.Name)
						return false
					}
				case *ast.BinaryExpr:
					l, ok := strLit(p.X)
					if !ok || p.Op != token.ADD {
						ferr = fmt.Errorf("%s: path expression the walk cannot follow", fd.Name.Name)
						return false
					}
					format = l + "%s"
				default:
					ferr = fmt.Errorf("%s: path expression the walk cannot follow", fd.Name.Name)
					return false
				}
				rows = append(rows, fmt.Sprintf("(%s, %s, %s)", coqStr(fd.Name.Name), coqStr(m), coqStr(format)))
				found++
			default:
				// delegation to another client method (Add -> AddMultiFile)
				if ast.IsExported(se.Sel.Name) {
					rows = append(rows, fmt.Sprintf("(%s, %s, %s)", coqStr(fd.Name.Name), coqStr("->"), coqStr(se.Sel.Name)))
					found++
				}
			}
			return true
		})
		if ferr != nil {
			return "", ferr
		}
		if found != 1 {
			return "", fmt.Errorf("client method %s: expected exactly one request, found %d", fd.Name.Name, found)
		}
	}
	var b strings.Builder
	b.WriteString(genHeader)
	b.WriteString("\n(* api/rest/client/methods.go: (client method, HTTP method, path format) ; \"->\" = delegates to another method *)\n")
	b.WriteString("Definition client_requests : list (string * string * string) := [\n  " + strings.Join(rows, ";\n  ") + "\n].\n")
	return b.String(), nil
}
