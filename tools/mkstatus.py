#!/usr/bin/env python3
"""Regenerates DESIGN.md sections 9.1 (status per property) and 9.2 (seeded changes vs checks) from the committed
evidence files, known_findings.txt, the Props files and seeded/RESULTS.json.   usage: tools/mkstatus.py"""
import json, os, re, glob, sys
V = os.path.dirname(os.path.dirname(os.path.abspath(__file__)))
sys.path.insert(0, os.path.join(V, "tools"))
from props import PROPS


def nthm(pid):
    p = os.path.join(V, "coq", "Props", pid + ".v")
    return len(re.findall(r"^(Theorem|Corollary)\b", open(p).read(), re.M)) if os.path.exists(p) else 0


def refuted(pid):
    p = os.path.join(V, "coq", "Props", pid + ".v")
    return re.findall(r"^(?:Theorem|Corollary)\s+(\w*_refuted)\b", open(p).read(), re.M) if os.path.exists(p) else []


def lines(pid):
    n = 0
    for f in glob.glob(os.path.join(V, "coq", "*", pid + "*.v")):
        n += sum(1 for _ in open(f))
    return n


def findings():
    fnd, fix = {}, {}
    for l in open(os.path.join(V, "known_findings.txt")):
        m = re.match(r"finding property=(C\d+) sig=(\S+)", l)
        if m:
            fnd.setdefault(m.group(1), []).append(m.group(2))
        m = re.match(r"fixed: property=(C\d+) (\w+) sig=(\S+)", l)
        if m:
            fix.setdefault(m.group(1), []).append("%s (%s)" % (m.group(3), m.group(2)))
    return fnd, fix


def totals():
    fnd, fix = findings()
    nt = sum(nthm(p) for p in PROPS)
    nl = 0
    for f in glob.glob(os.path.join(V, "coq", "*", "*.v")):
        if os.sep + "Gen" + os.sep in f or os.sep + "Cases" + os.sep in f:
            continue
        nl += sum(1 for _ in open(f))
    ng = 0
    for f in glob.glob(os.path.join(V, "harness", "*", "*.go")) + glob.glob(os.path.join(V, "harness", "*.tmpl")):
        ng += sum(1 for _ in open(f))
    ngen = sum(sum(1 for _ in open(f)) for f in glob.glob(os.path.join(V, "tools", "gen", "*.go")))
    rp = os.path.join(V, "seeded", "RESULTS.json")
    res = json.load(open(rp)) if os.path.exists(rp) else {}
    seeds = [d for d in os.listdir(os.path.join(V, "seeded")) if os.path.exists(os.path.join(V, "seeded", d, "patch.diff"))]
    det = [d for d in seeds if any(isinstance(x, dict) and x.get("detected") for x in res.get(d, {}).values())]
    conc = [d for d in det if any(isinstance(x, dict) and x.get("detected") and x.get("with_failing_input") for x in res.get(d, {}).values())]
    bd = os.path.join(V, "benign")
    ben = [d for d in os.listdir(bd) if os.path.exists(os.path.join(bd, d, "patch.diff"))] if os.path.isdir(bd) else []
    bres = json.load(open(os.path.join(bd, "RESULTS.json"))) if os.path.exists(os.path.join(bd, "RESULTS.json")) else {}
    bq = [d for d in ben if bres.get(d) and all(isinstance(x, dict) and x.get("quiet") for x in bres[d].values())]
    return ("Totals: %d properties claimed, %d theorems in `coq/Props` (all closed under the global context; `coqchk`: no axioms), %d lines of Coq "
            "(models, proofs, statements), %d lines of Go harness injected by overlay, %d lines of source-to-Coq translators; %d defects repaired "
            "in /repo by `fix:` commits, %d findings carried; %d independently written seeded changes filed, %d of them reported by the check "
            "of their property (or of the property whose anchor they touch), %d of those with a concrete failing input or offending table entry (the others as a "
            "broken translation or correspondence, `no-failing-input-found`); %d behaviour-preserving rewrites filed, the check of their property silent on %d." % (
                len(PROPS), nt, nl, ng, ngen, sum(len(v) for v in fix.values()), sum(len(v) for v in fnd.values()), len(seeds), len(det), len(conc), len(ben), len(bq)))


def sec91():
    fnd, fix = findings()
    out = ["| Prop | theorems (of which `_refuted`) | Coq lines | harness entry points | generated tables | quick: cases / non-trivial / wall | findings carried | defects repaired in /repo |",
           "|---|---|---|---|---|---|---|---|"]
    for pid in sorted(PROPS):
        s = PROPS[pid]
        ev = {}
        p = os.path.join(V, "evidence", pid + ".json")
        if os.path.exists(p):
            ev = json.load(open(p))
        c = ev.get("coverage", {})
        out.append("| %s | %d (%d) | %d | %s | %s | %s / %s / %ss (%s) | %s | %s |" % (
            pid, nthm(pid), len(refuted(pid)), lines(pid),
            ", ".join("%s:%s" % (g["dir"] or ".", g["test"]) for g in s["go"]),
            ", ".join(s.get("gen") or []) or "-",
            c.get("evaluations", "?"), c.get("distinct_nontrivial", "?"), round(ev.get("wall_s", 0)), ev.get("tier", "?"),
            "; ".join(fnd.get(pid, [])) or "-", "; ".join(fix.get(pid, [])) or "-"))
    return "\n".join(out)


def sec92():
    rp = os.path.join(V, "seeded", "RESULTS.json")
    res = json.load(open(rp)) if os.path.exists(rp) else {}
    out = ["| seed | property | change (title) | needs | caught by | how (first replay kind / theorem) |", "|---|---|---|---|---|---|"]
    for d in sorted(os.listdir(os.path.join(V, "seeded"))):
        mp = os.path.join(V, "seeded", d, "meta.json")
        if not os.path.exists(mp):
            continue
        m = json.load(open(mp))
        r = res.get(d, {})
        caught, how = [], []
        if "error" in r:
            caught = ["(%s)" % r["error"]]
        for pid, x in r.items():
            if not isinstance(x, dict):
                continue
            if x.get("detected"):
                caught.append(pid)
                for rep in x.get("replays", [])[:1]:
                    how.append("%s: %s" % (rep.get("kind", "?"), str(rep.get("name", ""))[:70]))
            else:
                caught.append("%s: MISSED" % pid)
        out.append("| %s | %s | %s | %s | %s | %s |" % (d, m.get("property"), str(m.get("title", "")).replace("|", "/")[:160],
                                                    str(m.get("needs_to_manifest", "")).replace("|", "/").replace("\n", " ")[:140],
                                                    ", ".join(caught) or "not run", "; ".join(how)))
    return "\n".join(out)


def sec92b():
    rp = os.path.join(V, "benign", "RESULTS.json")
    res = json.load(open(rp)) if os.path.exists(rp) else {}
    out = ["", "Behaviour-preserving rewrites (`benign/`, written from the property texts alone; the check must stay silent; `tools/benign.py`):", "",
           "| rewrite | property | what was restructured | kind | check |", "|---|---|---|---|---|"]
    bd = os.path.join(V, "benign")
    for d in sorted(os.listdir(bd)) if os.path.isdir(bd) else []:
        mp = os.path.join(bd, d, "meta.json")
        if not os.path.exists(mp):
            continue
        m = json.load(open(mp))
        r = res.get(d, {})
        verdict = []
        for pid, x in r.items():
            if isinstance(x, dict):
                verdict.append("%s: %s" % (pid, "silent" if x.get("quiet") else "ALARM (" + "; ".join(re.sub(r".*kind=", "", v)[:80] for v in x.get("violations", [])[:1]) + ")"))
        out.append("| %s | %s | %s | %s | %s |" % (d, m.get("property"), str(m.get("title", "")).replace("|", "/")[:200], str(m.get("kind", "")).replace("|", "/").replace("\n", " ")[:120],
                                                 ", ".join(verdict) or (m.get("note") or "not run")))
    return "\n".join(out)


def sec94():
    out = ["| kind | property | /repo commit | signature | what failed |", "|---|---|---|---|---|"]
    for l in open(os.path.join(V, "known_findings.txt")):
        m = re.match(r"fixed: property=(C\d+) (\w+) sig=(\S+) (.*)", l)
        if m:
            out.append("| fixed | %s | %s | %s | %s |" % (m.group(1), m.group(2), m.group(3), m.group(4).strip().replace("|", "/")[:300]))
        m = re.match(r"finding property=(C\d+) sig=(\S+) (.*)", l)
        if m:
            out.append("| finding | %s | - | %s | %s |" % (m.group(1), m.group(2), m.group(3).strip().replace("|", "/")[:300]))
    return "\n".join(out)


def main():
    p = os.path.join(V, "DESIGN.md")
    t = open(p).read()
    a = t.index("### 9.1 Status per property")
    b = t.index("### 9.2 Seeded changes and which checks catch them")
    c = t.index("### 9.3 ") if "### 9.3 " in t else t.index("## Appendix A.")
    if "### 9.4 " in t:
        d = t.index("### 9.4 ")
        e = t.index("## Appendix A.")
        t = t[:d] + t[e:]
        c = t.index("### 9.3 ") if "### 9.3 " in t else t.index("## Appendix A.")
    e = t.index("## Appendix A.")
    t = t[:e] + "### 9.4 Defects repaired in /repo and findings carried (regenerated from known_findings.txt)\n\nEvery `fixed` row is one unguarded `fix:` commit in /repo (%d so far; the 247 baseline tests pass with all of them), its failing input is in `corpus/`, its reverse diff under `docs/mutations/` makes the property's check fail again. Every `finding` row is a genuine defect that is not repaired (dependency code, or no small safe patch): the check prints one `KNOWN-FINDING:` line for it and still fails on any other violation.\n\n" % sum(len(v) for v in findings()[1].values()) + sec94() + "\n\n" + t[e:]
    t = (t[:a] + "### 9.1 Status per property\n\n(regenerated by `tools/mkstatus.py` from evidence/, Props/, known_findings.txt; MANIFEST.json is the authoritative list of claims)\n\n" + totals() + "\n\n"
         + sec91() + "\n\n" + "### 9.2 Seeded changes and which checks catch them\n\n(regenerated by `tools/mkstatus.py` from seeded/*/meta.json and seeded/RESULTS.json, which `tools/seeded.py` writes: each patch is applied to the tree, the property's quick check is run, the patch is undone)\n\n"
         + sec92() + "\n" + sec92b() + "\n\n" + t[c:])
    open(p, "w").write(t)


if __name__ == "__main__":
    main()
