#!/usr/bin/env python3
"""C15 Manager-level mutations: writes docs/mutations/C15_M<k>_<name>.diff from textual edits applied in a scratch
worktree of the repository, and (with --run) runs ./check C15 --tier quick against each one.
usage: tools/c15_manager_mutate.py <scratch worktree> [--run] [names...]"""
import os, subprocess, sys, time
HERE = os.path.dirname(os.path.dirname(os.path.abspath(__file__)))
MUTS = [
 ("M1_tojson_drops_unregistered", "config/config.go",
  "\tjcfg := cfg.jsonCfg\n\tif jcfg == nil {\n\t\tjcfg = &jsonConfig{}\n\t}\n\n\tif cfg.clusterConfig != nil {\n\t\tcfg.clusterConfig.SetBaseDir(dir)",
  "\tjcfg := &jsonConfig{}\n\n\tif cfg.clusterConfig != nil {\n\t\tcfg.clusterConfig.SetBaseDir(dir)"),
 ("M2_loadjson_ignores_section_error", "config/config.go",
  "\t\t\terr := component.LoadJSON([]byte(*raw))\n\t\t\tif err != nil {\n\t\t\t\treturn err\n\t\t\t}",
  "\t\t\terr := component.LoadJSON([]byte(*raw))\n\t\t\tif err != nil {\n\t\t\t\tlogger.Error(err)\n\t\t\t\tcomponent.Default()\n\t\t\t}"),
 ("M3_displayjson_skips_map_fields", "config/util.go",
  "\t\tif hidden {\n", "\t\tif hidden && f.Type.Kind() != reflect.Map {\n"),
 ("M4_display_cluster_raw", "config/config.go",
  "\t\traw, err := cfg.clusterConfig.ToDisplayJSON()", "\t\traw, err := cfg.clusterConfig.ToJSON()"),
 ("M5_loadjson_no_validate", "config/config.go",
  "\t\t\treturn err\n\t\t}\n\t}\n\treturn cfg.Validate()\n}", "\t\t\treturn err\n\t\t}\n\t}\n\treturn nil\n}"),
 ("M6_save_skips_informer_type", "config/config.go",
  "func (cfg *Manager) applyUpdateJSONConfigs(jcfg *jsonConfig, updateJSONConfigs func(section Section, dest *jsonSection) error) error {\n\tfor _, t := range SectionTypes() {\n\t\tif t == Cluster {",
  "func (cfg *Manager) applyUpdateJSONConfigs(jcfg *jsonConfig, updateJSONConfigs func(section Section, dest *jsonSection) error) error {\n\tfor _, t := range SectionTypes() {\n\t\tif t == Cluster || t == Informer {"),
]
def sh(cmd, **kw):
    return subprocess.run(cmd, stdout=subprocess.PIPE, stderr=subprocess.STDOUT, universal_newlines=True, **kw)
def main():
    wt = sys.argv[1]
    run = "--run" in sys.argv
    names = [a for a in sys.argv[2:] if not a.startswith("--")]
    for name, path, old, new in MUTS:
        if names and not any(n in name for n in names):
            continue
        sh(["git", "-C", wt, "checkout", "--", "."])
        p = os.path.join(wt, path)
        s = open(p).read()
        assert s.count(old) == 1, (name, s.count(old))
        open(p, "w").write(s.replace(old, new))
        d = sh(["git", "-C", wt, "diff"]).stdout
        open(os.path.join(HERE, "docs", "mutations", "C15_%s.diff" % name), "w").write(d)
        if run:
            t = time.time()
            env = dict(os.environ, VERIF_REPO=wt, GOFLAGS="-mod=mod", GOPROXY="off", GOSUMDB="off", GOTOOLCHAIN="local")
            r = sh([os.path.join(HERE, "check"), "C15", "--tier", "quick"], cwd=HERE, env=env)
            lines = [l for l in r.stdout.splitlines() if l.startswith(("VIOLATION", "OK", "KNOWN"))]
            print("== %s: exit=%d %.0fs" % (name, r.returncode, time.time() - t))
            for l in lines:
                print("   " + l)
            for l in lines:
                if "replay=" in l:
                    rp = l.split("replay=")[1].split()[0]
                    import json
                    try:
                        o = json.load(open(rp))
                        print("     replay input:", json.dumps((o.get("case") or {}).get("input"))[:400], "| harness", o.get("harness"))
                    except Exception as e:
                        print("     (replay unreadable: %s)" % e)
            sys.stdout.flush()
    sh(["git", "-C", wt, "checkout", "--", "."])
main()
