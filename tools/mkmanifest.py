#!/usr/bin/env python3
"""Writes MANIFEST.json from tools/props.py + properties.jsonl (claimed = has an entry in PROPS)."""
import json, os, sys
V = os.path.dirname(os.path.dirname(os.path.abspath(__file__)))
sys.path.insert(0, os.path.join(V, "tools"))
from props import PROPS, NOT_CLAIMED
base = json.load(open("/root/.vp/BASELINE.json")) if os.path.exists("/root/.vp/BASELINE.json") else {"cmd": ""}
ids = [json.loads(l)["id"] for l in open(os.path.join(V, "properties.jsonl"))]
checks = []
for pid in ids:
    if pid not in PROPS:
        continue
    s = PROPS[pid]
    checks.append({
        "property_id": pid,
        "quick_cmd": "./check %s --tier quick" % pid,
        "thorough_cmd": "./check %s --tier thorough" % pid,
        "evidence_file": "/verif/evidence/%s.json" % pid,
        "replay_cmd_template": "./check %s --replay {path}" % pid,
        "engine": "coq-model+correspondence",
        "level_claimed": {"category": "proof", "text": s["level_text"], "design_ref": "DESIGN.md section 4 (%s) and section 9" % pid},
        "level_note": s["level_note"],
        "technique": s.get("technique", "machine-checked proof in Coq 8.16 of theorems about an executable Gallina model; model tied to /repo by a differential correspondence check (and, where tables are involved, a source-to-Coq translator)"),
    })
m = {
    "version": 1,
    "setup_cmd": "./check setup",
    "hooks": {"guard": "verif", "enable": "go test -tags verif -overlay /verif/.build/overlay_<hash>.json (harness files are added to the packages at build time by the overlay; /repo carries no hook code)",
              "baseline_off_cmd": base.get("cmd", ""), "source_commits": [], "add_only": True},
    "engines": [{"name": "coq-model+correspondence", "path": "/verif/tools/run.py",
                 "serves_properties": [c["property_id"] for c in checks],
                 "kind_free_text": "Coq 8.16.1 development under /verif/coq (Model, Proofs, Props, Gen); Go harness under /verif/harness injected into the real packages with go test -overlay; cases evaluated in Coq with vm_compute"}],
    "checks": checks,
    "not_applicable": [{"property_id": p, "reason": NOT_CLAIMED[p]} for p in ids if p not in PROPS],
    "notes": "See DESIGN.md. known_findings.txt lists findings and fixed defects.",
}
json.dump(m, open(os.path.join(V, "MANIFEST.json"), "w"), indent=1)
print("claimed:", [c["property_id"] for c in checks])
