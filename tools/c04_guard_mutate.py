#!/usr/bin/env python3
"""C04 guard-chain mutations: writes docs/mutations/C04_G<k>_<name>.diff from textual edits applied in a
scratch worktree of the repository, and (with --run) runs ./check C15 --tier quick against each one, printing the VIOLATION
lines, the clauses named by the diagnosis and the minimised counterexample input.
usage: tools/c04_guard_mutate.py <scratch worktree> [--run] [names...]"""
import json, os, subprocess, sys, time
HERE = os.path.dirname(os.path.dirname(os.path.abspath(__file__)))
MUTS = [
 ("G1_expiry_comparison_flipped", "cluster.go", "if !pin.ExpireAt.IsZero() && pin.ExpireAt.Before(time.Now()) {", "if !pin.ExpireAt.IsZero() && pin.ExpireAt.After(time.Now()) {"),
 ("G2_unpin_follower_guard_dropped", "cluster.go",
  "\tctx = trace.NewContext(c.ctx, span)\n\n\tif c.config.FollowerMode {\n\t\treturn nil, errFollowerMode\n\t}\n\n\tlogger.Info(\"IPFS cluster unpinning:\", h)",
  "\tctx = trace.NewContext(c.ctx, span)\n\n\tlogger.Info(\"IPFS cluster unpinning:\", h)"),
 ("G3_recursive_to_direct_allowed", "cluster.go",
  "\tif existing.Mode == api.PinModeRecursive && pin.Mode != api.PinModeRecursive {\n\t\tmsg := \"cannot repin a CID which is already pinned in \"\n\t\tmsg += \"recursive mode (new pin is pinned as %s). Unpin it first.\"\n\t\treturn fmt.Errorf(msg, pin.Mode)\n\t}\n\n", ""),
 ("G4_setuppin_guards_swapped", "cluster.go",
  "\tif !pin.ExpireAt.IsZero() && pin.ExpireAt.Before(time.Now()) {\n\t\treturn errors.New(\"pin.ExpireAt set before current time\")\n\t}\n\n\tif existing == nil {\n\t\treturn nil\n\t}\n",
  "\tif existing == nil {\n\t\treturn nil\n\t}\n\n\tif !pin.ExpireAt.IsZero() && pin.ExpireAt.Before(time.Now()) {\n\t\treturn errors.New(\"pin.ExpireAt set before current time\")\n\t}\n"),
 ("G5_new_refusal", "cluster.go", "\t// If an pin CID is already pin, we do a couple more checks\n",
  "\tif pin.ReplicationFactorMax > 4 {\n\t\treturn errors.New(\"too many replicas for a re-pin\")\n\t}\n\n\t// If an pin CID is already pin, we do a couple more checks\n"),
 ("G6_new_refusal_unknown_condition", "cluster.go", "\t// If an pin CID is already pin, we do a couple more checks\n",
  "\tif pin.Name == \"\" {\n\t\treturn errors.New(\"re-pins must be named\")\n\t}\n\n\t// If an pin CID is already pin, we do a couple more checks\n"),
 ("G7_unpin_shard_allowed", "cluster.go",
  "\tcase api.ShardType:\n\t\terr := \"cannot unpin a shard directly. Unpin content root CID instead\"\n\t\treturn pin, errors.New(err)\n",
  "\tcase api.ShardType:\n\t\treturn pin, c.consensus.LogUnpin(ctx, pin)\n"),
 ("G8_pinupdate_type_guard_weakened", "cluster.go", "\tif existing.Type != api.DataType {\n\t\treturn nil, errors.New(\"this pin type cannot be updated\")",
  "\tif existing.Type == api.MetaType {\n\t\treturn nil, errors.New(\"this pin type cannot be updated\")"),
 ("G9_rf_helper_flipped", "cluster_config.go", "\tif rplMin > rplMax {", "\tif rplMin < rplMax {"),
]
def sh(cmd, **kw):
    return subprocess.run(cmd, stdout=subprocess.PIPE, stderr=subprocess.STDOUT, universal_newlines=True, **kw)
def main():
    wt = sys.argv[1]
    run = "--run" in sys.argv
    names = [a for a in sys.argv[2:] if not a.startswith("--")]
    for name, path, old, new in MUTS:
        if names and not any(n in name for n in names):
            continue
        sh(["git", "-C", wt, "checkout", "--", "."])
        p = os.path.join(wt, path)
        s = open(p).read()
        assert s.count(old) == 1, (name, s.count(old))
        open(p, "w").write(s.replace(old, new))
        d = sh(["git", "-C", wt, "diff"]).stdout
        open(os.path.join(HERE, "docs", "mutations", "C04_%s.diff" % name), "w").write(d)
        if run:
            t = time.time()
            env = dict(os.environ, VERIF_REPO=wt, GOFLAGS="-mod=mod", GOPROXY="off", GOSUMDB="off", GOTOOLCHAIN="local")
            r = sh([os.path.join(HERE, "check"), "C04", "--tier", "quick"], cwd=HERE, env=env)
            lines = [l for l in r.stdout.splitlines() if l.startswith(("VIOLATION", "OK", "KNOWN"))]
            print("== %s: exit=%d %.0fs" % (name, r.returncode, time.time() - t))
            for l in lines:
                print("   " + l[:300])
                if "replay=" in l:
                    rp = l.split("replay=")[1].split()[0]
                    try:
                        o = json.load(open(rp))
                        if o.get("offending_entries"):
                            for e in o["offending_entries"]:
                                print("     named:", e[:400])
                        if o.get("case"):
                            inp = (o.get("case") or {}).get("input") or {}
                            calls = ["%s(%s)" % (c.get("kind"), c.get("cid") or (c.get("pin") or {}).get("cid")) for c in inp.get("calls", [])]
                            obs = o.get("observed")
                            print("     history:", ", ".join(calls)[:300], "| harness", o.get("harness"),
                                  "| observed:", json.dumps([{k: x.get(k) for k in ("ok", "err")} for x in obs] if isinstance(obs, list) else obs)[:300])
                        if o.get("error"):
                            for el in str(o["error"]).splitlines():
                                if el.startswith("translator "):
                                    print("     " + el[:400])
                        if o.get("theorem_or_file"):
                            print("     broken:", str(o["theorem_or_file"])[:300])
                    except Exception as e:
                        print("     (replay unreadable: %s)" % e)
            sys.stdout.flush()
    sh(["git", "-C", wt, "checkout", "--", "."])
main()
