#!/usr/bin/env python3
"""Run the checks against the behaviour-preserving rewrites under /verif/benign/<id>/ (the opposite of tools/seeded.py):
every patch there was written by someone who saw only the property text, keeps the property and the existing tests,
and restructures the anchored code.  The check of the property must stay silent (exit 0, no VIOLATION line).

usage: VERIF_REPO=<scratch worktree of /repo> tools/benign.py [<id> ...] [--tier quick]

An alarm on one of these is either (a) a rewrite that is not behaviour-preserving after all (then it is moved to
seeded/ or dropped), or (b) a broken translator / correspondence on code where the property holds: the brief lets the
check report that as `no-failing-input-found`, but every such case is looked at and the translator is made to
understand the new shape where that is cheap.  Results go to benign/RESULTS.json.
"""
import sys, os, json, subprocess, time, re

VERIF = os.path.dirname(os.path.dirname(os.path.abspath(__file__)))
REPO = os.environ.get("VERIF_REPO", "/repo")
BEN = os.path.join(VERIF, "benign")


def sh(cmd, cwd=None, timeout=None):
    p = subprocess.run(cmd, cwd=cwd, stdout=subprocess.PIPE, stderr=subprocess.STDOUT, text=True, timeout=timeout)
    return p.returncode, p.stdout


def main():
    args = sys.argv[1:]
    tier = "quick"
    ids = []
    cross = False
    i = 0
    while i < len(args):
        if args[i] == "--tier":
            tier = args[i + 1]; i += 2
        elif args[i] == "--cross":
            # instead of the rewrite's own property: every OTHER property whose harness lives in a package the patch touches
            cross = True; i += 1
        else:
            ids.append(args[i]); i += 1
    rc, o = sh(["git", "-C", REPO, "status", "--porcelain", "--untracked-files=no"])
    if o.strip():
        print("refusing: %s has uncommitted changes:\n%s" % (REPO, o))
        return 2
    if not ids:
        ids = sorted(d for d in os.listdir(BEN) if os.path.exists(os.path.join(BEN, d, "patch.diff")))
    resp = os.path.join(BEN, "RESULTS_cross.json" if cross else "RESULTS.json")
    bydir = {}
    if cross:
        sys.path.insert(0, os.path.join(VERIF, "tools"))
        from props import PROPS
        for pid, s in PROPS.items():
            for g in s["go"]:
                bydir.setdefault(g["dir"] or ".", set()).add(pid)
    results = json.load(open(resp)) if os.path.exists(resp) else {}
    bad = 0
    for bid in ids:
        d = os.path.join(BEN, bid)
        meta = json.load(open(os.path.join(d, "meta.json")))
        props = [meta["property"]] + meta.get("also_check", [])
        if cross:
            files = re.findall(r"^\+\+\+ b/(\S+)", open(os.path.join(d, "patch.diff")).read(), flags=re.M)
            ps = set()
            for f in files:
                ps |= bydir.get(os.path.dirname(f) or ".", set())
            props = sorted(ps - set(props))
        rc, o = sh(["git", "-C", REPO, "apply", "--whitespace=nowarn", os.path.join(d, "patch.diff")])
        if rc != 0:
            print("%s: patch does not apply: %s" % (bid, o.strip()[:300]))
            results[bid] = {"error": "patch does not apply"}
            continue
        try:
            for pid in props:
                t = time.time()
                try:
                    rc, o = sh([os.path.join(VERIF, "check"), pid, "--tier", tier], cwd=VERIF, timeout=3600)
                except subprocess.TimeoutExpired:
                    rc, o = 124, "timeout"
                vio = re.findall(r"^VIOLATION .*$", o, flags=re.M)
                quiet = rc == 0 and not vio
                bad += 0 if quiet else 1
                results.setdefault(bid, {})[pid] = {"exit": rc, "quiet": quiet, "violations": vio[:4], "wall_s": round(time.time() - t, 1),
                                                    "tier": tier, "tail": "" if quiet else o[-1500:]}
                print("%-8s %-4s exit=%d %s  (%.0fs)" % (bid, pid, rc, "quiet" if quiet else "ALARM", time.time() - t))
                for v in vio[:4]:
                    print("          " + v[:220])
        finally:
            sh(["git", "-C", REPO, "checkout", "--", "."])
            if os.path.realpath(REPO) != "/repo":
                sh(["git", "-C", REPO, "clean", "-fdq"])
        json.dump(results, open(resp, "w"), indent=1, sort_keys=True)
    return 1 if bad else 0


if __name__ == "__main__":
    sys.exit(main())
