#!/usr/bin/env python3
"""Run the checks against the seeded changes under /verif/seeded/<id>/.

usage: tools/seeded.py [<seed id> ...] [--props C03,C04] [--tier quick]

For every selected seed: `git -C /repo apply patch.diff`, run `./check <property>` for the property the seed
breaks (meta.json "property"; plus any listed in meta.json "also_check"), record exit code and VIOLATION lines,
then undo (`git apply -R`, falling back to checkout + clean of the touched paths). /repo is left exactly as found;
the run refuses to start when /repo has uncommitted changes. Results go to seeded/RESULTS.json (and a table on stdout).
"""
import sys, os, json, subprocess, time, re

VERIF = os.path.dirname(os.path.dirname(os.path.abspath(__file__)))
REPO = os.environ.get("VERIF_REPO", "/repo")
SEEDED = os.path.join(VERIF, "seeded")


def sh(cmd, cwd=None, timeout=None):
    p = subprocess.run(cmd, cwd=cwd, stdout=subprocess.PIPE, stderr=subprocess.STDOUT, text=True, timeout=timeout)
    return p.returncode, p.stdout


def main():
    args = sys.argv[1:]
    tier = "quick"
    only_props = None
    ids = []
    i = 0
    while i < len(args):
        if args[i] == "--tier":
            tier = args[i + 1]; i += 2
        elif args[i] == "--props":
            only_props = set(args[i + 1].split(",")); i += 2
        else:
            ids.append(args[i]); i += 1
    rc, o = sh(["git", "-C", REPO, "status", "--porcelain", "--untracked-files=no"])
    if o.strip():
        print("refusing: %s has uncommitted changes:\n%s" % (REPO, o))
        return 2
    if not ids:
        ids = sorted(d for d in os.listdir(SEEDED) if os.path.exists(os.path.join(SEEDED, d, "patch.diff")))
    resp = os.path.join(SEEDED, "RESULTS.json")
    results = json.load(open(resp)) if os.path.exists(resp) else {}
    for sid in ids:
        d = os.path.join(SEEDED, sid)
        meta = json.load(open(os.path.join(d, "meta.json")))
        props = [meta["property"]] + meta.get("also_check", [])
        if only_props and not (set(props) & only_props):
            continue
        patch = os.path.join(d, "patch.diff")
        rc, o = sh(["git", "-C", REPO, "apply", "--whitespace=nowarn", patch])
        if rc != 0:
            print("%s: patch does not apply: %s" % (sid, o.strip()[:300]))
            results[sid] = {"error": "patch does not apply"}
            continue
        try:
            for pid in props:
                if only_props and pid not in only_props:
                    continue
                t = time.time()
                try:
                    rc, o = sh([os.path.join(VERIF, "check"), pid, "--tier", tier], cwd=VERIF, timeout=3600)
                except subprocess.TimeoutExpired:
                    rc, o = 124, "timeout"
                vio = re.findall(r"^VIOLATION .*$", o, flags=re.M)
                replays = []
                for v in vio:
                    m = re.search(r"replay=(\S+)", v)
                    if m and os.path.exists(m.group(1)):
                        try:
                            r = json.load(open(m.group(1)))
                            replays.append({k: r.get(k) for k in ("kind", "name", "signature", "meaning", "case", "observed", "theorem_or_file", "offending_entries") if k in r})
                        except ValueError:
                            pass
                results.setdefault(sid, {})[pid] = {
                    "exit": rc, "detected": rc == 1 and bool(vio), "violations": vio, "replays": replays[:3],
                    "with_failing_input": any("no-failing-input-found" not in v for v in vio),
                    "wall_s": round(time.time() - t, 1), "tier": tier}
                print("%-8s %-4s exit=%d %s  (%.0fs)" % (sid, pid, rc, "DETECTED" if rc == 1 and vio else "MISSED", time.time() - t))
                for v in vio[:4]:
                    print("          " + v[:220])
                if rc not in (0, 1):
                    print(o[-1500:])
        finally:
            rc, o = sh(["git", "-C", REPO, "apply", "-R", "--whitespace=nowarn", patch])
            if rc != 0:
                sh(["git", "-C", REPO, "checkout", "--", "."])
            rc, o = sh(["git", "-C", REPO, "status", "--porcelain"])
            if o.strip():
                print("WARNING: /repo not clean after undo:\n" + o)
        with open(resp, "w") as f:
            json.dump(results, f, indent=1, sort_keys=True)
            f.write("\n")
    return 0


if __name__ == "__main__":
    sys.exit(main())
