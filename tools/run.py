#!/usr/bin/env python3
"""Check runner: ./check Cxx [--tier quick|thorough] [--replay FILE]

One run = regenerate Gen/*.v from /repo, (re)build the Coq development, force
re-check of Props/Cxx.v, build the Go harness inside the real package through a
`go test -overlay`, run it, evaluate the produced cases inside Coq with
vm_compute, classify, shrink, apply known_findings.txt, write evidence.
Python stdlib only.
"""
import sys, os, json, subprocess, time, re, hashlib, shutil, fcntl, copy, glob

VERIF = os.path.dirname(os.path.dirname(os.path.abspath(__file__)))
REPO = os.environ.get("VERIF_REPO", "/repo")
BUILD = os.path.join(VERIF, ".build")
COQ = os.path.join(VERIF, "coq")
CASES = os.path.join(COQ, "Cases")
NCPU = os.cpu_count() or 4

sys.path.insert(0, os.path.join(VERIF, "tools"))
from props import PROPS  # noqa: E402

GOENV = dict(os.environ, GOFLAGS="-mod=mod", GOPROXY="off", GOSUMDB="off",
             GOTOOLCHAIN="local", CGO_ENABLED=os.environ.get("CGO_ENABLED", "1"))

ALLOWED_AXIOMS = set()  # stdlib axioms that may appear under Print Assumptions (none needed so far)


def log(*a):
    print("[check]", *a, file=sys.stderr, flush=True)


def sh(cmd, cwd=None, env=None, timeout=None, stdin=None):
    p = subprocess.run(cmd, cwd=cwd, env=env, stdout=subprocess.PIPE, stderr=subprocess.STDOUT,
                       timeout=timeout, input=stdin, text=True, errors="replace")
    return p.returncode, p.stdout


# ----------------------------------------------------------------------------
# overlay: make the packages compile with the installed Go and inject harness
# ----------------------------------------------------------------------------
STRIP = ["clusterhost.go", "api/rest/restapi.go"]


def write_if_changed(path, content):
    try:
        if open(path).read() == content:
            return False
    except OSError:
        pass
    os.makedirs(os.path.dirname(path), exist_ok=True)
    with open(path, "w") as f:
        f.write(content)
    return True


def make_overlay(spec_go):
    """spec_go: list of dicts with dir (relative pkg dir), pkgname, files (under /verif/harness)"""
    os.makedirs(BUILD, exist_ok=True)
    repl = {}
    for rel in STRIP:
        src = os.path.join(REPO, rel)
        if not os.path.exists(src):
            continue
        out = os.path.join(BUILD, "strip", rel)
        txt = "".join(l for l in open(src) if "libp2pquic" not in l)
        write_if_changed(out, txt)
        repl[src] = out
    common = open(os.path.join(VERIF, "harness", "common.go.tmpl")).read()
    for g in spec_go:
        d = os.path.join(REPO, g["dir"]) if g["dir"] else REPO
        cf = os.path.join(BUILD, "common", g["dir"].replace("/", "_") or "root", "zz_verif_common_test.go")
        write_if_changed(cf, common.replace("PKGNAME", g["pkgname"]))
        repl[os.path.join(d, "zz_verif_common_test.go")] = cf
        for f in g["files"]:
            if f.endswith(".tmpl"):
                # a harness file shared by several packages: instantiated per package like common.go.tmpl
                base = os.path.basename(f)[:-len(".tmpl")]
                tf = os.path.join(BUILD, "common", g["dir"].replace("/", "_") or "root", "zz_verif_" + base)
                write_if_changed(tf, open(os.path.join(VERIF, "harness", f)).read().replace("PKGNAME", g["pkgname"]))
                repl[os.path.join(d, "zz_verif_" + base)] = tf
                continue
            repl[os.path.join(d, "zz_verif_" + os.path.basename(f))] = os.path.join(VERIF, "harness", f)
    ov = os.path.join(BUILD, "overlay_%s.json" % hashlib.sha1(json.dumps(sorted(repl.items())).encode()).hexdigest()[:10])
    write_if_changed(ov, json.dumps({"Replace": repl}, indent=1))
    return ov


def build_harness(g, overlay, race=False):
    out = os.path.join(BUILD, "bin", (g["dir"].replace("/", "_") or "root") + ("_race" if race else "") + ".test")
    os.makedirs(os.path.dirname(out), exist_ok=True)
    pkg = "./" + g["dir"] if g["dir"] else "."
    cmd = ["go", "test", "-c", "-vet=off", "-tags", "verif", "-overlay", overlay, "-o", out]
    if race:
        cmd.append("-race")
    cmd.append(pkg)
    t = time.time()
    rc, o = sh(cmd, cwd=REPO, env=GOENV, timeout=1500)
    log("go test -c %s: rc=%d %.1fs" % (pkg, rc, time.time() - t))
    if rc != 0:
        return None, o
    return out, o


# ----------------------------------------------------------------------------
# Coq
# ----------------------------------------------------------------------------
def run_translators():
    gens = sorted(glob.glob(os.path.join(VERIF, "tools", "gen", "*.go")))
    if not gens:
        return True, ""
    binp = os.path.join(BUILD, "bin", "verifgen")
    os.makedirs(os.path.dirname(binp), exist_ok=True)
    src_m = max(os.path.getmtime(g) for g in gens)
    if not os.path.exists(binp) or os.path.getmtime(binp) < src_m:
        env = dict(GOENV, GO111MODULE="off", GOFLAGS="")
        rc, o = sh(["go", "build", "-o", binp] + gens, cwd=os.path.join(VERIF, "tools", "gen"), env=env, timeout=600)
        if rc != 0:
            return False, "translator build failed:\n" + o
    tmp = os.path.join(BUILD, "gen_tmp")
    shutil.rmtree(tmp, ignore_errors=True)
    os.makedirs(tmp)
    rc, o = sh([binp, "-repo", REPO, "-out", tmp], timeout=300)
    for f in os.listdir(tmp):
        write_if_changed(os.path.join(COQ, "Gen", f), open(os.path.join(tmp, f)).read())
    if rc != 0:
        # main.go prints "translator <name>: <error>" per failing generator; a check is affected only
        # when its spec lists that generator under "gen"
        failed = re.findall(r"^translator (\w+):", o, flags=re.M)
        del REF_USED[:]
        for name in failed:
            # a table that cannot be regenerated must not keep its stale copy.  The failure itself is reported as a broken
            # obligation by run_check; to be able to SEARCH for a failing input all the same (the models of C07, C08, C11, C12
            # and C15 are instantiated with these tables), the table of the reference tree (coq/GenRef/<name>.v, committed,
            # written by `./check genref` from the unchanged /repo) stands in for it for the rest of this run - marked as such.
            ref = os.path.join(COQ, "GenRef", name + ".v")
            if os.path.exists(ref) and not os.environ.get("VERIF_NO_GENREF"):
                write_if_changed(os.path.join(COQ, "Gen", name + ".v"),
                                 "(* REFERENCE TABLE: the translator failed on the current source; this is the table of the reference tree,\n"
                                 "   used only to search for a failing input. The run reports the broken translation whatever the search finds. *)\n"
                                 + open(ref).read())
                REF_USED.append(name)
            else:
                write_if_changed(os.path.join(COQ, "Gen", name + ".v"), "(* translator failed on the current source *)\nDefinition translator_failed := tt.\n")
        return False, "translator failed (%s):\n%s" % (",".join(failed) or "build", o)
    del REF_USED[:]
    return True, o


REF_USED = []


def genref():
    """./check genref: regenerate coq/GenRef/*.v from the tables the translators give on the current tree (run on the unchanged /repo, then commit)"""
    ok, o = run_translators()
    if not ok:
        print(o)
        return 1
    os.makedirs(os.path.join(COQ, "GenRef"), exist_ok=True)
    for f in sorted(os.listdir(os.path.join(COQ, "Gen"))):
        if f.endswith(".v"):
            write_if_changed(os.path.join(COQ, "GenRef", f), open(os.path.join(COQ, "Gen", f)).read())
    return 0


def coq_makefile():
    cp = os.path.join(COQ, "_CoqProject")
    files = []
    for d in ["Base", "Gen", "Model", "Proofs", "Props", "Diag"]:
        files += sorted(os.path.relpath(p, COQ) for p in glob.glob(os.path.join(COQ, d, "*.v")))
    content = "-Q . V\n-arg -w -arg -notation-overridden,-deprecated-hint-without-locality,-deprecated-instance-without-locality\n" + "\n".join(files) + "\n"
    ch = write_if_changed(cp, content)
    if ch or not os.path.exists(os.path.join(COQ, "Makefile")):
        rc, o = sh(["coq_makefile", "-f", "_CoqProject", "-o", "Makefile"], cwd=COQ)
        if rc != 0:
            raise RuntimeError(o)


def coq_build(force=()):
    """full .vo build (never -vos). force: .v files (relative to coq/) whose .vo is removed first"""
    coq_makefile()
    for f in force:
        for ext in (".vo", ".vok", ".vos", ".glob"):
            try:
                os.remove(os.path.join(COQ, f[:-2] + ext))
            except OSError:
                pass
    t = time.time()
    rc, o = sh(["timeout", "1500", "make", "-k", "-j%d" % NCPU], cwd=COQ, timeout=1600)
    log("coq make: rc=%d %.1fs" % (rc, time.time() - t))
    return rc, o


GATE = re.compile(r"\b(Admitted|admit|Axiom|Parameter|Conjecture|Unset Guard|bypass_check|type-in-type|impredicative-set|Admit Obligations)\b")


def grep_gate():
    bad = []
    for p in glob.glob(os.path.join(COQ, "*", "*.v")):
        if "/Cases/" in p:
            continue
        for i, l in enumerate(open(p), 1):
            l2 = re.sub(r"\(\*.*?\*\)", "", l)
            if GATE.search(l2):
                bad.append("%s:%d: %s" % (os.path.relpath(p, VERIF), i, l.strip()))
    return bad


def check_props_file(pid, make_out):
    """Re-compile Props/<pid>.v alone to capture its Print Assumptions output."""
    pf = "Props/%s.v" % pid
    path = os.path.join(COQ, pf)
    if not os.path.exists(path):
        return 0, 0, [], "no Props file"
    src = open(path).read()
    src_nc = re.sub(r"\(\*.*?\*\)", "", src, flags=re.S)
    thms = re.findall(r"^\s*(?:Theorem|Corollary)\s+(\w+)", src_nc, flags=re.M)
    pas = re.findall(r"^\s*Print Assumptions\s+(\w+)", src_nc, flags=re.M)
    missing = [t for t in thms if t not in pas]
    rc, o = sh(["timeout", "900", "coqc", "-Q", ".", "V", "-w", "-notation-overridden", pf], cwd=COQ, timeout=1000)
    if rc != 0:
        return len(thms), 0, thms, "coqc %s failed:\n%s" % (pf, o[-3000:])
    closed = o.count("Closed under the global context")
    axioms = []
    for m in re.finditer(r"Axioms:\n((?:.+\n?)+?)(?=\n\S|\Z)", o):
        axioms.append(m.group(1))
    note = ""
    if missing:
        note += "theorems without Print Assumptions: %s\n" % missing
    if axioms:
        note += "axioms reported:\n" + "\n".join(axioms)
    discharged = closed if not missing else min(closed, len(thms) - len(missing))
    if axioms:
        discharged = min(discharged, closed)
    return len(thms), discharged, thms, note


# optional per-property fallback (spec key "check_fallback": {"primary": "Model.Cxx_Check", "fallback": "Model.Cxx_CheckSpec"}):
# when a cases file does not compile with the primary Check module (e.g. because a Gen table it imports could not be
# regenerated), it is re-evaluated with the fallback module, which must define the same case type and `failing`
# (the property part only) without importing what broke. The run is then never reported as OK.
CHECK_FALLBACK = None
FALLBACK_USED = []


def eval_cases(files):
    """coqc each cases file in parallel; returns (fails list of (file, id, code, tag), errors)"""
    res, errs = [], []
    pending = list(files)
    running = []
    killed = []
    cmd = lambda f, t: ["timeout", str(t), "coqc", "-Q", ".", "V", "-w", "-notation-overridden", os.path.relpath(f, COQ)]

    def digest(f, rc, o, final):
        if rc != 0 and CHECK_FALLBACK:
            txt = open(f).read()
            if CHECK_FALLBACK["primary"] in txt:
                with open(f, "w") as fh:
                    fh.write(re.sub(re.escape(CHECK_FALLBACK["primary"]) + r"\b", CHECK_FALLBACK["fallback"], txt))
                rc2, o2 = sh(cmd(f, 1200), cwd=COQ)
                if rc2 == 0:
                    FALLBACK_USED.append((os.path.basename(f), o[-600:]))
                    o = o2
                    rc = 0
        if rc != 0 and not final and (rc in (137, -9) or not o.strip()):
            # coqc was killed (memory pressure from the other shards / other jobs on the machine): once more, alone, at the end
            killed.append(f)
            return
        if rc != 0:
            errs.append((f, o[-2000:]))
            return
        m = re.search(r"R\s*=\s*(.*?)\n\s*:\s*list", o, flags=re.S)
        if not m:
            errs.append((f, "cannot parse coqc output: " + o[-1000:]))
            return
        body = m.group(1)
        for t in re.finditer(r"\(\s*(\d+)(?:%N)?,\s*(\d+)(?:%N)?,\s*(\d+)(?:%N)?\s*\)", body):
            res.append((f, int(t.group(1)), int(t.group(2)), int(t.group(3))))
        if body.strip() not in ("[]", "nil") and not re.search(r"\(\s*\d+", body):
            errs.append((f, "unexpected R: " + body[:500]))

    while pending or running:
        while pending and len(running) < NCPU:
            f = pending.pop(0)
            p = subprocess.Popen(cmd(f, 1200), cwd=COQ, stdout=subprocess.PIPE, stderr=subprocess.STDOUT, text=True)
            running.append((f, p))
        f, p = running.pop(0)
        o, _ = p.communicate()
        digest(f, p.returncode, o, False)
    for f in killed:
        rc, o = sh(cmd(f, 2400), cwd=COQ)
        log("coqc on %s had been killed; re-run alone: rc=%d" % (os.path.basename(f), rc))
        digest(f, rc, o, True)
    for f in files:
        for ext in (".vo", ".vok", ".vos", ".glob"):
            try:
                os.remove(f[:-2] + ext)
            except OSError:
                pass
        try:
            os.remove(os.path.join(os.path.dirname(f), "." + os.path.basename(f)[:-2] + ".aux"))
        except OSError:
            pass
    return res, errs


# ----------------------------------------------------------------------------
# findings
# ----------------------------------------------------------------------------
def load_findings():
    out = {"finding": [], "fixed": []}
    p = os.path.join(VERIF, "known_findings.txt")
    if os.path.exists(p):
        for l in open(p):
            l = l.strip()
            if not l or l.startswith("#"):
                continue
            m = re.match(r"(finding|fixed):?\s+property=(\S+)\s+(?:(\S+)\s+)?sig=(\S+)\s+(.*)", l)
            if m:
                out[m.group(1)].append({"property": m.group(2), "commit": m.group(3), "sig": m.group(4), "text": m.group(5)})
    return out


# ----------------------------------------------------------------------------
# harness run
# ----------------------------------------------------------------------------
def run_harness(binp, g, pid, outdir, seed, n, shards, cases_in=None, tier="quick", timeout=3000, extra_env=None):
    shutil.rmtree(outdir, ignore_errors=True)
    os.makedirs(outdir)
    env = dict(GOENV, VERIF_SEED=str(seed), VERIF_N=str(n), VERIF_OUT=outdir, VERIF_SHARDS=str(shards),
               VERIF_TIER=tier, VERIF_DIR=VERIF, VERIF_PROP=pid)
    if cases_in:
        env["VERIF_CASES_IN"] = cases_in
    if extra_env:
        env.update(extra_env)
    wd = os.path.join(REPO, g["dir"]) if g["dir"] else REPO
    # run in a scratch dir so that nothing is dropped in /repo
    scratch = os.path.join(BUILD, "wd", pid)
    shutil.rmtree(scratch, ignore_errors=True)
    os.makedirs(scratch)
    cmd = [binp, "-test.run", "^%s$" % g["test"], "-test.count=1", "-test.timeout", "%ds" % timeout]
    if g.get("v"):
        cmd.append("-test.v")
    t = time.time()
    try:
        rc, o = sh(cmd, cwd=scratch, env=env, timeout=timeout + 60)
    except subprocess.TimeoutExpired as e:
        rc, o = 124, "harness timeout\n" + str(e.stdout)[-3000:]
    log("harness %s: rc=%d %.1fs" % (g["test"], rc, time.time() - t))
    shutil.rmtree(scratch, ignore_errors=True)
    return rc, o


def load_sidecar(outdir):
    cases = {}
    for p in sorted(glob.glob(os.path.join(outdir, "*.jsonl"))):
        for l in open(p):
            l = l.strip()
            if l:
                c = json.loads(l)
                cases[c["id"]] = c
    return cases


def canon_hash(x):
    return hashlib.sha1(json.dumps(x, sort_keys=True).encode()).hexdigest()


# ----------------------------------------------------------------------------
# shrink: generic delta debugging on the JSON input of a case
# ----------------------------------------------------------------------------
def shrink_candidates(x):
    """yield smaller variants of JSON value x (remove one list element anywhere)"""
    def paths(v, pre):
        if isinstance(v, list):
            for i in range(len(v)):
                yield pre + [i]
            for i, e in enumerate(v):
                yield from paths(e, pre + [i])
        elif isinstance(v, dict):
            for k in sorted(v):
                yield from paths(v[k], pre + [k])
    for p in list(paths(x, [])):
        if not isinstance(p[-1], int):
            continue
        y = copy.deepcopy(x)
        cur = y
        for k in p[:-1]:
            cur = cur[k]
        if isinstance(cur, list) and p[-1] < len(cur):
            del cur[p[-1]]
            yield y


class Ctx:
    pass


def rerun_cases(ctx, inputs, tag="shrink"):
    """run given inputs on impl and model; returns list of (input, fails[(code,tag)], sidecar)"""
    inp = os.path.join(BUILD, "%s_%s_in.json" % (ctx.pid, tag))
    with open(inp, "w") as f:
        json.dump(inputs, f)
    outdir = os.path.join(CASES, "%s_%s" % (ctx.pid, tag))
    rc, o = run_harness(ctx.binp, ctx.g, ctx.pid, outdir, ctx.seed, len(inputs), 1, cases_in=inp, tier=ctx.tier,
                        extra_env={"VERIF_FILEPREFIX": "%s_%s" % (ctx.pid, tag)})
    if rc != 0:
        return None, o
    side = load_sidecar(outdir)
    files = sorted(glob.glob(os.path.join(outdir, "*.v")))
    fails, errs = eval_cases(files)
    if errs:
        return None, str(errs)
    by = {}
    for (_, i, code, tg) in fails:
        by.setdefault(i, []).append((code, tg))
    out = []
    for i in sorted(side):
        out.append((side[i].get("input"), by.get(i, []), side[i]))
    shutil.rmtree(outdir, ignore_errors=True)
    return out, o


def shrink(ctx, case, want_code, budget=40, want_tag=None):
    """greedy deletion of list elements; bounded in steps and in wall time (VERIF_SHRINK_S, default 300 s per violation:
    a harness whose cases take seconds each - real raft / libp2p rigs - must not turn a detection into an hour of re-runs)"""
    cur = case["input"]
    best_side = case
    steps = 0
    improved = True
    t0 = time.time()
    limit = float(os.environ.get("VERIF_SHRINK_S", ctx.g.get("shrink_s", 300)))
    batch = 24
    while improved and steps < budget and time.time() - t0 < limit:
        improved = False
        cands = list(shrink_candidates(cur))[:batch]
        if not cands:
            break
        steps += 1
        t1 = time.time()
        res, o = rerun_cases(ctx, cands)
        if time.time() - t1 > limit / 4 and batch > 4:
            batch = max(4, batch // 3)
        if res is None:
            break
        for (inp, fails, side) in res:
            if any(code == want_code and (want_tag is None or tg == want_tag) for code, tg in fails):
                cur = inp
                best_side = side
                best_side["fails"] = fails
                improved = True
                break
    return best_side


# ----------------------------------------------------------------------------
def crash_violation(binp, g, pid, outdir, o2, seed, tier):
    """the test process died while one or several cases were running (markers written by vCaseStart / vCaseStartKey):
    returns the violation naming the concrete failing input, or None when this was not a crash of the code under test"""
    crash_re = r"^(panic:|fatal error:|SIGSEGV|goroutine \d+ \[running\])"
    cur = os.path.join(outdir, "current_case.json")
    marks = [cur] if os.path.exists(cur) else sorted(glob.glob(os.path.join(outdir, "current_case_*.json")))
    if not marks or not re.search(crash_re, o2, flags=re.M):
        return None
    cands = []
    for mk in marks:
        try:
            cands.append(json.load(open(mk)).get("input"))
        except ValueError:
            pass
    cin, o3 = (cands[0] if len(cands) == 1 else None), o2
    if len(cands) > 1:
        # several cases were in flight (concurrent harness): re-run each alone; the one that crashes is it
        for cand in cands:
            inp = os.path.join(BUILD, "%s_crash_in.json" % pid)
            json.dump([cand], open(inp, "w"))
            rc3, o3 = run_harness(binp, g, pid, outdir + "_crash", seed, 1, 1, cases_in=inp, tier=tier,
                                  timeout=g.get("timeout_" + tier, 1500), extra_env={"VERIF_FILEPREFIX": pid + "_crash"})
            shutil.rmtree(outdir + "_crash", ignore_errors=True)
            if rc3 != 0 and re.search(crash_re, o3, flags=re.M):
                cin = cand
                break
        else:
            o3 = o2
    m2 = re.search(r"^(panic:.*|fatal error:.*)$", o3, flags=re.M)
    obj = {"case": {"input": cin}, "harness": g["test"], "signature": "process-crash",
           "observed": (m2.group(1) if m2 else "crash")[:300], "output_tail": o3[-2500:],
           "meaning": "the code under test crashed the process (panic outside the calling goroutine or fatal runtime error) while this case was running"}
    if cin is None and cands:
        obj["in_flight_cases"] = cands[:8]
        obj["note"] = "none of the cases in flight crashed when run alone: the crash needs their interleaving"
    return ("counterexample", "process-crash", obj, cin is None)


def write_evidence(pid, ev):
    # evidence/ describes runs against /repo itself; a run against another tree (VERIF_REPO: mutation and seeded-change
    # trials) leaves it alone and writes under .build/
    d = os.path.join(VERIF, "evidence") if os.path.realpath(REPO) == "/repo" else os.path.join(BUILD, "evidence_other_tree")
    os.makedirs(d, exist_ok=True)
    with open(os.path.join(d, pid + ".json"), "w") as f:
        json.dump(ev, f, indent=1, sort_keys=True)
        f.write("\n")


def write_replay(pid, name, obj):
    d = os.path.join(VERIF, "replays")
    os.makedirs(d, exist_ok=True)
    p = os.path.join(d, "%s_%s.json" % (pid, name))
    with open(p, "w") as f:
        json.dump(obj, f, indent=1, sort_keys=True)
        f.write("\n")
    return p


CODE_MISMATCH = 1   # model output differs from the implementation's
CODE_SPEC = 2       # the implementation's observation fails the property's boolean form


def main():
    args = sys.argv[1:]
    if not args:
        print("usage: check Cxx [--tier quick|thorough] [--replay F]")
        return 2
    pid = args[0]
    tier = os.environ.get("VERIF_TIER", "quick")
    replay = None
    i = 1
    while i < len(args):
        if args[i] == "--tier":
            tier = args[i + 1]; i += 2
        elif args[i] == "--replay":
            replay = args[i + 1]; i += 2
        else:
            i += 1
    if tier not in ("quick", "thorough"):
        tier = "quick"
    if pid == "setup":
        return setup()
    if pid == "genref":
        return genref()
    if pid not in PROPS:
        print("unknown property", pid)
        return 2
    seed = int(os.environ.get("VERIF_SEED", "1") or 1)
    os.makedirs(BUILD, exist_ok=True)
    lockf = open(os.path.join(BUILD, "lock"), "w")
    fcntl.flock(lockf, fcntl.LOCK_EX)
    try:
        return run_check(pid, tier, seed, replay)
    finally:
        fcntl.flock(lockf, fcntl.LOCK_UN)


def setup():
    os.makedirs(BUILD, exist_ok=True)
    ok, o = run_translators()
    if not ok:
        print(o)
        return 1
    rc, o = coq_build()
    if rc != 0:
        print(o[-5000:])
        return 1
    # pre-build harness binaries (warms the Go build cache)
    for pid, spec in sorted(PROPS.items()):
        for g in spec.get("go", []):
            ov = make_overlay(spec["go"])
            b, o = build_harness(g, ov, race=g.get("race", False))
            if b is None:
                print(o[-3000:])
                return 1
    return 0


def run_check(pid, tier, seed, replay):
    t0 = time.time()
    spec = PROPS[pid]
    findings = load_findings()
    violations = []   # (kind, name, replay_obj, nofail)
    known_printed = []
    notes = []

    # 1. translators
    ok, o = run_translators()
    if not ok:
        failed = re.findall(r"^translator (\w+):", o, flags=re.M)
        mine = [g for g in spec.get("gen", []) if g in failed or not failed]
        if mine:
            notes.append(o)
            violations.append(("proof-break", "translator " + ",".join(mine), {"error": o[-3000:],
                               "obligation": "Gen/%s.v could not be regenerated from the current source" % mine[0],
                               "reference_tables_used_for_the_search": [n for n in REF_USED if n in mine]}, True))
            if any(n in REF_USED for n in mine):
                m2 = "tables %s stand in from coq/GenRef (reference tree) so that model and implementation can still be compared" % [n for n in REF_USED if n in mine]
                notes.append(m2); log(m2)

    # 2. Coq build, forced re-check of this property's Props file
    force = ["Props/%s.v" % pid] + spec.get("force", [])
    rc, mo = coq_build(force=force)
    gate = grep_gate()
    n_thm, n_ok, thms, pnote = check_props_file(pid, mo)
    proof_broken = n_ok < n_thm or bool(gate) or n_thm == 0   # (a broken file elsewhere in the development makes `make` fail but is not this property's obligation)
    broken_detail = ""
    if proof_broken:
        errs = re.findall(r'File "\./([^"]+)", line (\d+).*?\n(Error:.*?)(?=\nmake|\nFile|\Z)', mo, flags=re.S)
        broken_detail = "; ".join("%s:%s %s" % (a, b, c.strip()[:300]) for a, b, c in errs[:5]) or pnote or ("gate: %s" % gate)
        notes.append("proof obligations not all discharged: " + broken_detail)
        log("PROOF BROKEN:", broken_detail)

    # 2a. thorough tier: independent re-check of this property's theorems and everything they depend on
    coqchk_note = None
    if tier == "thorough" and not replay and not proof_broken and not os.environ.get("VERIF_NOCOQCHK"):
        t = time.time()
        rc3, o3 = sh(["timeout", "3000", "coqchk", "-silent", "-o", "-Q", ".", "V", "V.Props.%s" % pid], cwd=COQ, timeout=3100)
        log("coqchk: rc=%d %.1fs" % (rc3, time.time() - t))
        summ = o3[o3.find("CONTEXT SUMMARY"):] if "CONTEXT SUMMARY" in o3 else o3[-1500:]
        coqchk_note = re.sub(r"\s+", " ", summ)[:1500]
        ax = re.search(r"\* Axioms:\s*(.*?)\s*\* Constants", summ, flags=re.S)
        bad = rc3 != 0 or not ax or ax.group(1).strip() != "<none>" or summ.count("<none>") < 4
        if bad:
            proof_broken = True
            broken_detail = "coqchk -o V.Props.%s: %s" % (pid, coqchk_note)
            notes.append(broken_detail)

    # 2b. diagnosis of generated-table obligations (concrete offending entries)
    diag = None
    if spec.get("diag"):
        diag = run_diag(pid, spec)

    # 3. harness
    global CHECK_FALLBACK
    CHECK_FALLBACK = spec.get("check_fallback")
    del FALLBACK_USED[:]
    evals = 0
    side_all = {}
    fails = []
    harness_err = None
    harness_crashed = False
    samples = []
    dist = {}
    ctxs = []
    for g in spec.get("go", []):
        ov = make_overlay(spec["go"])
        binp, bo = build_harness(g, ov, race=g.get("race", False))
        if binp is None:
            harness_err = "harness build failed for %s:\n%s" % (g["dir"], bo[-3000:])
            break
        n = g.get("n_" + tier, g.get("n_quick", 100))
        shards = g.get("shards_" + tier, max(1, min(NCPU, n // 150)))
        outdir = os.path.join(CASES, "%s_%s" % (pid, g["test"]))
        ctx = Ctx(); ctx.pid = pid; ctx.g = g; ctx.binp = binp; ctx.seed = seed; ctx.tier = tier
        ctxs.append(ctx)
        cases_in = None
        if replay:
            r = json.load(open(replay))
            if r.get("harness") not in (None, g["test"]):
                continue
            inp = os.path.join(BUILD, "%s_replay_in.json" % pid)
            json.dump([r["case"]["input"]], open(inp, "w"))
            cases_in = inp
            n = 1; shards = 1
        else:
            # corpus first
            corp = sorted(glob.glob(os.path.join(VERIF, "corpus", pid, g["test"] + "*.json")))
            if corp:
                allc = []
                for cpath in corp:
                    allc += json.load(open(cpath))
                inp = os.path.join(BUILD, "%s_corpus_in.json" % pid)
                json.dump(allc, open(inp, "w"))
                codir = outdir + "_corpus"
                rc2, o2 = run_harness(binp, g, pid, codir, seed, len(allc), 1, cases_in=inp, tier=tier,
                                      extra_env={"VERIF_FILEPREFIX": pid + "_corpus", "VERIF_IDBASE": "1000000"})
                if rc2 != 0:
                    cv = crash_violation(binp, g, pid, codir, o2, seed, tier)
                    if cv:
                        violations.append(cv)
                        harness_crashed = True
                    else:
                        harness_err = "harness failed on corpus:\n" + o2[-3000:]
                    break
                sc = load_sidecar(codir)
                for k, v in sc.items():
                    v["harness"] = g["test"]; v["ctx"] = len(ctxs) - 1
                side_all.update(sc)
                f2, e2 = eval_cases(sorted(glob.glob(os.path.join(codir, "*.v"))))
                if e2:
                    harness_err = "coq evaluation of corpus cases failed: %s" % e2[:2]
                    break
                fails += f2
                shutil.rmtree(codir, ignore_errors=True)
        rc2, o2 = run_harness(binp, g, pid, outdir, seed, n, shards, cases_in=cases_in, tier=tier,
                              timeout=g.get("timeout_" + tier, 1500))
        if rc2 != 0:
            cv = crash_violation(binp, g, pid, outdir, o2, seed, tier)
            if cv:
                violations.append(cv)
                harness_crashed = True
                break
            harness_err = "harness %s failed (rc=%d):\n%s" % (g["test"], rc2, o2[-4000:])
            break
        m = re.findall(r"^VERIF-DIST (.*)$", o2, flags=re.M)
        for l in m:
            try:
                dist.update(json.loads(l))
            except ValueError:
                pass
        for l in re.findall(r"^VERIF-DIRECT-VIOLATION (.*)$", o2, flags=re.M):
            try:
                violations.append(("counterexample", "direct", json.loads(l), False))
            except ValueError:
                violations.append(("counterexample", "direct", {"raw": l}, False))
        sc = load_sidecar(outdir)
        for k, v in sc.items():
            v["harness"] = g["test"]; v["ctx"] = len(ctxs) - 1
        side_all.update(sc)
        files = sorted(glob.glob(os.path.join(outdir, "*.v")))
        t = time.time()
        f2, e2 = eval_cases(files)
        log("coq evaluated %d case files (%d cases) in %.1fs" % (len(files), len(sc), time.time() - t))
        if e2:
            harness_err = "coq evaluation of cases failed: %s" % (e2[:2],)
            break
        fails += f2
        if not replay and not os.environ.get("VERIF_KEEP_CASES"):
            shutil.rmtree(outdir, ignore_errors=True)
    evals = len(side_all)

    if replay:
        for cid_, c in side_all.items():
            print(json.dumps({"case": c.get("input"), "observed": c.get("obs"),
                              "fails": [(code, tg) for (_, i, code, tg) in fails if i == cid_]}, indent=1))
        # a case that cannot go through Coq (panic, crash of the process) reproduces as a direct violation
        direct = [v[2] for v in violations if v[1] in ("direct", "process-crash")]
        for d in direct:
            print(json.dumps({"direct_violation": d}, indent=1))
        return 1 if fails or direct else 0

    if FALLBACK_USED:
        msg = "primary check module %s did not compile; %d case file(s) evaluated with %s (property part only): %s" % (
            CHECK_FALLBACK["primary"], len(FALLBACK_USED), CHECK_FALLBACK["fallback"], FALLBACK_USED[0][1][-300:])
        notes.append(msg)
        log(msg)
        if not any(v[0] == "proof-break" for v in violations) and not proof_broken:
            violations.append(("proof-break", "check module " + CHECK_FALLBACK["primary"],
                               {"obligation": "correspondence (model = implementation) could not be evaluated", "error": msg[-1500:]}, True))
    if harness_err:
        notes.append(harness_err)
        log(harness_err)
        violations.append(("correspondence-break", "harness", {"error": harness_err[-3000:]}, True))

    # 4. classify
    tagnames = spec.get("tags", {})
    by_case = {}
    for (_, cid_, code, tg) in fails:
        by_case.setdefault(cid_, []).append((code, tg))
    spec_fail_cases = [c for c, fs in by_case.items() if any(code == CODE_SPEC or code >= 10 for code, _ in fs)]
    mismatch_cases = [c for c, fs in by_case.items() if all(code == CODE_MISMATCH for code, _ in fs)]
    seen_sigs = {}
    sig_tag = {}   # the shrinker must stay on the same (code, tag): a smaller input failing for another reason is another violation
    for c in sorted(spec_fail_cases):
        for code, tg in by_case[c]:
            if code == CODE_MISMATCH:
                continue
            sig = tagnames.get(tg, "untagged") if tg else "untagged"
            key = (code, sig)
            seen_sigs.setdefault(key, []).append(c)
            sig_tag[key] = tg
    known_sigs = {f["sig"]: f for f in findings["finding"] if f["property"] == pid}
    for (code, sig), cs in sorted(seen_sigs.items()):
        if sig in known_sigs:
            known_printed.append((sig, known_sigs[sig]["text"], len(cs)))
            continue
        c0 = side_all[cs[0]]
        ctx = ctxs[c0.get("ctx", 0)]
        small = c0
        if spec.get("shrink", True) and not os.environ.get("VERIF_NOSHRINK"):
            try:
                small = shrink(ctx, c0, code, want_tag=sig_tag.get((code, sig)))
            except Exception as e:  # shrinking is best effort
                log("shrink failed:", e)
        violations.append(("counterexample", spec.get("codes", {}).get(code, "spec_okb"),
                           {"case": {"input": small.get("input")}, "observed": small.get("obs"), "harness": c0.get("harness"),
                            "signature": sig, "failing_cases": len(cs), "code": code,
                            "meaning": spec.get("codes", {}).get(code, "the implementation's observation fails the boolean form of the property")}, False))
    if mismatch_cases:
        c0 = side_all[sorted(mismatch_cases)[0]]
        ctx = ctxs[c0.get("ctx", 0)]
        small = c0
        if spec.get("shrink", True) and not os.environ.get("VERIF_NOSHRINK"):
            try:
                small = shrink(ctx, c0, CODE_MISMATCH)
            except Exception as e:
                log("shrink failed:", e)
        # model/impl disagree but the implementation's output satisfies the property on every explored case
        nofail = not any(v[0] == "counterexample" for v in violations)
        violations.append(("correspondence-break", "model_eq_impl",
                           {"case": {"input": small.get("input")}, "observed": small.get("obs"), "harness": c0.get("harness"),
                            "mismatching_cases": len(mismatch_cases),
                            "obligation": "correspondence %s: Coq model output = implementation output" % pid}, nofail))
    if diag and diag.get("offending"):
        for name, items in diag["offending"].items():
            sig = "diag-" + name
            if sig in known_sigs:
                known_printed.append((sig, known_sigs[sig]["text"], len(items)))
                continue
            if name == "diag_compile":
                # the table obligations could not even be evaluated: no concrete offending entry is known
                violations.append(("proof-break", "Diag/%s.v" % pid, {"obligation": "Diag/%s.v (table obligations) does not compile" % pid,
                                                                      "error": items[:3]}, True))
                continue
            violations.append(("counterexample", name, {"theorem": name, "offending_entries": items[:20]}, False))
    if proof_broken:
        has_ce = any(v[0] == "counterexample" for v in violations)
        violations.append(("proof-break", "Props/%s.v" % pid,
                           {"theorem_or_file": broken_detail[:2000], "theorems": thms,
                            "note": "a proof obligation of this property no longer checks"}, not has_ce))

    # 5. report
    nontriv = set()
    for c in side_all.values():
        if c.get("nontrivial"):
            nontriv.add(canon_hash(c.get("input")))
    for c in list(side_all.values())[:3]:
        samples.append({"input": c.get("input"), "observed": c.get("obs")})
    for thm in thms[:40]:
        samples.append({"obligation": thm})
    gen_obl = (diag or {}).get("obligations", 0)
    ev = {
        "property_id": pid, "tier": tier, "seed": seed, "level": "proof",
        "coverage": {
            "obligations": n_thm + gen_obl,
            "discharged": n_ok + ((diag or {}).get("discharged", 0)),
            "checker_cmd": "make -C coq -j%d (coqc 8.16.1, full .vo) ; coqc Props/%s.v ; coqc Cases/%s_*.v (vm_compute)" % (NCPU, pid, pid),
            "trusted_base": spec.get("trusted", []) + [
                "Coq 8.16.1 kernel + vm_compute (no native_compute)",
                "axioms under Print Assumptions: none (every theorem 'Closed under the global context')",
                "Go harness + fakes under /verif/harness, runner tools/run.py, translators tools/gen"],
            "evaluations": evals,
            "distinct_nontrivial": len(nontriv),
            "rule": spec.get("rule", ""),
            "samples": samples,
            "traces_validated_against_impl": evals,
            "distribution": dist,
            "theorems": thms,
            "print_assumptions": pnote or "Closed under the global context (all)",
            "known_findings_seen": [k[0] for k in known_printed],
            "notes": notes,
            "coqchk": coqchk_note or "not run in this tier (thorough tier runs coqchk -silent -o on V.Props.%s)" % pid,
        },
        "assumptions": spec.get("assumptions", []),
        "wall_s": round(time.time() - t0, 2),
        "violations": len(violations),
    }
    if diag:
        ev["coverage"]["generated_tables"] = diag.get("tables", {})
    if spec.get("exhaustive"):
        ev["coverage"]["exhaustive"] = True
    write_evidence(pid, ev)
    agg = {}
    for sig, text, cnt in known_printed:
        agg[sig] = (text, max(cnt, agg.get(sig, ("", 0))[1]))
    for sig, (text, cnt) in sorted(agg.items()):
        print("KNOWN-FINDING: property=%s %s [sig=%s, %d cases]" % (pid, text, sig, cnt))
    if violations:
        # one VIOLATION line per distinct violation
        k = 0
        for kind, name, obj, nofail in violations:
            obj = dict(obj, property=pid, kind=kind, name=name, seed=seed, tier=tier,
                       replay_cmd="./check %s --replay <this file>" % pid)
            p = write_replay(pid, "%s_%d" % (kind, k), obj)
            k += 1
            line = "VIOLATION property=%s replay=%s kind=%s %s" % (pid, p, kind, name)
            if nofail and not any(v[0] == "counterexample" for v in violations):
                line += " no-failing-input-found"
            print(line)
        return 1
    print("OK property=%s tier=%s obligations=%d/%d cases=%d nontrivial=%d wall=%.1fs" %
          (pid, tier, n_ok + gen_obl, n_thm + gen_obl, evals, len(nontriv), time.time() - t0))
    return 0


def run_diag(pid, spec):
    """Diag/<pid>.v prints, without depending on any proof, the entries of generated tables
    that violate each table obligation: lines 'DIAG <name> = [...]'"""
    pf = "Diag/%s.v" % pid
    rc, o = sh(["timeout", "600", "coqc", "-Q", ".", "V", "-w", "-notation-overridden", pf], cwd=COQ, timeout=700)
    out = {"offending": {}, "obligations": 0, "discharged": 0, "tables": {}}
    if rc != 0:
        out["offending"]["diag_compile"] = [o[-1500:]]
        out["obligations"] = 1
        return out
    o1 = o.replace("\n", " ")
    for m in re.finditer(r"(diag_\w+)\s*=\s*(.*?)\s*:\s*list", o1):
        name, body = m.group(1), m.group(2).strip()
        out["obligations"] += 1
        if body in ("[]", "nil"):
            out["discharged"] += 1
        else:
            items = re.findall(r'"([^"]*)"', body) or [body[:500]]
            out["offending"][name] = items
    for m in re.finditer(r"(size_\w+)\s*=\s*(\d+)", o1):
        out["tables"][m.group(1)] = int(m.group(2))
    return out


if __name__ == "__main__":
    sys.exit(main())
